(* C03 - a cleanly closed store reopens with identical contents.  Statements only.
   PROVED: the field codecs of the file image are inverse - what close/sync writes (little-endian integers of the
   headers and node blocks, variable-length numbers of the data-block index) is what open reads; and the codecs of whole
   blocks: a node block written by the model of _sblk_sync_mm (KV/Codec.v, field offsets regenerated from the source
   macros) is read back by the reader as exactly that node (C03_node_block_roundtrip), a data-block header + index written
   by the model of _kvblk_sync_mm is read back as exactly that index (C03_data_block_index_roundtrip).  The reader is the
   one of KV/Audit.v; on every real image it is compared FIELD BY FIELD with what the implementation's own block reader
   reports (levels, counts, flags, prefixes, data-block sizes, stored keys of every node), and every data-block index of
   a real image must be in the canonical form the writer model produces (re-encoding what was decoded gives the bytes
   that are there).
   NOT proved (open goal, kept visible): `reopen_identity : abs (open (close s)) = abs s` for the whole store model,
   `trim_preserves`, `rdonly_no_effect`.  Those are decided per history on the implementation: dump before close =
   dump after reopen for {WAL on/off} x {read-only, read-write} x {trim, no-trim}, metadata, database ids/flags, the
   read-only sessions refuse every mutating call, truncate yields an empty store (python oracle in checks/kvcommon.py),
   and the reopened image is read by the extracted auditor (C06). *)
Require Import List ZArith Lia. Import ListNotations.
Require Import IW.Lib.Vnum IW.KV.Audit IW.KV.Inst IW.KV.Image_proofs IW.KV.Codec IW.KV.Codec_proofs IW.Gen.Facts.
Local Open Scope Z_scope.

Theorem C03_le_roundtrip_partial : forall n v, 0 <= v < 256 ^ Z.of_nat n -> le_decode (le_encode n v) = v.
Proof. exact le_roundtrip. Qed.
Print Assumptions C03_le_roundtrip_partial.

Theorem C03_u32_field_roundtrip_partial :
  forall (rd : Z -> Z) (o v : Z), 0 <= v < 2 ^ 32 -> holds rd o (le_encode 4 v) -> u32 rd o = v.
Proof. exact u32_reads_le. Qed.
Print Assumptions C03_u32_field_roundtrip_partial.

Theorem C03_index_entry_roundtrip_partial :
  forall (rd : Z -> Z) (o v : Z), 0 <= v < 2 ^ 63 -> holds rd o (set_vnum64 v) ->
    rdv rd o = Some (v, Z.of_nat (length (set_vnum64 v))).
Proof. exact rdv_reads_set_vnum64. Qed.
Print Assumptions C03_index_entry_roundtrip_partial.

(* a whole node block: for every node record a writer can produce (fields in their byte / 32-bit ranges, 32 slot
   indexes, 24 links, prefix of the announced length <= 115) and every image that holds the written bytes at the node's
   address, the reader returns that node *)
Theorem C03_node_block_roundtrip :
  forall (rd : Z -> Z) (s : sblk),
    sblk_wf s -> holds rd (addr_of (s_blk s)) (write_sblk s) -> read_sblk rd (s_blk s) = s.
Proof. exact sblk_roundtrip. Qed.
Print Assumptions C03_node_block_roundtrip.

(* a data-block header with its index of 32 (offset, length) pairs *)
Theorem C03_data_block_index_roundtrip :
  forall (rd : Z -> Z) (blk szpow : Z) (p : list (Z * Z)),
    byte szpow -> length p = NIDXA -> Forall pair_wf p -> Z.of_nat (length (write_pidx p)) < 2 ^ 16 ->
    holds rd (addr_of blk) (write_kvblk_head szpow p) ->
    read_kvblk rd blk = Some {| k_szpow := szpow; k_idxsz := Z.of_nat (length (write_pidx p)); k_pidx := p;
                                k_idxend := KVBLK_HDRSZ + Z.of_nat (length (write_pidx p)) |}.
Proof. exact kvblk_head_roundtrip. Qed.
Print Assumptions C03_data_block_index_roundtrip.

(* Non-vacuity: a node with two records on level 1, written into an otherwise empty image at block 40, is read back *)
Definition ex_node : sblk :=
  {| s_blk := 40; s_flags := 1; s_lvl := 1; s_lkl := 3; s_pnum := 2; s_p0 := 17; s_kblk := 99;
     s_pi := [1; 0] ++ repeat 0 30; s_n := [56; 72] ++ repeat 0 22; s_bpos := 3; s_lk := [107; 48; 49] |}.
Definition ex_image (o : Z) : Z := nth (Z.to_nat (o - addr_of 40)) (write_sblk ex_node) 0.
Example C03_node_block_example : read_sblk ex_image 40 = ex_node.
Proof. vm_compute. reflexivity. Qed.

Example C03_roundtrip_example : le_decode (le_encode 4 305419896) = 305419896.
Proof. reflexivity. Qed.
