
val negb : bool -> bool

type nat =
| O
| S of nat

val option_map : ('a1 -> 'a2) -> 'a1 option -> 'a2 option

type ('a, 'b) sum =
| Inl of 'a
| Inr of 'b

val fst : ('a1 * 'a2) -> 'a1

val snd : ('a1 * 'a2) -> 'a2

val length : 'a1 list -> nat

val app : 'a1 list -> 'a1 list -> 'a1 list

type comparison =
| Eq
| Lt
| Gt

val compOpp : comparison -> comparison

val pred : nat -> nat

val add : nat -> nat -> nat

type positive =
| XI of positive
| XO of positive
| XH

type z =
| Z0
| Zpos of positive
| Zneg of positive

val eqb : bool -> bool -> bool

module Nat :
 sig
  val eqb : nat -> nat -> bool

  val leb : nat -> nat -> bool
 end

module Pos :
 sig
  val succ : positive -> positive

  val add : positive -> positive -> positive

  val add_carry : positive -> positive -> positive

  val pred_double : positive -> positive

  val mul : positive -> positive -> positive

  val iter : ('a1 -> 'a1) -> 'a1 -> positive -> 'a1

  val compare_cont : comparison -> positive -> positive -> comparison

  val compare : positive -> positive -> comparison

  val eqb : positive -> positive -> bool

  val iter_op : ('a1 -> 'a1 -> 'a1) -> positive -> 'a1 -> 'a1

  val to_nat : positive -> nat

  val of_succ_nat : nat -> positive
 end

module Z :
 sig
  val double : z -> z

  val succ_double : z -> z

  val pred_double : z -> z

  val pos_sub : positive -> positive -> z

  val add : z -> z -> z

  val opp : z -> z

  val sub : z -> z -> z

  val mul : z -> z -> z

  val pow_pos : z -> positive -> z

  val pow : z -> z -> z

  val compare : z -> z -> comparison

  val leb : z -> z -> bool

  val ltb : z -> z -> bool

  val gtb : z -> z -> bool

  val eqb : z -> z -> bool

  val to_nat : z -> nat

  val of_nat : nat -> z

  val pos_div_eucl : positive -> z -> z * z

  val div_eucl : z -> z -> z * z

  val modulo : z -> z -> z
 end

val nth_error : 'a1 list -> nat -> 'a1 option

val last : 'a1 list -> 'a1 -> 'a1

val removelast : 'a1 list -> 'a1 list

val rev : 'a1 list -> 'a1 list

val map : ('a1 -> 'a2) -> 'a1 list -> 'a2 list

val fold_left : ('a1 -> 'a2 -> 'a1) -> 'a2 list -> 'a1 -> 'a1

val existsb : ('a1 -> bool) -> 'a1 list -> bool

val forallb : ('a1 -> bool) -> 'a1 list -> bool

val firstn : nat -> 'a1 list -> 'a1 list

val skipn : nat -> 'a1 list -> 'a1 list

val sw : z -> z -> z

val jP_JBV_NONE : z

val jP_JBV_NULL : z

val jP_JBV_BOOL : z

val jP_JBV_I64 : z

val jP_JBV_F64 : z

val jP_JBV_STR : z

val jP_JBV_OBJECT : z

val jP_JBV_ARRAY : z

val jP_JBP_ADD : z

val jP_JBP_REMOVE : z

val jP_JBP_REPLACE : z

val jP_JBP_COPY : z

val jP_JBP_MOVE : z

val jP_JBP_TEST : z

val jP_JBP_INCREMENT : z

val jP_JBP_ADD_CREATE : z

val jP_JBP_SWAP : z

val jP_ERR_PATH_NOTFOUND : z

val jP_ERR_PATCH_INVALID : z

val jP_ERR_PATCH_INVALID_OP : z

val jP_ERR_PATCH_NOVALUE : z

val jP_ERR_PATCH_TARGET_INVALID : z

val jP_ERR_PATCH_INVALID_VALUE : z

val jP_ERR_PATCH_INVALID_ARRAY_INDEX : z

val jP_ERR_PATCH_TEST_FAILED : z

val jP_ERR_JSON_POINTER : z

val jP_ERR_CREATION : z

val jP_ERR_INVALID_ARGS : z

val jP_ERR_NOT_IMPLEMENTED : z

val skip_ws : z list -> z list

val atoi_digits : z list -> z -> z

val is_inf : z list -> bool

val atoi : z list -> z

type jval =
| JNull
| JBool of bool
| JI64 of z
| JF64 of z
| JStr of z list
| JArr of jval list
| JObj of (z list * jval) list

val bytes_eqb : z list -> z list -> bool

type jty =
| TNone
| TNull
| TBool
| TI64
| TF64
| TStr
| TObj
| TArr

val ty_code : jty -> z

val ty_eqb : jty -> jty -> bool

val is_container : jty -> bool

type node =
| Node of z * z list * jty * z * z list * node list

val n_kl : node -> z

val n_key : node -> z list

val n_ty : node -> jty

val n_vi : node -> z

val n_vs : node -> z list

val n_ch : node -> node list

val set_kl : node -> z -> node

val set_key : node -> z list -> node

val set_ch : node -> node list -> node

val copy_data : node -> node -> node

val zero_node : node

type seg = z list

val is_dash : seg -> bool

val strncmp_eq : z list -> z list -> nat -> bool

val key_match : seg -> node -> bool

val find_pos : (node -> bool) -> node list -> nat option

val child_pos : node -> seg -> nat option

val set_child : node -> nat -> node -> node

val add_item : node -> node -> node

val dec_kl : node -> node

val inc_kl : node -> node

val remove_item : node -> nat -> node

val m_find : node -> seg list -> node option

val m_detach : node -> seg list -> (node * node) option

type rc =
| RcOk
| RcNotFound
| RcNoValue
| RcTargetInvalid
| RcBadIdx
| RcTestFailed
| RcInvalidValue
| RcPtr
| RcPatchInvalid
| RcBadOp
| RcInvArgs
| RcNotImpl
| RcCreation
| RcUnmodelled

val rc_code : rc -> z

type opk =
| ONone
| OAdd
| ORemove
| OReplace
| OCopy
| OMove
| OTest
| OIncrement
| OAddCreate
| OSwap

val op_code : opk -> z

val op_eqb : opk -> opk -> bool

type fops = { f_add : (z -> z -> z); f_of_i : (z -> z); f_to_i : (z -> z);
              f_eq : (z -> z -> bool) }

val increment : fops -> node -> node -> rc * node

val member_match : node -> node -> bool

val nodes_eq : fops -> node -> node -> bool

val renumber : z -> node list -> node list

val clone : node -> node

val put_here : fops -> opk -> node -> seg -> node -> rc * node

val m_put : fops -> opk -> node -> seg list -> node -> (rc * node) option

val m_create : fops -> node -> seg list -> node -> rc * node

val is_prefix : seg list -> seg list -> bool

val m_set_data : node -> seg list -> node -> node option

type pop = { p_op : opk; p_path : seg list; p_from : seg list option;
             p_val : node option }

val is_root : seg list -> bool

val put_or_create : fops -> opk -> node -> seg list -> node -> rc * node

val swap_target : node -> seg list -> node option option

val apply_op : fops -> node -> pop -> rc * node

val ptr_segs : z list -> z list -> seg list option

type ptr_res =
| PtrOk of seg list
| PtrErr
| PtrUnmodelled

val ptr_parse : z list -> ptr_res

type rawop = { r_op : opk; r_path : z list option; r_from : z list option;
               r_val : node option }

val parse_op : rawop -> (rc, pop) sum

val parse_ops : rawop list -> (rc, pop list) sum

val apply_ops : fops -> node -> pop list -> rc * node

val patch_node : fops -> node -> rawop list -> rc * node

val lit_op : z list

val lit_value : z list

val lit_path : z list

val lit_from : z list

val op_names : (z list * opk) list

val op_by_prefix : (z list * opk) list -> z list -> opk option

val lit_match : z list -> node -> bool

val decode_members : node list -> rawop -> (rc, rawop) sum

val empty_rawop : rawop

val decode_ops : node list -> (rc, rawop list) sum

val create_patch : node -> (rc, rawop list) sum

val key_is : z list -> node -> bool

val op_exact : (z list * opk) list -> z list -> opk option

val decode_members_exact : node list -> rawop -> (rc, rawop) sum

val decode_ops_exact : node list -> (rc, rawop list) sum

val patch_binary :
  ('a1 -> node) -> (node -> 'a1 option) -> 'a1 -> fops -> 'a1 -> rawop list
  -> rc * 'a1

val val0 : node -> jval

val doc_val : node -> jval option

val of_val : z -> z list -> jval -> node

type heap = { h_next : nat; h_live : nat list }

val h_live : heap -> nat list

val h_empty : heap

val h_alloc : heap -> nat * heap

val remove1 : nat -> nat list -> nat list option

type herr =
| DoubleFree
| UseAfterFree

val h_free : heap -> nat -> (herr, heap) sum

val h_free_opt : heap -> nat option -> (herr, heap) sum

val h_is_live : heap -> nat -> bool

val h_use : heap -> nat option -> (herr, unit) sum

val mkey_match : node -> node -> bool

val reset_obj : node -> node

val merge_pool : node option -> node -> node

val jbn_merge_patch_pool : node -> node -> rc * node

val jbn_merge_patch_node : node -> node -> node

val jbn_patch_auto : fops -> node -> node -> rc * node

val wrap_child : seg list -> node option -> node option

val merge_patch_create : z list -> node option -> (rc, node option) sum

val jbn_merge_patch_path_pool : node -> z list -> node option -> rc * node

val merge_binary :
  ('a1 -> node) -> (node -> 'a1 option) -> 'a1 -> node -> rc * 'a1

type hnode =
| HNode of nat * nat option * z * z list * jty * z * nat option * z list
   * hnode list

val hn_id : hnode -> nat

val hn_kid : hnode -> nat option

val hn_kl : hnode -> z

val hn_key : hnode -> z list

val hn_ty : hnode -> jty

val hn_vi : hnode -> z

val hn_sid : hnode -> nat option

val hn_vs : hnode -> z list

val hn_ch : hnode -> hnode list

val hset_ch : hnode -> hnode list -> hnode

val hset_child : hnode -> nat -> hnode -> hnode

val forget : hnode -> node

val bindh : (herr, 'a1) sum -> ('a1 -> (herr, 'a2) sum) -> (herr, 'a2) sum

val destroy : heap -> hnode -> (herr, heap) sum

val destroy_list : heap -> hnode list -> (herr, heap) sum

val hrenumber : z -> hnode list -> hnode list

val clone_h : heap -> bool -> node -> heap * hnode

val hfind : heap -> node -> hnode list -> (herr, nat option) sum

val merge_h : heap -> hnode option -> node -> (herr, heap * hnode) sum

val jbn_merge_patch_heap :
  heap -> hnode -> node -> (herr, (rc * heap) * hnode) sum

val jbn_merge_patch_path_heap :
  heap -> hnode -> z list -> node option -> (herr, (rc * heap) * hnode) sum

val heap_of : node -> heap * hnode

type sseg = z list

val s_is_dash : sseg -> bool

type cfg = { c_look : (sseg -> z option); c_ins : (sseg -> z option);
             c_lenient : bool }

val is_digit : z -> bool

val dec_val : sseg -> z

val strict_idx : sseg -> z option

val strict : cfg

val lenient : cfg

val lookup : sseg -> (sseg * jval) list -> jval option

val set_member : sseg -> jval -> (sseg * jval) list -> (sseg * jval) list

val remove_member : sseg -> (sseg * jval) list -> (sseg * jval) list

val aidx : cfg -> jval list -> sseg -> nat option

val jget : cfg -> jval -> sseg list -> jval option

val jmod :
  cfg -> jval -> sseg list -> (jval -> sseg -> jval option) -> jval option

val remove_here : cfg -> jval -> sseg -> jval option

val add_here : cfg -> jval -> jval -> sseg -> jval option

val s_remove : cfg -> jval -> sseg list -> jval option

val s_add : cfg -> jval -> sseg list -> jval -> jval option

val jeq : (z -> z -> bool) -> jval -> jval -> bool

type sopk =
| SNone
| SAdd
| SRemove
| SReplace
| SCopy
| SMove
| STest
| SIncrement
| SAddCreate
| SSwap

type sop = { s_op : sopk; s_path : sseg list; s_from : sseg list option;
             s_val : jval option }

val seg_prefix : sseg list -> sseg list -> bool

val proper_prefix : sseg list -> sseg list -> bool

val s_is_root : cfg -> sseg list -> bool

val rfc_op :
  cfg -> (z -> z -> bool) -> jval option -> sop -> jval option option

val rfc_program :
  cfg -> (z -> z -> bool) -> jval option -> sop list -> jval option option

val merge_spec : jval option -> jval -> jval
