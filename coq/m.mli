
val negb : bool -> bool

type nat =
| O
| S of nat

val fst : ('a1 * 'a2) -> 'a1

val snd : ('a1 * 'a2) -> 'a2

val length : 'a1 list -> nat

val app : 'a1 list -> 'a1 list -> 'a1 list

type comparison =
| Eq
| Lt
| Gt

val compOpp : comparison -> comparison

val add : nat -> nat -> nat

type positive =
| XI of positive
| XO of positive
| XH

type n =
| N0
| Npos of positive

type z =
| Z0
| Zpos of positive
| Zneg of positive

val eqb : bool -> bool -> bool

module Nat :
 sig
  val eqb : nat -> nat -> bool

  val min : nat -> nat -> nat
 end

module Pos :
 sig
  val succ : positive -> positive

  val add : positive -> positive -> positive

  val add_carry : positive -> positive -> positive

  val pred_double : positive -> positive

  val pred_N : positive -> n

  val mul : positive -> positive -> positive

  val iter : ('a1 -> 'a1) -> 'a1 -> positive -> 'a1

  val compare_cont : comparison -> positive -> positive -> comparison

  val compare : positive -> positive -> comparison

  val eqb : positive -> positive -> bool

  val coq_Nsucc_double : n -> n

  val coq_Ndouble : n -> n

  val coq_lor : positive -> positive -> positive

  val coq_land : positive -> positive -> n

  val ldiff : positive -> positive -> n

  val testbit : positive -> n -> bool

  val iter_op : ('a1 -> 'a1 -> 'a1) -> positive -> 'a1 -> 'a1

  val to_nat : positive -> nat

  val of_succ_nat : nat -> positive
 end

module N :
 sig
  val succ_pos : n -> positive

  val coq_lor : n -> n -> n

  val ldiff : n -> n -> n

  val testbit : n -> n -> bool
 end

module Z :
 sig
  val double : z -> z

  val succ_double : z -> z

  val pred_double : z -> z

  val pos_sub : positive -> positive -> z

  val add : z -> z -> z

  val opp : z -> z

  val pred : z -> z

  val sub : z -> z -> z

  val mul : z -> z -> z

  val pow_pos : z -> positive -> z

  val pow : z -> z -> z

  val compare : z -> z -> comparison

  val leb : z -> z -> bool

  val ltb : z -> z -> bool

  val geb : z -> z -> bool

  val gtb : z -> z -> bool

  val eqb : z -> z -> bool

  val max : z -> z -> z

  val min : z -> z -> z

  val to_nat : z -> nat

  val of_nat : nat -> z

  val of_N : n -> z

  val pos_div_eucl : positive -> z -> z * z

  val div_eucl : z -> z -> z * z

  val div : z -> z -> z

  val modulo : z -> z -> z

  val odd : z -> bool

  val testbit : z -> z -> bool

  val coq_land : z -> z -> z

  val lnot : z -> z
 end

val tl : 'a1 list -> 'a1 list

val last : 'a1 list -> 'a1 -> 'a1

val rev : 'a1 list -> 'a1 list

val concat : 'a1 list list -> 'a1 list

val map : ('a1 -> 'a2) -> 'a1 list -> 'a2 list

val fold_right : ('a2 -> 'a1 -> 'a1) -> 'a1 -> 'a2 list -> 'a1

val existsb : ('a1 -> bool) -> 'a1 list -> bool

val forallb : ('a1 -> bool) -> 'a1 list -> bool

val filter : ('a1 -> bool) -> 'a1 list -> 'a1 list

val combine : 'a1 list -> 'a2 list -> ('a1 * 'a2) list

val firstn : nat -> 'a1 list -> 'a1 list

val skipn : nat -> 'a1 list -> 'a1 list

val seq : nat -> nat -> nat list

val sw : z -> z -> z

val read_vnum_loop : z list -> z -> z -> nat -> (z * nat) option

val read_vnum : z list -> (z * nat) option

val iWNUMBUF_SIZE : z

val iWFSM_CUSTOM_HDR_DATA_OFFSET : z

val iWKV_MAGIC : z

val iWDB_MAGIC : z

val iWKV_FSM_BPOW : z

val kVHDRSZ : z

val pREFIX_KEY_LEN_V2 : z

val sLEVELS : z

val sBLK_LKLEN : z

val dB_SZ : z

val sBLK_SZ : z

val sBLK_PAGE_SBLK_NUM_V2 : z

val sBLK_PAGE_SZ_V2 : z

val kVBLK_IDXNUM : z

val kVBLK_INISZPOW : z

val kVBLK_HDRSZ : z

val sOFF_FLAGS_U1 : z

val sOFF_LVL_U1 : z

val sOFF_LKL_U1 : z

val sOFF_PNUM_U1 : z

val sOFF_P0_U4 : z

val sOFF_KBLK_U4 : z

val sOFF_PI0_U1 : z

val sOFF_N0_U4 : z

val sOFF_BPOS_U1_V2 : z

val sOFF_LK_V2 : z

val dOFF_MAGIC_U4 : z

val dOFF_DBFLG_U1 : z

val dOFF_NEXTDB_U4 : z

val dOFF_P0_U4 : z

val dOFF_N0_U4 : z

val dOFF_C0_U4 : z

val dOFF_METABLK_U4 : z

val dOFF_METABLKN_U4 : z

val sBLK_FULL_LKEY : z

val iW_VNUMBUFSZ : z

val iWDB_VNUM64_KEYS : z

val iWDB_REALNUM_KEYS : z

val iWDB_COMPOUND_KEYS : z

val iWFSM_MAGICK : z

type kmode = { km_vnum : bool; km_real : bool; km_compound : bool }

val cmp2 : z list -> z list -> z

val sgn3 : z -> z -> z

val read_vnum2 : z list -> z

val memcmp : nat -> z list -> z list -> z

val af_skip : z list -> z list

val af_int : z list -> z -> z * z list

val af_frac : z list -> nat -> z -> z -> z * z

val af_part : z list -> (z * z) * z list

val af_hasfrac : z list -> bool

val af_fracval : z -> z list -> z * z

val afcmp : (nat -> z list -> z list -> z) -> z list -> z list -> z

val vnum_cmp : z list -> z list -> z

val cmp_keys_prefix :
  (nat -> z list -> z list -> z) -> kmode -> z list -> z list -> z -> z

val cmp_keys :
  (nat -> z list -> z list -> z) -> kmode -> z list -> z list -> z -> z

val u8 : (z -> z) -> z -> z

val u16 : (z -> z) -> z -> z

val u32 : (z -> z) -> z -> z

val u64 : (z -> z) -> z -> z

val bytes_at : (z -> z) -> nat -> z -> z list

val bS : z

val addr_of : z -> z

val vnum_at : (z -> z) -> nat -> z -> z -> z -> z -> (z * z) option

val rdv : (z -> z) -> z -> (z * z) option

val bytes_eq : z list -> z list -> bool

val list_eqz : z list -> z list -> bool

type complaint =
| CBadMagic of z
| CBadDb of z
| CChainLoop of z * z
| CNodeHeader of z * z
| CNodeEmpty of z
| CNodeSlots of z * z
| CNodeOrder of z
| CGlobalOrder of z
| CPrefix of z
| CBackLink of z
| CLevelChain of z * z
| CLevelCount of z * z
| CKvblk of z * z
| CSlotOverlap of z
| CBlocksOverlap of z
| CLeak of z
| CUnallocated of z
| CBeyondFile of z

type sblk = { s_blk : z; s_flags : z; s_lvl : z; s_lkl : z; s_pnum : 
              z; s_p0 : z; s_kblk : z; s_pi : z list; s_n : z list;
              s_bpos : z; s_lk : z list }

val nSLEV : nat

val nIDXA : nat

val u32s : (z -> z) -> nat -> z -> z list

val read_sblk : (z -> z) -> z -> sblk

val read_pidx :
  (z -> z) -> nat -> z -> (z * z) list -> ((z * z) list * z) option

type kvb = { k_szpow : z; k_idxsz : z; k_pidx : (z * z) list; k_idxend : z }

val read_kvblk : (z -> z) -> z -> kvb option

val slot_key : (z -> z) -> z -> z -> z -> z -> (z list * z) option

val unstore : kmode -> z list -> z list * z

val stored_before : kmode -> z list -> z list -> bool

val mode_of : z -> kmode

val nthz : z list -> nat -> z

val nthp : (z * z) list -> nat -> z * z

val chain_ok : (z list -> z list -> bool) -> z list list -> bool

val distinct : z list -> bool

val ins_range : (z * z) -> (z * z) list -> (z * z) list

val sort_ranges : (z * z) list -> (z * z) list

val ranges_disjoint : (z * z) list -> bool

val first_overlap : (z * z) list -> z option

val audit_node :
  (z -> z) -> kmode -> sblk -> (complaint list * z list list) * (z * z) list

val walk : (z -> z) -> nat -> nat -> z -> z list -> z list option

val page_of : sblk -> z * z

val dedup : (z * z) list -> (z * z) list

val audit_db : (z -> z) -> nat -> z -> (complaint list * (z * z) list) * z

val audit_dbs : (z -> z) -> nat -> nat -> z -> complaint list * (z * z) list

val bm_bit : (z -> z) -> z -> z -> bool

val check_free : (z -> z) -> nat -> z -> z -> complaint list

val check_used : (z -> z) -> nat -> z -> z -> complaint list

val check_map : (z -> z) -> z -> z -> z -> (z * z) list -> complaint list

val hDRLEN : z

val audit : (z -> z) -> z -> complaint list
