
val negb : bool -> bool

type nat =
| O
| S of nat

val option_map : ('a1 -> 'a2) -> 'a1 option -> 'a2 option

val length : 'a1 list -> nat

val app : 'a1 list -> 'a1 list -> 'a1 list

type comparison =
| Eq
| Lt
| Gt

val compOpp : comparison -> comparison

val add : nat -> nat -> nat

val sub : nat -> nat -> nat

type positive =
| XI of positive
| XO of positive
| XH

type n =
| N0
| Npos of positive

type z =
| Z0
| Zpos of positive
| Zneg of positive

module Pos :
 sig
  val succ : positive -> positive

  val add : positive -> positive -> positive

  val add_carry : positive -> positive -> positive

  val pred_double : positive -> positive

  val pred_N : positive -> n

  val mul : positive -> positive -> positive

  val iter : ('a1 -> 'a1) -> 'a1 -> positive -> 'a1

  val div2 : positive -> positive

  val div2_up : positive -> positive

  val compare_cont : comparison -> positive -> positive -> comparison

  val compare : positive -> positive -> comparison

  val eqb : positive -> positive -> bool

  val coq_Nsucc_double : n -> n

  val coq_Ndouble : n -> n

  val coq_lor : positive -> positive -> positive

  val coq_land : positive -> positive -> n

  val ldiff : positive -> positive -> n

  val coq_lxor : positive -> positive -> n

  val iter_op : ('a1 -> 'a1 -> 'a1) -> positive -> 'a1 -> 'a1

  val to_nat : positive -> nat

  val of_succ_nat : nat -> positive
 end

module N :
 sig
  val succ_pos : n -> positive

  val coq_lor : n -> n -> n

  val ldiff : n -> n -> n

  val coq_lxor : n -> n -> n
 end

module Z :
 sig
  val double : z -> z

  val succ_double : z -> z

  val pred_double : z -> z

  val pos_sub : positive -> positive -> z

  val add : z -> z -> z

  val opp : z -> z

  val pred : z -> z

  val sub : z -> z -> z

  val mul : z -> z -> z

  val pow_pos : z -> positive -> z

  val pow : z -> z -> z

  val compare : z -> z -> comparison

  val leb : z -> z -> bool

  val ltb : z -> z -> bool

  val geb : z -> z -> bool

  val gtb : z -> z -> bool

  val eqb : z -> z -> bool

  val to_nat : z -> nat

  val of_nat : nat -> z

  val of_N : n -> z

  val pos_div_eucl : positive -> z -> z * z

  val div_eucl : z -> z -> z * z

  val div : z -> z -> z

  val modulo : z -> z -> z

  val div2 : z -> z

  val shiftl : z -> z -> z

  val shiftr : z -> z -> z

  val coq_land : z -> z -> z

  val coq_lxor : z -> z -> z

  val lnot : z -> z
 end

val nth : nat -> 'a1 list -> 'a1 -> 'a1

val flat_map : ('a1 -> 'a2 list) -> 'a1 list -> 'a2 list

val fold_left : ('a1 -> 'a2 -> 'a1) -> 'a2 list -> 'a1 -> 'a1

val forallb : ('a1 -> bool) -> 'a1 list -> bool

val firstn : nat -> 'a1 list -> 'a1 list

val skipn : nat -> 'a1 list -> 'a1 list

val repeat : 'a1 -> nat -> 'a1 list

val uw : z -> z -> z

val sw : z -> z -> z

val iWFSM_CUSTOM_HDR_DATA_OFFSET : z

val iWKV_MAGIC : z

val iWKV_BACKUP_MAGIC : z

val wOP_SET : z

val wOP_COPY : z

val wOP_WRITE : z

val wOP_RESIZE : z

val wOP_SAVEPOINT : z

val wOP_RESET : z

val wOP_SEP : z

val sizeof_WBSEP : z

val sizeof_WBRESET : z

val sizeof_WBSET : z

val sizeof_WBCOPY : z

val sizeof_WBWRITE : z

val sizeof_WBRESIZE : z

val sizeof_WBSAVEPOINT : z

val offsetof_WBSEP_crc : z

val offsetof_WBSEP_len : z

val offsetof_WBSET_val : z

val offsetof_WBSET_off : z

val offsetof_WBSET_len : z

val offsetof_WBCOPY_off : z

val offsetof_WBCOPY_len : z

val offsetof_WBCOPY_noff : z

val offsetof_WBWRITE_crc : z

val offsetof_WBWRITE_len : z

val offsetof_WBWRITE_off : z

val offsetof_WBRESIZE_osize : z

val offsetof_WBRESIZE_nsize : z

val offsetof_WBSAVEPOINT_ts : z

val iwu_crc32_table : z list

val wAL_PAGE_SIZE : z

val wAL_IWFSM_MAGICK : z

val bKP_WAL_CLEANUP : z

val bKP_MAIN_COPY : z

val wAL_SCAN_SP_CHECKS_AVAIL : z

val wAL_REPLAY_REBASES_FPOS : z

val iW_ROUNDUP : z -> z -> z

type bytes = z list

val le_enc : nat -> z -> bytes

val le_dec : bytes -> z

val rd : nat -> z -> bytes -> z

val rd_off : z -> bytes -> z

type rec0 =
| RSep of z * z
| RSet of z * z * z
| RCopy of z * z * z
| RWrite of z * z * bytes
| RResize of z * z
| RSavepoint of z
| RReset

val hdr : z -> bytes

val enc_rec : rec0 -> bytes

val encode : rec0 list -> bytes

val rec_size : rec0 -> z

val layout_ok : bool

val crc32_step : z -> z -> z

val crc32 : bytes -> z -> z

type sstep =
| SStop
| SNext of z * z * z

val scan_step : bool -> bool -> z -> z -> bytes -> z -> z -> sstep

val scan_loop : bool -> nat -> bool -> z -> z -> bytes -> z -> z -> z * z

val sp_checks : bool

val scan_with : bool -> bytes -> z * z

val scan : bytes -> z * z

val parse_loop : nat -> bytes -> rec0 list option

val parse : bytes -> rec0 list option

val is_sp : rec0 -> bool

val is_sep : rec0 -> bool

val first_sp : rec0 list -> z -> z option

val u32 : z -> bool

val i64 : z -> bool

val rec_range : rec0 -> bool

val sep_ok : rec0 list -> z -> bool

val wf_log : rec0 list -> bool

val crc_ok : rec0 list -> bool

val crc_full : rec0 list -> bool

val sp_offsets : rec0 list -> z -> z list

type verdict =
| VOk
| VCorrupt
| VFault

type aop =
| ASet of z * z * z
| ACopy of z * z * z
| AWrite of z * bytes
| AResize of z

val take_pad : z -> bytes -> bytes

type rstep =
| RStop of verdict
| RNext of z * aop list

val replay_step : bool -> bool -> z -> z -> bytes -> z -> rstep

val replay_loop :
  nat -> bool -> bool -> z -> z -> bytes -> z -> verdict * aop list

val fpos_rebased : bool

val replay_ops_with : bool -> bool -> z -> z -> bytes -> verdict * aop list

val replay_ops : bool -> z -> z -> bytes -> verdict * aop list

val overwrite : bytes -> bytes -> bytes option

val splice_at : bytes -> z -> bytes -> bytes option

val splice : bytes -> z -> bytes -> bytes option

val fill_at : bytes -> z -> z -> z -> bytes option

val slice_at : bytes -> z -> z -> bytes option

val resize_nat : nat -> bytes -> bytes

val apply_op : bytes -> aop -> bytes option

val apply_ops : bytes -> aop list -> bytes option

val recover_with :
  bool -> bool -> z -> z -> bytes -> bytes -> (verdict * bytes) * aop list

val recover : bool -> z -> z -> bytes -> bytes -> (verdict * bytes) * aop list

val aop_sig : aop -> (z * z) * z

type effect =
| ELogAppend of bytes
| ELogFsync
| ELogTruncate
| EMainStore of aop
| EMainResize of z
| EMsync

type pstate = { p_buf : bytes; p_log : bytes; p_disk : bytes; p_rfoff : 
                z; p_stage : z; p_fatal : bool }

type pcfg = { c_bufsz : z; c_ccrc : bool }

val lenZ : bytes -> z

val flush_wl : pcfg -> pstate -> bool -> pstate * effect list

val write_wl : pcfg -> pstate -> bytes -> bytes -> pstate * effect list

val replay_effects : z -> aop list -> effect list

val rollforward_live : pcfg -> pstate -> pstate * effect list

val checkpoint : pcfg -> pstate -> bool -> z -> pstate * effect list

val savepoint : pcfg -> pstate -> z -> bool -> pstate * effect list

type event =
| VWrite of z * bytes
| VSet of z * z * z
| VCopy of z * z * z
| VResize of z * z
| VSynced
| VSavepoint of z * bool
| VCheckpoint of z

val write_hdr : z -> z -> z -> bytes

val step : pcfg -> pstate -> event -> pstate * effect list

val run : pcfg -> pstate -> event list -> pstate * effect list

val apply_effect : (bytes * bytes) -> effect -> bytes * bytes

val after_effects : bytes -> bytes -> effect list -> bytes * bytes

val recovery_effects : bool -> bytes -> bytes -> effect list

val effect_sig : effect -> ((z * z) * z) * z

val lenB : bytes -> z

val mk_image : bytes -> bytes -> bytes

val split_image : bytes -> (bytes * bytes) option

val open_image : bool -> bytes -> (verdict * bytes) * aop list
