
val negb : bool -> bool

type nat =
| O
| S of nat

val option_map : ('a1 -> 'a2) -> 'a1 option -> 'a2 option

val fst : ('a1 * 'a2) -> 'a1

val snd : ('a1 * 'a2) -> 'a2

val length : 'a1 list -> nat

val app : 'a1 list -> 'a1 list -> 'a1 list

type comparison =
| Eq
| Lt
| Gt

val compOpp : comparison -> comparison

val add : nat -> nat -> nat

type positive =
| XI of positive
| XO of positive
| XH

type n =
| N0
| Npos of positive

type z =
| Z0
| Zpos of positive
| Zneg of positive

module Pos :
 sig
  val succ : positive -> positive

  val add : positive -> positive -> positive

  val add_carry : positive -> positive -> positive

  val pred_double : positive -> positive

  val pred_N : positive -> n

  val mul : positive -> positive -> positive

  val iter : ('a1 -> 'a1) -> 'a1 -> positive -> 'a1

  val compare_cont : comparison -> positive -> positive -> comparison

  val compare : positive -> positive -> comparison

  val eqb : positive -> positive -> bool

  val coq_Nsucc_double : n -> n

  val coq_Ndouble : n -> n

  val coq_lor : positive -> positive -> positive

  val coq_land : positive -> positive -> n

  val ldiff : positive -> positive -> n

  val iter_op : ('a1 -> 'a1 -> 'a1) -> positive -> 'a1 -> 'a1

  val to_nat : positive -> nat

  val of_succ_nat : nat -> positive
 end

module N :
 sig
  val succ_pos : n -> positive

  val coq_lor : n -> n -> n

  val coq_land : n -> n -> n

  val ldiff : n -> n -> n
 end

module Z :
 sig
  val double : z -> z

  val succ_double : z -> z

  val pred_double : z -> z

  val pos_sub : positive -> positive -> z

  val add : z -> z -> z

  val opp : z -> z

  val sub : z -> z -> z

  val mul : z -> z -> z

  val pow_pos : z -> positive -> z

  val pow : z -> z -> z

  val compare : z -> z -> comparison

  val leb : z -> z -> bool

  val ltb : z -> z -> bool

  val geb : z -> z -> bool

  val gtb : z -> z -> bool

  val eqb : z -> z -> bool

  val to_nat : z -> nat

  val of_nat : nat -> z

  val of_N : n -> z

  val pos_div_eucl : positive -> z -> z * z

  val div_eucl : z -> z -> z * z

  val div : z -> z -> z

  val modulo : z -> z -> z

  val coq_lor : z -> z -> z

  val coq_land : z -> z -> z
 end

val nth : nat -> 'a1 list -> 'a1 -> 'a1

val nth_error : 'a1 list -> nat -> 'a1 option

val last : 'a1 list -> 'a1 -> 'a1

val rev : 'a1 list -> 'a1 list

val map : ('a1 -> 'a2) -> 'a1 list -> 'a2 list

val fold_left : ('a1 -> 'a2 -> 'a1) -> 'a2 list -> 'a1 -> 'a1

val existsb : ('a1 -> bool) -> 'a1 list -> bool

val forallb : ('a1 -> bool) -> 'a1 list -> bool

val filter : ('a1 -> bool) -> 'a1 list -> 'a1 list

val firstn : nat -> 'a1 list -> 'a1 list

val skipn : nat -> 'a1 list -> 'a1 list

type jval =
| JNull
| JBool of bool
| JI64 of z
| JF64 of z
| JStr of z list
| JArr of jval list
| JObj of (z list * jval) list

val bytes_eqb : z list -> z list -> bool

val jbinn_BINN_LIST : z

val jbinn_BINN_MAP : z

val jbinn_BINN_OBJECT : z

val jbinn_BINN_NULL : z

val jbinn_BINN_TRUE : z

val jbinn_BINN_FALSE : z

val jbinn_BINN_BOOL : z

val jbinn_BINN_UINT8 : z

val jbinn_BINN_INT8 : z

val jbinn_BINN_UINT16 : z

val jbinn_BINN_INT16 : z

val jbinn_BINN_UINT32 : z

val jbinn_BINN_INT32 : z

val jbinn_BINN_UINT64 : z

val jbinn_BINN_INT64 : z

val jbinn_BINN_FLOAT32 : z

val jbinn_BINN_FLOAT64 : z

val jbinn_BINN_DOUBLE : z

val jbinn_BINN_STRING : z

val jbinn_STORAGE_NOBYTES : z

val jbinn_STORAGE_BYTE : z

val jbinn_STORAGE_WORD : z

val jbinn_STORAGE_DWORD : z

val jbinn_STORAGE_QWORD : z

val jbinn_STORAGE_STRING : z

val jbinn_STORAGE_BLOB : z

val jbinn_STORAGE_CONTAINER : z

val jbinn_STORAGE_MASK : z

val jbinn_STORAGE_HAS_MORE : z

val jbinn_MIN_BINN_SIZE : z

val jbinn_MAX_BIN_KEY_LEN : z

val jbinn_JBL_MAX_NESTING_LEVEL : z

val jbinn_sizeof_int : z

val jbinn_UINT8_MAX : z

val jbinn_UINT16_MAX : z

val jbinn_UINT32_MAX : z

val jbinn_INT8_MIN : z

val jbinn_INT16_MIN : z

val jbinn_INT32_MIN : z

val jbinn_STRING_KEEPS_NUL : z

val be_bytes : nat -> z -> z list

val be_val : nat -> z list -> z option

val cstr : z list -> z list

val zlen : 'a1 list -> z

val zskip : z -> 'a1 list -> 'a1 list

val zfirst : z -> 'a1 list -> 'a1 list

val tolower : z -> z

val strnieq : z list -> z list -> nat -> bool

val rd_field : z list -> (z * z) option

val read_hdr : z list -> (((z * z) * z) * z) option

val advance : z list -> z -> (z list * z) option

type bval = { bt : z; bnum : z; bsize : z; bcount : z; bptr : z list }

val get_value : z list -> bval option

type biter = { it_p : (z list * z) option; it_cur : z; it_cnt : z; it_type : z }

val iter_init : z list -> z -> biter option

val list_next : biter -> (bval * biter) option

val object_next : biter -> ((z list * bval) * biter) option

val list_items : nat -> biter -> bval list

val obj_items : nat -> biter -> (z list * bval) list

val iter_fuel : biter -> nat

val sx : z -> z -> z

val create_scalar : bval -> jval option

val dec_node : nat -> bval -> jval option

val root_bval : z list -> bval option

val binn_decode : z list -> jval option

val compress_int : z -> z * nat

val wr_field : z -> z list

val save_header : z -> z list -> z -> z list option

val search_key : nat -> z list -> z -> z list -> bool

val enc_item : jval -> z list option

val binn_encode : jval -> z list option

val binn_clone : z list -> z list option

val binn_clone_into_pool : z list -> z list option

val char_ok : z -> bool

val key_ieq : z list -> z list -> bool

val keys_unique : z list list -> bool

val wf : jval -> bool

type pres =
| PErr
| PUndef
| POk of z list list

val seg_scan : z list -> z list -> (z list * z list) option

val segs_scan : nat -> z list -> z list list option

val count_slash : z list -> nat

val ptr_parse3 : z list -> pres

val rfc_unescape : z list -> z list option

val split_slash : z list -> z list -> z list list

val all_some : 'a1 option list -> 'a1 list option

val rfc_ptr_parse : z list -> z list list option

val is_digit : z -> bool

val rfc_index : z list -> z option

val find_key : z list -> (z list * jval) list -> jval option

val rfc6901_at : z list list -> jval -> jval option

val digits_rev : nat -> z -> z list

val itoa : z -> z list

val star : z list -> bool

val seg_at : z list list -> z -> z list

val strncmp_eq : z list -> z list -> z -> bool

val upd_jbl : z list list -> z -> z -> z list option -> z -> z * bool

val upd_jbn : z list list -> z -> z -> z list option -> z -> z * bool

type 'n kres =
| KNot
| KErr of z
| KSome of ((z list option * z) * 'n) list

val e_INVALID : z

val e_NESTING : z

val e_FUEL : z

val e_DECODE : z

type 'n vst = { v_pos : z; v_res : 'n option; v_term : bool }

type 'n vr =
| VErr of z
| VOk of 'n vst

val visit :
  ('a1 -> 'a1 kres) -> (z list list -> z -> z -> z list option -> z ->
  z * bool) -> bool -> z list list -> nat -> z -> ((z list option * z) * 'a1)
  list -> 'a1 vst -> 'a1 vr

type 'n at_res =
| AtFound of 'n
| AtNotFound
| AtPtrErr
| AtPtrUndef
| AtErr of z

val at_fuel : z list list -> nat

val number : z -> 'a1 list -> ((z list option * z) * 'a1) list

val kids_j : jval -> jval kres

val at_tree2 : jval -> z list list -> jval at_res

val at_tree : jval -> z list -> jval at_res

val kids_b : bval -> bval kres

val at_bval2 : bval -> z list list -> bval at_res

val at_binn2 : z list -> z list list -> jval at_res

val at_binn : z list -> z list -> jval at_res

type cframe = { f_key : z list option; f_obj : bool;
                f_kids : (z list option * jval) list }

type cst = { c_stack : cframe list; c_pend : (z list option * bool) option;
             c_pos : z }

val frame_val : cframe -> jval

val add_kid : (z list option * jval) -> cframe list -> cframe list

val flush : cst -> cst

val pop1 : cframe list -> cframe list

val popn : nat -> cframe list -> cframe list

val clone_visit : z -> z list option -> jval -> cst -> cst

val clone_walk : z -> jval -> cst -> cst

val jbn_clone : jval -> jval
