
val negb : bool -> bool

type nat =
| O
| S of nat

val fst : ('a1 * 'a2) -> 'a1

val snd : ('a1 * 'a2) -> 'a2

val length : 'a1 list -> nat

val app : 'a1 list -> 'a1 list -> 'a1 list

type comparison =
| Eq
| Lt
| Gt

val compOpp : comparison -> comparison

val add : nat -> nat -> nat

type positive =
| XI of positive
| XO of positive
| XH

type n =
| N0
| Npos of positive

type z =
| Z0
| Zpos of positive
| Zneg of positive

module Nat :
 sig
  val min : nat -> nat -> nat
 end

module Pos :
 sig
  val succ : positive -> positive

  val add : positive -> positive -> positive

  val add_carry : positive -> positive -> positive

  val pred_double : positive -> positive

  val pred_N : positive -> n

  val mul : positive -> positive -> positive

  val iter : ('a1 -> 'a1) -> 'a1 -> positive -> 'a1

  val div2 : positive -> positive

  val div2_up : positive -> positive

  val compare_cont : comparison -> positive -> positive -> comparison

  val compare : positive -> positive -> comparison

  val eqb : positive -> positive -> bool

  val coq_Nsucc_double : n -> n

  val coq_Ndouble : n -> n

  val coq_lor : positive -> positive -> positive

  val coq_land : positive -> positive -> n

  val ldiff : positive -> positive -> n

  val iter_op : ('a1 -> 'a1 -> 'a1) -> positive -> 'a1 -> 'a1

  val to_nat : positive -> nat

  val of_succ_nat : nat -> positive
 end

module N :
 sig
  val succ_pos : n -> positive

  val coq_lor : n -> n -> n

  val coq_land : n -> n -> n

  val ldiff : n -> n -> n
 end

module Z :
 sig
  val double : z -> z

  val succ_double : z -> z

  val pred_double : z -> z

  val pos_sub : positive -> positive -> z

  val add : z -> z -> z

  val opp : z -> z

  val pred : z -> z

  val sub : z -> z -> z

  val mul : z -> z -> z

  val pow_pos : z -> positive -> z

  val pow : z -> z -> z

  val compare : z -> z -> comparison

  val leb : z -> z -> bool

  val ltb : z -> z -> bool

  val geb : z -> z -> bool

  val gtb : z -> z -> bool

  val eqb : z -> z -> bool

  val min : z -> z -> z

  val to_nat : z -> nat

  val of_nat : nat -> z

  val of_N : n -> z

  val pos_div_eucl : positive -> z -> z * z

  val div_eucl : z -> z -> z * z

  val div : z -> z -> z

  val modulo : z -> z -> z

  val odd : z -> bool

  val div2 : z -> z

  val shiftl : z -> z -> z

  val shiftr : z -> z -> z

  val coq_lor : z -> z -> z

  val coq_land : z -> z -> z

  val lnot : z -> z
 end

val hd : 'a1 -> 'a1 list -> 'a1

val tl : 'a1 list -> 'a1 list

val nth : nat -> 'a1 list -> 'a1 -> 'a1

val firstn : nat -> 'a1 list -> 'a1 list

val skipn : nat -> 'a1 list -> 'a1 list

val uw : z -> z -> z

val sw : z -> z -> z

val set_vnum_loop : nat -> z -> z list

val set_vnum64 : z -> z list

val set_vnum32 : z -> z list

val read_vnum_loop : z list -> z -> z -> nat -> (z * nat) option

val read_vnum : z list -> (z * nat) option

val iWNUMBUF_SIZE : z

val ascii2hex_tbl : z list

val pREFIX_KEY_LEN_V2 : z

val iW_VNUMBUFSZ : z

val iW_VNUMSIZE : z -> z

val iW_VNUMSIZE32 : z -> z

val iW_RANGES_OVERLAP : z -> z -> z -> z -> z

val iW_ROUNDUP : z -> z -> z

val iW_ROUNDOWN : z -> z -> z

type mem = { m_len : z; m_init : (z -> z); m_wr : (z * z) list }

val rd_wr : (z * z) list -> (z -> z) -> z -> z

val inb : mem -> z -> bool

val rd : mem -> z -> z option

val wr : mem -> z -> z -> mem option

val peek : mem -> z -> z

val shl1 : nat -> mem -> z -> mem option

val itoa_loop : nat -> z -> z -> z -> z -> z -> mem -> ((z * z) * mem) option

val rev_loop : nat -> z -> z -> mem -> mem option

val int64_min_text : z list

val wr_list : mem -> z -> z list -> mem option

val itoa_digits : z -> mem -> z -> z -> z -> (z * mem) option

val itoa : z -> mem -> z -> (z * mem) option

val cstr : nat -> mem -> z -> z list

val skip_ws : z list -> z list

val atoi_digits : z list -> z -> z

val is_inf : z list -> bool

val atoi : z list -> z

val hexdigit : z -> z

val bin2hex : z list -> z list

val a2h : z -> z

val hex2bin_even : z list -> z list

val hex2bin : z list -> z list

type kmode = { km_vnum : bool; km_real : bool; km_compound : bool }

val cmp2 : z list -> z list -> z

val sgn3 : z -> z -> z

val read_vnum2 : z list -> z

val strncmp : nat -> z list -> z list -> z

val memcmp : nat -> z list -> z list -> z

val af_skip : z list -> z list

val af_int : z list -> z -> z * z list

val af_frac : z list -> nat -> z -> z -> z * z

val af_part : z list -> (z * z) * z list

val af_hasfrac : z list -> bool

val af_fracval : z -> z list -> z * z

val afcmp : (nat -> z list -> z list -> z) -> z list -> z list -> z

val vnum_cmp : z list -> z list -> z

val cmp_keys_prefix :
  (nat -> z list -> z list -> z) -> kmode -> z list -> z list -> z -> z

val cmp_keys :
  (nat -> z list -> z list -> z) -> kmode -> z list -> z list -> z -> z

val stored : kmode -> z list -> z -> z list

val kcmp :
  (nat -> z list -> z list -> z) -> kmode -> (z list * z) -> (z list * z) -> z

val sblk_cmp_key :
  (nat -> z list -> z list -> z) -> kmode -> z list -> bool -> z list -> z ->
  z option

val sblk_cmp_key_full :
  (nat -> z list -> z list -> z) -> kmode -> z list -> z list -> z -> z
