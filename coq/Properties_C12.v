(* C12 - statements only.  Model: FS/Exf.v (state = kernel file bytes, fsize, maxoff, psize, mmap slots, policy).
   Specification: a flat byte array whose length is the size (FS/Exf.v: flat and the spec_ functions).
   Side conditions used below (FS/Exf_proofs.v): Inv (page size a power of two <= 2^31, fsize page aligned <= 2^61 and equal
   to the length of the kernel file, maxoff aligned, slots sorted/disjoint/aligned with len = min maxlen (fsize-off), all
   MAP_SHARED), op_ok (arguments in [0, 2^61], so no C integer wraps; requested windows MAP_SHARED),
   FixedQ (the three behavioural facts of the current tree are those of the repaired code). *)
Require Import ZArith List Bool. Require Import IW.Lib.CInt IW.Gen.Facts IW.FS.Exf IW.FS.Exf_proofs.
Import ListNotations. Local Open Scope Z_scope.

(* (1) the macro of the current source is interval intersection for non-empty intervals *)
Theorem C12_ranges_overlap_correct : forall s1 e1 s2 e2, s1 < e1 -> s2 < e2 ->
  (IW_RANGES_OVERLAP s1 e1 s2 e2 <> 0 <-> Z.max s1 s2 < Z.min e1 e2).
Proof. exact ranges_overlap_correct. Qed.
Print Assumptions C12_ranges_overlap_correct.

(* the rounding macros of the current source on page sizes *)
Theorem C12_roundup_macro : forall ps x, PsOk ps -> 0 <= x <= 2 ^ 63 ->
  IW_ROUNDUP x ps = (x + ps - 1) / ps * ps.
Proof. exact roundup_ps. Qed.
Print Assumptions C12_roundup_macro.

(* (2) for every layout (sorted, pairwise disjoint by maxlen, page aligned, len = min maxlen (fsize-off); shared or private
   windows) and every request: the pieces are consecutive, cover [off, off+siz), a piece served through window j lies
   inside the mapped part of slot j, and no byte of a piece served through the file is covered by a mapped window *)
Theorem C12_split_covers : forall ps fsz ss off siz, LayoutInv ps fsz ss -> 0 <= siz ->
  Chain off (split_all ss off siz) (off + siz) /\ Forall (piece_ok ss) (split_all ss off siz).
Proof. exact split_covers. Qed.
Print Assumptions C12_split_covers.

Definition ex_slots : list slot := [mkSlot 4096 4096 4096 false []; mkSlot 12288 8192 8192 true [None; None]; mkSlot 24576 4096 0 false []].
Example C12_split_covers_ex :
  LayoutInv 4096 20480 ex_slots /\
  split_all ex_slots 4000 9000 =
    [mkPiece ViaFile 4000 96; mkPiece (ViaWin 0) 4096 4096; mkPiece ViaFile 8192 4096; mkPiece (ViaWin 1) 12288 712].
Proof.
  split; [| vm_compute; reflexivity].
  unfold ex_slots. repeat (constructor; simpl; try reflexivity; try Lia.lia).
Qed.

(* (3) refinement: for every history of calls (shared windows) every answer and the final content are those of the flat
   array machine - windows, the split, remapping on resize and the copy paths are invisible *)
Theorem C12_read_last_write : forall q os st rs st', FixedQ q -> Inv st -> RunOk q st os -> run q st os = (rs, st') ->
  spec_run_rel (psize st) (abs st) os rs (abs st') /\ Inv st' /\ psize st' = psize st /\ maxoff st' = maxoff st.
Proof. exact run_refines. Qed.
Print Assumptions C12_read_last_write.

(* ... and on the flat array the last write wins, other bytes are kept, new space reads as zero *)
Theorem C12_flat_read_after_write : forall ps a off d sp a', 0 < ps -> 0 <= off ->
  spec_write ps a off d = (0, sp, a') -> spec_read a' off (zlen d) = d /\ sp = zlen d.
Proof. exact flat_read_after_write. Qed.
Print Assumptions C12_flat_read_after_write.

Theorem C12_flat_write_frame : forall ps a off d sp a' b n, 0 < ps -> 0 <= off -> 0 <= b -> 0 <= n ->
  spec_write ps a off d = (0, sp, a') -> (b + n <= off \/ off + zlen d <= b) ->
  spec_read a' b n = pread (ftrunc (a_bytes a) (zlen (a_bytes a'))) b n.
Proof. exact flat_write_frame. Qed.
Print Assumptions C12_flat_write_frame.

Theorem C12_flat_zero_fill : forall f n b k, zlen f <= b -> 0 <= k -> b + k <= n -> pread (ftrunc f n) b k = zeros k.
Proof. exact ftrunc_zero_tail. Qed.
Print Assumptions C12_flat_zero_fill.

(* (4) the size: page aligned, never above maxoff, equal to the length of the file on disk, which is what the next open sees *)
Theorem C12_size_inv : forall q os st rs st', FixedQ q -> Inv st -> RunOk q st os -> run q st os = (rs, st') ->
  fsize st' mod psize st' = 0 /\ (maxoff st' = 0 \/ fsize st' <= maxoff st') /\ zlen (file st') = fsize st' /\
  maxoff st' = maxoff st.
Proof. exact size_inv. Qed.
Print Assumptions C12_size_inv.

Theorem C12_reopen_same : forall st mo p, Inv st -> psize st = EXF_PSIZE ->
  exists st2, exfile_open (file st) 0 mo p = (0, st2) /\ fsize st2 = fsize st /\ file st2 = file st.
Proof. exact reopen_same. Qed.
Print Assumptions C12_reopen_same.

(* size requests follow the policy: the C arithmetic of the three policies is the documented formula *)
Theorem C12_policy_follows : forall q ps p nsize csize,
  q_mul_ge q = true -> PsOk ps -> pol_ok p -> 0 <= nsize <= LIM -> 0 <= csize <= LIM -> req_ok p nsize ->
  policy_call q ps p nsize csize = spec_policy ps p nsize csize /\
  nsize <= fst (spec_policy ps p nsize csize) /\ fst (spec_policy ps p nsize csize) mod ps = 0.
Proof.
  intros. split; [apply policy_call_spec; assumption |]. apply spec_policy_ge. destruct (PsOk_pos ps H0). Lia.lia.
Qed.
Print Assumptions C12_policy_follows.

(* the state iwfs_exfile_open returns satisfies the invariant (so the theorems above apply to every opened file) *)
Theorem C12_open_inv : forall f initial mo p rc st, PsOk EXF_PSIZE -> zlen f <= LIM -> 0 <= initial <= LIM -> 0 <= mo <= LIM ->
  (mo < EXF_PSIZE \/ zlen f <= mo / EXF_PSIZE * EXF_PSIZE) -> pol_ok p ->
  exfile_open f initial mo p = (rc, st) -> rc = 0 -> Inv st /\ psize st = EXF_PSIZE.
Proof. exact open_inv. Qed.
Print Assumptions C12_open_inv.

(* the hypotheses are satisfiable and the current tree is the repaired one: a concrete history on a freshly opened file *)
Definition ex_st : exf := snd (exfile_open [] 0 12288 (PFibo 0)).
Definition ex_ops : list op := [OAddMmap 4096 4096 0; OWrite 4090 [1; 2; 3; 4; 5; 6; 7; 8; 9; 10]; OCopy 4092 6 100; ORead 4088 14; ORead 100 6].
Example C12_history_ex :
  FixedQ tree_quirks /\ PsOk EXF_PSIZE /\ Inv ex_st /\ RunOk tree_quirks ex_st ex_ops /\
  map o_data (fst (run tree_quirks ex_st ex_ops)) = [[]; []; []; [0; 0; 1; 2; 3; 4; 5; 6; 7; 8; 9; 10; 0; 0]; [3; 4; 5; 6; 7; 8]] /\
  fsize (snd (run tree_quirks ex_st ex_ops)) = 8192.
Proof.
  assert (HP : PsOk EXF_PSIZE) by (exists 12; split; [Lia.lia | reflexivity]).
  split; [repeat split; reflexivity |]. split; [exact HP |].
  split.
  - destruct (exfile_open [] 0 12288 (PFibo 0)) as [rc st] eqn:E.
    assert (Hrc : rc = 0) by (vm_compute in E; inversion E; reflexivity).
    unfold ex_st. rewrite E. simpl.
    refine (proj1 (open_inv [] 0 12288 (PFibo 0) rc st HP _ _ _ _ _ E Hrc)); try (vm_compute; intuition congruence).
  - split; [| split; vm_compute; reflexivity].
    vm_compute. repeat split; try (intros; discriminate); try (left; intros; discriminate).
Qed.

(* the unrepaired variants of the three places are refuted on the model (replays: corpus/C12) *)
Definition ex_st1 : exf := snd (exfile_open [] 4096 0 PDefault).
Theorem C12_copy_ensure_refuted : exists st, Inv st /\
  let st' := snd (exfile_copy orig_quirks st 0 3 8192) in zlen (file st') <> fsize st'.
Proof.
  exists ex_st1. split.
  - assert (HP : PsOk EXF_PSIZE) by (exists 12; split; [Lia.lia | reflexivity]).
    destruct (exfile_open [] 4096 0 PDefault) as [rc st] eqn:E.
    assert (Hrc : rc = 0) by (vm_compute in E; inversion E; reflexivity).
    unfold ex_st1. rewrite E. simpl.
    refine (proj1 (open_inv [] 4096 0 PDefault rc st HP _ _ _ _ _ E Hrc)); try (vm_compute; intuition congruence).
  - vm_compute. intros H; discriminate H.
Qed.
Print Assumptions C12_copy_ensure_refuted.

Theorem C12_mul_policy_refuted : exists nsize, 0 <= nsize <= LIM /\
  fst (policy_call orig_quirks EXF_PSIZE (PMul 3 2) nsize 0) < nsize.
Proof. exists 1. vm_compute. intuition congruence. Qed.
Print Assumptions C12_mul_policy_refuted.

Theorem C12_copy_src_refuted : exists st, Inv st /\ fst (exfile_copy orig_quirks st 8192 8 0) = EXF_CRASH.
Proof.
  exists (snd (add_mmap_lw (snd (exfile_open [] 12288 0 PDefault)) 0 4096 0)). split.
  - assert (HP : PsOk EXF_PSIZE) by (exists 12; split; [Lia.lia | reflexivity]).
    destruct (exfile_open [] 12288 0 PDefault) as [rc st] eqn:E.
    assert (Hrc : rc = 0) by (vm_compute in E; inversion E; reflexivity).
    assert (HI : Inv st).
    { refine (proj1 (open_inv [] 12288 0 PDefault rc st HP _ _ _ _ _ E Hrc)); try (vm_compute; intuition congruence).
      }
    simpl. destruct (add_mmap_lw st 0 4096 0) as [rc2 st2] eqn:E2. simpl.
    refine (proj1 (add_mmap_lw_inv st 0 4096 0 rc2 st2 HI _ _ _ E2)); vm_compute; intuition congruence.
  - vm_compute. reflexivity.
Qed.
Print Assumptions C12_copy_src_refuted.
