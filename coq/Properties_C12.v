(* C12 - statements only.  Model: FS/Exf.v (state = kernel file bytes, fsize, maxoff, psize, mmap slots, policy).
   Specification: a flat byte array whose length is the size (FS/Exf.v: flat and the spec_ functions).
   Side conditions used below (FS/Exf_inv.v, Exf_proofs.v):
   Inv    page size a power of two <= 2^31, fsize page aligned <= 2^61 and equal to the length of the kernel file, maxoff aligned,
          slots sorted/disjoint/aligned, every mapped length page aligned and <= min maxlen (fsize-off) (less only after a refused
          mmap), private windows with one entry per page;
   Shared every window MAP_SHARED;   Full  every window mapped as far as the size allows;
   op_ok  arguments in [0, 2^61] (no C integer wraps);  shared_op  the call registers no MAP_PRIVATE window;
   quiet  (private windows) the call leaves every mapped private window mapped as it is, see (3b);
   FixedQ the three behavioural facts of the current tree are those of the repaired code.
   `ok : os_ok` is the operating system: `os_grow ok n = false` - it refuses to grow the file to n bytes (RLIMIT_FSIZE/EFBIG,
   ENOSPC, quota); `os_map ok t = false` - it refuses an mmap that would bring the windows of this file to t bytes (ENOMEM:
   RLIMIT_AS, vm.max_map_count).  Bud ok st: it refuses mappings by a budget (what is mapped is within it, less is always granted).
   The theorems hold for EVERY such oracle; `os_any` never refuses. *)
Require Import ZArith List Bool. Require Import IW.Lib.CInt IW.Gen.Facts IW.FS.Exf IW.FS.Exf_proofs IW.FS.ExfFile IW.FS.ExfFile_proofs.
Import ListNotations. Local Open Scope Z_scope.

Lemma ps_ok : PsOk EXF_PSIZE. Proof. exists 12. split; [Lia.lia | reflexivity]. Qed.

(* (1) the macro of the current source is interval intersection for non-empty intervals *)
Theorem C12_ranges_overlap_correct : forall s1 e1 s2 e2, s1 < e1 -> s2 < e2 ->
  (IW_RANGES_OVERLAP s1 e1 s2 e2 <> 0 <-> Z.max s1 s2 < Z.min e1 e2).
Proof. exact ranges_overlap_correct. Qed.
Print Assumptions C12_ranges_overlap_correct.

(* the rounding macros of the current source on page sizes *)
Theorem C12_roundup_macro : forall ps x, PsOk ps -> 0 <= x <= 2 ^ 63 ->
  IW_ROUNDUP x ps = (x + ps - 1) / ps * ps.
Proof. exact roundup_ps. Qed.
Print Assumptions C12_roundup_macro.

(* (2) for every layout (sorted, pairwise disjoint by maxlen, page aligned, len = min maxlen (fsize-off); shared or private
   windows) and every request: the pieces are consecutive, cover [off, off+siz), a piece served through window j lies
   inside the mapped part of slot j, and no byte of a piece served through the file is covered by a mapped window *)
Theorem C12_split_covers : forall ps fsz ss off siz, LayoutInv ps fsz ss -> 0 <= siz ->
  Chain off (split_all ss off siz) (off + siz) /\ Forall (piece_ok ss) (split_all ss off siz).
Proof. exact split_covers. Qed.
Print Assumptions C12_split_covers.

(* ... and when the operating system has left windows unmapped or shorter (refused mmap; shared windows), or with private windows
   mapped in full: the pieces are consecutive, a window piece lies inside the mapped part of its window, a file piece touches no
   byte of a mapped MAP_PRIVATE window *)
Theorem C12_split_covers_weak : forall ps fsz ss off siz, SlotsInv ps fsz ss -> SharedL ss \/ FullL fsz ss -> 0 <= siz ->
  Chain off (split_all ss off siz) (off + siz) /\ Forall (piece_v (map erase ss)) (split_all ss off siz).
Proof. exact split_pieces_v. Qed.
Print Assumptions C12_split_covers_weak.

Definition ex_slots : list slot := [mkSlot 4096 4096 4096 false []; mkSlot 12288 8192 8192 true [None; None]; mkSlot 24576 4096 0 false []].
Example C12_split_covers_ex :
  LayoutInv 4096 20480 ex_slots /\
  split_all ex_slots 4000 9000 =
    [mkPiece ViaFile 4000 96; mkPiece (ViaWin 0) 4096 4096; mkPiece ViaFile 8192 4096; mkPiece (ViaWin 1) 12288 712].
Proof.
  split; [| vm_compute; reflexivity].
  unfold ex_slots. repeat (constructor; simpl; try reflexivity; try Lia.lia).
Qed.

(* (3a) refinement, MAP_SHARED windows: for every history of calls every answer and the final content are those of the flat
   array machine - windows, the split, remapping on resize and the copy paths are invisible; a growth the operating system
   refuses is, on both sides, the I/O error with every byte and the size kept (spec_grow); a window the operating system
   refuses to map makes the call answer IW_ERROR_ERRNO with every byte and the size kept (spec_mapfail) and from then on that
   window is served through the file - every later answer is still the one of the flat array *)
Theorem C12_read_last_write : forall q ok os st rs st', FixedQ q -> Inv st -> Bud ok st -> Shared st -> RunOk q ok st os ->
  run q ok st os = (rs, st') ->
  spec_run_rel (psize st) ok (abs st) os rs (abs st') /\ Inv st' /\ Bud ok st' /\ Shared st' /\ psize st' = psize st /\ maxoff st' = maxoff st.
Proof. exact run_refines. Qed.
Print Assumptions C12_read_last_write.

(* (3b) refinement with MAP_PRIVATE windows.  What a reader sees (`view`) is the file with the content of every mapped private
   window laid over it.  For every history of calls in which no mapped private window is remapped (PRunOk: each call keeps
   the mapped length of every mapped private window - "between two remaps" -, a copy goes through the first window or touches
   no mapped private window, a removed window holds no byte written through it) and mmap is not refused, every answer and the
   final view are those of the flat array machine: a read of any range returns the most recent bytes written there, through
   whatever route - shared window, private window, file - they were written *)
Theorem C12_private_read_last_write : forall q ok os st rs st', FixedQ q -> MapAll ok -> Inv st -> Full st -> PRunOk q ok st os ->
  run q ok st os = (rs, st') ->
  spec_run_rel (psize st) ok (vabs st) os rs (vabs st') /\ Inv st' /\ Full st' /\ psize st' = psize st /\ maxoff st' = maxoff st.
Proof. exact run_refines_private. Qed.
Print Assumptions C12_private_read_last_write.

(* without private windows the view is the file: (3b) says what (3a) says *)
Theorem C12_view_shared : forall st, Shared st -> view st = file st.
Proof. exact view_shared. Qed.
Print Assumptions C12_view_shared.

(* ... and on the flat array the last write wins, other bytes are kept, new space reads as zero *)
Theorem C12_flat_read_after_write : forall ps ok a off d sp a', 0 < ps -> 0 <= off ->
  spec_write ps ok a off d = (0, sp, a') -> spec_read a' off (zlen d) = d /\ sp = zlen d.
Proof. exact flat_read_after_write. Qed.
Print Assumptions C12_flat_read_after_write.

Theorem C12_flat_write_frame : forall ps ok a off d sp a' b n, 0 < ps -> 0 <= off -> 0 <= b -> 0 <= n ->
  spec_write ps ok a off d = (0, sp, a') -> (b + n <= off \/ off + zlen d <= b) ->
  spec_read a' b n = pread (ftrunc (a_bytes a) (zlen (a_bytes a'))) b n.
Proof. exact flat_write_frame. Qed.
Print Assumptions C12_flat_write_frame.

Theorem C12_flat_zero_fill : forall f n b k, zlen f <= b -> 0 <= k -> b + k <= n -> pread (ftrunc f n) b k = zeros k.
Proof. exact ftrunc_zero_tail. Qed.
Print Assumptions C12_flat_zero_fill.

(* (4) the size: page aligned, never above maxoff, equal to the length of the file on disk, which is what the next open sees *)
Theorem C12_size_inv : forall q ok os st rs st', FixedQ q -> Inv st -> Bud ok st -> Shared st -> RunOk q ok st os -> run q ok st os = (rs, st') ->
  fsize st' mod psize st' = 0 /\ (maxoff st' = 0 \/ fsize st' <= maxoff st') /\ zlen (file st') = fsize st' /\
  maxoff st' = maxoff st.
Proof. exact size_inv. Qed.
Print Assumptions C12_size_inv.

Theorem C12_size_inv_private : forall q ok os st rs st', FixedQ q -> MapAll ok -> Inv st -> Full st -> PRunOk q ok st os -> run q ok st os = (rs, st') ->
  fsize st' mod psize st' = 0 /\ (maxoff st' = 0 \/ fsize st' <= maxoff st') /\ zlen (file st') = fsize st' /\
  maxoff st' = maxoff st.
Proof. exact size_inv_private. Qed.
Print Assumptions C12_size_inv_private.

Theorem C12_reopen_same : forall q ok st mo p, Inv st -> psize st = EXF_PSIZE -> (mo <= 0 \/ EXF_PSIZE <= mo) ->
  exists st2, exfile_open q ok (file st) 0 mo p = (0, st2) /\ fsize st2 = fsize st /\ file st2 = file st.
Proof. exact reopen_same. Qed.
Print Assumptions C12_reopen_same.

(* (5) the refusals of the operating system.  For EVERY call with EVERY argument (no range condition) on a state that
   satisfies the invariant:
   - a call that answers the I/O error (growth refused) or IW_ERROR_ERRNO (a window cannot be mapped, also after the file has grown
     already) has left the file bytes, the reported size and the limit exactly as they were and transferred nothing; the windows
     are the same windows (offset, maximal length, kind) - remapped, or unmapped and served through the file;
   - if no refused mapping was outstanding, a refused growth leaves the whole state as it was (only the context of the resize
     policy may have advanced, it was consulted before the attempt);
   - whenever the reported size has grown, the operating system accepted exactly that size: no call ever reports a size the
     file does not have. *)
Theorem C12_refused_growth_unchanged : forall q ok st o r st', Inv st -> Bud ok st -> step q ok st o = (r, st') ->
  ((o_rc r = EXF_E_IO \/ o_rc r = EXF_E_ERRNO) ->
     file st' = file st /\ fsize st' = fsize st /\ maxoff st' = maxoff st /\ GeoSame (slots st) (slots st') /\ o_sp r = 0) /\
  (Full st -> o_rc r = EXF_E_IO -> st' = set_pol st (pol st')) /\
  (fsize st < fsize st' -> os_grow ok (fsize st') = true).
Proof. exact step_os. Qed.
Print Assumptions C12_refused_growth_unchanged.

(* ... and the refusal is reported: a growth within the rules (maxoff) that the operating system refuses returns the I/O
   error and the state before the call *)
Theorem C12_refused_growth_is_error : forall ok st size, Inv st -> Full st -> 0 <= size <= LIM ->
  fsize st < rup size (psize st) -> (maxoff st = 0 \/ rup size (psize st) <= maxoff st) ->
  os_grow ok (rup size (psize st)) = false -> truncate_lw ok st size = (EXF_E_IO, st).
Proof. exact truncate_lw_refused. Qed.
Print Assumptions C12_refused_growth_is_error.

(* ... a growth the operating system grants while the first window, which has to follow it, cannot be mapped: the answer is
   IW_ERROR_ERRNO, the size is the old one and the file holds the old bytes (the space is given back) *)
Theorem C12_refused_remap_is_error : forall ok st size s tl, Inv st -> 0 <= size <= LIM -> slots st = s :: tl ->
  fsize st < rup size (psize st) -> (maxoff st = 0 \/ rup size (psize st) <= maxoff st) ->
  os_grow ok (rup size (psize st)) = true ->
  slot_nlen (rup size (psize st)) s <> s_len s ->
  os_map ok (mapped_total tl + slot_nlen (rup size (psize st)) s) = false ->
  fst (truncate_lw ok st size) = EXF_E_ERRNO /\ fsize (snd (truncate_lw ok st size)) = fsize st /\
  file (snd (truncate_lw ok st size)) = file st.
Proof. exact truncate_lw_mapfail. Qed.
Print Assumptions C12_refused_remap_is_error.

(* when mmap is never refused _exfile_initmmap_lw re-derives every window; a list whose windows are all mapped as far as the
   size allows is left alone whatever the operating system would answer *)
Theorem C12_initmmap_total : forall ok ps fsz ss, MapAll ok -> initmmap ok ps fsz ss = (0, pinit ps fsz ss).
Proof. intros. apply initmmap_from_all. assumption. Qed.
Print Assumptions C12_initmmap_total.

(* the queries about windows agree, and a window that probe_mmap/acquire_mmap hand out lies inside the file and is page
   aligned (reading through the pointer over the reported length does not fault) *)
Theorem C12_probe_inside_file : forall st off rc sp, Inv st -> probe_mmap (slots st) off = (rc, sp) ->
  acquire_mmap (slots st) off = (rc, sp) /\ sync_mmap (slots st) off = rc /\
  ((rc = 0 /\ 0 < sp /\ sp mod psize st = 0 /\ off + sp <= fsize st /\ exists s, In s (slots st) /\ s_off s = off /\ s_len s = sp) \/
   (rc = EXF_E_NOTMM /\ sp = 0)).
Proof.
  intros st off rc sp HI E. split; [rewrite acquire_probe; exact E |]. split; [rewrite sync_probe, E; reflexivity |].
  exact (probe_inside _ _ _ _ _ _ (inv_slots st HI) E).
Qed.
Print Assumptions C12_probe_inside_file.

(* on the flat array: the refused size change answers the I/O error and keeps every byte *)
Theorem C12_flat_refused : forall ok a n p, zlen (a_bytes a) < n -> os_grow ok n = false ->
  spec_grow ok a n p = (EXF_E_IO, mkFlat (a_bytes a) (a_maxoff a) p).
Proof. exact spec_grow_refused. Qed.
Print Assumptions C12_flat_refused.

(* size requests follow the policy: the C arithmetic of the three policies is the documented formula *)
Theorem C12_policy_follows : forall q ps p nsize csize,
  q_mul_ge q = true -> PsOk ps -> pol_ok p -> 0 <= nsize <= LIM -> 0 <= csize <= LIM -> req_ok p nsize ->
  policy_call q ps p nsize csize = spec_policy ps p nsize csize /\
  nsize <= fst (spec_policy ps p nsize csize) /\ fst (spec_policy ps p nsize csize) mod ps = 0.
Proof.
  intros. split; [apply policy_call_spec; assumption |]. apply spec_policy_ge. destruct (PsOk_pos ps H0). Lia.lia.
Qed.
Print Assumptions C12_policy_follows.

(* the state iwfs_exfile_open returns satisfies the invariant (so the theorems above apply to every opened file) *)
Theorem C12_open_inv : forall q ok f initial mo p rc st, PsOk EXF_PSIZE -> zlen f <= LIM -> 0 <= initial <= LIM -> 0 <= mo <= LIM ->
  (mo < EXF_PSIZE \/ zlen f <= mo / EXF_PSIZE * EXF_PSIZE) -> pol_ok p ->
  exfile_open q ok f initial mo p = (rc, st) -> rc = 0 -> Inv st /\ psize st = EXF_PSIZE /\ slots st = [].
Proof. exact open_inv. Qed.
Print Assumptions C12_open_inv.

(* the configured maximum.  The current code (c1b1b57: a maximum below one page is refused by iwfs_exfile_open - the behavioural fact
   EXF_SMALL_MAXOFF_REJECTED of the tree is part of `tree_quirks`, the statement stops checking if the repair is reverted): an
   opened file has the limit it was given, rounded down to a page - never "no limit" in its place; together with C12_size_inv:
   the size never exceeds the configured maximum *)
Theorem C12_maxoff_honoured : forall ok f initial mo p st, 0 <= mo < 2 ^ 63 ->
  exfile_open tree_quirks ok f initial mo p = (0, st) ->
  (mo = 0 /\ maxoff st = 0) \/ (0 < maxoff st <= mo /\ mo - EXF_PSIZE < maxoff st).
Proof. intros ok f initial mo p st. exact (maxoff_honoured tree_quirks ok f initial mo p st eq_refl ps_ok). Qed.
Print Assumptions C12_maxoff_honoured.

(* ... which is false of the old variant of the open (before c1b1b57, selected by the flag q_maxoff_small = false): a maximum of
   100 bytes is accepted and means "unlimited" - 300 bytes are written and the file has 4096 bytes (corpus/C12/09 now answers INVARGS) *)
Theorem C12_small_maxoff_refuted : exists mo, 0 < mo /\
  let '(rc, st) := exfile_open orig_quirks os_any [] 0 mo PDefault in
  rc = 0 /\ maxoff st = 0 /\ fsize (snd (exfile_write orig_quirks os_any st 0 (repeat 7 300))) = 4096.
Proof. exists 100. vm_compute. repeat split; reflexivity. Qed.
Print Assumptions C12_small_maxoff_refuted.

(* the lock of the handle (use_locks = 1, one caller; `held` = read locks the caller holds).  The current code (58fb82b:
   _exfile_acquire_mmap gives the read lock back when it answers IWFS_ERROR_NOT_MMAPED; fact EXF_ACQ_FAIL_UNLOCKS in `tree_quirks`):
   a call either cannot proceed because the caller itself still holds a read lock from a successful acquire_mmap (nothing
   changes), or it is the call of the model and only a successful acquire_mmap / a release_mmap change the number of locks held;
   a caller that holds none is never blocked *)
Theorem C12_lock_balance : forall ok held st o r held' st', lstep tree_quirks ok held st o = (r, held', st') ->
  (o_rc r = EXF_HANG /\ 0 < held /\ needs_wlock st o = true /\ held' = held /\ st' = st) \/
  ((r, st') = step tree_quirks ok st o /\
   held' = held + match o with OAcquire _ => if o_rc r =? 0 then 1 else 0 | ORelease => -1 | _ => 0 end).
Proof. intros ok held st o r held' st'. exact (lstep_balance tree_quirks ok held st o r held' st' eq_refl). Qed.
Print Assumptions C12_lock_balance.



(* the hypotheses are satisfiable and the current tree is the repaired one: a concrete history on a freshly opened file *)
Lemma opened_inv : forall ok f initial mo p, zlen f <= LIM -> 0 <= initial <= LIM -> 0 <= mo <= LIM ->
  (mo < EXF_PSIZE \/ zlen f <= mo / EXF_PSIZE * EXF_PSIZE) -> pol_ok p -> fst (exfile_open tree_quirks ok f initial mo p) = 0 ->
  Inv (snd (exfile_open tree_quirks ok f initial mo p)) /\ Shared (snd (exfile_open tree_quirks ok f initial mo p)) /\ Full (snd (exfile_open tree_quirks ok f initial mo p)).
Proof.
  intros ok f initial mo p H1 H2 H3 H4 H5 H6. destruct (exfile_open tree_quirks ok f initial mo p) as [rc st] eqn:E. simpl in *.
  destruct (open_inv tree_quirks ok f initial mo p rc st ps_ok H1 H2 H3 H4 H5 E H6) as [A [_ C]]. split; [exact A |].
  unfold Shared, Full, SharedL, FullL. rewrite C. split; constructor.
Qed.

Definition ex_st : exf := snd (exfile_open tree_quirks os_any [] 0 12288 (PFibo 0)).
Lemma ex_st_ok : Inv ex_st /\ Shared ex_st /\ Full ex_st.
Proof. apply opened_inv; vm_compute; intuition congruence. Qed.
Definition ex_ops : list op := [OAddMmap 4096 4096 0; OWrite 4090 [1; 2; 3; 4; 5; 6; 7; 8; 9; 10]; OCopy 4092 6 100; ORead 4088 14; ORead 100 6;
                                OProbe 4096; OAcquire 4096; ORelease; OSyncMmap 4096; OSyncMmap 0; OSync; ORemap; OState].
Example C12_history_ex :
  FixedQ tree_quirks /\ PsOk EXF_PSIZE /\ Inv ex_st /\ Bud os_any ex_st /\ Shared ex_st /\ RunOk tree_quirks os_any ex_st ex_ops /\
  map o_data (fst (run tree_quirks os_any ex_st ex_ops)) =
    [[]; []; []; [0; 0; 1; 2; 3; 4; 5; 6; 7; 8; 9; 10; 0; 0]; [3; 4; 5; 6; 7; 8]; []; []; []; []; []; []; []; []] /\
  map (fun r => (o_rc r, o_sp r)) (fst (run tree_quirks os_any ex_st ex_ops)) =
    [(0, 0); (0, 10); (0, 0); (0, 14); (0, 6); (0, 4096); (0, 4096); (0, 0); (0, 0); (EXF_E_NOTMM, 0); (0, 0); (0, 0); (0, 8192)] /\
  fsize (snd (run tree_quirks os_any ex_st ex_ops)) = 8192.
Proof.
  split; [repeat split; reflexivity |]. split; [exact ps_ok |]. destruct ex_st_ok as [A [B C]].
  split; [exact A |]. split; [apply budget_any |]. split; [exact B |].
  split; [apply runok_b_ok; vm_compute; reflexivity | repeat split; vm_compute; reflexivity].
Qed.

(* a concrete history under RLIMIT_FSIZE = 8192 (fibo policy, a window over the second page that ends beyond the limit):
   the refused requests answer the I/O error, the size stays 4096, the window stays unmapped, the bytes stay; growth up to
   the limit is granted; after the limit is lifted the same request succeeds *)
Definition ex_lim_ops : list op :=
  [OWrite 0 [1; 2; 3]; OAddMmap 4096 8192 0; OEnsure 12000; OWrite 9000 [7]; OCopy 0 3 12000; OTruncate 8193; ORead 0 4; OEnsure 8192;
   OWrite 8190 [9; 9; 9]; ORead 8188 4].
Example C12_refused_ex :
  Inv ex_st /\ Bud (os_limit 8192) ex_st /\ RunOk tree_quirks (os_limit 8192) ex_st ex_lim_ops /\
  map o_rc (fst (run tree_quirks (os_limit 8192) ex_st ex_lim_ops)) = [0; 0; EXF_E_IO; EXF_E_IO; EXF_E_IO; EXF_E_IO; 0; 0; EXF_E_IO; 0] /\
  map o_data (fst (run tree_quirks (os_limit 8192) ex_st ex_lim_ops)) = [[]; []; []; []; []; []; [1; 2; 3; 0]; []; []; [0; 0; 0; 0]] /\
  fsize (snd (run tree_quirks (os_limit 8192) ex_st ex_lim_ops)) = 8192 /\
  map s_len (slots (snd (run tree_quirks (os_limit 8192) ex_st ex_lim_ops))) = [4096] /\
  fst (step tree_quirks os_any (snd (run tree_quirks (os_limit 8192) ex_st ex_lim_ops)) (OWrite 8190 [9; 9; 9])) = mkOut 0 3 [].
Proof.
  split; [exact (proj1 ex_st_ok) |]. split; [apply budget_limit |].
  split; [apply runok_b_ok; vm_compute; reflexivity | repeat split; vm_compute; reflexivity].
Qed.

(* a concrete history under an address-space budget of 8192 bytes for the windows (a whole-file window): the growth to
   16 KiB is granted by the file system but the window cannot follow - IW_ERROR_ERRNO, size and bytes as before, the window
   is mapped again over the old size; a growth within the budget succeeds; without the budget the same request succeeds *)
Definition ex_st1 : exf := snd (exfile_open tree_quirks os_any [] 4096 0 PDefault).
Lemma ex_st1_ok : Inv ex_st1 /\ Shared ex_st1 /\ Full ex_st1.
Proof. apply opened_inv; vm_compute; intuition congruence. Qed.
Definition ex_map_ops : list op :=
  [OAddMmap 0 18446744073709551615 0; OWrite 0 [1; 2; 3]; OEnsure 16384; OState; OProbe 0; ORead 0 4; OWrite 16383 [9]; ORead 0 4;
   OEnsure 8192; OProbe 0; OWrite 8190 [7; 7]; ORead 8189 3].
Example C12_mapfail_ex :
  Inv ex_st1 /\ Bud (os_maplimit 8192) ex_st1 /\ Shared ex_st1 /\ RunOk tree_quirks (os_maplimit 8192) ex_st1 ex_map_ops /\
  map (fun r => (o_rc r, o_sp r)) (fst (run tree_quirks (os_maplimit 8192) ex_st1 ex_map_ops)) =
    [(0, 0); (0, 3); (EXF_E_ERRNO, 0); (0, 4096); (0, 4096); (0, 4); (EXF_E_ERRNO, 0); (0, 4); (0, 0); (0, 8192); (0, 2); (0, 3)] /\
  map o_data (fst (run tree_quirks (os_maplimit 8192) ex_st1 ex_map_ops)) = [[]; []; []; []; []; [1; 2; 3; 0]; []; [1; 2; 3; 0]; []; []; []; [0; 7; 7]] /\
  fst (step tree_quirks os_any (snd (run tree_quirks (os_maplimit 8192) ex_st1 ex_map_ops)) (OEnsure 16384)) = mkOut 0 0 [].
Proof.
  destruct ex_st1_ok as [A [B C]]. split; [exact A |].
  split; [split; [apply mono_maplimit | reflexivity] |]. split; [exact B |].
  split; [apply runok_b_ok; vm_compute; reflexivity | repeat split; vm_compute; reflexivity].
Qed.

(* a concrete history with a MAP_PRIVATE window over the first page (bounded, so growth does not remap it) and a shared one
   over the second: a write that straddles both, a growth, a copy through the first window, writes through the file - every
   read returns the bytes last written; the hypotheses of (3b) hold (PRunOk) *)
Definition ex_st2 : exf := snd (exfile_open tree_quirks os_any [] 8192 0 PDefault).
Lemma ex_st2_ok : Inv ex_st2 /\ Shared ex_st2 /\ Full ex_st2.
Proof. apply opened_inv; vm_compute; intuition congruence. Qed.
Definition ex_priv_ops : list op :=
  [OAddMmap 0 4096 1; OAddMmap 4096 4096 0; OWrite 4090 [1; 2; 3; 4; 5; 6; 7; 8; 9; 10]; ORead 4088 14; OEnsure 16384; OCopy 4090 6 100;
   ORead 100 6; ORead 4088 14; OWrite 8192 [7; 7]; ORead 8190 4; OProbe 0; ORemoveMmap 4096; ORead 4094 4].
Example C12_private_ex :
  Inv ex_st2 /\ Full ex_st2 /\ MapAll os_any /\ PRunOk tree_quirks os_any ex_st2 ex_priv_ops /\
  map o_data (fst (run tree_quirks os_any ex_st2 ex_priv_ops)) =
    [[]; []; []; [0; 0; 1; 2; 3; 4; 5; 6; 7; 8; 9; 10; 0; 0]; []; []; [1; 2; 3; 4; 5; 6]; [0; 0; 1; 2; 3; 4; 5; 6; 7; 8; 9; 10; 0; 0]; [];
     [0; 0; 7; 7]; []; []; [5; 6; 7; 8]] /\
  map o_rc (fst (run tree_quirks os_any ex_st2 ex_priv_ops)) = [0; 0; 0; 0; 0; 0; 0; 0; 0; 0; 0; 0; 0] /\
  map s_priv (slots (snd (run tree_quirks os_any ex_st2 ex_priv_ops))) = [true] /\
  pread (file (snd (run tree_quirks os_any ex_st2 ex_priv_ops))) 4090 6 = [0; 0; 0; 0; 0; 0].
Proof.
  destruct ex_st2_ok as [A [B C]]. split; [exact A |]. split; [exact C |]. split; [exact mapall_any |].
  split; [apply prunok_b_ok; vm_compute; reflexivity | repeat split; vm_compute; reflexivity].
Qed.

(* (3b) cannot be had without its condition.  The naive statement "with private windows every read returns the most recent bytes
   written" is false of the model - and of the library (corpus/C12/07, 08):
   - a growth remaps the whole-file private window, the byte written through it is gone (it never reached the file); *)
Theorem C12_private_remap_refuted : exists st, Inv st /\ Full st /\
  let rs := fst (run tree_quirks os_any st [OAddMmap 0 18446744073709551615 1; OWrite 0 [170]; ORead 0 1; OEnsure 8192; ORead 0 1]) in
  map o_rc rs = [0; 0; 0; 0; 0] /\ map o_data rs = [[]; []; [170]; []; [0]].
Proof. exists ex_st1. destruct ex_st1_ok as [A [B C]]. split; [exact A |]. split; [exact C |]. vm_compute. split; reflexivity. Qed.
Print Assumptions C12_private_remap_refuted.

(*   - a copy that goes through the file reads the file, not the bytes written through the private window *)
Theorem C12_private_copy_refuted : exists st, Inv st /\ Full st /\
  let rs := fst (run tree_quirks os_any st [OAddMmap 4096 4096 1; OWrite 4096 [170]; ORead 4096 1; OCopy 4096 1 0; ORead 0 1]) in
  map o_rc rs = [0; 0; 0; 0; 0] /\ map o_data rs = [[]; []; [170]; []; [0]].
Proof. exists ex_st2. destruct ex_st2_ok as [A [B C]]. split; [exact A |]. split; [exact C |]. vm_compute. split; reflexivity. Qed.
Print Assumptions C12_private_copy_refuted.

(* the unrepaired variants of the three places are refuted on the model (replays: corpus/C12) *)
Theorem C12_copy_ensure_refuted : exists st, Inv st /\
  let st' := snd (exfile_copy orig_quirks os_any st 0 3 8192) in zlen (file st') <> fsize st'.
Proof. exists ex_st1. split; [exact (proj1 ex_st1_ok) |]. vm_compute. intros H; discriminate H. Qed.
Print Assumptions C12_copy_ensure_refuted.

Theorem C12_mul_policy_refuted : exists nsize, 0 <= nsize <= LIM /\
  fst (policy_call orig_quirks EXF_PSIZE (PMul 3 2) nsize 0) < nsize.
Proof. exists 1. vm_compute. intuition congruence. Qed.
Print Assumptions C12_mul_policy_refuted.

Definition ex_st3 : exf := snd (exfile_open tree_quirks os_any [] 12288 0 PDefault).
Lemma ex_st3_ok : Inv ex_st3 /\ Shared ex_st3 /\ Full ex_st3.
Proof. apply opened_inv; vm_compute; intuition congruence. Qed.
Theorem C12_copy_src_refuted : exists st, Inv st /\ fst (exfile_copy orig_quirks os_any st 8192 8 0) = EXF_CRASH.
Proof.
  exists (snd (add_mmap_lw os_any ex_st3 0 4096 0)). split.
  - destruct ex_st3_ok as [A _]. destruct (add_mmap_lw os_any ex_st3 0 4096 0) as [rc2 st2] eqn:E2. simpl.
    refine (proj1 (add_mmap_lw_spec os_any ex_st3 0 4096 0 rc2 st2 A (budget_any _) _ _ E2)); vm_compute; intuition congruence.
  - vm_compute. reflexivity.
Qed.
Print Assumptions C12_copy_src_refuted.

(* ... false of the old variant of acquire_mmap (before 58fb82b, flag q_acq_unlocks = false): acquire_mmap of an offset that has
   no window answers IWFS_ERROR_NOT_MMAPED and keeps the read lock; the next call that needs the write lock never returns
   (corpus/C12/10 now passes without HANG) *)
Theorem C12_acquire_leak_refuted : exists st, Inv st /\
  let '(r1, h1, st1) := lstep orig_quirks os_any 0 st (OAcquire 8192) in
  o_rc r1 = EXF_E_NOTMM /\ h1 = 1 /\ o_rc (fst (fst (lstep orig_quirks os_any h1 st1 (OTruncate 8192)))) = EXF_HANG.
Proof. exists ex_st1. split; [exact (proj1 ex_st1_ok) |]. vm_compute. repeat split; reflexivity. Qed.
Print Assumptions C12_acquire_leak_refuted.

(* ---------------------------------------------------------------------------------------------- *)
(* (6) the plain file underneath, src/fs/iwfile.c (model FS/ExfFile.v).
   The normalisation of the open options in iwfs_file_open, for every omode (uint8_t) and every lock mode below 16 (three defined
   bits), every file mode: normalising twice is normalising once; IWFS_OREAD is always set, IWFS_OTRUNC brings IWFS_OWRITE and
   IWFS_OCREATE, IWFS_OTMP brings IWFS_OTRUNC and the write lock, IWFS_OCREATE and IWFS_OUNLINK bring IWFS_OWRITE, there is no
   write lock without IWFS_OWRITE, no requested bit is dropped, and no mode at all means read/write/create *)
Theorem C12_file_norm_idem : forall o, 0 <= fo_omode o < 256 -> 0 <= fo_lock o < 16 -> norm_opts (norm_opts o) = norm_opts o.
Proof. exact norm_idem. Qed.
Print Assumptions C12_file_norm_idem.

Theorem C12_file_norm_rules : forall om lk, 0 <= om < 256 -> 0 <= lk < 16 -> norm_facts om lk.
Proof. exact norm_facts_all. Qed.
Print Assumptions C12_file_norm_rules.

(* what an open does and what the next open sees: an existing file is never refused, IWFS_OTRUNC empties it (status NEW), otherwise
   its bytes are kept (status EXISTING); a missing file is created empty exactly when the normalised mode has IWFS_OCREATE, else
   the answer is IW_ERROR_NOT_EXISTS and there is still no file; the next open sees the bytes the closed handle held *)
Theorem C12_file_open_existing : forall o b, 0 <= fo_omode o < 256 -> 0 <= fo_lock o < 16 ->
  let n := norm_opts o in
  let b' := if has (fo_omode n) EXF_OTRUNC then [] else b in
  file_open o (Some b) =
    (0, Some (mkPf n (if has (fo_omode n) EXF_OTRUNC then EXF_OPEN_NEW else EXF_OPEN_EXISTING) b'), Some b').
Proof. exact file_open_existing. Qed.
Print Assumptions C12_file_open_existing.

Theorem C12_file_open_missing : forall o, 0 <= fo_omode o < 256 -> 0 <= fo_lock o < 16 ->
  let n := norm_opts o in
  file_open o None =
    if has (fo_omode n) EXF_OCREATE then (0, Some (mkPf n EXF_OPEN_NEW []), Some []) else (EXF_E_NOT_EXISTS, None, None).
Proof. exact file_open_missing. Qed.
Print Assumptions C12_file_open_missing.

Theorem C12_file_next_open : forall p o, 0 <= fo_omode o < 256 -> 0 <= fo_lock o < 16 ->
  has (fo_omode (pf_opts p)) EXF_OUNLINK = false -> has (fo_omode (norm_opts o)) EXF_OTRUNC = false ->
  file_open o (pf_close p) = (0, Some (mkPf (norm_opts o) EXF_OPEN_EXISTING (pf_bytes p)), Some (pf_bytes p)).
Proof. exact close_then_open. Qed.
Print Assumptions C12_file_next_open.

(* counts at the end of the file: a read transfers min n (size - off) bytes (none beyond the end) and answers 0; a write on a
   writable file transfers everything, extends the file to off + n, reads back, leaves every other byte alone (the gap reads as zero);
   a read-only handle refuses write and copy *)
Theorem C12_file_read_count : forall p off n, 0 <= off -> 0 <= n ->
  pf_read p off n = (0, Z.max 0 (Z.min n (zlen (pf_bytes p) - off)), pread (pf_bytes p) off n).
Proof. exact pf_read_count. Qed.
Print Assumptions C12_file_read_count.

Theorem C12_file_write : forall p off d, has (fo_omode (pf_opts p)) EXF_OWRITE = true -> 0 <= off -> d <> [] ->
  let '(rc, sp, p') := pf_write p off d in
  rc = 0 /\ sp = Some (zlen d) /\ zlen (pf_bytes p') = Z.max (zlen (pf_bytes p)) (off + zlen d) /\
  pread (pf_bytes p') off (zlen d) = d /\
  forall x, 0 <= x -> ~ (off <= x < off + zlen d) -> znth x (pf_bytes p') = znth x (pf_bytes p).
Proof. exact pf_write_spec. Qed.
Print Assumptions C12_file_write.

Theorem C12_file_readonly : forall q p off d siz noff, has (fo_omode (pf_opts p)) EXF_OWRITE = false ->
  pf_write p off d = (EXF_E_READONLY, None, p) /\ pf_copy q p off siz noff = (EXF_E_READONLY, p).
Proof. exact pf_readonly. Qed.
Print Assumptions C12_file_readonly.

Example C12_file_ex :
  norm_opts (mkFo 0 0 0) = mkFo (Z.lor (Z.lor EXF_OREAD EXF_OWRITE) EXF_OCREATE) EXF_NOLOCK EXF_DEFAULT_FILEMODE /\
  norm_opts (mkFo EXF_OTMP 0 0) = mkFo 47 EXF_WLOCK EXF_DEFAULT_FILEMODE /\
  norm_opts (mkFo EXF_OREAD (Z.lor EXF_WLOCK EXF_NBLOCK) 420) = mkFo EXF_OREAD EXF_NBLOCK 420 /\
  fst (fst (file_open (mkFo EXF_OWRITE 0 0) None)) = EXF_E_NOT_EXISTS /\
  (let '(rc, h, k) := file_open (mkFo 0 0 0) None in
   rc = 0 /\ k = Some [] /\ match h with Some p => fst (pf_read (snd (pf_write p 3 [7; 8])) 0 10) = (0, 5) | None => False end).
Proof. vm_compute. repeat split. Qed.

(* the copy.  With 8dc0de1 a forward-overlapping copy that goes through the file is carried out like the one through a window: (3a)/(3b)
   cover copy without exception (spec_copy has no refusal left).  The old variant of iwp_copy_bytes (flag q_copy_fwd = false)
   answered IW_ERROR_OVERFLOW - after _exfile_ensure_size_lw had grown the file (corpus/C12/11 now answers OK twice) *)
Theorem C12_copy_fwd_refuted : exists st, Inv st /\ Shared st /\
  let '(rc, st') := exfile_copy (mkQ true true true false true true) os_any st 0 12288 8192 in
  rc = EXF_E_OVERFLOW /\ fsize st = 12288 /\ fsize st' = 20480.
Proof. exists ex_st3. destruct ex_st3_ok as [A [B _]]. split; [exact A |]. split; [exact B |]. vm_compute. repeat split. Qed.
Print Assumptions C12_copy_fwd_refuted.

(* the same forward-overlapping copy without a window and through a whole-file window: same answers, same bytes *)
Definition ex_fwd_ops : list op := [OWrite 0 [1; 2; 3; 4; 5]; OCopy 0 8192 4096; ORead 4096 5; ORead 8192 5; OState].
Example C12_copy_fwd_ex :
  RunOk tree_quirks os_any ex_st3 ex_fwd_ops /\ RunOk tree_quirks os_any ex_st3 (OAddMmap 0 18446744073709551615 0 :: ex_fwd_ops) /\
  map (fun r => (o_rc r, o_sp r, o_data r)) (fst (run tree_quirks os_any ex_st3 ex_fwd_ops)) =
    [(0, 5, []); (0, 0, []); (0, 5, [1; 2; 3; 4; 5]); (0, 5, [0; 0; 0; 0; 0]); (0, 12288, [])] /\
  tl (map (fun r => (o_rc r, o_sp r, o_data r)) (fst (run tree_quirks os_any ex_st3 (OAddMmap 0 18446744073709551615 0 :: ex_fwd_ops)))) =
    map (fun r => (o_rc r, o_sp r, o_data r)) (fst (run tree_quirks os_any ex_st3 ex_fwd_ops)).
Proof. split; [apply runok_b_ok; vm_compute; reflexivity |]. split; [apply runok_b_ok; vm_compute; reflexivity |]. split; vm_compute; reflexivity. Qed.

(* (7) arguments that are no sizes, and read-only handles (round 7).
   A negative size is refused by ensure_size, truncate and copy - the state is untouched (before: -1, the "dispose" argument of the
   resize policies, made _exfile_ensure_size_lw truncate the file to 0; corpus/C12/14) *)
Theorem C12_negative_size_refused : forall q ok st sz, sz < 0 ->
  ensure_size_lw q ok st sz = (EXF_E_OOB, st) /\ truncate_lw ok st sz = (EXF_E_OOB, st) /\
  (q_copy_ensures q = true -> forall off siz noff, sw 64 (noff + siz) = sz -> exfile_copy q ok st off siz noff = (EXF_E_OOB, st)).
Proof.
  intros q ok st sz H. assert (E : (sz <? 0) = true) by (apply Z.ltb_lt; exact H).
  split; [unfold ensure_size_lw; rewrite E; reflexivity |]. split; [unfold truncate_lw; rewrite E; reflexivity |].
  intros Hq off siz noff Hs. unfold exfile_copy. rewrite Hq, Hs. unfold ensure_size_lw. rewrite E. reflexivity.
Qed.
Print Assumptions C12_negative_size_refused.

(* a write on a handle opened read-only transfers nothing and answers an error - IW_ERROR_READONLY when the arguments are in order -
   whatever windows are registered (before: a range served by a window was memcpy'd into the PROT_READ mapping: SIGSEGV; corpus/C12/15) *)
Theorem C12_readonly_write_refused : forall st off d,
  snd (exfile_write_ro st off d) = 0 /\ fst (exfile_write_ro st off d) <> 0 /\
  (0 <= off -> off + zlen d < 2 ^ 63 -> (maxoff st = 0 \/ off + zlen d <= maxoff st) -> fst (exfile_write_ro st off d) = EXF_E_READONLY).
Proof.
  intros st off d. unfold exfile_write_ro. cbv zeta.
  destruct ((off <? 0) || (sw 64 (off + zlen d) <? 0)) eqn:E1; [split; [reflexivity |]; split; [discriminate |] |].
  - intros H0 H1 _. exfalso. change (2 ^ 63) with 9223372036854775808 in H1. pose proof (zlen_nonneg d).
    unfold sw in E1. change (2 ^ (64 - 1)) with 9223372036854775808 in E1. change (2 ^ 64) with 18446744073709551616 in E1.
    rewrite Z.mod_small in E1 by Lia.lia.
    destruct (Z.ltb_spec off 0); [Lia.lia |]. destruct (Z.ltb_spec (off + zlen d + 9223372036854775808 - 9223372036854775808) 0); [Lia.lia | discriminate E1].
  - destruct (negb (maxoff st =? 0) && (uw 64 (off + zlen d) >? maxoff st)) eqn:E2; (split; [reflexivity |]; split; [discriminate |]); [| intros; reflexivity].
    intros H0 H1 Hm. exfalso. change (2 ^ 63) with 9223372036854775808 in H1. pose proof (zlen_nonneg d).
    unfold uw in E2. change (2 ^ 64) with 18446744073709551616 in E2. rewrite Z.mod_small in E2 by Lia.lia.
    destruct (Z.eqb_spec (maxoff st) 0); [discriminate E2 |]. simpl in E2. apply Z.gtb_lt in E2. destruct Hm; Lia.lia.
Qed.
Print Assumptions C12_readonly_write_refused.

