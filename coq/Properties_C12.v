(* C12 - statements only.  Model: FS/Exf.v (state = kernel file bytes, fsize, maxoff, psize, mmap slots, policy).
   Specification: a flat byte array whose length is the size (FS/Exf.v: flat and the spec_ functions).
   Side conditions used below (FS/Exf_proofs.v): Inv (page size a power of two <= 2^31, fsize page aligned <= 2^61 and equal
   to the length of the kernel file, maxoff aligned, slots sorted/disjoint/aligned with len = min maxlen (fsize-off), all
   MAP_SHARED), op_ok (arguments in [0, 2^61], so no C integer wraps; requested windows MAP_SHARED),
   FixedQ (the three behavioural facts of the current tree are those of the repaired code).
   `ok : os_ok` is the operating system: `ok n = false` means it refuses to grow the file to n bytes (RLIMIT_FSIZE/EFBIG,
   ENOSPC, quota).  Every theorem holds for EVERY such oracle; `os_any` never refuses. *)
Require Import ZArith List Bool. Require Import IW.Lib.CInt IW.Gen.Facts IW.FS.Exf IW.FS.Exf_proofs.
Import ListNotations. Local Open Scope Z_scope.

(* (1) the macro of the current source is interval intersection for non-empty intervals *)
Theorem C12_ranges_overlap_correct : forall s1 e1 s2 e2, s1 < e1 -> s2 < e2 ->
  (IW_RANGES_OVERLAP s1 e1 s2 e2 <> 0 <-> Z.max s1 s2 < Z.min e1 e2).
Proof. exact ranges_overlap_correct. Qed.
Print Assumptions C12_ranges_overlap_correct.

(* the rounding macros of the current source on page sizes *)
Theorem C12_roundup_macro : forall ps x, PsOk ps -> 0 <= x <= 2 ^ 63 ->
  IW_ROUNDUP x ps = (x + ps - 1) / ps * ps.
Proof. exact roundup_ps. Qed.
Print Assumptions C12_roundup_macro.

(* (2) for every layout (sorted, pairwise disjoint by maxlen, page aligned, len = min maxlen (fsize-off); shared or private
   windows) and every request: the pieces are consecutive, cover [off, off+siz), a piece served through window j lies
   inside the mapped part of slot j, and no byte of a piece served through the file is covered by a mapped window *)
Theorem C12_split_covers : forall ps fsz ss off siz, LayoutInv ps fsz ss -> 0 <= siz ->
  Chain off (split_all ss off siz) (off + siz) /\ Forall (piece_ok ss) (split_all ss off siz).
Proof. exact split_covers. Qed.
Print Assumptions C12_split_covers.

Definition ex_slots : list slot := [mkSlot 4096 4096 4096 false []; mkSlot 12288 8192 8192 true [None; None]; mkSlot 24576 4096 0 false []].
Example C12_split_covers_ex :
  LayoutInv 4096 20480 ex_slots /\
  split_all ex_slots 4000 9000 =
    [mkPiece ViaFile 4000 96; mkPiece (ViaWin 0) 4096 4096; mkPiece ViaFile 8192 4096; mkPiece (ViaWin 1) 12288 712].
Proof.
  split; [| vm_compute; reflexivity].
  unfold ex_slots. repeat (constructor; simpl; try reflexivity; try Lia.lia).
Qed.

(* (3) refinement: for every history of calls (shared windows) every answer and the final content are those of the flat
   array machine - windows, the split, remapping on resize and the copy paths are invisible; a growth the operating system
   refuses is, on both sides, the I/O error with every byte and the size kept (spec_grow) *)
Theorem C12_read_last_write : forall q ok os st rs st', FixedQ q -> Inv st -> RunOk q ok st os -> run q ok st os = (rs, st') ->
  spec_run_rel (psize st) ok (abs st) os rs (abs st') /\ Inv st' /\ psize st' = psize st /\ maxoff st' = maxoff st.
Proof. exact run_refines. Qed.
Print Assumptions C12_read_last_write.

(* ... and on the flat array the last write wins, other bytes are kept, new space reads as zero *)
Theorem C12_flat_read_after_write : forall ps ok a off d sp a', 0 < ps -> 0 <= off ->
  spec_write ps ok a off d = (0, sp, a') -> spec_read a' off (zlen d) = d /\ sp = zlen d.
Proof. exact flat_read_after_write. Qed.
Print Assumptions C12_flat_read_after_write.

Theorem C12_flat_write_frame : forall ps ok a off d sp a' b n, 0 < ps -> 0 <= off -> 0 <= b -> 0 <= n ->
  spec_write ps ok a off d = (0, sp, a') -> (b + n <= off \/ off + zlen d <= b) ->
  spec_read a' b n = pread (ftrunc (a_bytes a) (zlen (a_bytes a'))) b n.
Proof. exact flat_write_frame. Qed.
Print Assumptions C12_flat_write_frame.

Theorem C12_flat_zero_fill : forall f n b k, zlen f <= b -> 0 <= k -> b + k <= n -> pread (ftrunc f n) b k = zeros k.
Proof. exact ftrunc_zero_tail. Qed.
Print Assumptions C12_flat_zero_fill.

(* (4) the size: page aligned, never above maxoff, equal to the length of the file on disk, which is what the next open sees *)
Theorem C12_size_inv : forall q ok os st rs st', FixedQ q -> Inv st -> RunOk q ok st os -> run q ok st os = (rs, st') ->
  fsize st' mod psize st' = 0 /\ (maxoff st' = 0 \/ fsize st' <= maxoff st') /\ zlen (file st') = fsize st' /\
  maxoff st' = maxoff st.
Proof. exact size_inv. Qed.
Print Assumptions C12_size_inv.

Theorem C12_reopen_same : forall ok st mo p, Inv st -> psize st = EXF_PSIZE ->
  exists st2, exfile_open ok (file st) 0 mo p = (0, st2) /\ fsize st2 = fsize st /\ file st2 = file st.
Proof. exact reopen_same. Qed.
Print Assumptions C12_reopen_same.

(* (5) a growth the operating system refuses.  For EVERY call with EVERY argument (no range condition) on a state that
   satisfies the invariant:
   - a call that answers the I/O error has left the file bytes, the reported size, the limit and every window exactly as they
     were (only the context of the resize policy may have advanced, it was consulted before the attempt), and transferred nothing;
   - whenever the reported size has grown, the operating system accepted exactly that size: no call ever reports a size the
     file does not have. *)
Theorem C12_refused_growth_unchanged : forall q ok st o r st', Inv st -> step q ok st o = (r, st') ->
  (o_rc r = EXF_E_IO -> st' = set_pol st (pol st') /\ o_sp r = 0) /\ (fsize st < fsize st' -> ok (fsize st') = true).
Proof. exact step_os. Qed.
Print Assumptions C12_refused_growth_unchanged.

(* ... and the refusal is reported: a growth within the rules (maxoff) that the operating system refuses returns the I/O
   error and the state before the call *)
Theorem C12_refused_growth_is_error : forall ok st size, Inv st -> 0 <= size <= LIM ->
  fsize st < rup size (psize st) -> (maxoff st = 0 \/ rup size (psize st) <= maxoff st) ->
  ok (rup size (psize st)) = false -> truncate_lw ok st size = (EXF_E_IO, st).
Proof. exact truncate_lw_refused. Qed.
Print Assumptions C12_refused_growth_is_error.

(* on the flat array: the refused size change answers the I/O error and keeps every byte *)
Theorem C12_flat_refused : forall ok a n p, zlen (a_bytes a) < n -> ok n = false ->
  spec_grow ok a n p = (EXF_E_IO, mkFlat (a_bytes a) (a_maxoff a) p).
Proof. exact spec_grow_refused. Qed.
Print Assumptions C12_flat_refused.

(* size requests follow the policy: the C arithmetic of the three policies is the documented formula *)
Theorem C12_policy_follows : forall q ps p nsize csize,
  q_mul_ge q = true -> PsOk ps -> pol_ok p -> 0 <= nsize <= LIM -> 0 <= csize <= LIM -> req_ok p nsize ->
  policy_call q ps p nsize csize = spec_policy ps p nsize csize /\
  nsize <= fst (spec_policy ps p nsize csize) /\ fst (spec_policy ps p nsize csize) mod ps = 0.
Proof.
  intros. split; [apply policy_call_spec; assumption |]. apply spec_policy_ge. destruct (PsOk_pos ps H0). Lia.lia.
Qed.
Print Assumptions C12_policy_follows.

(* the state iwfs_exfile_open returns satisfies the invariant (so the theorems above apply to every opened file) *)
Theorem C12_open_inv : forall ok f initial mo p rc st, PsOk EXF_PSIZE -> zlen f <= LIM -> 0 <= initial <= LIM -> 0 <= mo <= LIM ->
  (mo < EXF_PSIZE \/ zlen f <= mo / EXF_PSIZE * EXF_PSIZE) -> pol_ok p ->
  exfile_open ok f initial mo p = (rc, st) -> rc = 0 -> Inv st /\ psize st = EXF_PSIZE.
Proof. exact open_inv. Qed.
Print Assumptions C12_open_inv.

(* the hypotheses are satisfiable and the current tree is the repaired one: a concrete history on a freshly opened file *)
Definition ex_st : exf := snd (exfile_open os_any [] 0 12288 (PFibo 0)).
Definition ex_ops : list op := [OAddMmap 4096 4096 0; OWrite 4090 [1; 2; 3; 4; 5; 6; 7; 8; 9; 10]; OCopy 4092 6 100; ORead 4088 14; ORead 100 6].
Example C12_history_ex :
  FixedQ tree_quirks /\ PsOk EXF_PSIZE /\ Inv ex_st /\ RunOk tree_quirks os_any ex_st ex_ops /\
  map o_data (fst (run tree_quirks os_any ex_st ex_ops)) = [[]; []; []; [0; 0; 1; 2; 3; 4; 5; 6; 7; 8; 9; 10; 0; 0]; [3; 4; 5; 6; 7; 8]] /\
  fsize (snd (run tree_quirks os_any ex_st ex_ops)) = 8192.
Proof.
  assert (HP : PsOk EXF_PSIZE) by (exists 12; split; [Lia.lia | reflexivity]).
  split; [repeat split; reflexivity |]. split; [exact HP |].
  split.
  - destruct (exfile_open os_any [] 0 12288 (PFibo 0)) as [rc st] eqn:E.
    assert (Hrc : rc = 0) by (vm_compute in E; inversion E; reflexivity).
    unfold ex_st. rewrite E. simpl.
    refine (proj1 (open_inv os_any [] 0 12288 (PFibo 0) rc st HP _ _ _ _ _ E Hrc)); try (vm_compute; intuition congruence).
  - split; [| split; vm_compute; reflexivity].
    vm_compute. repeat split; try (intros; discriminate); try (left; intros; discriminate).
Qed.

(* a concrete history under RLIMIT_FSIZE = 8192 (fibo policy, a window over the second page that ends beyond the limit):
   the refused requests answer the I/O error, the size stays 4096, the window stays unmapped, the bytes stay; growth up to
   the limit is granted; after the limit is lifted the same request succeeds *)
Definition ex_lim_ops : list op :=
  [OWrite 0 [1; 2; 3]; OAddMmap 4096 8192 0; OEnsure 12000; OWrite 9000 [7]; OCopy 0 3 12000; OTruncate 8193; ORead 0 4; OEnsure 8192;
   OWrite 8190 [9; 9; 9]; ORead 8188 4].
Example C12_refused_ex :
  Inv ex_st /\ RunOk tree_quirks (os_limit 8192) ex_st ex_lim_ops /\
  map o_rc (fst (run tree_quirks (os_limit 8192) ex_st ex_lim_ops)) = [0; 0; EXF_E_IO; EXF_E_IO; EXF_E_IO; EXF_E_IO; 0; 0; EXF_E_IO; 0] /\
  map o_data (fst (run tree_quirks (os_limit 8192) ex_st ex_lim_ops)) = [[]; []; []; []; []; []; [1; 2; 3; 0]; []; []; [0; 0; 0; 0]] /\
  fsize (snd (run tree_quirks (os_limit 8192) ex_st ex_lim_ops)) = 8192 /\
  map s_len (slots (snd (run tree_quirks (os_limit 8192) ex_st ex_lim_ops))) = [4096] /\
  fst (step tree_quirks os_any (snd (run tree_quirks (os_limit 8192) ex_st ex_lim_ops)) (OWrite 8190 [9; 9; 9])) = mkOut 0 3 [].
Proof.
  split; [exact (proj1 (proj2 (proj2 C12_history_ex))) |].
  split; [| repeat split; vm_compute; reflexivity].
  vm_compute. repeat split; try (intros; discriminate); try (left; intros; discriminate).
Qed.

(* the unrepaired variants of the three places are refuted on the model (replays: corpus/C12) *)
Definition ex_st1 : exf := snd (exfile_open os_any [] 4096 0 PDefault).
Theorem C12_copy_ensure_refuted : exists st, Inv st /\
  let st' := snd (exfile_copy orig_quirks os_any st 0 3 8192) in zlen (file st') <> fsize st'.
Proof.
  exists ex_st1. split.
  - assert (HP : PsOk EXF_PSIZE) by (exists 12; split; [Lia.lia | reflexivity]).
    destruct (exfile_open os_any [] 4096 0 PDefault) as [rc st] eqn:E.
    assert (Hrc : rc = 0) by (vm_compute in E; inversion E; reflexivity).
    unfold ex_st1. rewrite E. simpl.
    refine (proj1 (open_inv os_any [] 4096 0 PDefault rc st HP _ _ _ _ _ E Hrc)); try (vm_compute; intuition congruence).
  - vm_compute. intros H; discriminate H.
Qed.
Print Assumptions C12_copy_ensure_refuted.

Theorem C12_mul_policy_refuted : exists nsize, 0 <= nsize <= LIM /\
  fst (policy_call orig_quirks EXF_PSIZE (PMul 3 2) nsize 0) < nsize.
Proof. exists 1. vm_compute. intuition congruence. Qed.
Print Assumptions C12_mul_policy_refuted.

Theorem C12_copy_src_refuted : exists st, Inv st /\ fst (exfile_copy orig_quirks os_any st 8192 8 0) = EXF_CRASH.
Proof.
  exists (snd (add_mmap_lw (snd (exfile_open os_any [] 12288 0 PDefault)) 0 4096 0)). split.
  - assert (HP : PsOk EXF_PSIZE) by (exists 12; split; [Lia.lia | reflexivity]).
    destruct (exfile_open os_any [] 12288 0 PDefault) as [rc st] eqn:E.
    assert (Hrc : rc = 0) by (vm_compute in E; inversion E; reflexivity).
    assert (HI : Inv st).
    { refine (proj1 (open_inv os_any [] 12288 0 PDefault rc st HP _ _ _ _ _ E Hrc)); try (vm_compute; intuition congruence).
      }
    simpl. destruct (add_mmap_lw st 0 4096 0) as [rc2 st2] eqn:E2. simpl.
    refine (proj1 (add_mmap_lw_inv st 0 4096 0 rc2 st2 HI _ _ _ E2)); vm_compute; intuition congruence.
  - vm_compute. reflexivity.
Qed.
Print Assumptions C12_copy_src_refuted.
