(* C17 - statements only.  Index-level models of the text-consuming functions (coq/SAFE): a buffer is content ++ [0]
   (or exactly `len` bytes for the length delimited entry points); `Oob i` = an access outside the buffer the C code was
   given, `Fuel` = the stated loop bound did not suffice.  `exists r, f x = Ok r` therefore says: no out-of-bounds access
   and termination within the fuel (a function of the input length fixed inside the model).
   Variants (strict/checked/bounded/clears) are selected by Gen/Facts.v from the current tree; `_current` theorems speak
   about whatever the tree contains today, `_refuted` theorems are the defects of the unfixed variants. *)
Require Import ZArith List Bool Lia.
Require Import IW.SAFE.Buf IW.SAFE.Buf_proofs IW.SAFE.Ptr IW.SAFE.Ptr_proofs IW.SAFE.Conv2 IW.SAFE.Conv2_proofs
  IW.SAFE.Unesc IW.SAFE.Unesc_proofs IW.SAFE.Num IW.SAFE.Num_proofs IW.SAFE.Xstr IW.SAFE.Xstr_proofs IW.SAFE.Re IW.SAFE.Re_proofs IW.Gen.Facts.
Require Import IW.SAFE.Txt IW.SAFE.Ini IW.SAFE.Ini_proofs IW.SAFE.Str IW.SAFE.Str_proofs IW.SAFE.Strto IW.SAFE.Strto_proofs
  IW.SAFE.Jsk IW.SAFE.Jsk_proofs IW.SAFE.Repl IW.SAFE.Repl_proofs IW.SAFE.Re_total_proofs IW.SAFE.Re_vm_proofs.
Import ListNotations. Local Open Scope Z_scope.

(* ---- JSON pointer parser (_jbl_ptr_pool) *)
(* full statement, FALSE of the code before fixes/safety-ptr-tilde.diff (see the three _refuted theorems):
   forall s, nz s -> ptr_good (ptr_parse false (s ++ [0])) *)
Theorem C17_ptr_safe : forall s, nz s -> ptr_good (ptr_parse true (s ++ [0])).
Proof. exact ptr_safe_strict. Qed.
Print Assumptions C17_ptr_safe.
Example C17_ptr_safe_ex : nz [47; 97; 126; 47; 98; 126] /\
  ptr_parse true ([47; 97; 126; 49; 98; 47; 126; 48] ++ [0]) <> Ok PErr.
Proof. split; [repeat constructor; discriminate | vm_compute; discriminate]. Qed.

Theorem C17_ptr_safe_partial : forall s, nz s -> tilde_ok s -> ptr_good (ptr_parse false (s ++ [0])).
Proof. exact ptr_safe_partial. Qed.
Print Assumptions C17_ptr_safe_partial.
Example C17_ptr_safe_partial_ex : nz [47; 97; 126; 49; 98] /\ tilde_ok [47; 97; 126; 49; 98].
Proof.
  split; [repeat constructor; discriminate|]. intros i R H.
  assert (C : i = 0 \/ i = 1 \/ i = 2 \/ i = 3 \/ i = 4) by (unfold zlen in R; simpl in R; lia).
  destruct C as [->|[->|[->|[->| ->]]]]; simpl in H; try discriminate. split; [reflexivity|right; reflexivity].
Qed.

Theorem C17_ptr_safe_current : forall s, nz s -> fact_ptr_tilde_strict = true \/ tilde_ok s -> ptr_good (ptr_current (s ++ [0])).
Proof. exact ptr_safe_current. Qed.
Print Assumptions C17_ptr_safe_current.

Theorem C17_ptr_refuted_oob : exists s, nz s /\ ptr_parse false (s ++ [0]) = Oob (zlen s + 1).
Proof. exact ptr_refuted_oob. Qed.
Print Assumptions C17_ptr_refuted_oob.
Theorem C17_ptr_refuted_uninit : exists s q, nz s /\ ptr_parse false (s ++ [0]) = Ok q /\ ptr_observe q = QSegs [OUninit].
Proof. exact ptr_refuted_uninit. Qed.
Print Assumptions C17_ptr_refuted_uninit.
Theorem C17_ptr_refuted_uninit_entry : exists s cnt n out, nz s /\ ptr_parse false (s ++ [0]) = Ok (PDone cnt n out) /\ In (-1) n.
Proof. exact ptr_refuted_uninit_entry. Qed.
Print Assumptions C17_ptr_refuted_uninit_entry.

(* ---- iwhex2bin: hex buffer of exactly hexlen bytes, out buffer of exactly max(max, 0) bytes *)
(* full statement, FALSE before fixes/safety-hex2bin-max.diff: forall hex out max, olen out = Z.max max 0 -> exists r, hex2bin false hex out max = Ok r *)
Theorem C17_hex2bin_safe : forall checked hex out max, olen out = Z.max max 0 -> checked = true \/ 1 <= max ->
  exists r, hex2bin checked hex out max = Ok r.
Proof. exact hex2bin_safe. Qed.
Print Assumptions C17_hex2bin_safe.
Example C17_hex2bin_safe_ex : hex2bin true [97; 98; 99] [None; None] 2 = Ok (2, [Some 10; Some 188]).
Proof. vm_compute. reflexivity. Qed.
Theorem C17_hex2bin_safe_current : forall hex out max, olen out = Z.max max 0 -> fact_hex2bin_checks_max = true \/ 1 <= max ->
  exists r, hex2bin_current hex out max = Ok r.
Proof. exact hex2bin_current_safe. Qed.
Print Assumptions C17_hex2bin_safe_current.
Theorem C17_hex2bin_refuted : exists hex out max, olen out = Z.max max 0 /\ hex2bin false hex out max = Oob 0.
Proof. exact hex2bin_refuted. Qed.
Print Assumptions C17_hex2bin_refuted.

(* ---- iwatoi2(str, len): any len bytes, no terminator required *)
Theorem C17_atoi2_safe : forall b, exists r, atoi2 true b = Ok r.
Proof. exact atoi2_safe. Qed.
Print Assumptions C17_atoi2_safe.
Example C17_atoi2_safe_ex : atoi2 true [32; 45; 52; 50] = Ok (AVal (-42)) /\ atoi2 true [105; 110; 102] = Ok (AVal (2 ^ 63 - 1)).
Proof. split; vm_compute; reflexivity. Qed.
Theorem C17_atoi2_safe_partial : forall s, nz s -> exists r, atoi2 false (s ++ [0]) = Ok r.
Proof. exact atoi2_safe_partial. Qed.
Print Assumptions C17_atoi2_safe_partial.
Theorem C17_atoi2_safe_current : forall b, fact_atoi2_inf_bounded = true \/ (exists s, nz s /\ b = s ++ [0]) ->
  exists r, atoi2_current b = Ok r.
Proof. exact atoi2_current_safe. Qed.
Print Assumptions C17_atoi2_safe_current.
Theorem C17_atoi2_refuted_oob : atoi2 false [45] = Oob 1.
Proof. exact atoi2_refuted_oob. Qed.
Print Assumptions C17_atoi2_refuted_oob.
Theorem C17_atoi2_refuted_ub : atoi2 false [57;50;50;51;51;55;50;48;51;54;56;53;52;55;55;53;56;48;55] = Ok AUB.
Proof. exact atoi2_refuted_ub. Qed.
Print Assumptions C17_atoi2_refuted_ub.

(* ---- _jbl_unescape_json_string: measuring pass (dlen = 0) and fill pass, from any index inside the buffer *)
Theorem C17_unesc_safe : forall s q out dlen i, nz s -> 0 <= i <= zlen s -> dlen <= olen out ->
  exists r, unesc q (s ++ [0]) out dlen i = Ok r.
Proof. exact unesc_safe_all. Qed.
Print Assumptions C17_unesc_safe.
Theorem C17_unesc2_safe : forall s q i, nz s -> 0 <= i <= zlen s -> exists r, unesc2 q (s ++ [0]) i = Ok r.
Proof. exact unesc2_safe_all. Qed.
Print Assumptions C17_unesc2_safe.
Example C17_unesc2_safe_ex :   (* a, then an escaped surrogate pair, then the closing quote: 5 bytes out *)
  exists o, unesc2 34 ([97; 92; 117; 100; 56; 51; 100; 92; 117; 100; 101; 48; 48; 34] ++ [0]) 0 =
    Ok (UOk 5 14 [], UOk 5 14 o).
Proof. eexists. vm_compute. reflexivity. Qed.

(* ---- number branch of _jbl_parse_value: errno is an explicit argument *)
Theorem C17_num_safe : forall s clears big errno, nz s -> exists r, num_branch clears big errno (s ++ [0]) = Ok r.
Proof. exact num_safe_all. Qed.
Print Assumptions C17_num_safe.
(* full statement, FALSE before fixes/safety-errno.diff: forall big e1 e2 p, num_branch false big e1 p = num_branch false big e2 p *)
Theorem C17_num_depends_only_on_input : forall big e1 e2 p, num_branch true big e1 p = num_branch true big e2 p.
Proof. exact num_errno_indep. Qed.
Print Assumptions C17_num_depends_only_on_input.
Example C17_num_ex : num_branch true false ERANGE [45; 52; 50; 44; 0] = Ok (NI64 (-42) 3) /\
                     num_branch true false 0 [49; 101; 53; 0] = Ok (NF64 0).
Proof. split; vm_compute; reflexivity. Qed.
Theorem C17_num_depends_only_on_input_current : fact_num_clears_errno = true -> forall e1 e2 p, num_current e1 p = num_current e2 p.
Proof. exact num_errno_current. Qed.
Print Assumptions C17_num_depends_only_on_input_current.
Theorem C17_num_refuted : exists p, num_branch false false 0 p = Ok (NI64 123 3) /\ num_branch false false ERANGE p = Ok NErr.
Proof. exact num_errno_refuted. Qed.
Print Assumptions C17_num_refuted.
Theorem C17_num_refuted_big : exists p, num_branch false true 0 p = Ok (NI64 123 3) /\ num_branch false true ERANGE p = Ok (NF64 0).
Proof. exact num_errno_refuted_big. Qed.
Print Assumptions C17_num_refuted_big.

(* ---- iwxstr: cat / unshift / shift / pop / insert.  xinv = size < asize, buf[size] = 0, buf[0, size) initialised;
   `Ok` = no memcpy/memmove/store outside the allocation.  Holds for every sequence of operations with size_t arguments. *)
Theorem C17_xstr_safe : forall siz ops, 0 <= siz -> Forall xop_wf ops ->
  exists x0 x', xcreate siz = Ok x0 /\ xrun x0 ops = Ok x' /\ xinv x'.
Proof. exact xstr_safe. Qed.
Print Assumptions C17_xstr_safe.
Theorem C17_xstr_step : forall x op, xinv x -> xop_wf op -> exists x', xapply x op = Ok x' /\ xinv x'.
Proof. exact xapply_ok. Qed.
Print Assumptions C17_xstr_step.
Example C17_xstr_ex : exists x0 x', xcreate 1 = Ok x0 /\
  xrun x0 [XCat [97; 98; 99]; XInsert 1 [120; 121]; XUnshift [122]; XShift 2; XPop 1; XInsert 9 [48]] = Ok x' /\
  xcontent x' = [Some 120; Some 121; Some 98].
Proof. do 2 eexists. vm_compute. repeat split; reflexivity. Qed.

(* ---- iwre_create + iwre_match (parse.c, compile.c, vm.c, iwre.c): the caller's match array is an explicit input of the
   model (`prior` = its contents BEFORE the call: CNull, or CStale = any non-null leftover).  The answer - return value and
   every slot - is the answer for a zeroed array of the same length: a function of (pattern, text, length) alone.
   (An odd length is refused with -1/EINVAL and the array is returned untouched: C17_re_odd_untouched.) *)
Theorem C17_re_depends_only_on_input : forall pat text prior, Z.odd (Z.of_nat (length prior)) = false ->
  re_query_prior pat text prior = re_query pat text (Z.of_nat (length prior)).
Proof. exact re_query_prior_indep. Qed.
Print Assumptions C17_re_depends_only_on_input.
(* ^(a)(a) on "aa", six slots full of leftovers *)
Example C17_re_depends_only_on_input_ex :
  re_query_prior [94; 40; 97; 41; 40; 97; 41] [97; 97] (repeat CStale 6) =
    Ok (RMatch 3 [COff 0; COff 2; COff 0; COff 1; COff 1; COff 2]) /\
  re_query_prior [40; 97; 41; 124; 40; 98; 41] [98] [CStale; CNull; CStale; CStale; CNull; CStale; CStale; CStale] =
    Ok (RMatch 1 [COff 0; COff 1; CNull; CNull; COff 0; COff 1; CNull; CNull]).
Proof. split; vm_compute; reflexivity. Qed.

Theorem C17_re_return_value_depends_only_on_input : forall code text prior prior', length prior = length prior' ->
  rfst (re_match code text prior) = rfst (re_match code text prior').
Proof. exact re_match_ret_indep. Qed.
Print Assumptions C17_re_return_value_depends_only_on_input.
Theorem C17_re_odd_untouched : forall code text prior, Z.odd (Z.of_nat (length prior)) = true ->
  re_match code text prior = Ok (-1, prior).
Proof. exact re_match_odd. Qed.
Print Assumptions C17_re_odd_untouched.

(* the reported group count n: 2 * n slots fit into the array, and n <= groups + 1 (group 0 = the whole match), whatever the
   array held before; the array keeps its length *)
Theorem C17_re_count_bounded : forall pat text prior r a, re_query_prior pat text prior = Ok (RMatch r a) ->
  length a = length prior /\ -1 <= r /\ 2 * r <= Z.of_nat (length prior) /\ r <= re_groups pat + 1.
Proof. exact re_query_bounds. Qed.
Print Assumptions C17_re_count_bounded.
(* 31 groups that all take part + group 0 fill exactly the re_max_matches = 64 slots a VM thread records; the array has 66
   slots full of leftovers: 32 groups are reported and slots 64, 65 are null *)
Example C17_re_count_bounded_ex : exists a,
  re_query_prior (94 :: concat (repeat [40; 97; 41] 31)) (repeat 97 31) (repeat CStale 66) = Ok (RMatch 32 a) /\
  nth 63 a CStale = COff 31 /\ nth 64 a CStale = CNull /\ nth 65 a CStale = CNull /\
  re_groups (94 :: concat (repeat [40; 97; 41] 31)) = 31.
Proof. eexists. vm_compute. repeat split; reflexivity. Qed.

(* ---- termination of compile_char_class (compile.c).  The loop that expands a range lo-hi of a bracket expression,
   for ( ; ch <= hi; ++ch), is `range_expand ctr fuel lo hi` where ctr is the type of the counter: `int` in the code.
   It ends within 257 steps for all bytes, 0xff included, and adds exactly lo..hi; whatever class the parser accepts
   (cls_scan = parse_char_class) is compiled within the same bound (cls_set = compile_char_class, no Fuel, no Oob). *)
Theorem C17_re_range_expand_terminates : forall c e, 0 <= c -> e <= 255 ->
  exists l, range_expand ctr_int range_fuel c e = Ok l /\ forall x, In x l <-> c <= x <= e.
Proof. exact range_expand_total. Qed.
Print Assumptions C17_re_range_expand_terminates.
Theorem C17_re_class_compile_terminates : forall from rest, Forall byte from ->
  cls_scan (S (length from)) true from = Ok (Some rest) -> exists set, cls_set (S (length from)) true from = Ok set.
Proof. exact cls_set_total_top. Qed.
Print Assumptions C17_re_class_compile_terminates.
(* [\xf0-\xff] and [^...\x01-\xff]: accepted by the parser, compiled to 16 and 255 members *)
Example C17_re_class_compile_terminates_ex :
  cls_scan 6 true [240; 45; 255; 93; 0] = Ok (Some [0]) /\
  (exists l, cls_set 6 true [240; 45; 255; 93; 0] = Ok l /\ length l = 16%nat /\ In 255 l) /\
  (exists l, range_expand ctr_int range_fuel 1 255 = Ok l /\ length l = 255%nat).
Proof. split; [vm_compute; reflexivity|]. split; eexists; vm_compute; repeat split; try reflexivity. do 15 right. left. reflexivity. Qed.
(* the same loop with an 8 bit counter (`unsigned char ch`) never ends when the upper bound is 0xff: every fuel runs out *)
Theorem C17_re_range_expand_8bit_refuted : forall fuel c, byte c -> range_expand ctr_u8 fuel c 255 = Fuel.
Proof. exact range_expand_u8_loops. Qed.
Print Assumptions C17_re_range_expand_8bit_refuted.

(* ================= deepening round: the consumers that were only sanitizer-sampled =================
   Convention as above: `exists r, f x = Ok r` = every index the model touches lies inside the buffer it belongs to
   (no Oob), no cell is read before it was written (Txt.rdc), and the loop bounds built into the model suffice (no Fuel). *)

(* ---- iwini_parse_string (iwini.c): line[ini_max_line] on the stack (never initialised, reused line by line),
   section[ini_max_section], prev_name[ini_max_name]; any handler (h e = false: the callback returned 0); ANY bytes *)
Theorem C17_ini_no_oob_terminates : forall h s, exists rc evs, ini_parse h s = Ok (rc, evs).
Proof. exact ini_parse_total. Qed.
Print Assumptions C17_ini_no_oob_terminates.
(* BOM, section, pair with inline comment, continuation line, a refused name (error = its line number), no `=` *)
Example C17_ini_ex :
  ini_query ([239; 187; 191; 91; 115; 93; 10] ++ [107; 32; 61; 32; 118; 32; 59; 99; 10] ++ [32; 119; 10] ++ [33; 97; 61; 49; 10] ++ [120; 10]) =
    Ok (4, [Ev [115] (Some [107]) (Some [118]); Ev [115] (Some [107]) (Some [119]); Ev [115] (Some [33; 97]) (Some [49])]).
Proof. vm_compute. reflexivity. Qed.

(* ---- iwpool_split_string (iwpool.c): both arguments C strings; the result array has strlen + 1 slots *)
Theorem C17_split_no_oob_terminates : forall s cs ws, nz s -> nz cs -> exists r, split (s ++ [0]) (cs ++ [0]) ws = Ok r.
Proof. exact split_total. Qed.
Print Assumptions C17_split_no_oob_terminates.
Example C17_split_ex : split ([32; 97; 44; 32; 98; 32; 44; 44; 99; 32] ++ [0]) ([44] ++ [0]) true = Ok [[97]; [98]; []; [99]].
Proof. vm_compute. reflexivity. Qed.

(* ---- iwu_uuid_valid (iwuuid.c) *)
Theorem C17_uuid_no_oob_terminates : forall s, nz s -> exists r, uuid_valid (s ++ [0]) = Ok r.
Proof. exact uuid_valid_total. Qed.
Print Assumptions C17_uuid_no_oob_terminates.
Example C17_uuid_ex : uuid_valid ([48;49;50;51;97;98;99;100;45;56;57;69;70;45;52;97;53;98;45;56;99;55;100;45;48;49;50;51;52;53;54;55;56;57;97;98] ++ [0]) = Ok true
  /\ uuid_valid ([48; 45] ++ [0]) = Ok false.
Proof. split; vm_compute; reflexivity. Qed.

(* ---- iwcsv_wrap_line_buffer / iwcsv_column_add / iwcsv_line_flush (iwcsv.h): any buffer length, any columns *)
Theorem C17_csv_no_oob_terminates : forall len cols, exists r, csv_query len cols = Ok r.
Proof. exact csv_query_total. Qed.
Print Assumptions C17_csv_no_oob_terminates.
(* 48 byte buffer = 16 bytes of data: a , "b""" CR LF fits exactly; in 40 bytes the second column is refused and the line is lost *)
Example C17_csv_ex : csv_query 48 [[97]; [98; 34]; [44]] = Ok (Some ([true; true; true], Some [97; 44; 98; 34; 34; 44; 34; 44; 34; 13; 10]))
  /\ csv_query 40 [[97]; [98; 34]; [44]] = Ok (Some ([true; true; false], None)) /\ csv_query 33 [] = Ok None.
Proof. repeat split; vm_compute; reflexivity. Qed.

(* ---- iw_strtoll & co (iwconv.c): errno is an explicit argument, as for the number branch of the JSON parser *)
Theorem C17_strto_safe : forall s clears errno, nz s -> exists r, iw_strtoll clears errno (s ++ [0]) = Ok r.
Proof. exact iw_strtoll_safe. Qed.
Print Assumptions C17_strto_safe.
(* clears = true is the current code; FALSE of the wrappers before 4f5b819 (clears = false, C17_strto_refuted):
   forall e1 e2 p, iw_strtoll false e1 p = iw_strtoll false e2 p *)
Theorem C17_strto_depends_only_on_input : forall e1 e2 p, iw_strtoll true e1 p = iw_strtoll true e2 p.
Proof. exact iw_strtoll_errno_indep. Qed.
Print Assumptions C17_strto_depends_only_on_input.
(* the tree as it is (4f5b819: errno = 0 before the conversion; the T1 fact is obtained by running iw_strtoll after errno = ERANGE) *)
Theorem C17_strto_depends_only_on_input_current : forall e1 e2 p, iw_strtoll_current e1 p = iw_strtoll_current e2 p.
Proof. exact iw_strtoll_current_errno_indep. Qed.
Print Assumptions C17_strto_depends_only_on_input_current.
Theorem C17_strto_refuted : exists p, iw_strtoll false 0 p = Ok (WVal 123) /\ iw_strtoll false ERANGE p = Ok WErr.
Proof. exact iw_strtoll_errno_refuted. Qed.
Print Assumptions C17_strto_refuted.

(* ---- the JSON / JS-object parser as a whole (iwjser.c), (b): no input makes it exceed a fixed-size resource.
   It has no fixed-size text buffer (keys and strings are allocated with the measured length); its fixed resource is
   the C stack: j_frames = the deepest level _jbl_parse_value was ever entered with, j_deep = the deepest node.
   For both modes and EVERY verdict function of iwstrtod's range test. *)
Theorem C17_json_parser_bounded : forall js rng s, nz s ->
  exists out st, jparse js rng (s ++ [0]) = Ok (out, st) /\
    j_frames st <= JBL_MAX_NESTING_LEVEL + 1 /\ j_deep st <= JBL_MAX_NESTING_LEVEL /\
    match out with JAt p => 0 <= p <= zlen s | JErr _ => True end.
Proof. exact jparse_total. Qed.
Print Assumptions C17_json_parser_bounded.
(* 1001 opening brackets: 1000 nodes (levels 0..999), the 1001st call is entered with level 1000 and refuses *)
Example C17_json_parser_bounded_ex :
  jparse false (fun _ => false) (repeat 91 1001 ++ [0]) = Ok (JErr ENest, mkJ 1000 999 1000) /\
  jparse true (fun _ => false) ([123; 97; 58; 91; 46; 53; 44; 39; 120; 39; 93; 125] ++ [0]) = Ok (JAt 12, mkJ 4 2 2).
Proof. split; vm_compute; reflexivity. Qed.
(* the scanner of iwstrtod: `end` stays inside the text *)
Theorem C17_strtod_end_safe : forall s, nz s -> exists e, sde_query (s ++ [0]) = Ok e /\ 0 <= e <= zlen s.
Proof. exact sde_total. Qed.
Print Assumptions C17_strtod_end_safe.
(* IWNUMBUF_SIZE (T1): every int64 has at most IWNUMBUF_SIZE - 2 decimal digits, which leaves room for the sign and the
   terminator in the char buf[IWNUMBUF_SIZE] of the number printers (the index-level proof that iwitoa stays inside
   that buffer for every int64 is C19_itoa_atoi) *)
Theorem C17_numbuf_holds_int64 : forall v, - 2 ^ 63 <= v < 2 ^ 63 -> Z.abs v < 10 ^ (IWNUMBUF_SIZE - 2).
Proof. exact numbuf_holds_int64. Qed.
Print Assumptions C17_numbuf_holds_int64.

(* ---- jbn_from_json / jbn_from_js as their callers see them (rc, *node).  jdoc_current = the tree as it is (3d4d0bc: a
   text without any value is a parse error; T1 fact obtained by running jbn_from_json on a lone closing bracket): a success
   always comes with a node, for EVERY input.  The variant before the fix (strict = false) is refuted below. *)
Theorem C17_json_doc_has_root : forall js rng b p st, jdoc_current js rng b = Ok (JAt p, st) -> j_nodes st <> 0.
Proof. exact jdoc_current_has_root. Qed.
Print Assumptions C17_json_doc_has_root.
Theorem C17_json_doc_has_root_strict : forall js rng b p st, jdoc true js rng b = Ok (JAt p, st) -> j_nodes st <> 0.
Proof. exact jdoc_has_root. Qed.
Print Assumptions C17_json_doc_has_root_strict.
Example C17_json_doc_has_root_ex : jdoc_current false (fun _ => false) ([93] ++ [0]) = Ok (JErr EJson, mkJ 0 (-1) 0) /\
  jdoc_current false (fun _ => false) ([91; 49; 93] ++ [0]) = Ok (JAt 3, mkJ 2 1 1).
Proof. split; vm_compute; reflexivity. Qed.
Theorem C17_json_doc_total : forall strict js rng s, nz s -> exists out st, jdoc strict js rng (s ++ [0]) = Ok (out, st).
Proof. exact jdoc_total. Qed.
Print Assumptions C17_json_doc_total.
(* the code before 3d4d0bc (strict = false): a lone closing bracket is a success without any node *)
Theorem C17_json_doc_rootless_refuted : exists s, nz s /\ jdoc false false (fun _ => false) (s ++ [0]) = Ok (JAt 0, mkJ 0 (-1) 0).
Proof. exact jdoc_rootless_refuted. Qed.
Print Assumptions C17_json_doc_rootless_refuted.

(* ---- iwu_replace (iwutils.c).  replace_current = the tree as it is (e241384: empty keys are skipped; T1 fact obtained by
   running the call with an empty key under an alarm): it returns for EVERY text and EVERY list of keys.
   The variant before the fix (skips = false) returns when no key is empty (_partial) and is refuted for an empty key. *)
Theorem C17_replace_terminates : forall data keys, exists r, replace_current data keys = Ok r.
Proof. exact replace_current_terminates. Qed.
Print Assumptions C17_replace_terminates.
Theorem C17_replace_terminates_partial : forall skips data keys, keys_nonempty keys \/ skips = true -> exists r, replace skips data keys = Ok r.
Proof. exact replace_terminates. Qed.
Print Assumptions C17_replace_terminates_partial.
Example C17_replace_ex : keys_nonempty [([123; 120; 125], Some [49]); ([97], None)] /\
  replace false [97; 123; 120; 125; 98; 123; 120; 125] [([123; 120; 125], Some [49]); ([97], None)] = Ok [97; 49; 98; 49].
Proof. split; [repeat constructor; unfold zlen; simpl; lia|vm_compute; reflexivity]. Qed.
(* the code before e241384 with an empty key: ptr never advances, whatever the mapper answers; the current code skips it *)
Example C17_replace_empty_key_now : replace_current [97; 98; 99] [([], Some []); ([98], Some [120])] = Ok [97; 120; 99].
Proof. vm_compute. reflexivity. Qed.
Theorem C17_replace_empty_key_refuted : forall c data m rest, replace false (c :: data) (([], m) :: rest) = Fuel.
Proof. exact replace_empty_key_refuted. Qed.
Print Assumptions C17_replace_empty_key_refuted.

(* ---- iwre_create (parse.c, compile.c) for EVERY pattern: the parser never reads past the terminator of the pattern and
   ends within its fuel (pattern length + 2 nested calls), every bracket expression and every node it builds is compiled
   (no Oob, no Fuel), and a program that is handed out respects REGEX_MAX_INSTRUCTIONS (T1) *)
Theorem C17_re_create_no_oob_terminates : forall pat, Forall byte pat -> exists r, re_create pat = Ok r.
Proof. exact re_create_total. Qed.
Print Assumptions C17_re_create_no_oob_terminates.
Theorem C17_re_program_bounded : forall pat code, Forall byte pat -> 0 <= re_max_instructions ->
  re_create pat = Ok (Some code) -> 1 <= ilen code <= re_max_instructions.
Proof. exact re_program_bounded. Qed.
Print Assumptions C17_re_program_bounded.
(* a{90} nested in {91}: 8190 + 5 + 1 instructions > 8192 is refused; a{90}{90} compiles to 8106 instructions *)
Example C17_re_program_bounded_ex :
  re_create [40; 97; 123; 57; 48; 125; 41; 123; 57; 49; 125] = Ok None /\
  (exists code, re_create [97; 123; 57; 48; 125; 123; 57; 48; 125] = Ok (Some code) /\ ilen code = 8106).
Proof. split; [vm_compute; reflexivity|]. eexists. split; [vm_compute; reflexivity|vm_compute; reflexivity]. Qed.

(* ---- iwxstr_clone in the operation histories (C17_xstr_safe / C17_xstr_step quantify over XClone too): the clone owns
   asize cells of its own; an append that fits the capacity it reports stays inside its block *)
Example C17_xstr_clone_ex : exists x0 x', xcreate 64 = Ok x0 /\
  xrun x0 [XCat [97; 98; 99; 100]; XClone; XCat (repeat 101 40); XClone; XUnshift [122]] = Ok x' /\
  x_size x' = 45 /\ asize x' = 64.
Proof. do 2 eexists. vm_compute. repeat split; reflexivity. Qed.

(* ---- iwre_match (vm.c, iwre.c) on whatever iwre_create hands out, for EVERY subject text and every array: no fetch
   outside the program, no abort(), no read past the terminator of the text, termination (vm_add_thread: every call first
   marks a program counter that was not marked, at most one per instruction; the outer loop: one round per text byte) *)
Theorem C17_re_match_no_oob_terminates : forall pat code text prior, Forall byte pat -> re_create pat = Ok (Some code) ->
  exists r, re_match code text prior = Ok r.
Proof. exact re_match_total. Qed.
Print Assumptions C17_re_match_no_oob_terminates.
Theorem C17_re_query_no_oob_terminates : forall pat text len, Forall byte pat -> exists r, re_query pat text len = Ok r.
Proof. exact re_query_total. Qed.
Print Assumptions C17_re_query_no_oob_terminates.
