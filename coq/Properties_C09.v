(* C09 - iterating while the store changes.  Statements only.
   The model (KV/Cursor.v) carries every cursor fix-up loop of iwkv.c (after the repairs recorded in
   known_findings.json) and is compared with the implementation's cursor bookkeeping (cnpos, skip_next, copy) after
   every mutation by the correspondence check.
   PROVED for all chains, cursors, keys and values (no bound):
   - C09_put_keeps_cursor: whatever a successful put does to the nodes (overwrite, insertion into a node, new node in
     front / behind, split with the record going to the lower or to the upper half), the fix-up leaves every cursor
     that stood on a record on a record with the same key, with a fresh copy of its node and the same pending step;
     the value it reads is unchanged unless the put overwrote exactly that key;
   - C09_scan_stable_put: the forward scan that remains for such a cursor after the put is the scan that remained
     before, with the new record inserted if and only if its key lies ahead of the cursor (scan_stable, puts);
   - the list-level and cursor-level facts for removals (a cursor beside a removed record keeps its record, a cursor on
     the removed record reads the successor with skip_next = 1).
   - C09_scan_stable_del / C09_scan_stable_cursor_del: the same for every successful delete by key and for every
     removal through a cursor, including the removal of the record the scanning cursor stands on (the cursor then
     stands on a neighbour with the pending-step marker) and the removal that unlinks a whole node: the remaining
     forward scan is the old remaining scan minus the deleted key.
   - C09_db_inv_reachable (fresh_inv): in EVERY state the API-level model of one database reaches by any sequence of
     put / delete / cursor open / move / set / delete / close calls, the chain invariant holds, node identities are
     unique and every open cursor holds a fresh copy of its node (or of the head / tail block) with its slot in
     range - so the hypotheses of the theorems above are met in every reachable state: C09_db_scan_stable_put/del/cdel
     state scan stability for the very model the correspondence check runs against the implementation, for byte keys
     and integer keys with node size and pivot regenerated from the source and no hypothesis left.
   - C09_scan_prev_stable_put / _del and C09_db_rscan_stable_bytes: the same for the BACKWARD direction (what PREV still
     delivers is everything in front of the cursor's record; a put adds the new record iff it lies in front, a delete
     removes the deleted key; a cursor whose own record was deleted delivers exactly what it would have delivered).
   Open: real-number and compound comparators enter these theorems as hypotheses (byte and integer keys are proved). *)
Require Import List ZArith Lia. Import ListNotations.
Require Import IW.KV.Node IW.KV.Spec IW.KV.Node_proofs IW.KV.Cursor IW.KV.Cursor_proofs IW.KV.Stable_proofs IW.KV.ScanStable_proofs IW.KV.StablePrev_proofs IW.KV.StableDel_proofs
               IW.KV.Inv_proofs IW.KV.DbInv_proofs IW.KV.Keys IW.KV.Keys_proofs IW.KV.Inst IW.Gen.Facts.

(* _sblk_addkv/_sblk_addkv2: `if (cnpos >= idx) cnpos++` keeps the cursor on its record, for every node content,
   insertion slot and cursor slot *)
Theorem C09_insert_keeps_record_partial :
  forall (K V : Type) (r : recs K V) (idx p : nat) (e : K * V), p < length r ->
    nth_error (insert_at K V r idx e) (if Nat.leb idx p then S p else p) = nth_error r p.
Proof.
  intros K V r idx p e Hp. destruct (insert_keeps_record K V 1 (le_n 1) r idx p e) as [H|H]; [exact H|lia].
Qed.
Print Assumptions C09_insert_keeps_record_partial.

(* _sblk_rmkv: `else if (cnpos > idx) cnpos--` keeps the cursor on its record *)
Theorem C09_remove_keeps_record_partial :
  forall (K V : Type) (r : recs K V) (idx p : nat), p <> idx ->
    nth_error (remove_at K V r idx) (if Nat.ltb idx p then p - 1 else p) = nth_error r p.
Proof. intros K V. exact (remove_keeps_record K V 1 (le_n 1)). Qed.
Print Assumptions C09_remove_keeps_record_partial.

(* _sblk_rmkv, cursor on the removed slot: the slot now holds the successor (skip_next = 1: the next NEXT must not move) *)
Theorem C09_remove_current_successor_partial :
  forall (K V : Type) (r : recs K V) (idx : nat),
    nth_error (remove_at K V r idx) idx = nth_error r (S idx).
Proof. exact remove_current_successor. Qed.
Print Assumptions C09_remove_current_successor_partial.

(* _lx_split_addkv: a cursor at or behind the pivot finds its record in the new node at cnpos - pivot, a cursor before
   the pivot finds it in the kept part at the same slot *)
Theorem C09_split_keeps_record_partial :
  forall (K V : Type) (PIVOT : nat) (r : recs K V) (p : nat),
    (PIVOT <= p -> nth_error (skipn PIVOT r) (p - PIVOT) = nth_error r p) /\
    (p < PIVOT -> nth_error (firstn PIVOT r) p = nth_error r p).
Proof.
  intros K V PIVOT r p. split.
  - exact (split_keeps_record_moved K V 1 PIVOT (le_n 1) r p).
  - exact (split_keeps_record_kept K V 1 PIVOT (le_n 1) r p).
Qed.
Print Assumptions C09_split_keeps_record_partial.

(* ---- the same at cursor level: the fix-up applied by the model (which is compared with the implementation's
        cnpos / skip_next / copy after every mutation) makes the cursor read the record it read before ---- *)
Theorem C09_fix_insert_keeps :
  forall (K V : Type) (IDXNUM : nat) (c' : chain K V) cur id p idx e r pv nx,
    positioned cur id p -> p < length r ->
    find_node K V None c' id = Some (pv, insert_at K V r idx e, nx) ->
    cursor_read K V c' (fix_insert K V IDXNUM c' id idx cur) = nth_error r p.
Proof. exact fix_insert_keeps. Qed.
Print Assumptions C09_fix_insert_keeps.

Theorem C09_fix_remove_keeps :
  forall (K V : Type) (IDXNUM : nat) (c' : chain K V) cur id p idx r pv nx,
    positioned cur id p -> p < length r -> idx < length r -> p <> idx ->
    find_node K V None c' id = Some (pv, remove_at K V r idx, nx) ->
    cursor_read K V c' (fix_remove K V IDXNUM c' id idx cur) = nth_error r p.
Proof. exact fix_remove_keeps. Qed.
Print Assumptions C09_fix_remove_keeps.

(* deleting the record under the cursor: the cursor reads the successor and carries skip_next = 1, so the next NEXT does
   not move and the successor is visited exactly once *)
Theorem C09_fix_remove_current :
  forall (K V : Type) (IDXNUM : nat) (c' : chain K V) cur id p r pv nx,
    positioned cur id p -> S p < length r ->
    find_node K V None c' id = Some (pv, remove_at K V r p, nx) ->
    let cur' := fix_remove K V IDXNUM c' id p cur in
    cursor_read K V c' cur' = nth_error r (S p) /\ c_skip cur' = 1%Z.
Proof. exact fix_remove_current. Qed.
Print Assumptions C09_fix_remove_current.

(* ---- a put and the cursors that are open on the database ---- *)
Theorem C09_put_keeps_cursor :
  forall (K V : Type) (cmp : K -> K -> comparison) (IDXNUM PIVOT : nat) (upd : V -> V -> option V),
    1 <= IDXNUM ->
    forall fresh (c : chain K V) k v noover newok c' ch cur id p k0 v0,
    PIVOT <= IDXNUM -> ids_unique K V c -> ~ In fresh (map fst c) ->
    put_chain K V cmp IDXNUM PIVOT upd fresh c k v noover newok = (POk, c', ch) ->
    node_cursor K V c cur id p -> cursor_read K V c cur = Some (k0, v0) ->
    let cur' := fix_cursor K V IDXNUM PIVOT c' ch cur in
    (exists id' p', node_cursor K V c' cur' id' p') /\ c_skip cur' = c_skip cur /\
    exists v', cursor_read K V c' cur' = Some (k0, v') /\ (v' = v0 \/ cmp k0 k = Eq).
Proof. exact put_keeps_cursor. Qed.
Print Assumptions C09_put_keeps_cursor.

(* the remaining forward scan of a cursor on a record = everything behind that record in scan order *)
Theorem C09_scan_is_rest :
  forall (K V : Type) (cmp : K -> K -> comparison) (IDXNUM PIVOT : nat),
    (forall a b : K, cmp a b = CompOpp (cmp b a)) -> 1 <= PIVOT < IDXNUM ->
    forall (c : chain K V) cur id p k0 v0 fuel,
    NodeInv K V cmp IDXNUM c -> ids_unique K V c -> node_cursor K V c cur id p -> c_skip cur = 0%Z ->
    cursor_read K V c cur = Some (k0, v0) -> length (flat K V c) < fuel ->
    scan_next K V IDXNUM fuel c cur = after K V cmp (flat K V c) k0.
Proof. exact scan_is_after. Qed.
Print Assumptions C09_scan_is_rest.

(* scan_stable for puts: comparator hypotheses are those proved for the byte-key and the integer-key comparators of the
   code in KV/Keys_proofs.v *)
Theorem C09_scan_stable_put :
  forall (K V : Type) (cmp : K -> K -> comparison) (IDXNUM PIVOT : nat) (upd : V -> V -> option V),
    (forall a b c : K, cmp a b = Lt -> cmp b c = Eq -> cmp a c = Lt) ->
    (forall a b : K, cmp a b = CompOpp (cmp b a)) ->
    (forall a b c : K, cmp a b = Lt -> cmp b c = Lt -> cmp a c = Lt) ->
    1 <= PIVOT < IDXNUM ->
    forall fresh (c : chain K V) k v noover newok c' ch cur id p k0 v0 fuel,
    NodeInv K V cmp IDXNUM c -> ids_unique K V c -> ~ In fresh (map fst c) ->
    put_chain K V cmp IDXNUM PIVOT upd fresh c k v noover newok = (POk, c', ch) ->
    node_cursor K V c cur id p -> c_skip cur = 0%Z -> cursor_read K V c cur = Some (k0, v0) ->
    S (length (flat K V c)) < fuel ->
    let cur' := fix_cursor K V IDXNUM PIVOT c' ch cur in
    exists nv, (s_get K V cmp (flat K V c) k = None -> nv = v) /\
      scan_next K V IDXNUM fuel c' cur' =
      match cmp k0 k with
      | Lt => s_put K V cmp (scan_next K V IDXNUM fuel c cur) k nv
      | _ => scan_next K V IDXNUM fuel c cur
      end.
Proof. exact scan_stable_put. Qed.
Print Assumptions C09_scan_stable_put.

(* Non-vacuity: a full node (IDXNUM = 4, PIVOT = 2) with a cursor on its second record; the put of key 25 splits the
   node; hypotheses hold and the remaining scan gains exactly the new record. *)
Definition ex_c : chain nat nat := [(1, [(10,0);(20,0);(30,0);(40,0)]); (2, [(50,0)])].
Definition ex_cur : cursor := at_node nat nat [] 1 [(10,0);(20,0);(30,0);(40,0)] [(2, [(50,0)])] 1 PNone.
Definition ex_put := put_chain nat nat Nat.compare 4 2 (fun _ v => Some v) 3 ex_c 25 7 false true.
Example C09_scan_stable_example :
  node_cursor nat nat ex_c ex_cur 1 1 /\ cursor_read nat nat ex_c ex_cur = Some (20, 0) /\
  fst (fst ex_put) = POk /\
  scan_next nat nat 4 9 ex_c ex_cur = [(30,0);(40,0);(50,0)] /\
  scan_next nat nat 4 9 (snd (fst ex_put)) (fix_cursor nat nat 4 2 (snd (fst ex_put)) (snd ex_put) ex_cur)
    = [(25,7);(30,0);(40,0);(50,0)].
Proof.
  split; [eexists; split; [reflexivity|split; reflexivity]|]. vm_compute. repeat split.
Qed.

(* ---- deletes ---- *)
Theorem C09_scan_stable_del :
  forall (K V : Type) (cmp : K -> K -> comparison) (IDXNUM PIVOT : nat),
    (forall a b c : K, cmp a b = Lt -> cmp b c = Eq -> cmp a c = Lt) ->
    (forall a b : K, cmp a b = CompOpp (cmp b a)) ->
    (forall a b c : K, cmp a b = Lt -> cmp b c = Lt -> cmp a c = Lt) ->
    1 <= PIVOT < IDXNUM ->
    forall k (c c' : chain K V) ch cur id p k0 v0 fuel,
    del_chain K V cmp c k = Some (c', ch) ->
    NodeInv K V cmp IDXNUM c -> ids_unique K V c ->
    node_cursor K V c cur id p -> c_skip cur = 0%Z -> cursor_read K V c cur = Some (k0, v0) ->
    S (length (flat K V c)) < fuel ->
    scan_next K V IDXNUM fuel c' (fix_cursor K V IDXNUM PIVOT c' ch cur) =
    s_del K V cmp (scan_next K V IDXNUM fuel c cur) k.
Proof.
  intros K V cmp IDXNUM PIVOT H1 H2 H3 H4 k c c' ch cur id p k0 v0 fuel Hd.
  apply (scan_stable_del K V cmp IDXNUM PIVOT H1 H2 H3 H4 k c c' ch cur id p k0 v0 fuel).
  apply (del_chain_effect K V cmp IDXNUM PIVOT H4). exact Hd.
Qed.
Print Assumptions C09_scan_stable_del.

(* iwkv_cursor_del: the record at slot i of node nid is removed (whichever cursor asked for it) *)
Theorem C09_scan_stable_cursor_del :
  forall (K V : Type) (cmp : K -> K -> comparison) (IDXNUM PIVOT : nat),
    (forall a b c : K, cmp a b = Lt -> cmp b c = Eq -> cmp a c = Lt) ->
    (forall a b : K, cmp a b = CompOpp (cmp b a)) ->
    (forall a b c : K, cmp a b = Lt -> cmp b c = Lt -> cmp a c = Lt) ->
    1 <= PIVOT < IDXNUM ->
    forall nid i (c c' : chain K V) ch cur id p k0 v0 fuel,
    del_by_id K V None c nid i = Some (c', ch) ->
    NodeInv K V cmp IDXNUM c -> ids_unique K V c ->
    node_cursor K V c cur id p -> c_skip cur = 0%Z -> cursor_read K V c cur = Some (k0, v0) ->
    S (length (flat K V c)) < fuel ->
    exists r k v, In (nid, r) c /\ nth_error r i = Some (k, v) /\
      scan_next K V IDXNUM fuel c' (fix_cursor K V IDXNUM PIVOT c' ch cur) =
      s_del K V cmp (scan_next K V IDXNUM fuel c cur) k.
Proof.
  intros K V cmp IDXNUM PIVOT H1 H2 H3 H4 nid i c c' ch cur id p k0 v0 fuel Hd Hinv Hu Hnc Hsk Hr Hf.
  destruct (del_by_id_effect K V cmp IDXNUM PIVOT H2 H4 c nid i c' ch Hd) as [r [k [v [Hin [Hn He]]]]].
  exists r, k, v. split; [exact Hin|]. split; [exact Hn|].
  exact (scan_stable_del K V cmp IDXNUM PIVOT H1 H2 H3 H4 k c c' ch cur id p k0 v0 fuel He Hinv Hu Hnc Hsk Hr Hf).
Qed.
Print Assumptions C09_scan_stable_cursor_del.

(* what the fix-up leaves behind, case by case (the four outcomes of StableDel_proofs.del_outcome) *)
Theorem C09_del_keeps_cursor :
  forall (K V : Type) (cmp : K -> K -> comparison) (IDXNUM PIVOT : nat),
    (forall a b c : K, cmp a b = Lt -> cmp b c = Eq -> cmp a c = Lt) ->
    (forall a b : K, cmp a b = CompOpp (cmp b a)) ->
    1 <= PIVOT < IDXNUM ->
    forall k (c c' : chain K V) ch cur id p k0 v0,
    del_chain K V cmp c k = Some (c', ch) -> NodeInv K V cmp IDXNUM c -> ids_unique K V c ->
    node_cursor K V c cur id p -> cursor_read K V c cur = Some (k0, v0) ->
    del_outcome K V cmp k c c' cur (fix_cursor K V IDXNUM PIVOT c' ch cur) k0 v0.
Proof.
  intros K V cmp IDXNUM PIVOT H1 H2 H4 k c c' ch cur id p k0 v0 Hd.
  apply (del_keeps_cursor K V cmp IDXNUM PIVOT H1 H2 H4 k c c' ch cur id p k0 v0).
  apply (del_chain_effect K V cmp IDXNUM PIVOT H4). exact Hd.
Qed.
Print Assumptions C09_del_keeps_cursor.

(* Non-vacuity: the cursor stands on the only record of the middle node; deleting that key unlinks the node, the
   cursor moves to the first record of the next node with the marker set, and the remaining scan is unchanged. *)
Definition exd_c : chain nat nat := [(1, [(10,0);(20,0)]); (2, [(30,0)]); (3, [(40,0);(50,0)])].
Definition exd_cur : cursor := at_node nat nat [(1, [(10,0);(20,0)])] 2 [(30,0)] [(3, [(40,0);(50,0)])] 0 PNone.
Example C09_scan_stable_del_example :
  node_cursor nat nat exd_c exd_cur 2 0 /\ cursor_read nat nat exd_c exd_cur = Some (30, 0) /\
  match del_chain nat nat Nat.compare exd_c 30 with
  | Some (c', ch) =>
      c' = [(1, [(10,0);(20,0)]); (3, [(40,0);(50,0)])] /\
      c_skip (fix_cursor nat nat 4 2 c' ch exd_cur) = 1%Z /\
      scan_next nat nat 4 9 c' (fix_cursor nat nat 4 2 c' ch exd_cur) = [(40,0);(50,0)] /\
      scan_next nat nat 4 9 exd_c exd_cur = [(40,0);(50,0)]
  | None => False
  end.
Proof.
  split; [eexists; split; [reflexivity|split; reflexivity]|]. vm_compute. repeat split.
Qed.

(* ---- every reachable state of the API-level model (KV/Inst.v, the model compared with the implementation) ---- *)
Theorem C09_db_inv_reachable_bytes :
  forall ops : list dbop, DbInv plain (fold_left db_step ops (db_empty plain)).
Proof. exact (db_inv_reachable plain plain_cmp_lt_eq plain_cmp_antisym plain_cmp_trans). Qed.
Print Assumptions C09_db_inv_reachable_bytes.

Theorem C09_db_inv_reachable_intkeys :
  forall ops : list dbop, DbInv vnummode (fold_left db_step ops (db_empty vnummode)).
Proof. exact (db_inv_reachable vnummode vnum_cmp_lt_eq vnum_cmp_antisym vnum_cmp_trans). Qed.
Print Assumptions C09_db_inv_reachable_intkeys.

(* scan stability in every reachable state, byte keys: a successful put through the API; the cursor in `slot` stands on
   record (k0, v0); what that cursor still has to deliver afterwards is what it had to deliver before, plus the new
   record iff it lies ahead *)
Theorem C09_db_scan_stable_put_bytes :
  forall (ops : list dbop) k comp v flags ph d' slot k0 v0 fuel,
    let d := fold_left db_step ops (db_empty plain) in
    db_put d k comp v flags ph = (ROk, d') -> on_record d slot k0 v0 ->
    S (length (flat key value (d_chain d))) < fuel ->
    exists ek nv, eff_key plain k comp = (ROk, ek) /\
      (s_get key value (cmp_of plain) (flat key value (d_chain d)) ek = None -> nv = v) /\
      rest_of_scan d' slot fuel =
      match cmp_of plain k0 ek with
      | Lt => s_put key value (cmp_of plain) (rest_of_scan d slot fuel) ek nv
      | _ => rest_of_scan d slot fuel
      end.
Proof.
  intros ops k comp v flags ph d' slot k0 v0 fuel d.
  apply (db_scan_stable_put plain plain_cmp_lt_eq plain_cmp_antisym plain_cmp_trans).
  apply C09_db_inv_reachable_bytes.
Qed.
Print Assumptions C09_db_scan_stable_put_bytes.

Theorem C09_db_scan_stable_del_bytes :
  forall (ops : list dbop) k comp d' slot k0 v0 fuel,
    let d := fold_left db_step ops (db_empty plain) in
    db_del d k comp = (ROk, d') -> on_record d slot k0 v0 ->
    S (length (flat key value (d_chain d))) < fuel ->
    exists ek, eff_key plain k comp = (ROk, ek) /\
      rest_of_scan d' slot fuel = s_del key value (cmp_of plain) (rest_of_scan d slot fuel) ek.
Proof.
  intros ops k comp d' slot k0 v0 fuel d.
  apply (db_scan_stable_del plain plain_cmp_lt_eq plain_cmp_antisym plain_cmp_trans).
  apply C09_db_inv_reachable_bytes.
Qed.
Print Assumptions C09_db_scan_stable_del_bytes.

Theorem C09_db_scan_stable_cdel_bytes :
  forall (ops : list dbop) dslot d' slot k0 v0 fuel,
    let d := fold_left db_step ops (db_empty plain) in
    db_cdel d dslot = (ROk, d') -> on_record d slot k0 v0 ->
    S (length (flat key value (d_chain d))) < fuel ->
    exists dk, rest_of_scan d' slot fuel = s_del key value (cmp_of plain) (rest_of_scan d slot fuel) dk.
Proof.
  intros ops dslot d' slot k0 v0 fuel d.
  apply (db_scan_stable_cdel plain plain_cmp_lt_eq plain_cmp_antisym plain_cmp_trans).
  apply C09_db_inv_reachable_bytes.
Qed.
Print Assumptions C09_db_scan_stable_cdel_bytes.

(* the same three for integer-key databases *)
Theorem C09_db_scan_stable_intkeys :
  forall (ops : list dbop) slot k0 v0 fuel,
    let d := fold_left db_step ops (db_empty vnummode) in
    on_record d slot k0 v0 -> S (length (flat key value (d_chain d))) < fuel ->
    (forall k comp v flags ph d', db_put d k comp v flags ph = (ROk, d') ->
       exists ek nv, eff_key vnummode k comp = (ROk, ek) /\
         rest_of_scan d' slot fuel =
         match cmp_of vnummode k0 ek with
         | Lt => s_put key value (cmp_of vnummode) (rest_of_scan d slot fuel) ek nv
         | _ => rest_of_scan d slot fuel
         end) /\
    (forall k comp d', db_del d k comp = (ROk, d') ->
       exists ek, rest_of_scan d' slot fuel = s_del key value (cmp_of vnummode) (rest_of_scan d slot fuel) ek) /\
    (forall dslot d', db_cdel d dslot = (ROk, d') ->
       exists dk, rest_of_scan d' slot fuel = s_del key value (cmp_of vnummode) (rest_of_scan d slot fuel) dk).
Proof.
  intros ops slot k0 v0 fuel d Hon Hf.
  pose proof (C09_db_inv_reachable_intkeys ops) as Hinv. fold d in Hinv.
  split; [|split].
  - intros k comp v flags ph d' Hp.
    destruct (db_scan_stable_put vnummode vnum_cmp_lt_eq vnum_cmp_antisym vnum_cmp_trans d k comp v flags ph d' slot k0 v0 fuel Hinv Hp Hon Hf)
      as [ek [nv [H1 [_ H3]]]]. exists ek, nv. split; assumption.
  - intros k comp d' Hp.
    destruct (db_scan_stable_del vnummode vnum_cmp_lt_eq vnum_cmp_antisym vnum_cmp_trans d k comp d' slot k0 v0 fuel Hinv Hp Hon Hf)
      as [ek [_ H2]]. exists ek. exact H2.
  - intros dslot d' Hp.
    exact (db_scan_stable_cdel vnummode vnum_cmp_lt_eq vnum_cmp_antisym vnum_cmp_trans d dslot d' slot k0 v0 fuel Hinv Hp Hon Hf).
Qed.
Print Assumptions C09_db_scan_stable_intkeys.

(* ---- the backward direction ---- *)
Theorem C09_scan_prev_stable_put :
  forall (K V : Type) (cmp : K -> K -> comparison) (IDXNUM PIVOT : nat) (upd : V -> V -> option V),
    (forall a b c : K, cmp a b = Lt -> cmp b c = Eq -> cmp a c = Lt) ->
    (forall a b : K, cmp a b = CompOpp (cmp b a)) ->
    (forall a b c : K, cmp a b = Lt -> cmp b c = Lt -> cmp a c = Lt) ->
    1 <= PIVOT < IDXNUM ->
    forall fresh (c : chain K V) k v noover newok c' ch cur id p k0 v0 fuel,
    NodeInv K V cmp IDXNUM c -> ids_unique K V c -> ~ In fresh (map fst c) ->
    put_chain K V cmp IDXNUM PIVOT upd fresh c k v noover newok = (POk, c', ch) ->
    node_cursor K V c cur id p -> c_skip cur = 0%Z -> cursor_read K V c cur = Some (k0, v0) ->
    S (length (flat K V c)) < fuel ->
    let cur' := fix_cursor K V IDXNUM PIVOT c' ch cur in
    exists nv, (s_get K V cmp (flat K V c) k = None -> nv = v) /\
      rev (scan_prev K V IDXNUM fuel c' cur') =
      match cmp k k0 with
      | Lt => s_put K V cmp (rev (scan_prev K V IDXNUM fuel c cur)) k nv
      | _ => rev (scan_prev K V IDXNUM fuel c cur)
      end.
Proof. exact scan_prev_stable_put. Qed.
Print Assumptions C09_scan_prev_stable_put.

Theorem C09_scan_prev_stable_del :
  forall (K V : Type) (cmp : K -> K -> comparison) (IDXNUM PIVOT : nat),
    (forall a b c : K, cmp a b = Lt -> cmp b c = Eq -> cmp a c = Lt) ->
    (forall a b : K, cmp a b = CompOpp (cmp b a)) ->
    (forall a b c : K, cmp a b = Lt -> cmp b c = Lt -> cmp a c = Lt) ->
    1 <= PIVOT < IDXNUM ->
    forall k (c c' : chain K V) ch cur id p k0 v0 fuel,
    del_chain K V cmp c k = Some (c', ch) ->
    NodeInv K V cmp IDXNUM c -> ids_unique K V c ->
    node_cursor K V c cur id p -> c_skip cur = 0%Z -> cursor_read K V c cur = Some (k0, v0) ->
    S (length (flat K V c)) < fuel ->
    rev (scan_prev K V IDXNUM fuel c' (fix_cursor K V IDXNUM PIVOT c' ch cur)) =
    s_del K V cmp (rev (scan_prev K V IDXNUM fuel c cur)) k.
Proof.
  intros K V cmp IDXNUM PIVOT H1 H2 H3 H4 k c c' ch cur id p k0 v0 fuel Hd.
  apply (scan_prev_stable_del K V cmp IDXNUM PIVOT H1 H2 H3 H4 k c c' ch cur id p k0 v0 fuel).
  apply (del_chain_effect K V cmp IDXNUM PIVOT H4). exact Hd.
Qed.
Print Assumptions C09_scan_prev_stable_del.

(* every reachable state, byte keys, backward direction: put, delete by key, delete through any cursor *)
Theorem C09_db_rscan_stable_bytes :
  forall (ops : list dbop) slot k0 v0 fuel,
    let d := fold_left db_step ops (db_empty plain) in
    on_record d slot k0 v0 -> S (length (flat key value (d_chain d))) < fuel ->
    (forall k comp v flags ph d', db_put d k comp v flags ph = (ROk, d') ->
       exists ek nv, eff_key plain k comp = (ROk, ek) /\
         rest_of_rscan d' slot fuel =
         match cmp_of plain ek k0 with
         | Lt => s_put key value (cmp_of plain) (rest_of_rscan d slot fuel) ek nv
         | _ => rest_of_rscan d slot fuel
         end) /\
    (forall k comp d', db_del d k comp = (ROk, d') ->
       exists ek, eff_key plain k comp = (ROk, ek) /\
                  rest_of_rscan d' slot fuel = s_del key value (cmp_of plain) (rest_of_rscan d slot fuel) ek) /\
    (forall dslot d', db_cdel d dslot = (ROk, d') ->
       exists dk, rest_of_rscan d' slot fuel = s_del key value (cmp_of plain) (rest_of_rscan d slot fuel) dk).
Proof.
  intros ops slot k0 v0 fuel d Hon Hf.
  pose proof (C09_db_inv_reachable_bytes ops) as Hinv. fold d in Hinv.
  split; [|split].
  - intros k comp v flags ph d' Hp.
    exact (db_rscan_stable_put plain plain_cmp_lt_eq plain_cmp_antisym plain_cmp_trans d k comp v flags ph d' slot k0 v0 fuel Hinv Hp Hon Hf).
  - intros k comp d' Hp.
    exact (db_rscan_stable_del plain plain_cmp_lt_eq plain_cmp_antisym plain_cmp_trans d k comp d' slot k0 v0 fuel Hinv Hp Hon Hf).
  - intros dslot d' Hp.
    exact (db_rscan_stable_cdel plain plain_cmp_lt_eq plain_cmp_antisym plain_cmp_trans d dslot d' slot k0 v0 fuel Hinv Hp Hon Hf).
Qed.
Print Assumptions C09_db_rscan_stable_bytes.

(* Non-vacuity at this level: 40 puts (two splits), a cursor positioned by EQ stands on a record in a reachable state *)
Definition exdb_ops : list dbop :=
  map (fun i => OPut [Z.of_nat (100 + i)] 0 [Z.of_nat i] 0 0) (seq 0 40) ++ [OCopen 1 5 (Some ([120%Z], 0%Z))].
Example C09_db_on_record_example :
  exists k0 v0, on_record (fold_left db_step exdb_ops (db_empty plain)) 1 k0 v0 /\
                length (d_chain (fold_left db_step exdb_ops (db_empty plain))) = 2%nat.
Proof.
  exists ([120%Z], 0%Z), [20%Z]. split; [|vm_compute; reflexivity].
  exists {| c_cn := Some {| cc_node := CnNode 1; cc_pnum := 32; cc_p0 := Some 2; cc_n0 := None |};
            c_pos := 11; c_skip := 0; c_pend := PNone |}, 1, 11.
  split; [vm_compute; reflexivity|].
  split; [eexists; split; [reflexivity|split; vm_compute; reflexivity]|]. split; vm_compute; reflexivity.
Qed.

(* Non-vacuity: a cursor on slot 3 of a node; a record inserted at slot 1 moves it to slot 4, same record. *)
Example C09_insert_example :
  nth_error (insert_at nat nat [(9,0);(8,0);(7,0);(6,0);(5,0)] 1 (88, 1)) 4 = nth_error [(9,0);(8,0);(7,0);(6,0);(5,0)] 3.
Proof. reflexivity. Qed.
