(* C09 - iterating while the store changes.  Statements only.
   The model (KV/Cursor.v) carries every cursor fix-up loop of iwkv.c (after the repairs recorded in
   known_findings.json) and is compared with the implementation's cursor bookkeeping (cnpos, skip_next, copy) after
   every mutation by the correspondence check.  PROVED here are the list-level facts that make those fix-ups right:
   under the index adjustment each loop applies, a cursor keeps designating the same record.  NOT proved
   (stated here as the open goal): `scan_stable` - for every interleaving of cursor moves with puts/deletes, the rest
   of the scan is the old rest minus deleted keys plus inserted keys ahead; and `fresh_inv` - no cursor copy is stale. *)
Require Import List ZArith Lia. Import ListNotations.
Require Import IW.KV.Node IW.KV.Cursor IW.KV.Cursor_proofs.

(* _sblk_addkv/_sblk_addkv2: `if (cnpos >= idx) cnpos++` keeps the cursor on its record, for every node content,
   insertion slot and cursor slot *)
Theorem C09_insert_keeps_record_partial :
  forall (K V : Type) (r : recs K V) (idx p : nat) (e : K * V), p < length r ->
    nth_error (insert_at K V r idx e) (if Nat.leb idx p then S p else p) = nth_error r p.
Proof.
  intros K V r idx p e Hp. destruct (insert_keeps_record K V 1 (le_n 1) r idx p e) as [H|H]; [exact H|lia].
Qed.
Print Assumptions C09_insert_keeps_record_partial.

(* _sblk_rmkv: `else if (cnpos > idx) cnpos--` keeps the cursor on its record *)
Theorem C09_remove_keeps_record_partial :
  forall (K V : Type) (r : recs K V) (idx p : nat), p <> idx ->
    nth_error (remove_at K V r idx) (if Nat.ltb idx p then p - 1 else p) = nth_error r p.
Proof. intros K V. exact (remove_keeps_record K V 1 (le_n 1)). Qed.
Print Assumptions C09_remove_keeps_record_partial.

(* _sblk_rmkv, cursor on the removed slot: the slot now holds the successor (skip_next = 1: the next NEXT must not move) *)
Theorem C09_remove_current_successor_partial :
  forall (K V : Type) (r : recs K V) (idx : nat),
    nth_error (remove_at K V r idx) idx = nth_error r (S idx).
Proof. exact remove_current_successor. Qed.
Print Assumptions C09_remove_current_successor_partial.

(* _lx_split_addkv: a cursor at or behind the pivot finds its record in the new node at cnpos - pivot, a cursor before
   the pivot finds it in the kept part at the same slot *)
Theorem C09_split_keeps_record_partial :
  forall (K V : Type) (PIVOT : nat) (r : recs K V) (p : nat),
    (PIVOT <= p -> nth_error (skipn PIVOT r) (p - PIVOT) = nth_error r p) /\
    (p < PIVOT -> nth_error (firstn PIVOT r) p = nth_error r p).
Proof.
  intros K V PIVOT r p. split.
  - exact (split_keeps_record_moved K V 1 PIVOT (le_n 1) r p).
  - exact (split_keeps_record_kept K V 1 PIVOT (le_n 1) r p).
Qed.
Print Assumptions C09_split_keeps_record_partial.

(* ---- the same at cursor level: the fix-up applied by the model (which is compared with the implementation's
        cnpos / skip_next / copy after every mutation) makes the cursor read the record it read before ---- *)
Theorem C09_fix_insert_keeps :
  forall (K V : Type) (IDXNUM : nat) (c' : chain K V) cur id p idx e r pv nx,
    positioned cur id p -> p < length r ->
    find_node K V None c' id = Some (pv, insert_at K V r idx e, nx) ->
    cursor_read K V c' (fix_insert K V IDXNUM c' id idx cur) = nth_error r p.
Proof. exact fix_insert_keeps. Qed.
Print Assumptions C09_fix_insert_keeps.

Theorem C09_fix_remove_keeps :
  forall (K V : Type) (IDXNUM : nat) (c' : chain K V) cur id p idx r pv nx,
    positioned cur id p -> p < length r -> idx < length r -> p <> idx ->
    find_node K V None c' id = Some (pv, remove_at K V r idx, nx) ->
    cursor_read K V c' (fix_remove K V IDXNUM c' id idx cur) = nth_error r p.
Proof. exact fix_remove_keeps. Qed.
Print Assumptions C09_fix_remove_keeps.

(* deleting the record under the cursor: the cursor reads the successor and carries skip_next = 1, so the next NEXT does
   not move and the successor is visited exactly once *)
Theorem C09_fix_remove_current :
  forall (K V : Type) (IDXNUM : nat) (c' : chain K V) cur id p r pv nx,
    positioned cur id p -> S p < length r ->
    find_node K V None c' id = Some (pv, remove_at K V r p, nx) ->
    let cur' := fix_remove K V IDXNUM c' id p cur in
    cursor_read K V c' cur' = nth_error r (S p) /\ c_skip cur' = 1%Z.
Proof. exact fix_remove_current. Qed.
Print Assumptions C09_fix_remove_current.

(* Non-vacuity: a cursor on slot 3 of a node; a record inserted at slot 1 moves it to slot 4, same record. *)
Example C09_insert_example :
  nth_error (insert_at nat nat [(9,0);(8,0);(7,0);(6,0);(5,0)] 1 (88, 1)) 4 = nth_error [(9,0);(8,0);(7,0);(6,0);(5,0)] 3.
Proof. reflexivity. Qed.
