
(** val negb : bool -> bool **)

let negb = function
| true -> false
| false -> true

type nat =
| O
| S of nat

(** val fst : ('a1 * 'a2) -> 'a1 **)

let fst = function
| (x, _) -> x

(** val snd : ('a1 * 'a2) -> 'a2 **)

let snd = function
| (_, y) -> y

(** val length : 'a1 list -> nat **)

let rec length = function
| [] -> O
| _ :: l' -> S (length l')

(** val app : 'a1 list -> 'a1 list -> 'a1 list **)

let rec app l m =
  match l with
  | [] -> m
  | a :: l1 -> a :: (app l1 m)

type comparison =
| Eq
| Lt
| Gt

(** val compOpp : comparison -> comparison **)

let compOpp = function
| Eq -> Eq
| Lt -> Gt
| Gt -> Lt

module Coq__1 = struct
 (** val add : nat -> nat -> nat **)
 let rec add n0 m =
   match n0 with
   | O -> m
   | S p -> S (add p m)
end
include Coq__1

type positive =
| XI of positive
| XO of positive
| XH

type n =
| N0
| Npos of positive

type z =
| Z0
| Zpos of positive
| Zneg of positive

(** val eqb : bool -> bool -> bool **)

let eqb b1 b2 =
  if b1 then b2 else if b2 then false else true

module Nat =
 struct
  (** val eqb : nat -> nat -> bool **)

  let rec eqb n0 m =
    match n0 with
    | O -> (match m with
            | O -> true
            | S _ -> false)
    | S n' -> (match m with
               | O -> false
               | S m' -> eqb n' m')

  (** val min : nat -> nat -> nat **)

  let rec min n0 m =
    match n0 with
    | O -> O
    | S n' -> (match m with
               | O -> O
               | S m' -> S (min n' m'))
 end

module Pos =
 struct
  (** val succ : positive -> positive **)

  let rec succ = function
  | XI p -> XO (succ p)
  | XO p -> XI p
  | XH -> XO XH

  (** val add : positive -> positive -> positive **)

  let rec add x y =
    match x with
    | XI p ->
      (match y with
       | XI q -> XO (add_carry p q)
       | XO q -> XI (add p q)
       | XH -> XO (succ p))
    | XO p ->
      (match y with
       | XI q -> XI (add p q)
       | XO q -> XO (add p q)
       | XH -> XI p)
    | XH -> (match y with
             | XI q -> XO (succ q)
             | XO q -> XI q
             | XH -> XO XH)

  (** val add_carry : positive -> positive -> positive **)

  and add_carry x y =
    match x with
    | XI p ->
      (match y with
       | XI q -> XI (add_carry p q)
       | XO q -> XO (add_carry p q)
       | XH -> XI (succ p))
    | XO p ->
      (match y with
       | XI q -> XO (add_carry p q)
       | XO q -> XI (add p q)
       | XH -> XO (succ p))
    | XH ->
      (match y with
       | XI q -> XI (succ q)
       | XO q -> XO (succ q)
       | XH -> XI XH)

  (** val pred_double : positive -> positive **)

  let rec pred_double = function
  | XI p -> XI (XO p)
  | XO p -> XI (pred_double p)
  | XH -> XH

  (** val pred_N : positive -> n **)

  let pred_N = function
  | XI p -> Npos (XO p)
  | XO p -> Npos (pred_double p)
  | XH -> N0

  (** val mul : positive -> positive -> positive **)

  let rec mul x y =
    match x with
    | XI p -> add y (XO (mul p y))
    | XO p -> XO (mul p y)
    | XH -> y

  (** val iter : ('a1 -> 'a1) -> 'a1 -> positive -> 'a1 **)

  let rec iter f x = function
  | XI n' -> f (iter f (iter f x n') n')
  | XO n' -> iter f (iter f x n') n'
  | XH -> f x

  (** val compare_cont : comparison -> positive -> positive -> comparison **)

  let rec compare_cont r x y =
    match x with
    | XI p ->
      (match y with
       | XI q -> compare_cont r p q
       | XO q -> compare_cont Gt p q
       | XH -> Gt)
    | XO p ->
      (match y with
       | XI q -> compare_cont Lt p q
       | XO q -> compare_cont r p q
       | XH -> Gt)
    | XH -> (match y with
             | XH -> r
             | _ -> Lt)

  (** val compare : positive -> positive -> comparison **)

  let compare =
    compare_cont Eq

  (** val eqb : positive -> positive -> bool **)

  let rec eqb p q =
    match p with
    | XI p0 -> (match q with
                | XI q0 -> eqb p0 q0
                | _ -> false)
    | XO p0 -> (match q with
                | XO q0 -> eqb p0 q0
                | _ -> false)
    | XH -> (match q with
             | XH -> true
             | _ -> false)

  (** val coq_Nsucc_double : n -> n **)

  let coq_Nsucc_double = function
  | N0 -> Npos XH
  | Npos p -> Npos (XI p)

  (** val coq_Ndouble : n -> n **)

  let coq_Ndouble = function
  | N0 -> N0
  | Npos p -> Npos (XO p)

  (** val coq_lor : positive -> positive -> positive **)

  let rec coq_lor p q =
    match p with
    | XI p0 ->
      (match q with
       | XI q0 -> XI (coq_lor p0 q0)
       | XO q0 -> XI (coq_lor p0 q0)
       | XH -> p)
    | XO p0 ->
      (match q with
       | XI q0 -> XI (coq_lor p0 q0)
       | XO q0 -> XO (coq_lor p0 q0)
       | XH -> XI p0)
    | XH -> (match q with
             | XO q0 -> XI q0
             | _ -> q)

  (** val coq_land : positive -> positive -> n **)

  let rec coq_land p q =
    match p with
    | XI p0 ->
      (match q with
       | XI q0 -> coq_Nsucc_double (coq_land p0 q0)
       | XO q0 -> coq_Ndouble (coq_land p0 q0)
       | XH -> Npos XH)
    | XO p0 ->
      (match q with
       | XI q0 -> coq_Ndouble (coq_land p0 q0)
       | XO q0 -> coq_Ndouble (coq_land p0 q0)
       | XH -> N0)
    | XH -> (match q with
             | XO _ -> N0
             | _ -> Npos XH)

  (** val ldiff : positive -> positive -> n **)

  let rec ldiff p q =
    match p with
    | XI p0 ->
      (match q with
       | XI q0 -> coq_Ndouble (ldiff p0 q0)
       | XO q0 -> coq_Nsucc_double (ldiff p0 q0)
       | XH -> Npos (XO p0))
    | XO p0 ->
      (match q with
       | XI q0 -> coq_Ndouble (ldiff p0 q0)
       | XO q0 -> coq_Ndouble (ldiff p0 q0)
       | XH -> Npos p)
    | XH -> (match q with
             | XO _ -> Npos XH
             | _ -> N0)

  (** val testbit : positive -> n -> bool **)

  let rec testbit p n0 =
    match p with
    | XI p0 -> (match n0 with
                | N0 -> true
                | Npos n1 -> testbit p0 (pred_N n1))
    | XO p0 -> (match n0 with
                | N0 -> false
                | Npos n1 -> testbit p0 (pred_N n1))
    | XH -> (match n0 with
             | N0 -> true
             | Npos _ -> false)

  (** val iter_op : ('a1 -> 'a1 -> 'a1) -> positive -> 'a1 -> 'a1 **)

  let rec iter_op op p a =
    match p with
    | XI p0 -> op a (iter_op op p0 (op a a))
    | XO p0 -> iter_op op p0 (op a a)
    | XH -> a

  (** val to_nat : positive -> nat **)

  let to_nat x =
    iter_op Coq__1.add x (S O)

  (** val of_succ_nat : nat -> positive **)

  let rec of_succ_nat = function
  | O -> XH
  | S x -> succ (of_succ_nat x)
 end

module N =
 struct
  (** val succ_pos : n -> positive **)

  let succ_pos = function
  | N0 -> XH
  | Npos p -> Pos.succ p

  (** val coq_lor : n -> n -> n **)

  let coq_lor n0 m =
    match n0 with
    | N0 -> m
    | Npos p -> (match m with
                 | N0 -> n0
                 | Npos q -> Npos (Pos.coq_lor p q))

  (** val ldiff : n -> n -> n **)

  let ldiff n0 m =
    match n0 with
    | N0 -> N0
    | Npos p -> (match m with
                 | N0 -> n0
                 | Npos q -> Pos.ldiff p q)

  (** val testbit : n -> n -> bool **)

  let testbit a n0 =
    match a with
    | N0 -> false
    | Npos p -> Pos.testbit p n0
 end

module Z =
 struct
  (** val double : z -> z **)

  let double = function
  | Z0 -> Z0
  | Zpos p -> Zpos (XO p)
  | Zneg p -> Zneg (XO p)

  (** val succ_double : z -> z **)

  let succ_double = function
  | Z0 -> Zpos XH
  | Zpos p -> Zpos (XI p)
  | Zneg p -> Zneg (Pos.pred_double p)

  (** val pred_double : z -> z **)

  let pred_double = function
  | Z0 -> Zneg XH
  | Zpos p -> Zpos (Pos.pred_double p)
  | Zneg p -> Zneg (XI p)

  (** val pos_sub : positive -> positive -> z **)

  let rec pos_sub x y =
    match x with
    | XI p ->
      (match y with
       | XI q -> double (pos_sub p q)
       | XO q -> succ_double (pos_sub p q)
       | XH -> Zpos (XO p))
    | XO p ->
      (match y with
       | XI q -> pred_double (pos_sub p q)
       | XO q -> double (pos_sub p q)
       | XH -> Zpos (Pos.pred_double p))
    | XH ->
      (match y with
       | XI q -> Zneg (XO q)
       | XO q -> Zneg (Pos.pred_double q)
       | XH -> Z0)

  (** val add : z -> z -> z **)

  let add x y =
    match x with
    | Z0 -> y
    | Zpos x' ->
      (match y with
       | Z0 -> x
       | Zpos y' -> Zpos (Pos.add x' y')
       | Zneg y' -> pos_sub x' y')
    | Zneg x' ->
      (match y with
       | Z0 -> x
       | Zpos y' -> pos_sub y' x'
       | Zneg y' -> Zneg (Pos.add x' y'))

  (** val opp : z -> z **)

  let opp = function
  | Z0 -> Z0
  | Zpos x0 -> Zneg x0
  | Zneg x0 -> Zpos x0

  (** val pred : z -> z **)

  let pred x =
    add x (Zneg XH)

  (** val sub : z -> z -> z **)

  let sub m n0 =
    add m (opp n0)

  (** val mul : z -> z -> z **)

  let mul x y =
    match x with
    | Z0 -> Z0
    | Zpos x' ->
      (match y with
       | Z0 -> Z0
       | Zpos y' -> Zpos (Pos.mul x' y')
       | Zneg y' -> Zneg (Pos.mul x' y'))
    | Zneg x' ->
      (match y with
       | Z0 -> Z0
       | Zpos y' -> Zneg (Pos.mul x' y')
       | Zneg y' -> Zpos (Pos.mul x' y'))

  (** val pow_pos : z -> positive -> z **)

  let pow_pos z0 =
    Pos.iter (mul z0) (Zpos XH)

  (** val pow : z -> z -> z **)

  let pow x = function
  | Z0 -> Zpos XH
  | Zpos p -> pow_pos x p
  | Zneg _ -> Z0

  (** val compare : z -> z -> comparison **)

  let compare x y =
    match x with
    | Z0 -> (match y with
             | Z0 -> Eq
             | Zpos _ -> Lt
             | Zneg _ -> Gt)
    | Zpos x' -> (match y with
                  | Zpos y' -> Pos.compare x' y'
                  | _ -> Gt)
    | Zneg x' ->
      (match y with
       | Zneg y' -> compOpp (Pos.compare x' y')
       | _ -> Lt)

  (** val leb : z -> z -> bool **)

  let leb x y =
    match compare x y with
    | Gt -> false
    | _ -> true

  (** val ltb : z -> z -> bool **)

  let ltb x y =
    match compare x y with
    | Lt -> true
    | _ -> false

  (** val geb : z -> z -> bool **)

  let geb x y =
    match compare x y with
    | Lt -> false
    | _ -> true

  (** val gtb : z -> z -> bool **)

  let gtb x y =
    match compare x y with
    | Gt -> true
    | _ -> false

  (** val eqb : z -> z -> bool **)

  let eqb x y =
    match x with
    | Z0 -> (match y with
             | Z0 -> true
             | _ -> false)
    | Zpos p -> (match y with
                 | Zpos q -> Pos.eqb p q
                 | _ -> false)
    | Zneg p -> (match y with
                 | Zneg q -> Pos.eqb p q
                 | _ -> false)

  (** val max : z -> z -> z **)

  let max n0 m =
    match compare n0 m with
    | Lt -> m
    | _ -> n0

  (** val min : z -> z -> z **)

  let min n0 m =
    match compare n0 m with
    | Gt -> m
    | _ -> n0

  (** val to_nat : z -> nat **)

  let to_nat = function
  | Zpos p -> Pos.to_nat p
  | _ -> O

  (** val of_nat : nat -> z **)

  let of_nat = function
  | O -> Z0
  | S n1 -> Zpos (Pos.of_succ_nat n1)

  (** val of_N : n -> z **)

  let of_N = function
  | N0 -> Z0
  | Npos p -> Zpos p

  (** val pos_div_eucl : positive -> z -> z * z **)

  let rec pos_div_eucl a b =
    match a with
    | XI a' ->
      let (q, r) = pos_div_eucl a' b in
      let r' = add (mul (Zpos (XO XH)) r) (Zpos XH) in
      if ltb r' b
      then ((mul (Zpos (XO XH)) q), r')
      else ((add (mul (Zpos (XO XH)) q) (Zpos XH)), (sub r' b))
    | XO a' ->
      let (q, r) = pos_div_eucl a' b in
      let r' = mul (Zpos (XO XH)) r in
      if ltb r' b
      then ((mul (Zpos (XO XH)) q), r')
      else ((add (mul (Zpos (XO XH)) q) (Zpos XH)), (sub r' b))
    | XH -> if leb (Zpos (XO XH)) b then (Z0, (Zpos XH)) else ((Zpos XH), Z0)

  (** val div_eucl : z -> z -> z * z **)

  let div_eucl a b =
    match a with
    | Z0 -> (Z0, Z0)
    | Zpos a' ->
      (match b with
       | Z0 -> (Z0, a)
       | Zpos _ -> pos_div_eucl a' b
       | Zneg b' ->
         let (q, r) = pos_div_eucl a' (Zpos b') in
         (match r with
          | Z0 -> ((opp q), Z0)
          | _ -> ((opp (add q (Zpos XH))), (add b r))))
    | Zneg a' ->
      (match b with
       | Z0 -> (Z0, a)
       | Zpos _ ->
         let (q, r) = pos_div_eucl a' b in
         (match r with
          | Z0 -> ((opp q), Z0)
          | _ -> ((opp (add q (Zpos XH))), (sub b r)))
       | Zneg b' -> let (q, r) = pos_div_eucl a' (Zpos b') in (q, (opp r)))

  (** val div : z -> z -> z **)

  let div a b =
    let (q, _) = div_eucl a b in q

  (** val modulo : z -> z -> z **)

  let modulo a b =
    let (_, r) = div_eucl a b in r

  (** val odd : z -> bool **)

  let odd = function
  | Z0 -> false
  | Zpos p -> (match p with
               | XO _ -> false
               | _ -> true)
  | Zneg p -> (match p with
               | XO _ -> false
               | _ -> true)

  (** val testbit : z -> z -> bool **)

  let testbit a = function
  | Z0 -> odd a
  | Zpos p ->
    (match a with
     | Z0 -> false
     | Zpos a0 -> Pos.testbit a0 (Npos p)
     | Zneg a0 -> negb (N.testbit (Pos.pred_N a0) (Npos p)))
  | Zneg _ -> false

  (** val coq_land : z -> z -> z **)

  let coq_land a b =
    match a with
    | Z0 -> Z0
    | Zpos a0 ->
      (match b with
       | Z0 -> Z0
       | Zpos b0 -> of_N (Pos.coq_land a0 b0)
       | Zneg b0 -> of_N (N.ldiff (Npos a0) (Pos.pred_N b0)))
    | Zneg a0 ->
      (match b with
       | Z0 -> Z0
       | Zpos b0 -> of_N (N.ldiff (Npos b0) (Pos.pred_N a0))
       | Zneg b0 ->
         Zneg (N.succ_pos (N.coq_lor (Pos.pred_N a0) (Pos.pred_N b0))))

  (** val lnot : z -> z **)

  let lnot a =
    pred (opp a)
 end

(** val tl : 'a1 list -> 'a1 list **)

let tl = function
| [] -> []
| _ :: m -> m

(** val last : 'a1 list -> 'a1 -> 'a1 **)

let rec last l d =
  match l with
  | [] -> d
  | a :: l0 -> (match l0 with
                | [] -> a
                | _ :: _ -> last l0 d)

(** val rev : 'a1 list -> 'a1 list **)

let rec rev = function
| [] -> []
| x :: l' -> app (rev l') (x :: [])

(** val concat : 'a1 list list -> 'a1 list **)

let rec concat = function
| [] -> []
| x :: l0 -> app x (concat l0)

(** val map : ('a1 -> 'a2) -> 'a1 list -> 'a2 list **)

let rec map f = function
| [] -> []
| a :: t -> (f a) :: (map f t)

(** val fold_right : ('a2 -> 'a1 -> 'a1) -> 'a1 -> 'a2 list -> 'a1 **)

let rec fold_right f a0 = function
| [] -> a0
| b :: t -> f b (fold_right f a0 t)

(** val existsb : ('a1 -> bool) -> 'a1 list -> bool **)

let rec existsb f = function
| [] -> false
| a :: l0 -> (||) (f a) (existsb f l0)

(** val forallb : ('a1 -> bool) -> 'a1 list -> bool **)

let rec forallb f = function
| [] -> true
| a :: l0 -> (&&) (f a) (forallb f l0)

(** val filter : ('a1 -> bool) -> 'a1 list -> 'a1 list **)

let rec filter f = function
| [] -> []
| x :: l0 -> if f x then x :: (filter f l0) else filter f l0

(** val combine : 'a1 list -> 'a2 list -> ('a1 * 'a2) list **)

let rec combine l l' =
  match l with
  | [] -> []
  | x :: tl0 ->
    (match l' with
     | [] -> []
     | y :: tl' -> (x, y) :: (combine tl0 tl'))

(** val firstn : nat -> 'a1 list -> 'a1 list **)

let rec firstn n0 l =
  match n0 with
  | O -> []
  | S n1 -> (match l with
             | [] -> []
             | a :: l0 -> a :: (firstn n1 l0))

(** val skipn : nat -> 'a1 list -> 'a1 list **)

let rec skipn n0 l =
  match n0 with
  | O -> l
  | S n1 -> (match l with
             | [] -> []
             | _ :: l0 -> skipn n1 l0)

(** val seq : nat -> nat -> nat list **)

let rec seq start = function
| O -> []
| S len0 -> start :: (seq (S start) len0)

(** val sw : z -> z -> z **)

let sw bits x =
  Z.sub
    (Z.modulo (Z.add x (Z.pow (Zpos (XO XH)) (Z.sub bits (Zpos XH))))
      (Z.pow (Zpos (XO XH)) bits))
    (Z.pow (Zpos (XO XH)) (Z.sub bits (Zpos XH)))

(** val read_vnum_loop : z list -> z -> z -> nat -> (z * nat) option **)

let rec read_vnum_loop buf base acc i =
  match buf with
  | [] -> None
  | b :: rest ->
    if Z.ltb b (Zpos (XO (XO (XO (XO (XO (XO (XO XH))))))))
    then Some ((Z.add acc (Z.mul base b)), (S i))
    else read_vnum_loop rest
           (Z.mul base (Zpos (XO (XO (XO (XO (XO (XO (XO XH)))))))))
           (Z.add acc
             (Z.mul base
               (Z.sub (Zpos (XI (XI (XI (XI (XI (XI (XI XH)))))))) b))) (S i)

(** val read_vnum : z list -> (z * nat) option **)

let read_vnum buf =
  read_vnum_loop buf (Zpos XH) Z0 O

(** val iWNUMBUF_SIZE : z **)

let iWNUMBUF_SIZE =
  Zpos (XO (XO (XO (XO (XO XH)))))

(** val iWFSM_CUSTOM_HDR_DATA_OFFSET : z **)

let iWFSM_CUSTOM_HDR_DATA_OFFSET =
  Zpos (XI (XO (XI (XI (XO (XO XH))))))

(** val iWKV_MAGIC : z **)

let iWKV_MAGIC =
  Zpos (XO (XI (XI (XO (XI (XI (XI (XO (XI (XI (XO (XI (XO (XI (XI (XO (XI
    (XI (XI (XO (XI (XI (XI (XO (XI (XO (XO (XI (XO (XI
    XH))))))))))))))))))))))))))))))

(** val iWDB_MAGIC : z **)

let iWDB_MAGIC =
  Zpos (XO (XI (XO (XO (XO (XI (XI (XO (XO (XO (XI (XO (XO (XI (XI (XO (XI
    (XI (XI (XO (XI (XI (XI (XO (XI (XO (XO (XI (XO (XI
    XH))))))))))))))))))))))))))))))

(** val iWKV_FSM_BPOW : z **)

let iWKV_FSM_BPOW =
  Zpos (XI (XI XH))

(** val kVHDRSZ : z **)

let kVHDRSZ =
  Zpos (XI (XI (XI (XI (XI (XI (XI XH)))))))

(** val pREFIX_KEY_LEN_V2 : z **)

let pREFIX_KEY_LEN_V2 =
  Zpos (XI (XI (XO (XO (XI (XI XH))))))

(** val sLEVELS : z **)

let sLEVELS =
  Zpos (XO (XO (XO (XI XH))))

(** val sBLK_LKLEN : z **)

let sBLK_LKLEN =
  Zpos (XI (XI (XO (XO (XI (XI XH))))))

(** val dB_SZ : z **)

let dB_SZ =
  Zpos (XO (XO (XO (XO (XO (XO (XO (XO XH))))))))

(** val sBLK_SZ : z **)

let sBLK_SZ =
  Zpos (XO (XO (XO (XO (XO (XO (XO (XO XH))))))))

(** val sBLK_PAGE_SBLK_NUM_V2 : z **)

let sBLK_PAGE_SBLK_NUM_V2 =
  Zpos (XO (XO (XO (XO XH))))

(** val sBLK_PAGE_SZ_V2 : z **)

let sBLK_PAGE_SZ_V2 =
  Zpos (XO (XO (XO (XO (XO (XO (XO (XO (XO (XO (XO (XO XH))))))))))))

(** val kVBLK_IDXNUM : z **)

let kVBLK_IDXNUM =
  Zpos (XO (XO (XO (XO (XO XH)))))

(** val kVBLK_INISZPOW : z **)

let kVBLK_INISZPOW =
  Zpos (XI (XO (XO XH)))

(** val kVBLK_HDRSZ : z **)

let kVBLK_HDRSZ =
  Zpos (XI XH)

(** val sOFF_FLAGS_U1 : z **)

let sOFF_FLAGS_U1 =
  Z0

(** val sOFF_LVL_U1 : z **)

let sOFF_LVL_U1 =
  Zpos XH

(** val sOFF_LKL_U1 : z **)

let sOFF_LKL_U1 =
  Zpos (XO XH)

(** val sOFF_PNUM_U1 : z **)

let sOFF_PNUM_U1 =
  Zpos (XI XH)

(** val sOFF_P0_U4 : z **)

let sOFF_P0_U4 =
  Zpos (XO (XO XH))

(** val sOFF_KBLK_U4 : z **)

let sOFF_KBLK_U4 =
  Zpos (XO (XO (XO XH)))

(** val sOFF_PI0_U1 : z **)

let sOFF_PI0_U1 =
  Zpos (XO (XO (XI XH)))

(** val sOFF_N0_U4 : z **)

let sOFF_N0_U4 =
  Zpos (XO (XO (XI (XI (XO XH)))))

(** val sOFF_BPOS_U1_V2 : z **)

let sOFF_BPOS_U1_V2 =
  Zpos (XO (XO (XI (XI (XO (XO (XO XH)))))))

(** val sOFF_LK_V2 : z **)

let sOFF_LK_V2 =
  Zpos (XI (XO (XI (XI (XO (XO (XO XH)))))))

(** val dOFF_MAGIC_U4 : z **)

let dOFF_MAGIC_U4 =
  Z0

(** val dOFF_DBFLG_U1 : z **)

let dOFF_DBFLG_U1 =
  Zpos (XO (XO XH))

(** val dOFF_NEXTDB_U4 : z **)

let dOFF_NEXTDB_U4 =
  Zpos (XI (XO (XO XH)))

(** val dOFF_P0_U4 : z **)

let dOFF_P0_U4 =
  Zpos (XI (XO (XI XH)))

(** val dOFF_N0_U4 : z **)

let dOFF_N0_U4 =
  Zpos (XI (XO (XO (XO XH))))

(** val dOFF_C0_U4 : z **)

let dOFF_C0_U4 =
  Zpos (XI (XO (XO (XO (XI (XI XH))))))

(** val dOFF_METABLK_U4 : z **)

let dOFF_METABLK_U4 =
  Zpos (XI (XO (XO (XO (XI (XO (XI XH)))))))

(** val dOFF_METABLKN_U4 : z **)

let dOFF_METABLKN_U4 =
  Zpos (XI (XO (XI (XO (XI (XO (XI XH)))))))

(** val sBLK_FULL_LKEY : z **)

let sBLK_FULL_LKEY =
  Zpos XH

(** val iW_VNUMBUFSZ : z **)

let iW_VNUMBUFSZ =
  Zpos (XO (XI (XO XH)))

(** val iWDB_VNUM64_KEYS : z **)

let iWDB_VNUM64_KEYS =
  Zpos (XO (XO (XO (XO (XO XH)))))

(** val iWDB_REALNUM_KEYS : z **)

let iWDB_REALNUM_KEYS =
  Zpos (XO (XO (XO (XO XH))))

(** val iWDB_COMPOUND_KEYS : z **)

let iWDB_COMPOUND_KEYS =
  Zpos (XO (XO (XO (XO (XO (XO XH))))))

(** val iWFSM_MAGICK : z **)

let iWFSM_MAGICK =
  Zpos (XO (XO (XI (XI (XO (XO (XI (XI (XI (XI (XI (XO (XO (XO (XI (XI (XO
    (XO (XI (XI (XI (XO (XO (XI XH))))))))))))))))))))))))

type kmode = { km_vnum : bool; km_real : bool; km_compound : bool }

(** val cmp2 : z list -> z list -> z **)

let rec cmp2 a b =
  match a with
  | [] -> Z0
  | x :: a' ->
    (match b with
     | [] -> Z0
     | y :: b' -> if Z.eqb x y then cmp2 a' b' else Z.sub x y)

(** val sgn3 : z -> z -> z **)

let sgn3 n1 n2 =
  if Z.gtb n1 n2 then Zneg XH else if Z.ltb n1 n2 then Zpos XH else Z0

(** val read_vnum2 : z list -> z **)

let read_vnum2 b =
  match read_vnum b with
  | Some p -> let (n0, _) = p in n0
  | None -> Z0

(** val memcmp : nat -> z list -> z list -> z **)

let memcmp n0 a b =
  cmp2 (firstn n0 a) (firstn n0 b)

(** val af_skip : z list -> z list **)

let rec af_skip s = match s with
| [] -> []
| c :: r ->
  if (||) (Z.leb c (Zpos (XO (XO (XO (XO (XO XH)))))))
       (Z.eqb c (Zpos (XI (XI (XI (XI (XI (XI XH))))))))
  then af_skip r
  else s

(** val af_int : z list -> z -> z * z list **)

let rec af_int s acc =
  match s with
  | [] -> (acc, [])
  | c :: r ->
    if (||) (Z.ltb c (Zpos (XO (XO (XO (XO (XI XH)))))))
         (Z.gtb c (Zpos (XI (XO (XO (XI (XI XH)))))))
    then (acc, s)
    else af_int r
           (sw (Zpos (XO (XO (XO (XO (XO (XO XH)))))))
             (Z.sub (Z.add (Z.mul acc (Zpos (XO (XI (XO XH))))) c) (Zpos (XO
               (XO (XO (XO (XI XH))))))))

(** val af_frac : z list -> nat -> z -> z -> z * z **)

let rec af_frac s lim num k =
  match lim with
  | O -> (num, k)
  | S l ->
    (match s with
     | [] -> (num, k)
     | c :: r ->
       if (||) (Z.ltb c (Zpos (XO (XO (XO (XO (XI XH)))))))
            (Z.gtb c (Zpos (XI (XO (XO (XI (XI XH)))))))
       then (num, k)
       else af_frac r l
              (Z.add (Z.mul num (Zpos (XO (XI (XO XH)))))
                (Z.sub c (Zpos (XO (XO (XO (XO (XI XH))))))))
              (Z.add k (Zpos XH)))

(** val af_part : z list -> (z * z) * z list **)

let af_part s =
  let s0 = af_skip s in
  (match s0 with
   | [] ->
     let sign = Zpos XH in
     let (n0, rest) = af_int s0 Z0 in
     ((sign, (sw (Zpos (XO (XO (XO (XO (XO (XO XH))))))) (Z.mul n0 sign))),
     rest)
   | z0 :: r ->
     (match z0 with
      | Zpos p ->
        (match p with
         | XI p0 ->
           (match p0 with
            | XO p1 ->
              (match p1 with
               | XI p2 ->
                 (match p2 with
                  | XI p3 ->
                    (match p3 with
                     | XO p4 ->
                       (match p4 with
                        | XH ->
                          let sign = Zneg XH in
                          let (n0, rest) = af_int r Z0 in
                          ((sign,
                          (sw (Zpos (XO (XO (XO (XO (XO (XO XH)))))))
                            (Z.mul n0 sign))), rest)
                        | _ ->
                          let sign = Zpos XH in
                          let (n0, rest) = af_int s0 Z0 in
                          ((sign,
                          (sw (Zpos (XO (XO (XO (XO (XO (XO XH)))))))
                            (Z.mul n0 sign))), rest))
                     | _ ->
                       let sign = Zpos XH in
                       let (n0, rest) = af_int s0 Z0 in
                       ((sign,
                       (sw (Zpos (XO (XO (XO (XO (XO (XO XH)))))))
                         (Z.mul n0 sign))), rest))
                  | _ ->
                    let sign = Zpos XH in
                    let (n0, rest) = af_int s0 Z0 in
                    ((sign,
                    (sw (Zpos (XO (XO (XO (XO (XO (XO XH)))))))
                      (Z.mul n0 sign))), rest))
               | _ ->
                 let sign = Zpos XH in
                 let (n0, rest) = af_int s0 Z0 in
                 ((sign,
                 (sw (Zpos (XO (XO (XO (XO (XO (XO XH))))))) (Z.mul n0 sign))),
                 rest))
            | _ ->
              let sign = Zpos XH in
              let (n0, rest) = af_int s0 Z0 in
              ((sign,
              (sw (Zpos (XO (XO (XO (XO (XO (XO XH))))))) (Z.mul n0 sign))),
              rest))
         | _ ->
           let sign = Zpos XH in
           let (n0, rest) = af_int s0 Z0 in
           ((sign,
           (sw (Zpos (XO (XO (XO (XO (XO (XO XH))))))) (Z.mul n0 sign))),
           rest))
      | _ ->
        let sign = Zpos XH in
        let (n0, rest) = af_int s0 Z0 in
        ((sign,
        (sw (Zpos (XO (XO (XO (XO (XO (XO XH))))))) (Z.mul n0 sign))), rest)))

(** val af_hasfrac : z list -> bool **)

let af_hasfrac = function
| [] -> false
| z0 :: l ->
  (match z0 with
   | Zpos p ->
     (match p with
      | XO p0 ->
        (match p0 with
         | XI p1 ->
           (match p1 with
            | XI p2 ->
              (match p2 with
               | XI p3 ->
                 (match p3 with
                  | XO p4 ->
                    (match p4 with
                     | XH -> (match l with
                              | [] -> false
                              | _ :: _ -> true)
                     | _ -> false)
                  | _ -> false)
               | _ -> false)
            | _ -> false)
         | _ -> false)
      | _ -> false)
   | _ -> false)

(** val af_fracval : z -> z list -> z * z **)

let af_fracval sign rest =
  if af_hasfrac rest
  then let (n0, k) = af_frac (tl rest) (Z.to_nat iWNUMBUF_SIZE) Z0 Z0 in
       ((Z.mul n0 sign), k)
  else (Z0, Z0)

(** val afcmp : (nat -> z list -> z list -> z) -> z list -> z list -> z **)

let afcmp tie a b =
  let (p, arest) = af_part a in
  let (asign, anum) = p in
  let (p0, brest) = af_part b in
  let (bsign, bnum) = p0 in
  if Z.ltb anum bnum
  then Zneg XH
  else if Z.gtb anum bnum
       then Zpos XH
       else let (an, ak) = af_fracval asign arest in
            let (bn, bk) = af_fracval bsign brest in
            let l = Z.mul an (Z.pow (Zpos (XO (XI (XO XH)))) bk) in
            let r = Z.mul bn (Z.pow (Zpos (XO (XI (XO XH)))) ak) in
            if (&&) ((||) (af_hasfrac arest) (af_hasfrac brest)) (Z.ltb l r)
            then Zneg XH
            else if (&&) ((||) (af_hasfrac arest) (af_hasfrac brest))
                      (Z.gtb l r)
                 then Zpos XH
                 else let rv = tie (Nat.min (length a) (length b)) a b in
                      if Z.eqb rv Z0
                      then Z.sub (Z.of_nat (length a)) (Z.of_nat (length b))
                      else rv

(** val vnum_cmp : z list -> z list -> z **)

let vnum_cmp v1 v2 =
  let l1 = Z.of_nat (length v1) in
  let l2 = Z.of_nat (length v2) in
  if (||) ((||) (negb (Z.eqb l2 l1)) (Z.gtb l2 iW_VNUMBUFSZ))
       (Z.gtb l1 iW_VNUMBUFSZ)
  then Z.sub l2 l1
  else sgn3 (read_vnum2 v1) (read_vnum2 v2)

(** val cmp_keys_prefix :
    (nat -> z list -> z list -> z) -> kmode -> z list -> z list -> z -> z **)

let cmp_keys_prefix tie m v1 kdata kcomp =
  if m.km_compound
  then (match read_vnum v1 with
        | Some p ->
          let (c1, step) = p in
          let u1 = skipn step v1 in
          let v1len = Z.sub (Z.of_nat (length v1)) (Z.of_nat step) in
          let v2len = Z.of_nat (length kdata) in
          if Z.ltb v1len (Zpos XH)
          then Z.sub v2len v1len
          else if m.km_vnum
               then let r = vnum_cmp u1 kdata in
                    if (||)
                         ((||) (negb (Z.eqb v2len v1len))
                           (Z.gtb v2len iW_VNUMBUFSZ))
                         (Z.gtb v1len iW_VNUMBUFSZ)
                    then r
                    else if Z.eqb r Z0 then sgn3 c1 kcomp else r
               else if m.km_real
                    then let r = afcmp tie kdata u1 in
                         if Z.eqb r Z0 then sgn3 c1 kcomp else r
                    else cmp2 kdata u1
        | None -> Z0)
  else if m.km_vnum
       then vnum_cmp v1 kdata
       else if m.km_real then afcmp tie kdata v1 else cmp2 kdata v1

(** val cmp_keys :
    (nat -> z list -> z list -> z) -> kmode -> z list -> z list -> z -> z **)

let cmp_keys tie m v1 kdata kcomp =
  let rv = cmp_keys_prefix tie m v1 kdata kcomp in
  if (&&) (Z.eqb rv Z0) (negb ((||) m.km_vnum m.km_real))
  then if m.km_compound
       then (match read_vnum v1 with
             | Some p ->
               let (c1, step) = p in
               let v1len = Z.sub (Z.of_nat (length v1)) (Z.of_nat step) in
               if Z.eqb (Z.of_nat (length kdata)) v1len
               then sgn3 c1 kcomp
               else Z.sub (Z.of_nat (length kdata)) v1len
             | None -> Z0)
       else Z.sub (Z.of_nat (length kdata)) (Z.of_nat (length v1))
  else rv

(** val u8 : (z -> z) -> z -> z **)

let u8 rd =
  rd

(** val u16 : (z -> z) -> z -> z **)

let u16 rd o =
  Z.add (rd o)
    (Z.mul (Zpos (XO (XO (XO (XO (XO (XO (XO (XO XH)))))))))
      (rd (Z.add o (Zpos XH))))

(** val u32 : (z -> z) -> z -> z **)

let u32 rd o =
  Z.add (rd o)
    (Z.mul (Zpos (XO (XO (XO (XO (XO (XO (XO (XO XH)))))))))
      (Z.add (rd (Z.add o (Zpos XH)))
        (Z.mul (Zpos (XO (XO (XO (XO (XO (XO (XO (XO XH)))))))))
          (Z.add (rd (Z.add o (Zpos (XO XH))))
            (Z.mul (Zpos (XO (XO (XO (XO (XO (XO (XO (XO XH)))))))))
              (rd (Z.add o (Zpos (XI XH)))))))))

(** val u64 : (z -> z) -> z -> z **)

let u64 rd o =
  Z.add (u32 rd o)
    (Z.mul (Zpos (XO (XO (XO (XO (XO (XO (XO (XO (XO (XO (XO (XO (XO (XO (XO
      (XO (XO (XO (XO (XO (XO (XO (XO (XO (XO (XO (XO (XO (XO (XO (XO (XO
      XH)))))))))))))))))))))))))))))))))
      (u32 rd (Z.add o (Zpos (XO (XO XH))))))

(** val bytes_at : (z -> z) -> nat -> z -> z list **)

let rec bytes_at rd n0 o =
  match n0 with
  | O -> []
  | S k -> (rd o) :: (bytes_at rd k (Z.add o (Zpos XH)))

(** val bS : z **)

let bS =
  Z.pow (Zpos (XO XH)) iWKV_FSM_BPOW

(** val addr_of : z -> z **)

let addr_of blk =
  Z.mul blk bS

(** val vnum_at : (z -> z) -> nat -> z -> z -> z -> z -> (z * z) option **)

let rec vnum_at rd fuel o base acc step =
  match fuel with
  | O -> None
  | S f ->
    let b = rd o in
    if Z.ltb b (Zpos (XO (XO (XO (XO (XO (XO (XO XH))))))))
    then Some ((Z.add acc (Z.mul base b)), (Z.add step (Zpos XH)))
    else vnum_at rd f (Z.add o (Zpos XH))
           (Z.mul base (Zpos (XO (XO (XO (XO (XO (XO (XO XH)))))))))
           (Z.add acc
             (Z.mul base
               (Z.sub (Zpos (XI (XI (XI (XI (XI (XI (XI XH)))))))) b)))
           (Z.add step (Zpos XH))

(** val rdv : (z -> z) -> z -> (z * z) option **)

let rdv rd o =
  vnum_at rd (S (S (S (S (S (S (S (S (S (S O)))))))))) o (Zpos XH) Z0 Z0

(** val bytes_eq : z list -> z list -> bool **)

let rec bytes_eq a b =
  match a with
  | [] -> (match b with
           | [] -> true
           | _ :: _ -> false)
  | x :: a' ->
    (match b with
     | [] -> false
     | y :: b' -> (&&) (Z.eqb x y) (bytes_eq a' b'))

(** val list_eqz : z list -> z list -> bool **)

let list_eqz =
  bytes_eq

type complaint =
| CBadMagic of z
| CBadDb of z
| CChainLoop of z * z
| CNodeHeader of z * z
| CNodeEmpty of z
| CNodeSlots of z * z
| CNodeOrder of z
| CGlobalOrder of z
| CPrefix of z
| CBackLink of z
| CLevelChain of z * z
| CLevelCount of z * z
| CKvblk of z * z
| CSlotOverlap of z
| CBlocksOverlap of z
| CLeak of z
| CUnallocated of z
| CBeyondFile of z

type sblk = { s_blk : z; s_flags : z; s_lvl : z; s_lkl : z; s_pnum : 
              z; s_p0 : z; s_kblk : z; s_pi : z list; s_n : z list;
              s_bpos : z; s_lk : z list }

(** val nSLEV : nat **)

let nSLEV =
  Z.to_nat sLEVELS

(** val nIDXA : nat **)

let nIDXA =
  Z.to_nat kVBLK_IDXNUM

(** val u32s : (z -> z) -> nat -> z -> z list **)

let rec u32s rd n0 o =
  match n0 with
  | O -> []
  | S k -> (u32 rd o) :: (u32s rd k (Z.add o (Zpos (XO (XO XH)))))

(** val read_sblk : (z -> z) -> z -> sblk **)

let read_sblk rd blk =
  let a = addr_of blk in
  { s_blk = blk; s_flags = (u8 rd (Z.add a sOFF_FLAGS_U1)); s_lvl =
  (u8 rd (Z.add a sOFF_LVL_U1)); s_lkl = (u8 rd (Z.add a sOFF_LKL_U1));
  s_pnum = (u8 rd (Z.add a sOFF_PNUM_U1)); s_p0 =
  (u32 rd (Z.add a sOFF_P0_U4)); s_kblk = (u32 rd (Z.add a sOFF_KBLK_U4));
  s_pi = (bytes_at rd nIDXA (Z.add a sOFF_PI0_U1)); s_n =
  (u32s rd nSLEV (Z.add a sOFF_N0_U4)); s_bpos =
  (u8 rd (Z.add a sOFF_BPOS_U1_V2)); s_lk =
  (bytes_at rd (Z.to_nat (Z.min (u8 rd (Z.add a sOFF_LKL_U1)) sBLK_LKLEN))
    (Z.add a sOFF_LK_V2)) }

(** val read_pidx :
    (z -> z) -> nat -> z -> (z * z) list -> ((z * z) list * z) option **)

let rec read_pidx rd n0 o acc =
  match n0 with
  | O -> Some ((rev acc), o)
  | S k ->
    (match rdv rd o with
     | Some p ->
       let (off, st1) = p in
       (match rdv rd (Z.add o st1) with
        | Some p0 ->
          let (len, st2) = p0 in
          read_pidx rd k (Z.add (Z.add o st1) st2) ((off, len) :: acc)
        | None -> None)
     | None -> None)

type kvb = { k_szpow : z; k_idxsz : z; k_pidx : (z * z) list; k_idxend : z }

(** val read_kvblk : (z -> z) -> z -> kvb option **)

let read_kvblk rd blk =
  let a = addr_of blk in
  (match read_pidx rd nIDXA (Z.add a kVBLK_HDRSZ) [] with
   | Some p0 ->
     let (p, e) = p0 in
     Some { k_szpow = (u8 rd a); k_idxsz = (u16 rd (Z.add a (Zpos XH)));
     k_pidx = p; k_idxend = (Z.sub e a) }
   | None -> None)

(** val slot_key : (z -> z) -> z -> z -> z -> z -> (z list * z) option **)

let slot_key rd blk szpow off len =
  let p = Z.sub (Z.add (addr_of blk) (Z.pow (Zpos (XO XH)) szpow)) off in
  (match rdv rd p with
   | Some p0 ->
     let (klen, st) = p0 in
     if (||) ((||) (Z.ltb klen (Zpos XH)) (Z.gtb (Z.add klen st) len))
          (Z.gtb klen (Zpos (XO (XO (XO (XO (XI (XI (XI (XO (XI (XO (XO (XO
            (XI (XO (XO (XO XH))))))))))))))))))
     then None
     else Some ((bytes_at rd (Z.to_nat klen) (Z.add p st)), (Z.add klen st))
   | None -> None)

(** val unstore : kmode -> z list -> z list * z **)

let unstore m s =
  if m.km_compound
  then (match read_vnum s with
        | Some p -> let (c, st) = p in ((skipn st s), c)
        | None -> (s, Z0))
  else (s, Z0)

(** val stored_before : kmode -> z list -> z list -> bool **)

let stored_before m a b =
  let (bd, bc) = unstore m b in Z.ltb (cmp_keys memcmp m a bd bc) Z0

(** val mode_of : z -> kmode **)

let mode_of dbflg =
  { km_vnum = (negb (Z.eqb (Z.coq_land dbflg iWDB_VNUM64_KEYS) Z0));
    km_real = (negb (Z.eqb (Z.coq_land dbflg iWDB_REALNUM_KEYS) Z0));
    km_compound = (negb (Z.eqb (Z.coq_land dbflg iWDB_COMPOUND_KEYS) Z0)) }

(** val nthz : z list -> nat -> z **)

let rec nthz l i =
  match l with
  | [] -> Z0
  | x :: r -> (match i with
               | O -> x
               | S k -> nthz r k)

(** val nthp : (z * z) list -> nat -> z * z **)

let rec nthp l i =
  match l with
  | [] -> (Z0, Z0)
  | x :: r -> (match i with
               | O -> x
               | S k -> nthp r k)

(** val chain_ok : (z list -> z list -> bool) -> z list list -> bool **)

let rec chain_ok lt = function
| [] -> true
| a :: r ->
  (match r with
   | [] -> true
   | b :: _ -> (&&) (lt a b) (chain_ok lt r))

(** val distinct : z list -> bool **)

let rec distinct = function
| [] -> true
| x :: r -> (&&) (negb (existsb (Z.eqb x) r)) (distinct r)

(** val ins_range : (z * z) -> (z * z) list -> (z * z) list **)

let rec ins_range x l = match l with
| [] -> x :: []
| y :: r -> if Z.leb (fst x) (fst y) then x :: l else y :: (ins_range x r)

(** val sort_ranges : (z * z) list -> (z * z) list **)

let sort_ranges l =
  fold_right ins_range [] l

(** val ranges_disjoint : (z * z) list -> bool **)

let rec ranges_disjoint = function
| [] -> true
| p :: r ->
  let (s1, n1) = p in
  (match r with
   | [] -> true
   | p0 :: _ ->
     let (s2, _) = p0 in (&&) (Z.leb (Z.add s1 n1) s2) (ranges_disjoint r))

(** val first_overlap : (z * z) list -> z option **)

let rec first_overlap = function
| [] -> None
| p :: r ->
  let (s1, n1) = p in
  (match r with
   | [] -> None
   | p0 :: _ ->
     let (s2, _) = p0 in
     if Z.leb (Z.add s1 n1) s2 then first_overlap r else Some s2)

(** val audit_node :
    (z -> z) -> kmode -> sblk -> (complaint list * z list list) * (z * z) list **)

let audit_node rd m s =
  let b = s.s_blk in
  let hdr =
    app (if Z.ltb s.s_pnum (Zpos XH) then (CNodeEmpty b) :: [] else [])
      (app
        (if Z.gtb s.s_pnum kVBLK_IDXNUM
         then (CNodeHeader (b, (Zpos XH))) :: []
         else [])
        (app
          (if Z.geb s.s_lvl sLEVELS
           then (CNodeHeader (b, (Zpos (XO XH)))) :: []
           else [])
          (app
            (if (||) (Z.ltb s.s_bpos (Zpos XH))
                  (Z.gtb s.s_bpos sBLK_PAGE_SBLK_NUM_V2)
             then (CNodeHeader (b, (Zpos (XI XH)))) :: []
             else [])
            (app
              (if negb
                    (Z.eqb (Z.coq_land s.s_flags (Z.lnot sBLK_FULL_LKEY)) Z0)
               then (CNodeHeader (b, (Zpos (XO (XO XH))))) :: []
               else [])
              (if Z.eqb s.s_kblk Z0
               then (CNodeHeader (b, (Zpos (XI (XO XH))))) :: []
               else [])))))
  in
  let pn = Z.to_nat (Z.min (Z.max s.s_pnum Z0) kVBLK_IDXNUM) in
  let pis = firstn pn s.s_pi in
  (match read_kvblk rd s.s_kblk with
   | Some kb ->
     let size = Z.pow (Zpos (XO XH)) kb.k_szpow in
     let kvc =
       app
         (if (||) (Z.ltb kb.k_szpow kVBLK_INISZPOW)
               (Z.gtb kb.k_szpow (Zpos (XO (XO (XO (XI (XO XH)))))))
          then (CKvblk (s.s_kblk, (Zpos (XO XH)))) :: []
          else [])
         (if negb (Z.eqb kb.k_idxsz (Z.sub kb.k_idxend kVBLK_HDRSZ))
          then (CKvblk (s.s_kblk, (Zpos (XI XH)))) :: []
          else [])
     in
     let slots = map (fun i -> nthp kb.k_pidx (Z.to_nat i)) pis in
     let slotc =
       app
         (if negb
               ((&&) (forallb (fun i -> Z.ltb i kVBLK_IDXNUM) pis)
                 (distinct pis))
          then (CNodeSlots (b, (Zpos XH))) :: []
          else [])
         (app
           (if negb
                 (forallb (fun ol ->
                   (&&) ((&&) (Z.ltb Z0 (snd ol)) (Z.leb (snd ol) (fst ol)))
                     (Z.leb (fst ol)
                       (Z.sub (Z.sub size kVBLK_HDRSZ) kb.k_idxsz))) slots)
            then (CNodeSlots (b, (Zpos (XO XH)))) :: []
            else [])
           (app
             (if negb
                   (Z.eqb
                     (Z.of_nat
                       (length
                         (filter (fun ol -> negb (Z.eqb (snd ol) Z0))
                           kb.k_pidx))) (Z.of_nat pn))
              then (CNodeSlots (b, (Zpos (XI XH)))) :: []
              else [])
             (if negb
                   (ranges_disjoint
                     (sort_ranges
                       (map (fun ol -> ((Z.sub (fst ol) (snd ol)), (snd ol)))
                         slots)))
              then (CSlotOverlap s.s_kblk) :: []
              else [])))
     in
     let keys =
       map (fun ol ->
         match slot_key rd s.s_kblk kb.k_szpow (fst ol) (snd ol) with
         | Some p -> let (k, _) = p in k
         | None -> []) slots
     in
     let keyc =
       app
         (if negb (forallb (fun k -> negb (Nat.eqb (length k) O)) keys)
          then (CNodeSlots (b, (Zpos (XO (XO XH))))) :: []
          else [])
         (app
           (if negb (chain_ok (stored_before m) keys)
            then (CNodeOrder b) :: []
            else [])
           (match keys with
            | [] -> []
            | k0 :: _ ->
              let want = firstn (Z.to_nat pREFIX_KEY_LEN_V2) k0 in
              let full = Z.leb (Z.of_nat (length k0)) pREFIX_KEY_LEN_V2 in
              if negb
                   ((&&)
                     ((&&) (bytes_eq s.s_lk want)
                       (Z.eqb s.s_lkl (Z.of_nat (length want))))
                     (eqb
                       (negb (Z.eqb (Z.coq_land s.s_flags sBLK_FULL_LKEY) Z0))
                       full))
              then (CPrefix b) :: []
              else []))
     in
     (((app hdr (app kvc (app slotc keyc))), keys), ((s.s_kblk,
     (Z.div size bS)) :: []))
   | None -> (((app hdr ((CKvblk (s.s_kblk, (Zpos XH))) :: [])), []), []))

(** val walk : (z -> z) -> nat -> nat -> z -> z list -> z list option **)

let rec walk rd fuel lvl blk acc =
  match fuel with
  | O -> None
  | S f ->
    if Z.eqb blk Z0
    then Some (rev acc)
    else walk rd f lvl (nthz (read_sblk rd blk).s_n lvl) (blk :: acc)

(** val page_of : sblk -> z * z **)

let page_of s =
  ((Z.sub s.s_blk (Z.mul (Z.sub s.s_bpos (Zpos XH)) (Z.div sBLK_SZ bS))),
    (Z.div sBLK_PAGE_SZ_V2 bS))

(** val dedup : (z * z) list -> (z * z) list **)

let rec dedup = function
| [] -> []
| x :: r ->
  if existsb (fun y -> Z.eqb (fst y) (fst x)) r
  then dedup r
  else x :: (dedup r)

(** val audit_db :
    (z -> z) -> nat -> z -> (complaint list * (z * z) list) * z **)

let audit_db rd fuel dblk =
  let a = addr_of dblk in
  if negb (Z.eqb (u32 rd (Z.add a dOFF_MAGIC_U4)) iWDB_MAGIC)
  then ((((CBadDb dblk) :: []), []), Z0)
  else let m = mode_of (u8 rd (Z.add a dOFF_DBFLG_U1)) in
       let next = u32 rd (Z.add a dOFF_NEXTDB_U4) in
       let dn = u32s rd nSLEV (Z.add a dOFF_N0_U4) in
       let dc = u32s rd nSLEV (Z.add a dOFF_C0_U4) in
       let metab = u32 rd (Z.add a dOFF_METABLK_U4) in
       let metan = u32 rd (Z.add a dOFF_METABLKN_U4) in
       (match walk rd fuel O (nthz dn O) [] with
        | Some l0 ->
          let nodes = map (read_sblk rd) l0 in
          let per = map (audit_node rd m) nodes in
          let comps = concat (map (fun x -> fst (fst x)) per) in
          let keyss = map (fun x -> snd (fst x)) per in
          let kvranges = concat (map snd per) in
          let bounds =
            concat
              (map (fun ks ->
                match ks with
                | [] -> []
                | k0 :: _ -> k0 :: ((last ks k0) :: [])) keyss)
          in
          let glob =
            if (&&)
                 (chain_ok (fun x y ->
                   (||) (stored_before m x y) (bytes_eq x y)) bounds)
                 (chain_ok (stored_before m) (concat keyss))
            then []
            else (CGlobalOrder dblk) :: []
          in
          let prevs = dblk :: l0 in
          let back =
            concat
              (map (fun ps ->
                if Z.eqb (snd ps).s_p0 (fst ps)
                then []
                else (CBackLink (snd ps).s_blk) :: []) (combine prevs nodes))
          in
          let tailp = u32 rd (Z.add a dOFF_P0_U4) in
          let tailc =
            match l0 with
            | [] ->
              if (||) (Z.eqb tailp Z0) (Z.eqb tailp dblk)
              then []
              else (CBackLink dblk) :: []
            | _ :: _ ->
              if Z.eqb tailp (last l0 Z0) then [] else (CBackLink dblk) :: []
          in
          let lvls = seq O nSLEV in
          let lvlc =
            concat
              (map (fun i ->
                let want =
                  map (fun s -> s.s_blk)
                    (filter (fun s -> Z.leb (Z.of_nat i) s.s_lvl) nodes)
                in
                let got = walk rd fuel i (nthz dn i) [] in
                app
                  (match got with
                   | Some g ->
                     if list_eqz g want
                     then []
                     else (CLevelChain (dblk, (Z.of_nat i))) :: []
                   | None -> (CChainLoop (dblk, (Z.of_nat i))) :: [])
                  (if Z.eqb (nthz dc i)
                        (Z.of_nat
                          (length
                            (filter (fun s -> Z.eqb s.s_lvl (Z.of_nat i))
                              nodes)))
                   then []
                   else (CLevelCount (dblk, (Z.of_nat i))) :: [])) lvls)
          in
          let pages = dedup (map page_of nodes) in
          let occ = (dblk,
            (Z.div dB_SZ bS)) :: (app
                                   (if Z.eqb metan Z0
                                    then []
                                    else (metab, metan) :: [])
                                   (app pages kvranges))
          in
          (((app comps (app glob (app back (app tailc lvlc)))), occ), next)
        | None -> ((((CChainLoop (dblk, Z0)) :: []), []), next))

(** val audit_dbs :
    (z -> z) -> nat -> nat -> z -> complaint list * (z * z) list **)

let rec audit_dbs rd n0 fuel dblk =
  match n0 with
  | O -> (((CChainLoop (Z0, Z0)) :: []), [])
  | S k ->
    if Z.eqb dblk Z0
    then ([], [])
    else let (p, next) = audit_db rd fuel dblk in
         let (c, occ) = p in
         let (c2, occ2) = audit_dbs rd k fuel next in
         ((app c c2), (app occ occ2))

(** val bm_bit : (z -> z) -> z -> z -> bool **)

let bm_bit rd bmoff i =
  Z.testbit (rd (Z.add bmoff (Z.div i (Zpos (XO (XO (XO XH)))))))
    (Z.modulo i (Zpos (XO (XO (XO XH)))))

(** val check_free : (z -> z) -> nat -> z -> z -> complaint list **)

let rec check_free rd n0 bmoff from =
  match n0 with
  | O -> []
  | S k ->
    app (if bm_bit rd bmoff from then (CLeak from) :: [] else [])
      (check_free rd k bmoff (Z.add from (Zpos XH)))

(** val check_used : (z -> z) -> nat -> z -> z -> complaint list **)

let rec check_used rd n0 bmoff from =
  match n0 with
  | O -> []
  | S k ->
    app (if bm_bit rd bmoff from then [] else (CUnallocated from) :: [])
      (check_used rd k bmoff (Z.add from (Zpos XH)))

(** val check_map :
    (z -> z) -> z -> z -> z -> (z * z) list -> complaint list **)

let rec check_map rd bmoff cur total = function
| [] -> check_free rd (Z.to_nat (Z.sub total cur)) bmoff cur
| p :: r ->
  let (s, n0) = p in
  app (check_free rd (Z.to_nat (Z.sub s cur)) bmoff cur)
    (app (check_used rd (Z.to_nat n0) bmoff s)
      (check_map rd bmoff (Z.add s n0) total r))

(** val hDRLEN : z **)

let hDRLEN =
  Z.add iWFSM_CUSTOM_HDR_DATA_OFFSET kVHDRSZ

(** val audit : (z -> z) -> z -> complaint list **)

let audit rd fsize =
  if negb (Z.eqb (u32 rd Z0) iWFSM_MAGICK)
  then (CBadMagic (Zpos XH)) :: []
  else if negb (Z.eqb (u32 rd iWFSM_CUSTOM_HDR_DATA_OFFSET) iWKV_MAGIC)
       then (CBadMagic (Zpos (XO XH))) :: []
       else if negb (Z.eqb (u8 rd (Zpos (XO (XO XH)))) iWKV_FSM_BPOW)
            then (CBadMagic (Zpos (XI XH))) :: []
            else let bmoff = u64 rd (Zpos (XI (XO XH))) in
                 let bmlen = u64 rd (Zpos (XI (XO (XI XH)))) in
                 let first =
                   Z.div
                     (u64 rd
                       (Z.add iWFSM_CUSTOM_HDR_DATA_OFFSET (Zpos (XO (XO
                         XH))))) bS
                 in
                 let fuel =
                   Z.to_nat (Z.add (Z.div fsize sBLK_SZ) (Zpos (XO XH)))
                 in
                 let (comps, occ) =
                   audit_dbs rd (S (S (S (S (S (S (S (S (S (S (S (S (S (S (S
                     (S (S (S (S (S (S (S (S (S (S (S (S (S (S (S (S (S (S (S
                     (S (S (S (S (S (S (S (S (S (S (S (S (S (S (S (S (S (S (S
                     (S (S (S (S (S (S (S (S (S (S (S (S (S (S (S (S (S (S (S
                     (S (S (S (S (S (S (S (S (S (S (S (S (S (S (S (S (S (S (S
                     (S (S (S (S (S (S (S (S (S (S (S (S (S (S (S (S (S (S (S
                     (S (S (S (S (S (S (S (S (S (S (S (S (S (S (S (S (S (S (S
                     (S (S (S (S (S (S (S (S (S (S (S (S (S (S (S (S (S (S (S
                     (S (S (S (S (S (S (S (S (S (S (S (S (S (S (S (S (S (S (S
                     (S (S (S (S (S (S (S (S (S (S (S (S (S (S (S (S (S (S (S
                     (S (S (S (S (S (S (S (S (S (S (S (S (S (S (S (S (S (S (S
                     (S (S (S (S (S (S (S (S (S (S (S (S (S (S (S (S (S (S (S
                     (S (S (S (S (S (S (S (S (S (S (S (S (S (S (S (S (S (S (S
                     (S (S (S (S (S (S (S (S (S (S (S (S (S (S (S (S (S (S (S
                     (S (S (S (S (S (S (S (S (S (S (S (S (S (S (S (S (S (S (S
                     (S (S (S (S (S (S (S (S (S (S (S (S (S (S (S (S (S (S (S
                     (S (S (S (S (S (S (S (S (S (S (S (S (S (S (S (S (S (S (S
                     (S (S (S (S (S (S (S (S (S (S (S (S (S (S (S (S (S (S (S
                     (S (S (S (S (S (S (S (S (S (S (S (S (S (S (S (S (S (S (S
                     (S (S (S (S (S (S (S (S (S (S (S (S (S (S (S (S (S (S (S
                     (S (S (S (S (S (S (S (S (S (S (S (S (S (S (S (S (S (S (S
                     (S (S (S (S (S (S (S (S (S (S (S (S (S (S (S (S (S (S (S
                     (S (S (S (S (S (S (S (S (S (S (S (S (S (S (S (S (S (S (S
                     (S (S (S (S (S (S (S (S (S (S (S (S (S (S (S (S (S (S (S
                     (S (S (S (S (S (S (S (S (S (S (S (S (S (S (S (S (S (S (S
                     (S (S (S (S (S (S (S (S (S (S (S (S (S (S (S (S (S (S (S
                     (S (S (S (S (S (S (S (S (S (S (S (S (S (S (S (S (S (S (S
                     (S (S (S (S (S (S (S (S (S (S (S (S (S (S (S (S (S (S (S
                     (S (S (S (S (S (S (S (S (S (S (S (S (S (S (S (S (S (S (S
                     (S (S (S (S (S (S (S (S (S (S (S (S (S (S (S (S (S (S (S
                     (S (S (S (S (S (S (S (S (S (S (S (S (S (S (S (S (S (S (S
                     (S (S (S (S (S (S (S (S (S (S (S (S (S (S (S (S (S (S (S
                     (S (S (S (S (S (S (S (S (S (S (S (S (S (S (S (S (S (S (S
                     (S (S (S (S (S (S (S (S (S (S (S (S (S (S (S (S (S (S (S
                     (S (S (S (S (S (S (S (S (S (S (S (S (S (S (S (S (S (S (S
                     (S (S (S (S (S (S (S (S (S (S (S (S (S (S (S (S (S (S (S
                     (S (S (S (S (S (S (S (S (S (S (S (S (S (S (S (S (S (S (S
                     (S (S (S (S (S (S (S (S (S (S (S (S (S (S (S (S (S (S (S
                     (S (S (S (S (S (S (S (S (S (S (S (S (S (S (S (S (S (S (S
                     (S (S (S (S (S (S (S (S (S (S (S (S (S (S (S (S (S (S (S
                     (S (S (S (S (S (S (S (S (S (S (S (S (S (S (S (S (S (S (S
                     (S (S (S (S (S (S (S (S (S (S (S (S (S (S (S (S (S (S (S
                     (S (S (S (S (S (S (S (S (S (S (S (S (S (S (S (S (S (S (S
                     (S (S (S (S (S (S (S (S (S (S (S (S (S (S (S (S (S (S (S
                     (S (S (S (S (S (S (S (S (S (S (S (S (S (S (S (S (S (S (S
                     (S (S (S (S (S (S (S (S (S (S (S (S (S (S (S (S (S (S (S
                     (S (S (S (S (S (S (S (S (S (S (S (S (S (S (S (S (S (S (S
                     (S (S (S (S (S (S (S (S (S (S (S (S (S (S (S (S (S (S (S
                     (S (S (S (S (S (S (S (S (S (S (S (S (S (S (S (S (S (S (S
                     (S (S (S (S (S (S (S (S (S (S (S (S (S (S (S (S (S (S (S
                     (S (S (S (S (S (S (S (S (S (S (S (S (S (S (S (S (S (S (S
                     (S (S (S (S (S (S (S (S (S (S (S (S (S (S (S (S (S (S (S
                     (S (S (S (S (S (S (S (S (S (S (S (S (S (S (S (S (S (S (S
                     (S (S (S (S (S (S (S (S (S (S (S (S (S (S (S (S (S (S (S
                     (S (S (S (S (S (S (S (S (S (S (S (S (S (S (S (S (S (S (S
                     (S (S (S (S (S (S (S (S (S (S (S (S (S (S (S (S (S (S (S
                     (S (S (S (S (S (S (S (S (S (S (S (S (S (S (S (S (S (S (S
                     (S (S (S (S (S (S (S (S (S (S (S (S (S (S (S (S (S (S (S
                     (S (S (S (S (S (S (S (S (S (S (S (S (S (S (S (S (S (S (S
                     (S (S (S (S (S (S (S (S (S (S (S (S (S (S (S (S (S (S (S
                     (S (S (S (S (S (S (S (S (S (S (S (S (S (S (S (S (S (S (S
                     (S (S (S (S (S (S (S (S (S (S (S (S (S (S (S (S (S (S (S
                     (S (S (S (S (S (S (S (S (S (S (S (S (S (S (S (S (S (S (S
                     (S (S (S (S (S (S (S (S (S (S (S (S (S (S (S (S (S (S (S
                     (S (S (S (S (S (S (S (S (S (S (S (S (S (S (S (S (S (S (S
                     (S (S (S (S (S (S (S (S (S (S (S (S (S (S (S (S (S (S (S
                     (S (S (S (S (S (S (S (S (S (S (S (S (S (S (S (S (S (S (S
                     (S (S (S (S (S (S (S (S (S (S (S (S (S (S (S (S (S (S (S
                     (S (S (S (S (S (S (S (S (S (S (S (S (S (S (S (S (S (S (S
                     (S (S (S (S (S (S (S (S (S (S (S (S (S (S (S (S (S (S (S
                     (S (S (S (S (S (S (S (S (S (S (S (S (S (S (S (S (S (S (S
                     (S (S (S (S (S (S (S (S (S (S (S (S (S (S (S (S (S (S (S
                     (S (S (S (S (S (S (S (S (S (S (S (S (S (S (S (S (S (S (S
                     (S (S (S (S (S (S (S (S (S (S (S (S (S (S (S (S (S (S (S
                     (S (S (S (S (S (S (S (S (S (S (S (S (S (S (S (S (S (S (S
                     (S (S (S (S (S (S (S (S (S (S (S (S (S (S (S (S (S (S (S
                     (S (S (S (S (S (S (S (S (S (S (S (S (S (S (S (S (S (S (S
                     (S (S (S (S (S (S (S (S (S (S (S (S (S (S (S (S (S (S (S
                     (S (S (S (S (S (S (S (S (S (S (S (S (S (S (S (S (S (S (S
                     (S (S (S (S (S (S (S (S (S (S (S (S (S (S (S (S (S (S (S
                     (S (S (S (S (S (S (S (S (S (S (S (S (S (S (S (S (S (S (S
                     (S (S (S (S (S (S (S (S (S (S (S (S (S (S (S (S (S (S (S
                     (S (S (S (S (S (S (S (S (S (S (S (S (S (S (S (S (S (S (S
                     (S (S (S (S (S (S (S (S (S (S (S (S (S (S (S (S (S (S (S
                     (S (S (S (S (S (S (S (S (S (S (S (S (S (S (S (S (S (S (S
                     (S (S (S (S (S (S (S (S (S (S (S (S (S (S (S (S (S (S (S
                     (S (S (S (S (S (S (S (S (S (S (S (S (S (S (S (S (S (S (S
                     (S (S (S (S (S (S (S (S (S (S (S (S (S (S (S (S (S (S (S
                     (S (S (S (S (S (S (S (S (S (S (S (S (S (S (S (S (S (S (S
                     (S (S (S (S (S (S (S (S (S (S (S (S (S (S (S (S (S (S (S
                     (S (S (S (S (S (S (S (S (S (S (S (S (S (S (S (S (S (S (S
                     (S (S (S (S (S (S (S (S (S (S (S (S (S (S (S (S (S (S (S
                     (S (S (S (S (S (S (S (S (S (S (S (S (S (S (S (S (S (S (S
                     (S (S (S (S (S (S (S (S (S (S (S (S (S (S (S (S (S (S (S
                     (S (S (S (S (S (S (S (S (S (S (S (S (S (S (S (S (S (S (S
                     (S (S (S (S (S (S (S (S (S (S (S (S (S (S (S (S (S (S (S
                     (S (S (S (S (S (S (S (S (S (S (S (S (S (S (S (S (S (S (S
                     (S (S (S (S (S (S (S (S (S (S (S (S (S (S (S (S (S (S (S
                     (S (S (S (S (S (S (S (S (S (S (S (S (S (S (S (S (S (S (S
                     (S (S (S (S (S (S (S (S (S (S (S (S (S (S (S (S (S (S (S
                     (S (S (S (S (S (S (S (S (S (S (S (S (S (S (S (S (S (S (S
                     (S (S (S (S (S (S (S (S (S (S (S (S (S (S (S (S (S (S (S
                     (S (S (S (S (S (S (S (S (S (S (S (S (S (S (S (S (S (S (S
                     (S (S (S (S (S (S (S (S (S (S (S (S (S (S (S (S (S (S (S
                     (S (S (S (S (S (S (S (S (S (S (S (S (S (S (S (S (S (S (S
                     (S (S (S (S (S (S (S (S (S (S (S (S (S (S (S (S (S (S (S
                     (S (S (S (S (S (S (S (S (S (S (S (S (S (S (S (S (S (S (S
                     (S (S (S (S (S (S (S (S (S (S (S (S (S (S (S (S (S (S (S
                     (S (S (S (S (S (S (S (S (S (S (S (S (S (S (S (S (S (S (S
                     (S (S (S (S (S (S (S (S (S (S (S (S (S (S (S (S (S (S (S
                     (S (S (S (S (S (S (S (S (S (S (S (S (S (S (S (S (S (S (S
                     (S (S (S (S (S (S (S (S (S (S (S (S (S (S (S (S (S (S (S
                     (S (S (S (S (S (S (S (S (S (S (S (S (S (S (S (S (S (S (S
                     (S (S (S (S (S (S (S (S (S (S (S (S (S (S (S (S (S (S (S
                     (S (S (S (S (S (S (S (S (S (S (S (S (S (S (S (S (S (S (S
                     (S (S (S (S (S (S (S (S (S (S (S (S (S (S (S (S (S (S (S
                     (S (S (S (S (S (S (S (S (S (S (S (S (S (S (S (S (S (S (S
                     (S (S (S (S (S (S (S (S (S (S (S (S (S (S (S (S (S (S (S
                     (S (S (S (S (S (S (S (S (S (S (S (S (S (S (S (S (S (S (S
                     (S (S (S (S (S (S (S (S (S (S (S (S (S (S (S (S (S (S (S
                     (S (S (S (S (S (S (S (S (S (S (S (S (S (S (S (S (S (S (S
                     (S (S (S (S (S (S (S (S (S (S (S (S (S (S (S (S (S (S (S
                     (S (S (S (S (S (S (S (S (S (S (S (S (S (S (S (S (S (S (S
                     (S (S (S (S (S (S (S (S (S (S (S (S (S (S (S (S (S (S (S
                     (S (S (S (S (S (S (S (S (S (S (S (S (S (S (S (S (S (S (S
                     (S (S (S (S (S (S (S (S (S (S (S (S (S (S (S (S (S (S (S
                     (S (S (S (S (S (S (S (S (S (S (S (S (S (S (S (S (S (S (S
                     (S (S (S (S (S (S (S (S (S (S (S (S (S (S (S (S (S (S (S
                     (S (S (S (S (S (S (S (S (S (S (S (S (S (S (S (S (S (S (S
                     (S (S (S (S (S (S (S (S (S (S (S (S (S (S (S (S (S (S (S
                     (S (S (S (S (S (S (S (S (S (S (S (S (S (S (S (S (S (S (S
                     (S (S (S (S (S (S (S (S (S (S (S (S (S (S (S (S (S (S (S
                     (S (S (S (S (S (S (S (S (S (S (S (S (S (S (S (S (S (S (S
                     (S (S (S (S (S (S (S (S (S (S (S (S (S (S (S (S (S (S (S
                     (S (S (S (S (S (S (S (S (S (S (S (S (S (S (S (S (S (S (S
                     (S (S (S (S (S (S (S (S (S (S (S (S (S (S (S (S (S (S (S
                     (S (S (S (S (S (S (S (S (S (S (S (S (S (S (S (S (S (S (S
                     (S (S (S (S (S (S (S (S (S (S (S (S (S (S (S (S (S (S (S
                     (S (S (S (S (S (S (S (S (S (S (S (S (S (S (S (S (S (S (S
                     (S (S (S (S (S (S (S (S (S (S (S (S (S (S (S (S (S (S (S
                     (S (S (S (S (S (S (S (S (S (S (S (S (S (S (S (S (S (S (S
                     (S (S (S (S (S (S (S (S (S (S (S (S (S (S (S (S (S (S (S
                     (S (S (S (S (S (S (S (S (S (S (S (S (S (S (S (S (S (S (S
                     (S (S (S (S (S (S (S (S (S (S (S (S (S (S (S (S (S (S (S
                     (S (S (S (S (S (S (S (S (S (S (S (S (S (S (S (S (S (S (S
                     (S (S (S (S (S (S (S (S (S (S (S (S (S (S (S (S (S (S (S
                     (S (S (S (S (S (S (S (S (S (S (S (S (S (S (S (S (S (S (S
                     (S (S (S (S (S (S (S (S (S (S (S (S (S (S (S (S (S (S (S
                     (S (S (S (S (S (S (S (S (S (S (S (S (S (S (S (S (S (S (S
                     (S (S (S (S (S (S (S (S (S (S (S (S (S (S (S (S (S (S (S
                     (S (S (S (S (S (S (S (S (S (S (S (S (S (S (S (S (S (S (S
                     (S (S (S (S (S (S (S (S (S (S (S (S (S (S (S (S (S (S (S
                     (S (S (S (S (S (S (S (S (S (S (S (S (S (S (S (S (S (S (S
                     (S (S (S (S (S (S (S (S (S (S (S (S (S (S (S (S (S (S (S
                     (S (S (S (S (S (S (S (S (S (S (S (S (S (S (S (S (S (S (S
                     (S (S (S (S (S (S (S (S (S (S (S (S (S (S (S (S (S (S (S
                     (S (S (S (S (S (S (S (S (S (S (S (S (S (S (S (S (S (S (S
                     (S (S (S (S (S (S (S (S (S (S (S (S (S (S (S (S (S (S (S
                     (S (S (S (S (S (S (S (S (S (S (S (S (S (S (S (S (S (S (S
                     (S (S (S (S (S (S (S (S (S (S (S (S (S (S (S (S (S (S (S
                     (S (S (S (S (S (S (S (S (S (S (S (S (S (S (S (S (S (S (S
                     (S (S (S (S (S (S (S (S (S (S (S (S (S (S (S (S (S (S (S
                     (S (S (S (S (S (S (S (S (S (S (S (S (S (S (S (S (S (S (S
                     (S (S (S (S (S (S (S (S (S (S (S (S (S (S (S (S (S (S (S
                     (S (S (S (S (S (S (S (S (S (S (S (S (S (S (S (S (S (S (S
                     (S (S (S (S (S (S (S (S (S (S (S (S (S (S (S (S (S (S (S
                     (S (S (S (S (S (S (S (S (S (S (S (S (S (S (S (S (S (S (S
                     (S (S (S (S (S (S (S (S (S (S (S (S (S (S (S (S (S (S (S
                     (S (S (S (S (S (S (S (S (S (S (S (S (S (S (S (S (S (S (S
                     (S (S (S (S (S (S (S (S (S (S (S (S (S (S (S (S (S (S (S
                     (S (S (S (S (S (S (S (S (S (S (S (S (S (S (S (S (S (S (S
                     (S (S (S (S (S (S (S (S (S (S (S (S (S (S (S (S (S (S (S
                     (S (S (S (S (S (S (S (S (S (S (S (S (S (S (S (S (S (S (S
                     (S (S (S (S (S (S (S (S (S (S (S (S (S (S (S (S (S (S (S
                     (S (S (S (S (S (S (S (S (S (S (S (S (S (S (S (S (S (S (S
                     (S (S (S (S (S (S (S (S (S (S (S (S (S (S (S (S (S (S (S
                     (S (S (S (S (S (S (S (S (S (S (S (S (S (S (S (S (S (S (S
                     (S (S (S (S (S (S (S (S (S (S (S (S (S (S (S (S (S (S (S
                     (S (S (S (S (S (S (S (S (S (S (S (S (S (S (S (S (S (S (S
                     (S (S (S (S (S (S (S (S (S (S (S (S (S (S (S (S (S (S (S
                     (S (S (S (S (S (S (S (S (S (S (S (S (S (S (S (S (S (S (S
                     (S (S (S (S (S (S (S (S (S (S (S (S (S (S (S (S (S (S (S
                     (S (S (S (S (S (S (S (S (S (S (S (S (S (S (S (S (S (S (S
                     (S (S (S (S (S (S (S (S (S (S (S (S (S (S (S (S (S (S (S
                     (S (S (S (S (S (S (S (S (S (S (S (S (S (S (S (S (S (S (S
                     (S (S (S (S (S (S (S (S (S (S (S (S (S (S (S (S (S (S (S
                     (S (S (S (S (S (S (S (S (S (S (S (S (S (S (S (S (S (S (S
                     (S (S (S (S (S (S (S (S (S (S (S (S (S (S (S (S (S (S (S
                     (S (S (S (S (S (S (S (S (S (S (S (S (S (S (S (S (S (S (S
                     (S (S (S (S (S (S (S (S (S (S (S (S (S (S (S (S (S (S (S
                     (S (S (S (S (S (S (S (S (S (S (S (S (S (S (S (S (S (S (S
                     (S (S (S (S (S (S (S (S (S (S (S (S (S (S (S (S (S (S (S
                     (S (S (S (S (S (S (S (S (S (S (S (S (S (S (S (S (S (S (S
                     (S (S (S (S (S (S (S (S (S (S (S (S (S (S (S (S (S (S (S
                     (S (S (S (S (S (S (S (S (S (S (S (S (S (S (S (S (S (S (S
                     (S (S (S (S (S (S (S (S (S (S (S (S (S (S (S (S (S (S (S
                     (S (S (S (S (S (S (S (S (S (S (S (S (S (S (S (S (S (S (S
                     (S (S (S (S (S (S (S (S (S (S (S (S (S (S (S (S (S (S (S
                     (S (S (S (S (S (S (S (S (S (S (S (S (S (S (S (S (S (S (S
                     (S (S (S (S (S (S (S (S (S (S (S (S (S (S (S (S (S (S (S
                     (S (S (S (S (S (S (S (S (S (S (S (S (S (S (S (S (S (S (S
                     (S (S (S (S (S (S (S (S (S (S (S (S (S (S (S (S (S (S (S
                     (S (S (S (S (S (S (S (S (S (S (S (S (S (S (S (S (S (S (S
                     (S (S (S (S (S (S (S (S (S (S (S (S (S (S (S (S (S (S (S
                     (S (S (S (S (S (S (S (S (S (S (S (S (S (S (S (S (S (S (S
                     (S (S (S (S (S (S (S (S (S (S (S (S (S (S (S (S (S (S (S
                     (S (S (S (S (S (S (S (S (S (S (S (S (S (S (S (S (S (S (S
                     (S (S (S (S (S (S (S (S (S (S (S (S (S (S (S (S (S (S (S
                     (S (S (S (S (S (S (S (S (S (S (S (S (S (S (S (S (S (S (S
                     (S (S (S (S (S (S (S (S (S (S (S (S (S (S (S (S (S (S (S
                     (S (S (S (S (S (S (S (S (S (S (S (S (S (S (S (S (S (S (S
                     (S (S (S (S (S (S (S (S (S (S (S (S (S (S (S (S (S (S (S
                     (S (S (S (S (S (S (S (S (S (S (S (S (S (S (S (S (S (S (S
                     (S (S (S (S (S (S (S (S (S (S (S (S (S (S (S (S (S (S (S
                     (S (S (S (S (S (S (S (S (S (S (S (S (S (S (S (S (S (S (S
                     (S (S (S (S (S (S (S (S (S (S (S (S (S (S (S
                     O))))))))))))))))))))))))))))))))))))))))))))))))))))))))))))))))))))))))))))))))))))))))))))))))))))))))))))))))))))))))))))))))))))))))))))))))))))))))))))))))))))))))))))))))))))))))))))))))))))))))))))))))))))))))))))))))))))))))))))))))))))))))))))))))))))))))))))))))))))))))))))))))))))))))))))))))))))))))))))))))))))))))))))))))))))))))))))))))))))))))))))))))))))))))))))))))))))))))))))))))))))))))))))))))))))))))))))))))))))))))))))))))))))))))))))))))))))))))))))))))))))))))))))))))))))))))))))))))))))))))))))))))))))))))))))))))))))))))))))))))))))))))))))))))))))))))))))))))))))))))))))))))))))))))))))))))))))))))))))))))))))))))))))))))))))))))))))))))))))))))))))))))))))))))))))))))))))))))))))))))))))))))))))))))))))))))))))))))))))))))))))))))))))))))))))))))))))))))))))))))))))))))))))))))))))))))))))))))))))))))))))))))))))))))))))))))))))))))))))))))))))))))))))))))))))))))))))))))))))))))))))))))))))))))))))))))))))))))))))))))))))))))))))))))))))))))))))))))))))))))))))))))))))))))))))))))))))))))))))))))))))))))))))))))))))))))))))))))))))))))))))))))))))))))))))))))))))))))))))))))))))))))))))))))))))))))))))))))))))))))))))))))))))))))))))))))))))))))))))))))))))))))))))))))))))))))))))))))))))))))))))))))))))))))))))))))))))))))))))))))))))))))))))))))))))))))))))))))))))))))))))))))))))))))))))))))))))))))))))))))))))))))))))))))))))))))))))))))))))))))))))))))))))))))))))))))))))))))))))))))))))))))))))))))))))))))))))))))))))))))))))))))))))))))))))))))))))))))))))))))))))))))))))))))))))))))))))))))))))))))))))))))))))))))))))))))))))))))))))))))))))))))))))))))))))))))))))))))))))))))))))))))))))))))))))))))))))))))))))))))))))))))))))))))))))))))))))))))))))))))))))))))))))))))))))))))))))))))))))))))))))))))))))))))))))))))))))))))))))))))))))))))))))))))))))))))))))))))))))))))))))))))))))))))))))))))))))))))))))))))))))))))))))))))))))))))))))))))))))))))))))))))))))))))))))))))))))))))))))))))))))))))))))))))))))))))))))))))))))))))))))))))))))))))))))))))))))))))))))))))))))))))))))))))))))))))))))))))))))))))))))))))))))))))))))))))))))))))))))))))))))))))))))))))))))))))))))))))))))))))))))))))))))))))))))))))))))))))))))))))))))))))))))))))))))))))))))))))))))))))))))))))))))))))))))))))))))))))))))))))))))))))))))))))))))))))))))))))))))))))))))))))))))))))))))))))))))))))))))))))))))))))))))))))))))))))))))))))))))))))))))))))))))))))))))))))))))))))))))))))))))))))))))))))))))))))))))))))))))))))))))))))))))))))))))))))))))))))))))))))))))))))))))))))))))))))))))))))))))))))))))))))))))))))))))))))))))))))))))))))))))))))))))))))))))))))))))))))))))))))))))))))))))))))))))))))))))))))))))))))))))))))))))))))))))))))))))))))))))))))))))))))))))))))))))))))))))))))))))))))))))))))))))))))))))))))))))))))))))))))))))))))))))))))))))))))))))))))))))))))))))))))))))))))))))))))))))))))))))))))))))))))))))))))))))))))))))))))))))))))))))))))))))))))))))))))))))))))))))))))))))))))))))))))))))))))))))))))))))))))))))))))))))))))))))))))))))))))))))))))))))))))))))))))))))))))))))))))))))))))))))))))))))))))))))))))))))))))))))))))))))))))))))))))))))))))))))))))))))))))))))))))))))))))))))))))))))))))))))))))))))))))))))))))))))))))))))))))))))))))))))))))))))))))))))))))))))))))))))))))))))))))))))))))))))))))))))))))))))))))))))))))))))))))))))))))))))))))))))))))))))))))))))))))))))))))))))))))))))))))))))))))))))))))))))))))))))))))))))))))))))))))))))))))))))))))))))))))))))))))))))))))))))))))))))))))))))))))))))))))))))))))))))))))))))))))))))))))))))))))))))))))))))))))))))))))))))))))))))))))))))))))))))))))))))))))))))))))))))))))))))))))))))))))))))))))))))))))))))))))))))))))))))))))))))))))))))))))))))))))))))))))))))))))))))))))))))))))))))))))))))))))))))))))))))))))))))))))))))))))))))))))))))))))))))))))))))))))))))))))))))))))))))))))))))))))))))))))))))))))))))))))))))))))))))))))))))))))))))))))))))))))))))))))))))))))))))))))))))))))))))))))))))))))))))))))))))))))))))))))))))))))))))))))))))))))))))))))))))))))))))))))))))))))))))))))))))))))))))))))))))))))))))))))
                     fuel first
                 in
                 let hdrblocks = Z.div (Z.sub (Z.add hDRLEN bS) (Zpos XH)) bS
                 in
                 let all =
                   sort_ranges ((Z0, hdrblocks) :: (((Z.div bmoff bS),
                     (Z.div bmlen bS)) :: occ))
                 in
                 let total =
                   Z.min (Z.mul bmlen (Zpos (XO (XO (XO XH)))))
                     (Z.div fsize bS)
                 in
                 app comps
                   (app
                     (match first_overlap all with
                      | Some b -> (CBlocksOverlap b) :: []
                      | None -> [])
                     (app
                       (if forallb (fun r ->
                             Z.leb (Z.mul (Z.add (fst r) (snd r)) bS) fsize)
                             all
                        then []
                        else (CBeyondFile Z0) :: [])
                       (if ranges_disjoint all
                        then firstn (S (S (S (S (S (S (S (S O))))))))
                               (check_map rd bmoff Z0 total all)
                        else [])))
