
(** val negb : bool -> bool **)

let negb = function
| true -> false
| false -> true

type nat =
| O
| S of nat

(** val option_map : ('a1 -> 'a2) -> 'a1 option -> 'a2 option **)

let option_map f = function
| Some a -> Some (f a)
| None -> None

(** val length : 'a1 list -> nat **)

let rec length = function
| [] -> O
| _ :: l' -> S (length l')

(** val app : 'a1 list -> 'a1 list -> 'a1 list **)

let rec app l m =
  match l with
  | [] -> m
  | a :: l1 -> a :: (app l1 m)

type comparison =
| Eq
| Lt
| Gt

(** val compOpp : comparison -> comparison **)

let compOpp = function
| Eq -> Eq
| Lt -> Gt
| Gt -> Lt

module Coq__1 = struct
 (** val add : nat -> nat -> nat **)
 let rec add n0 m =
   match n0 with
   | O -> m
   | S p -> S (add p m)
end
include Coq__1

(** val sub : nat -> nat -> nat **)

let rec sub n0 m =
  match n0 with
  | O -> n0
  | S k -> (match m with
            | O -> n0
            | S l -> sub k l)

type positive =
| XI of positive
| XO of positive
| XH

type n =
| N0
| Npos of positive

type z =
| Z0
| Zpos of positive
| Zneg of positive

module Pos =
 struct
  (** val succ : positive -> positive **)

  let rec succ = function
  | XI p -> XO (succ p)
  | XO p -> XI p
  | XH -> XO XH

  (** val add : positive -> positive -> positive **)

  let rec add x y =
    match x with
    | XI p ->
      (match y with
       | XI q -> XO (add_carry p q)
       | XO q -> XI (add p q)
       | XH -> XO (succ p))
    | XO p ->
      (match y with
       | XI q -> XI (add p q)
       | XO q -> XO (add p q)
       | XH -> XI p)
    | XH -> (match y with
             | XI q -> XO (succ q)
             | XO q -> XI q
             | XH -> XO XH)

  (** val add_carry : positive -> positive -> positive **)

  and add_carry x y =
    match x with
    | XI p ->
      (match y with
       | XI q -> XI (add_carry p q)
       | XO q -> XO (add_carry p q)
       | XH -> XI (succ p))
    | XO p ->
      (match y with
       | XI q -> XO (add_carry p q)
       | XO q -> XI (add p q)
       | XH -> XO (succ p))
    | XH ->
      (match y with
       | XI q -> XI (succ q)
       | XO q -> XO (succ q)
       | XH -> XI XH)

  (** val pred_double : positive -> positive **)

  let rec pred_double = function
  | XI p -> XI (XO p)
  | XO p -> XI (pred_double p)
  | XH -> XH

  (** val pred_N : positive -> n **)

  let pred_N = function
  | XI p -> Npos (XO p)
  | XO p -> Npos (pred_double p)
  | XH -> N0

  (** val mul : positive -> positive -> positive **)

  let rec mul x y =
    match x with
    | XI p -> add y (XO (mul p y))
    | XO p -> XO (mul p y)
    | XH -> y

  (** val iter : ('a1 -> 'a1) -> 'a1 -> positive -> 'a1 **)

  let rec iter f x = function
  | XI n' -> f (iter f (iter f x n') n')
  | XO n' -> iter f (iter f x n') n'
  | XH -> f x

  (** val div2 : positive -> positive **)

  let div2 = function
  | XI p0 -> p0
  | XO p0 -> p0
  | XH -> XH

  (** val div2_up : positive -> positive **)

  let div2_up = function
  | XI p0 -> succ p0
  | XO p0 -> p0
  | XH -> XH

  (** val compare_cont : comparison -> positive -> positive -> comparison **)

  let rec compare_cont r x y =
    match x with
    | XI p ->
      (match y with
       | XI q -> compare_cont r p q
       | XO q -> compare_cont Gt p q
       | XH -> Gt)
    | XO p ->
      (match y with
       | XI q -> compare_cont Lt p q
       | XO q -> compare_cont r p q
       | XH -> Gt)
    | XH -> (match y with
             | XH -> r
             | _ -> Lt)

  (** val compare : positive -> positive -> comparison **)

  let compare =
    compare_cont Eq

  (** val eqb : positive -> positive -> bool **)

  let rec eqb p q =
    match p with
    | XI p0 -> (match q with
                | XI q0 -> eqb p0 q0
                | _ -> false)
    | XO p0 -> (match q with
                | XO q0 -> eqb p0 q0
                | _ -> false)
    | XH -> (match q with
             | XH -> true
             | _ -> false)

  (** val coq_Nsucc_double : n -> n **)

  let coq_Nsucc_double = function
  | N0 -> Npos XH
  | Npos p -> Npos (XI p)

  (** val coq_Ndouble : n -> n **)

  let coq_Ndouble = function
  | N0 -> N0
  | Npos p -> Npos (XO p)

  (** val coq_lor : positive -> positive -> positive **)

  let rec coq_lor p q =
    match p with
    | XI p0 ->
      (match q with
       | XI q0 -> XI (coq_lor p0 q0)
       | XO q0 -> XI (coq_lor p0 q0)
       | XH -> p)
    | XO p0 ->
      (match q with
       | XI q0 -> XI (coq_lor p0 q0)
       | XO q0 -> XO (coq_lor p0 q0)
       | XH -> XI p0)
    | XH -> (match q with
             | XO q0 -> XI q0
             | _ -> q)

  (** val coq_land : positive -> positive -> n **)

  let rec coq_land p q =
    match p with
    | XI p0 ->
      (match q with
       | XI q0 -> coq_Nsucc_double (coq_land p0 q0)
       | XO q0 -> coq_Ndouble (coq_land p0 q0)
       | XH -> Npos XH)
    | XO p0 ->
      (match q with
       | XI q0 -> coq_Ndouble (coq_land p0 q0)
       | XO q0 -> coq_Ndouble (coq_land p0 q0)
       | XH -> N0)
    | XH -> (match q with
             | XO _ -> N0
             | _ -> Npos XH)

  (** val ldiff : positive -> positive -> n **)

  let rec ldiff p q =
    match p with
    | XI p0 ->
      (match q with
       | XI q0 -> coq_Ndouble (ldiff p0 q0)
       | XO q0 -> coq_Nsucc_double (ldiff p0 q0)
       | XH -> Npos (XO p0))
    | XO p0 ->
      (match q with
       | XI q0 -> coq_Ndouble (ldiff p0 q0)
       | XO q0 -> coq_Ndouble (ldiff p0 q0)
       | XH -> Npos p)
    | XH -> (match q with
             | XO _ -> Npos XH
             | _ -> N0)

  (** val coq_lxor : positive -> positive -> n **)

  let rec coq_lxor p q =
    match p with
    | XI p0 ->
      (match q with
       | XI q0 -> coq_Ndouble (coq_lxor p0 q0)
       | XO q0 -> coq_Nsucc_double (coq_lxor p0 q0)
       | XH -> Npos (XO p0))
    | XO p0 ->
      (match q with
       | XI q0 -> coq_Nsucc_double (coq_lxor p0 q0)
       | XO q0 -> coq_Ndouble (coq_lxor p0 q0)
       | XH -> Npos (XI p0))
    | XH ->
      (match q with
       | XI q0 -> Npos (XO q0)
       | XO q0 -> Npos (XI q0)
       | XH -> N0)

  (** val iter_op : ('a1 -> 'a1 -> 'a1) -> positive -> 'a1 -> 'a1 **)

  let rec iter_op op p a =
    match p with
    | XI p0 -> op a (iter_op op p0 (op a a))
    | XO p0 -> iter_op op p0 (op a a)
    | XH -> a

  (** val to_nat : positive -> nat **)

  let to_nat x =
    iter_op Coq__1.add x (S O)

  (** val of_succ_nat : nat -> positive **)

  let rec of_succ_nat = function
  | O -> XH
  | S x -> succ (of_succ_nat x)
 end

module N =
 struct
  (** val succ_pos : n -> positive **)

  let succ_pos = function
  | N0 -> XH
  | Npos p -> Pos.succ p

  (** val coq_lor : n -> n -> n **)

  let coq_lor n0 m =
    match n0 with
    | N0 -> m
    | Npos p -> (match m with
                 | N0 -> n0
                 | Npos q -> Npos (Pos.coq_lor p q))

  (** val ldiff : n -> n -> n **)

  let ldiff n0 m =
    match n0 with
    | N0 -> N0
    | Npos p -> (match m with
                 | N0 -> n0
                 | Npos q -> Pos.ldiff p q)

  (** val coq_lxor : n -> n -> n **)

  let coq_lxor n0 m =
    match n0 with
    | N0 -> m
    | Npos p -> (match m with
                 | N0 -> n0
                 | Npos q -> Pos.coq_lxor p q)
 end

module Z =
 struct
  (** val double : z -> z **)

  let double = function
  | Z0 -> Z0
  | Zpos p -> Zpos (XO p)
  | Zneg p -> Zneg (XO p)

  (** val succ_double : z -> z **)

  let succ_double = function
  | Z0 -> Zpos XH
  | Zpos p -> Zpos (XI p)
  | Zneg p -> Zneg (Pos.pred_double p)

  (** val pred_double : z -> z **)

  let pred_double = function
  | Z0 -> Zneg XH
  | Zpos p -> Zpos (Pos.pred_double p)
  | Zneg p -> Zneg (XI p)

  (** val pos_sub : positive -> positive -> z **)

  let rec pos_sub x y =
    match x with
    | XI p ->
      (match y with
       | XI q -> double (pos_sub p q)
       | XO q -> succ_double (pos_sub p q)
       | XH -> Zpos (XO p))
    | XO p ->
      (match y with
       | XI q -> pred_double (pos_sub p q)
       | XO q -> double (pos_sub p q)
       | XH -> Zpos (Pos.pred_double p))
    | XH ->
      (match y with
       | XI q -> Zneg (XO q)
       | XO q -> Zneg (Pos.pred_double q)
       | XH -> Z0)

  (** val add : z -> z -> z **)

  let add x y =
    match x with
    | Z0 -> y
    | Zpos x' ->
      (match y with
       | Z0 -> x
       | Zpos y' -> Zpos (Pos.add x' y')
       | Zneg y' -> pos_sub x' y')
    | Zneg x' ->
      (match y with
       | Z0 -> x
       | Zpos y' -> pos_sub y' x'
       | Zneg y' -> Zneg (Pos.add x' y'))

  (** val opp : z -> z **)

  let opp = function
  | Z0 -> Z0
  | Zpos x0 -> Zneg x0
  | Zneg x0 -> Zpos x0

  (** val pred : z -> z **)

  let pred x =
    add x (Zneg XH)

  (** val sub : z -> z -> z **)

  let sub m n0 =
    add m (opp n0)

  (** val mul : z -> z -> z **)

  let mul x y =
    match x with
    | Z0 -> Z0
    | Zpos x' ->
      (match y with
       | Z0 -> Z0
       | Zpos y' -> Zpos (Pos.mul x' y')
       | Zneg y' -> Zneg (Pos.mul x' y'))
    | Zneg x' ->
      (match y with
       | Z0 -> Z0
       | Zpos y' -> Zneg (Pos.mul x' y')
       | Zneg y' -> Zpos (Pos.mul x' y'))

  (** val pow_pos : z -> positive -> z **)

  let pow_pos z0 =
    Pos.iter (mul z0) (Zpos XH)

  (** val pow : z -> z -> z **)

  let pow x = function
  | Z0 -> Zpos XH
  | Zpos p -> pow_pos x p
  | Zneg _ -> Z0

  (** val compare : z -> z -> comparison **)

  let compare x y =
    match x with
    | Z0 -> (match y with
             | Z0 -> Eq
             | Zpos _ -> Lt
             | Zneg _ -> Gt)
    | Zpos x' -> (match y with
                  | Zpos y' -> Pos.compare x' y'
                  | _ -> Gt)
    | Zneg x' ->
      (match y with
       | Zneg y' -> compOpp (Pos.compare x' y')
       | _ -> Lt)

  (** val leb : z -> z -> bool **)

  let leb x y =
    match compare x y with
    | Gt -> false
    | _ -> true

  (** val ltb : z -> z -> bool **)

  let ltb x y =
    match compare x y with
    | Lt -> true
    | _ -> false

  (** val geb : z -> z -> bool **)

  let geb x y =
    match compare x y with
    | Lt -> false
    | _ -> true

  (** val gtb : z -> z -> bool **)

  let gtb x y =
    match compare x y with
    | Gt -> true
    | _ -> false

  (** val eqb : z -> z -> bool **)

  let eqb x y =
    match x with
    | Z0 -> (match y with
             | Z0 -> true
             | _ -> false)
    | Zpos p -> (match y with
                 | Zpos q -> Pos.eqb p q
                 | _ -> false)
    | Zneg p -> (match y with
                 | Zneg q -> Pos.eqb p q
                 | _ -> false)

  (** val to_nat : z -> nat **)

  let to_nat = function
  | Zpos p -> Pos.to_nat p
  | _ -> O

  (** val of_nat : nat -> z **)

  let of_nat = function
  | O -> Z0
  | S n1 -> Zpos (Pos.of_succ_nat n1)

  (** val of_N : n -> z **)

  let of_N = function
  | N0 -> Z0
  | Npos p -> Zpos p

  (** val pos_div_eucl : positive -> z -> z * z **)

  let rec pos_div_eucl a b =
    match a with
    | XI a' ->
      let (q, r) = pos_div_eucl a' b in
      let r' = add (mul (Zpos (XO XH)) r) (Zpos XH) in
      if ltb r' b
      then ((mul (Zpos (XO XH)) q), r')
      else ((add (mul (Zpos (XO XH)) q) (Zpos XH)), (sub r' b))
    | XO a' ->
      let (q, r) = pos_div_eucl a' b in
      let r' = mul (Zpos (XO XH)) r in
      if ltb r' b
      then ((mul (Zpos (XO XH)) q), r')
      else ((add (mul (Zpos (XO XH)) q) (Zpos XH)), (sub r' b))
    | XH -> if leb (Zpos (XO XH)) b then (Z0, (Zpos XH)) else ((Zpos XH), Z0)

  (** val div_eucl : z -> z -> z * z **)

  let div_eucl a b =
    match a with
    | Z0 -> (Z0, Z0)
    | Zpos a' ->
      (match b with
       | Z0 -> (Z0, a)
       | Zpos _ -> pos_div_eucl a' b
       | Zneg b' ->
         let (q, r) = pos_div_eucl a' (Zpos b') in
         (match r with
          | Z0 -> ((opp q), Z0)
          | _ -> ((opp (add q (Zpos XH))), (add b r))))
    | Zneg a' ->
      (match b with
       | Z0 -> (Z0, a)
       | Zpos _ ->
         let (q, r) = pos_div_eucl a' b in
         (match r with
          | Z0 -> ((opp q), Z0)
          | _ -> ((opp (add q (Zpos XH))), (sub b r)))
       | Zneg b' -> let (q, r) = pos_div_eucl a' (Zpos b') in (q, (opp r)))

  (** val div : z -> z -> z **)

  let div a b =
    let (q, _) = div_eucl a b in q

  (** val modulo : z -> z -> z **)

  let modulo a b =
    let (_, r) = div_eucl a b in r

  (** val div2 : z -> z **)

  let div2 = function
  | Z0 -> Z0
  | Zpos p -> (match p with
               | XH -> Z0
               | _ -> Zpos (Pos.div2 p))
  | Zneg p -> Zneg (Pos.div2_up p)

  (** val shiftl : z -> z -> z **)

  let shiftl a = function
  | Z0 -> a
  | Zpos p -> Pos.iter (mul (Zpos (XO XH))) a p
  | Zneg p -> Pos.iter div2 a p

  (** val shiftr : z -> z -> z **)

  let shiftr a n0 =
    shiftl a (opp n0)

  (** val coq_land : z -> z -> z **)

  let coq_land a b =
    match a with
    | Z0 -> Z0
    | Zpos a0 ->
      (match b with
       | Z0 -> Z0
       | Zpos b0 -> of_N (Pos.coq_land a0 b0)
       | Zneg b0 -> of_N (N.ldiff (Npos a0) (Pos.pred_N b0)))
    | Zneg a0 ->
      (match b with
       | Z0 -> Z0
       | Zpos b0 -> of_N (N.ldiff (Npos b0) (Pos.pred_N a0))
       | Zneg b0 ->
         Zneg (N.succ_pos (N.coq_lor (Pos.pred_N a0) (Pos.pred_N b0))))

  (** val coq_lxor : z -> z -> z **)

  let coq_lxor a b =
    match a with
    | Z0 -> b
    | Zpos a0 ->
      (match b with
       | Z0 -> a
       | Zpos b0 -> of_N (Pos.coq_lxor a0 b0)
       | Zneg b0 -> Zneg (N.succ_pos (N.coq_lxor (Npos a0) (Pos.pred_N b0))))
    | Zneg a0 ->
      (match b with
       | Z0 -> a
       | Zpos b0 -> Zneg (N.succ_pos (N.coq_lxor (Pos.pred_N a0) (Npos b0)))
       | Zneg b0 -> of_N (N.coq_lxor (Pos.pred_N a0) (Pos.pred_N b0)))

  (** val lnot : z -> z **)

  let lnot a =
    pred (opp a)
 end

(** val nth : nat -> 'a1 list -> 'a1 -> 'a1 **)

let rec nth n0 l default =
  match n0 with
  | O -> (match l with
          | [] -> default
          | x :: _ -> x)
  | S m -> (match l with
            | [] -> default
            | _ :: t -> nth m t default)

(** val flat_map : ('a1 -> 'a2 list) -> 'a1 list -> 'a2 list **)

let rec flat_map f = function
| [] -> []
| x :: t -> app (f x) (flat_map f t)

(** val fold_left : ('a1 -> 'a2 -> 'a1) -> 'a2 list -> 'a1 -> 'a1 **)

let rec fold_left f l a0 =
  match l with
  | [] -> a0
  | b :: t -> fold_left f t (f a0 b)

(** val forallb : ('a1 -> bool) -> 'a1 list -> bool **)

let rec forallb f = function
| [] -> true
| a :: l0 -> (&&) (f a) (forallb f l0)

(** val firstn : nat -> 'a1 list -> 'a1 list **)

let rec firstn n0 l =
  match n0 with
  | O -> []
  | S n1 -> (match l with
             | [] -> []
             | a :: l0 -> a :: (firstn n1 l0))

(** val skipn : nat -> 'a1 list -> 'a1 list **)

let rec skipn n0 l =
  match n0 with
  | O -> l
  | S n1 -> (match l with
             | [] -> []
             | _ :: l0 -> skipn n1 l0)

(** val repeat : 'a1 -> nat -> 'a1 list **)

let rec repeat x = function
| O -> []
| S k -> x :: (repeat x k)

(** val uw : z -> z -> z **)

let uw bits x =
  Z.modulo x (Z.pow (Zpos (XO XH)) bits)

(** val sw : z -> z -> z **)

let sw bits x =
  Z.sub
    (Z.modulo (Z.add x (Z.pow (Zpos (XO XH)) (Z.sub bits (Zpos XH))))
      (Z.pow (Zpos (XO XH)) bits))
    (Z.pow (Zpos (XO XH)) (Z.sub bits (Zpos XH)))

(** val iWFSM_CUSTOM_HDR_DATA_OFFSET : z **)

let iWFSM_CUSTOM_HDR_DATA_OFFSET =
  Zpos (XI (XO (XI (XI (XO (XO XH))))))

(** val iWKV_MAGIC : z **)

let iWKV_MAGIC =
  Zpos (XO (XI (XI (XO (XI (XI (XI (XO (XI (XI (XO (XI (XO (XI (XI (XO (XI
    (XI (XI (XO (XI (XI (XI (XO (XI (XO (XO (XI (XO (XI
    XH))))))))))))))))))))))))))))))

(** val iWKV_BACKUP_MAGIC : z **)

let iWKV_BACKUP_MAGIC =
  Zpos (XI (XO (XO (XI (XO (XI (XI (XO (XO (XO (XI (XI (XO (XI (XO (XI (XI
    (XI (XO (XI (XO (XO (XI (XI (XO (XI (XO (XI (XI (XI (XO
    XH)))))))))))))))))))))))))))))))

(** val wOP_SET : z **)

let wOP_SET =
  Zpos XH

(** val wOP_COPY : z **)

let wOP_COPY =
  Zpos (XO XH)

(** val wOP_WRITE : z **)

let wOP_WRITE =
  Zpos (XI XH)

(** val wOP_RESIZE : z **)

let wOP_RESIZE =
  Zpos (XO (XO XH))

(** val wOP_SAVEPOINT : z **)

let wOP_SAVEPOINT =
  Zpos (XI (XO XH))

(** val wOP_RESET : z **)

let wOP_RESET =
  Zpos (XO (XI XH))

(** val wOP_SEP : z **)

let wOP_SEP =
  Zpos (XI (XI (XI (XI (XI (XI XH))))))

(** val sizeof_WBSEP : z **)

let sizeof_WBSEP =
  Zpos (XO (XO (XI XH)))

(** val sizeof_WBRESET : z **)

let sizeof_WBRESET =
  Zpos (XO (XO XH))

(** val sizeof_WBSET : z **)

let sizeof_WBSET =
  Zpos (XO (XO (XO (XI XH))))

(** val sizeof_WBCOPY : z **)

let sizeof_WBCOPY =
  Zpos (XO (XO (XI (XI XH))))

(** val sizeof_WBWRITE : z **)

let sizeof_WBWRITE =
  Zpos (XO (XO (XI (XO XH))))

(** val sizeof_WBRESIZE : z **)

let sizeof_WBRESIZE =
  Zpos (XO (XO (XI (XO XH))))

(** val sizeof_WBSAVEPOINT : z **)

let sizeof_WBSAVEPOINT =
  Zpos (XO (XO (XI XH)))

(** val offsetof_WBSEP_crc : z **)

let offsetof_WBSEP_crc =
  Zpos (XO (XO XH))

(** val offsetof_WBSEP_len : z **)

let offsetof_WBSEP_len =
  Zpos (XO (XO (XO XH)))

(** val offsetof_WBSET_val : z **)

let offsetof_WBSET_val =
  Zpos (XO (XO XH))

(** val offsetof_WBSET_off : z **)

let offsetof_WBSET_off =
  Zpos (XO (XO (XO XH)))

(** val offsetof_WBSET_len : z **)

let offsetof_WBSET_len =
  Zpos (XO (XO (XO (XO XH))))

(** val offsetof_WBCOPY_off : z **)

let offsetof_WBCOPY_off =
  Zpos (XO (XO XH))

(** val offsetof_WBCOPY_len : z **)

let offsetof_WBCOPY_len =
  Zpos (XO (XO (XI XH)))

(** val offsetof_WBCOPY_noff : z **)

let offsetof_WBCOPY_noff =
  Zpos (XO (XO (XI (XO XH))))

(** val offsetof_WBWRITE_crc : z **)

let offsetof_WBWRITE_crc =
  Zpos (XO (XO XH))

(** val offsetof_WBWRITE_len : z **)

let offsetof_WBWRITE_len =
  Zpos (XO (XO (XO XH)))

(** val offsetof_WBWRITE_off : z **)

let offsetof_WBWRITE_off =
  Zpos (XO (XO (XI XH)))

(** val offsetof_WBRESIZE_osize : z **)

let offsetof_WBRESIZE_osize =
  Zpos (XO (XO XH))

(** val offsetof_WBRESIZE_nsize : z **)

let offsetof_WBRESIZE_nsize =
  Zpos (XO (XO (XI XH)))

(** val offsetof_WBSAVEPOINT_ts : z **)

let offsetof_WBSAVEPOINT_ts =
  Zpos (XO (XO XH))

(** val iwu_crc32_table : z list **)

let iwu_crc32_table =
  Z0 :: ((Zpos (XI (XI (XI (XO (XI (XI (XO (XI (XI (XO (XI (XI (XI (XO (XO
    (XO (XI (XO (XO (XO (XO (XO (XI (XI (XO (XO
    XH))))))))))))))))))))))))))) :: ((Zpos (XO (XI (XI (XI (XO (XI (XI (XO
    (XI (XI (XO (XI (XI (XI (XO (XO (XO (XI (XO (XO (XO (XO (XO (XI (XI (XO
    (XO XH)))))))))))))))))))))))))))) :: ((Zpos (XI (XO (XO (XI (XI (XO (XI
    (XI (XO (XI (XI (XO (XO (XI (XO (XO (XI (XI (XO (XO (XO (XO (XI (XO (XI
    (XO (XI XH)))))))))))))))))))))))))))) :: ((Zpos (XO (XO (XI (XI (XI (XO
    (XI (XI (XO (XI (XI (XO (XI (XI (XI (XO (XO (XO (XI (XO (XO (XO (XO (XO
    (XI (XI (XO (XO XH))))))))))))))))))))))))))))) :: ((Zpos (XI (XI (XO (XI
    (XO (XI (XI (XO (XI (XI (XO (XI (XO (XI (XI (XO (XI (XO (XI (XO (XO (XO
    (XI (XI (XI (XI (XI (XO XH))))))))))))))))))))))))))))) :: ((Zpos (XO (XI
    (XO (XO (XI (XI (XO (XI (XI (XO (XI (XI (XO (XO (XI (XO (XO (XI (XI (XO
    (XO (XO (XO (XI (XO (XI (XO (XI XH))))))))))))))))))))))))))))) :: ((Zpos
    (XI (XO (XI (XO (XO (XO (XO (XO (XO (XO (XO (XO (XI (XO (XI (XO (XI (XI
    (XI (XO (XO (XO (XI (XO (XO (XI (XI (XI
    XH))))))))))))))))))))))))))))) :: ((Zpos (XO (XO (XO (XI (XI (XI (XO (XI
    (XI (XO (XI (XI (XO (XI (XI (XI (XO (XO (XO (XI (XO (XO (XO (XO (XO (XI
    (XI (XO (XO XH)))))))))))))))))))))))))))))) :: ((Zpos (XI (XI (XI (XI
    (XO (XO (XO (XO (XO (XO (XO (XO (XI (XI (XI (XI (XI (XO (XO (XI (XO (XO
    (XI (XI (XO (XI (XO (XO (XO XH)))))))))))))))))))))))))))))) :: ((Zpos
    (XO (XI (XI (XO (XI (XO (XI (XI (XO (XI (XI (XO (XI (XO (XI (XI (XO (XI
    (XO (XI (XO (XO (XO (XI (XI (XI (XI (XI (XO
    XH)))))))))))))))))))))))))))))) :: ((Zpos (XI (XO (XO (XO (XO (XI (XI
    (XO (XI (XI (XO (XI (XO (XO (XI (XI (XI (XI (XO (XI (XO (XO (XI (XO (XI
    (XI (XO (XI (XO XH)))))))))))))))))))))))))))))) :: ((Zpos (XO (XO (XI
    (XO (XO (XI (XI (XO (XI (XI (XO (XI (XI (XO (XO (XI (XO (XO (XI (XI (XO
    (XO (XO (XO (XI (XO (XI (XO (XI
    XH)))))))))))))))))))))))))))))) :: ((Zpos (XI (XI (XO (XO (XI (XO (XI
    (XI (XO (XI (XI (XO (XO (XO (XO (XI (XI (XO (XI (XI (XO (XO (XI (XI (XI
    (XO (XO (XO (XI XH)))))))))))))))))))))))))))))) :: ((Zpos (XO (XI (XO
    (XI (XO (XO (XO (XO (XO (XO (XO (XO (XO (XI (XO (XI (XO (XI (XI (XI (XO
    (XO (XO (XI (XO (XO (XI (XI (XI
    XH)))))))))))))))))))))))))))))) :: ((Zpos (XI (XO (XI (XI (XI (XI (XO
    (XI (XI (XO (XI (XI (XI (XI (XO (XI (XI (XI (XI (XI (XO (XO (XI (XO (XO
    (XO (XO (XI (XI XH)))))))))))))))))))))))))))))) :: ((Zpos (XO (XO (XO
    (XO (XI (XI (XI (XO (XI (XI (XO (XI (XI (XO (XI (XI (XI (XO (XO (XO (XI
    (XO (XO (XO (XO (XO (XI (XI (XO (XO
    XH))))))))))))))))))))))))))))))) :: ((Zpos (XI (XI (XI (XO (XO (XO (XI
    (XI (XO (XI (XI (XO (XO (XO (XI (XI (XO (XO (XO (XO (XI (XO (XI (XI (XO
    (XO (XO (XI (XO (XO XH))))))))))))))))))))))))))))))) :: ((Zpos (XO (XI
    (XI (XI (XI (XO (XO (XO (XO (XO (XO (XO (XO (XI (XI (XI (XI (XI (XO (XO
    (XI (XO (XO (XI (XI (XO (XI (XO (XO (XO
    XH))))))))))))))))))))))))))))))) :: ((Zpos (XI (XO (XO (XI (XO (XI (XO
    (XI (XI (XO (XI (XI (XI (XI (XI (XI (XO (XI (XO (XO (XI (XO (XI (XO (XI
    (XO (XO (XO (XO (XO XH))))))))))))))))))))))))))))))) :: ((Zpos (XO (XO
    (XI (XI (XO (XI (XO (XI (XI (XO (XI (XI (XO (XI (XO (XI (XI (XO (XI (XO
    (XI (XO (XO (XO (XI (XI (XI (XI (XI (XO
    XH))))))))))))))))))))))))))))))) :: ((Zpos (XI (XI (XO (XI (XI (XO (XO
    (XO (XO (XO (XO (XO (XI (XI (XO (XI (XO (XO (XI (XO (XI (XO (XI (XI (XI
    (XI (XO (XI (XI (XO XH))))))))))))))))))))))))))))))) :: ((Zpos (XO (XI
    (XO (XO (XO (XO (XI (XI (XO (XI (XI (XO (XI (XO (XO (XI (XI (XI (XI (XO
    (XI (XO (XO (XI (XO (XI (XI (XO (XI (XO
    XH))))))))))))))))))))))))))))))) :: ((Zpos (XI (XO (XI (XO (XI (XI (XI
    (XO (XI (XI (XO (XI (XO (XO (XO (XI (XO (XI (XI (XO (XI (XO (XI (XO (XO
    (XI (XO (XO (XI (XO XH))))))))))))))))))))))))))))))) :: ((Zpos (XO (XO
    (XO (XI (XO (XO (XI (XI (XO (XI (XI (XO (XI (XI (XO (XO (XI (XO (XO (XI
    (XI (XO (XO (XO (XO (XI (XO (XI (XO (XI
    XH))))))))))))))))))))))))))))))) :: ((Zpos (XI (XI (XI (XI (XI (XI (XI
    (XO (XI (XI (XO (XI (XO (XI (XO (XO (XO (XO (XO (XI (XI (XO (XI (XI (XO
    (XI (XI (XI (XO (XI XH))))))))))))))))))))))))))))))) :: ((Zpos (XO (XI
    (XI (XO (XO (XI (XO (XI (XI (XO (XI (XI (XO (XO (XO (XO (XI (XI (XO (XI
    (XI (XO (XO (XI (XI (XI (XO (XO (XO (XI
    XH))))))))))))))))))))))))))))))) :: ((Zpos (XI (XO (XO (XO (XI (XO (XO
    (XO (XO (XO (XO (XO (XI (XO (XO (XO (XO (XI (XO (XI (XI (XO (XI (XO (XI
    (XI (XI (XO (XO (XI XH))))))))))))))))))))))))))))))) :: ((Zpos (XO (XO
    (XI (XO (XI (XO (XO (XO (XO (XO (XO (XO (XO (XO (XI (XO (XI (XO (XI (XI
    (XI (XO (XO (XO (XI (XO (XO (XI (XI (XI
    XH))))))))))))))))))))))))))))))) :: ((Zpos (XI (XI (XO (XO (XO (XI (XO
    (XI (XI (XO (XI (XI (XI (XO (XI (XO (XO (XO (XI (XI (XI (XO (XI (XI (XI
    (XO (XI (XI (XI (XI XH))))))))))))))))))))))))))))))) :: ((Zpos (XO (XI
    (XO (XI (XI (XI (XI (XO (XI (XI (XO (XI (XI (XI (XI (XO (XI (XI (XI (XI
    (XI (XO (XO (XI (XO (XO (XO (XO (XI (XI
    XH))))))))))))))))))))))))))))))) :: ((Zpos (XI (XO (XI (XI (XO (XO (XI
    (XI (XO (XI (XI (XO (XO (XI (XI (XO (XO (XI (XI (XI (XI (XO (XI (XO (XO
    (XO (XI (XO (XI (XI XH))))))))))))))))))))))))))))))) :: ((Zpos (XO (XO
    (XO (XO (XO (XI (XI (XI (XO (XI (XI (XO (XI (XI (XO (XI (XI (XI (XO (XO
    (XO (XI (XO (XO (XO (XO (XO (XI (XI (XO (XO
    XH)))))))))))))))))))))))))))))))) :: ((Zpos (XI (XI (XI (XO (XI (XO (XI
    (XO (XI (XI (XO (XI (XO (XI (XO (XI (XO (XI (XO (XO (XO (XI (XI (XI (XO
    (XO (XI (XI (XI (XO (XO XH)))))))))))))))))))))))))))))))) :: ((Zpos (XO
    (XI (XI (XI (XO (XO (XO (XI (XI (XO (XI (XI (XO (XO (XO (XI (XI (XO (XO
    (XO (XO (XI (XO (XI (XI (XO (XO (XO (XI (XO (XO
    XH)))))))))))))))))))))))))))))))) :: ((Zpos (XI (XO (XO (XI (XI (XI (XO
    (XO (XO (XO (XO (XO (XI (XO (XO (XI (XO (XO (XO (XO (XO (XI (XI (XO (XI
    (XO (XI (XO (XI (XO (XO XH)))))))))))))))))))))))))))))))) :: ((Zpos (XO
    (XO (XI (XI (XI (XI (XO (XO (XO (XO (XO (XO (XO (XO (XI (XI (XI (XI (XI
    (XO (XO (XI (XO (XO (XI (XI (XO (XI (XO (XO (XO
    XH)))))))))))))))))))))))))))))))) :: ((Zpos (XI (XI (XO (XI (XO (XO (XO
    (XI (XI (XO (XI (XI (XI (XO (XI (XI (XO (XI (XI (XO (XO (XI (XI (XI (XI
    (XI (XI (XI (XO (XO (XO XH)))))))))))))))))))))))))))))))) :: ((Zpos (XO
    (XI (XO (XO (XI (XO (XI (XO (XI (XI (XO (XI (XI (XI (XI (XI (XI (XO (XI
    (XO (XO (XI (XO (XI (XO (XI (XO (XO (XO (XO (XO
    XH)))))))))))))))))))))))))))))))) :: ((Zpos (XI (XO (XI (XO (XO (XI (XI
    (XI (XO (XI (XI (XO (XO (XI (XI (XI (XO (XO (XI (XO (XO (XI (XI (XO (XO
    (XI (XI (XO (XO (XO (XO XH)))))))))))))))))))))))))))))))) :: ((Zpos (XO
    (XO (XO (XI (XI (XO (XI (XO (XI (XI (XO (XI (XI (XO (XI (XO (XI (XI (XO
    (XI (XO (XI (XO (XO (XO (XI (XI (XI (XI (XI (XO
    XH)))))))))))))))))))))))))))))))) :: ((Zpos (XI (XI (XI (XI (XO (XI (XI
    (XI (XO (XI (XI (XO (XO (XO (XI (XO (XO (XI (XO (XI (XO (XI (XI (XI (XO
    (XI (XO (XI (XI (XI (XO XH)))))))))))))))))))))))))))))))) :: ((Zpos (XO
    (XI (XI (XO (XI (XI (XO (XO (XO (XO (XO (XO (XO (XI (XI (XO (XI (XO (XO
    (XI (XO (XI (XO (XI (XI (XI (XI (XO (XI (XI (XO
    XH)))))))))))))))))))))))))))))))) :: ((Zpos (XI (XO (XO (XO (XO (XO (XO
    (XI (XI (XO (XI (XI (XI (XI (XI (XO (XO (XO (XO (XI (XO (XI (XI (XO (XI
    (XI (XO (XO (XI (XI (XO XH)))))))))))))))))))))))))))))))) :: ((Zpos (XO
    (XO (XI (XO (XO (XO (XO (XI (XI (XO (XI (XI (XO (XI (XO (XO (XI (XI (XI
    (XI (XO (XI (XO (XO (XI (XO (XI (XI (XO (XI (XO
    XH)))))))))))))))))))))))))))))))) :: ((Zpos (XI (XI (XO (XO (XI (XI (XO
    (XO (XO (XO (XO (XO (XI (XI (XO (XO (XO (XI (XI (XI (XO (XI (XI (XI (XI
    (XO (XO (XI (XO (XI (XO XH)))))))))))))))))))))))))))))))) :: ((Zpos (XO
    (XI (XO (XI (XO (XI (XI (XI (XO (XI (XI (XO (XI (XO (XO (XO (XI (XO (XI
    (XI (XO (XI (XO (XI (XO (XO (XI (XO (XO (XI (XO
    XH)))))))))))))))))))))))))))))))) :: ((Zpos (XI (XO (XI (XI (XI (XO (XI
    (XO (XI (XI (XO (XI (XO (XO (XO (XO (XO (XO (XI (XI (XO (XI (XI (XO (XO
    (XO (XO (XO (XO (XI (XO XH)))))))))))))))))))))))))))))))) :: ((Zpos (XO
    (XO (XO (XO (XI (XO (XO (XI (XI (XO (XI (XI (XO (XI (XI (XO (XO (XI (XO
    (XO (XI (XI (XO (XO (XO (XO (XI (XO (XI (XO (XI
    XH)))))))))))))))))))))))))))))))) :: ((Zpos (XI (XI (XI (XO (XO (XI (XO
    (XO (XO (XO (XO (XO (XI (XI (XI (XO (XI (XI (XO (XO (XI (XI (XI (XI (XO
    (XO (XO (XO (XI (XO (XI XH)))))))))))))))))))))))))))))))) :: ((Zpos (XO
    (XI (XI (XI (XI (XI (XI (XI (XO (XI (XI (XO (XI (XO (XI (XO (XO (XO (XO
    (XO (XI (XI (XO (XI (XI (XO (XI (XI (XI (XO (XI
    XH)))))))))))))))))))))))))))))))) :: ((Zpos (XI (XO (XO (XI (XO (XO (XI
    (XO (XI (XI (XO (XI (XO (XO (XI (XO (XI (XO (XO (XO (XI (XI (XI (XO (XI
    (XO (XO (XI (XI (XO (XI XH)))))))))))))))))))))))))))))))) :: ((Zpos (XO
    (XO (XI (XI (XO (XO (XI (XO (XI (XI (XO (XI (XI (XO (XO (XO (XO (XI (XI
    (XO (XI (XI (XO (XO (XI (XI (XI (XO (XO (XO (XI
    XH)))))))))))))))))))))))))))))))) :: ((Zpos (XI (XI (XO (XI (XI (XI (XI
    (XI (XO (XI (XI (XO (XO (XO (XO (XO (XI (XI (XI (XO (XI (XI (XI (XI (XI
    (XI (XO (XO (XO (XO (XI XH)))))))))))))))))))))))))))))))) :: ((Zpos (XO
    (XI (XO (XO (XO (XI (XO (XO (XO (XO (XO (XO (XO (XI (XO (XO (XO (XO (XI
    (XO (XI (XI (XO (XI (XO (XI (XI (XI (XO (XO (XI
    XH)))))))))))))))))))))))))))))))) :: ((Zpos (XI (XO (XI (XO (XI (XO (XO
    (XI (XI (XO (XI (XI (XI (XI (XO (XO (XI (XO (XI (XO (XI (XI (XI (XO (XO
    (XI (XO (XI (XO (XO (XI XH)))))))))))))))))))))))))))))))) :: ((Zpos (XO
    (XO (XO (XI (XO (XI (XO (XO (XO (XO (XO (XO (XO (XO (XO (XI (XO (XI (XO
    (XI (XI (XI (XO (XO (XO (XI (XO (XO (XI (XI (XI
    XH)))))))))))))))))))))))))))))))) :: ((Zpos (XI (XI (XI (XI (XI (XO (XO
    (XI (XI (XO (XI (XI (XI (XO (XO (XI (XI (XI (XO (XI (XI (XI (XI (XI (XO
    (XI (XI (XO (XI (XI (XI XH)))))))))))))))))))))))))))))))) :: ((Zpos (XO
    (XI (XI (XO (XO (XO (XI (XO (XI (XI (XO (XI (XI (XI (XO (XI (XO (XO (XO
    (XI (XI (XI (XO (XI (XI (XI (XO (XI (XI (XI (XI
    XH)))))))))))))))))))))))))))))))) :: ((Zpos (XI (XO (XO (XO (XI (XI (XI
    (XI (XO (XI (XI (XO (XO (XI (XO (XI (XI (XO (XO (XI (XI (XI (XI (XO (XI
    (XI (XI (XI (XI (XI (XI XH)))))))))))))))))))))))))))))))) :: ((Zpos (XO
    (XO (XI (XO (XI (XI (XI (XI (XO (XI (XI (XO (XI (XI (XI (XI (XO (XI (XI
    (XI (XI (XI (XO (XO (XI (XO (XO (XO (XO (XI (XI
    XH)))))))))))))))))))))))))))))))) :: ((Zpos (XI (XI (XO (XO (XO (XO (XI
    (XO (XI (XI (XO (XI (XO (XI (XI (XI (XI (XI (XI (XI (XI (XI (XI (XI (XI
    (XO (XI (XO (XO (XI (XI XH)))))))))))))))))))))))))))))))) :: ((Zpos (XO
    (XI (XO (XI (XI (XO (XO (XI (XI (XO (XI (XI (XO (XO (XI (XI (XO (XO (XI
    (XI (XI (XI (XO (XI (XO (XO (XO (XI (XO (XI (XI
    XH)))))))))))))))))))))))))))))))) :: ((Zpos (XI (XO (XI (XI (XO (XI (XO
    (XO (XO (XO (XO (XO (XI (XO (XI (XI (XI (XO (XI (XI (XI (XI (XI (XO (XO
    (XO (XI (XI (XO (XI (XI XH)))))))))))))))))))))))))))))))) :: ((Zpos (XI
    (XI (XI (XO (XI (XI (XI (XO (XO (XO (XO (XO (XI (XI (XI (XO (XO (XI (XI
    (XO (XO (XO (XO (XI (XO (XO (XI (XO (XI
    XH)))))))))))))))))))))))))))))) :: ((Zpos (XO (XO (XO (XO (XO (XO (XI
    (XI (XI (XO (XI (XI (XO (XI (XI (XO (XI (XI (XI (XO (XO (XO (XI (XO (XO
    (XO (XO (XO (XI XH)))))))))))))))))))))))))))))) :: ((Zpos (XI (XO (XO
    (XI (XI (XO (XO (XO (XI (XI (XO (XI (XO (XO (XI (XO (XO (XO (XI (XO (XO
    (XO (XO (XO (XI (XO (XI (XI (XI
    XH)))))))))))))))))))))))))))))) :: ((Zpos (XO (XI (XI (XI (XO (XI (XO
    (XI (XO (XI (XI (XO (XI (XO (XI (XO (XI (XO (XI (XO (XO (XO (XI (XI (XI
    (XO (XO (XI (XI XH)))))))))))))))))))))))))))))) :: ((Zpos (XI (XI (XO
    (XI (XO (XI (XO (XI (XO (XI (XI (XO (XO (XO (XO (XO (XO (XI (XO (XO (XO
    (XO (XO (XI (XI (XI (XI (XO (XO
    XH)))))))))))))))))))))))))))))) :: ((Zpos (XO (XO (XI (XI (XI (XO (XO
    (XO (XI (XI (XO (XI (XI (XO (XO (XO (XI (XI (XO (XO (XO (XO (XI (XO (XI
    (XI (XO (XO (XO XH)))))))))))))))))))))))))))))) :: ((Zpos (XI (XO (XI
    (XO (XO (XO (XI (XI (XI (XO (XI (XI (XI (XI (XO (XO (XO (XO (XO (XO (XO
    (XO (XO (XO (XO (XI (XI (XI (XO
    XH)))))))))))))))))))))))))))))) :: ((Zpos (XO (XI (XO (XO (XI (XI (XI
    (XO (XO (XO (XO (XO (XO (XI (XO (XO (XI (XO (XO (XO (XO (XO (XI (XI (XO
    (XI (XO (XI (XO XH)))))))))))))))))))))))))))))) :: ((Zpos (XI (XI (XI
    (XI (XO (XO (XI (XI (XI (XO (XI (XI (XI (XO (XO (XI (XO (XI (XI (XI (XO
    (XO (XO (XI (XO (XI (XO (XO XH))))))))))))))))))))))))))))) :: ((Zpos (XO
    (XO (XO (XI (XI (XI (XI (XO (XO (XO (XO (XO (XO (XO (XO (XI (XI (XI (XI
    (XI (XO (XO (XI (XO (XO (XI (XI (XO
    XH))))))))))))))))))))))))))))) :: ((Zpos (XI (XO (XO (XO (XO (XI (XO (XI
    (XO (XI (XI (XO (XO (XI (XO (XI (XO (XO (XI (XI (XO (XO (XO (XO (XI (XI
    (XO (XI XH))))))))))))))))))))))))))))) :: ((Zpos (XO (XI (XI (XO (XI (XO
    (XO (XO (XI (XI (XO (XI (XI (XI (XO (XI (XI (XO (XI (XI (XO (XO (XI (XI
    (XI (XI (XI (XI XH))))))))))))))))))))))))))))) :: ((Zpos (XI (XI (XO (XO
    (XI (XO (XO (XO (XI (XI (XO (XI (XO (XI (XI (XI (XO (XI (XO (XI (XO (XO
    (XO (XI XH))))))))))))))))))))))))) :: ((Zpos (XO (XO (XI (XO (XO (XI (XO
    (XI (XO (XI (XI (XO (XI (XI (XI (XI (XI (XI (XO (XI (XO (XO (XI (XO (XI
    (XO XH))))))))))))))))))))))))))) :: ((Zpos (XI (XO (XI (XI (XI (XI (XI
    (XO (XO (XO (XO (XO (XI (XO (XI (XI (XO (XO (XO (XI (XO (XO (XO (XO (XO
    (XO (XO XH)))))))))))))))))))))))))))) :: ((Zpos (XO (XI (XO (XI (XO (XO
    (XI (XI (XI (XO (XI (XI (XO (XO (XI (XI (XI (XO (XO (XI (XO (XO (XI (XI
    (XO (XO (XI XH)))))))))))))))))))))))))))) :: ((Zpos (XI (XI (XI (XO (XO
    (XO (XO (XO (XI (XI (XO (XI (XO (XI (XO (XI (XI (XI (XI (XO (XI (XO (XO
    (XI (XO (XO (XO (XI (XI (XI XH))))))))))))))))))))))))))))))) :: ((Zpos
    (XO (XO (XO (XO (XI (XI (XO (XI (XO (XI (XI (XO (XI (XI (XO (XI (XO (XI
    (XI (XO (XI (XO (XI (XO (XO (XO (XI (XI (XI (XI
    XH))))))))))))))))))))))))))))))) :: ((Zpos (XI (XO (XO (XI (XO (XI (XI
    (XO (XO (XO (XO (XO (XI (XO (XO (XI (XI (XO (XI (XO (XI (XO (XO (XO (XI
    (XO (XO (XO (XI (XI XH))))))))))))))))))))))))))))))) :: ((Zpos (XO (XI
    (XI (XI (XI (XO (XI (XI (XI (XO (XI (XI (XO (XO (XO (XI (XO (XO (XI (XO
    (XI (XO (XI (XI (XI (XO (XI (XO (XI (XI
    XH))))))))))))))))))))))))))))))) :: ((Zpos (XI (XI (XO (XI (XI (XO (XI
    (XI (XI (XO (XI (XI (XI (XO (XI (XI (XI (XI (XO (XO (XI (XO (XO (XI (XI
    (XI (XO (XI (XO (XI XH))))))))))))))))))))))))))))))) :: ((Zpos (XO (XO
    (XI (XI (XO (XI (XI (XO (XO (XO (XO (XO (XO (XO (XI (XI (XO (XI (XO (XO
    (XI (XO (XI (XO (XI (XI (XI (XI (XO (XI
    XH))))))))))))))))))))))))))))))) :: ((Zpos (XI (XO (XI (XO (XI (XI (XO
    (XI (XO (XI (XI (XO (XO (XI (XI (XI (XI (XO (XO (XO (XI (XO (XO (XO (XO
    (XI (XO (XO (XO (XI XH))))))))))))))))))))))))))))))) :: ((Zpos (XO (XI
    (XO (XO (XO (XO (XO (XO (XI (XI (XO (XI (XI (XI (XI (XI (XO (XO (XO (XO
    (XI (XO (XI (XI (XO (XI (XI (XO (XO (XI
    XH))))))))))))))))))))))))))))))) :: ((Zpos (XI (XI (XI (XI (XI (XI (XO
    (XI (XO (XI (XI (XO (XO (XO (XI (XO (XI (XI (XI (XI (XI (XO (XO (XI (XO
    (XI (XI (XI (XI (XO XH))))))))))))))))))))))))))))))) :: ((Zpos (XO (XO
    (XO (XI (XO (XO (XO (XO (XI (XI (XO (XI (XI (XO (XI (XO (XO (XI (XI (XI
    (XI (XO (XI (XO (XO (XI (XO (XI (XI (XO
    XH))))))))))))))))))))))))))))))) :: ((Zpos (XI (XO (XO (XO (XI (XO (XI
    (XI (XI (XO (XI (XI (XI (XI (XI (XO (XI (XO (XI (XI (XI (XO (XO (XO (XI
    (XI (XI (XO (XI (XO XH))))))))))))))))))))))))))))))) :: ((Zpos (XO (XI
    (XI (XO (XO (XI (XI (XO (XO (XO (XO (XO (XO (XI (XI (XO (XO (XO (XI (XI
    (XI (XO (XI (XI (XI (XI (XO (XO (XI (XO
    XH))))))))))))))))))))))))))))))) :: ((Zpos (XI (XI (XO (XO (XO (XI (XI
    (XO (XO (XO (XO (XO (XI (XI (XO (XO (XI (XI (XO (XI (XI (XO (XO (XI (XI
    (XO (XI (XI (XO (XO XH))))))))))))))))))))))))))))))) :: ((Zpos (XO (XO
    (XI (XO (XI (XO (XI (XI (XI (XO (XI (XI (XO (XI (XO (XO (XO (XI (XO (XI
    (XI (XO (XI (XO (XI (XO (XO (XI (XO (XO
    XH))))))))))))))))))))))))))))))) :: ((Zpos (XI (XO (XI (XI (XO (XO (XO
    (XO (XI (XI (XO (XI (XO (XO (XO (XO (XI (XO (XO (XI (XI (XO (XO (XO (XO
    (XO (XI (XO (XO (XO XH))))))))))))))))))))))))))))))) :: ((Zpos (XO (XI
    (XO (XI (XI (XI (XO (XI (XO (XI (XI (XO (XI (XO (XO (XO (XO (XO (XO (XI
    (XI (XO (XI (XI (XO (XO (XO (XO (XO (XO
    XH))))))))))))))))))))))))))))))) :: ((Zpos (XI (XI (XI (XO (XI (XO (XO
    (XI (XO (XI (XI (XO (XO (XO (XI (XI (XI (XO (XI (XO (XO (XI (XO (XI (XO
    (XO (XI (XI (XO (XI (XO XH)))))))))))))))))))))))))))))))) :: ((Zpos (XO
    (XO (XO (XO (XO (XI (XO (XO (XI (XI (XO (XI (XI (XO (XI (XI (XO (XO (XI
    (XO (XO (XI (XI (XO (XO (XO (XO (XI (XO (XI (XO
    XH)))))))))))))))))))))))))))))))) :: ((Zpos (XI (XO (XO (XI (XI (XI (XI
    (XI (XI (XO (XI (XI (XI (XI (XI (XI (XI (XI (XI (XO (XO (XI (XO (XO (XI
    (XO (XI (XO (XO (XI (XO XH)))))))))))))))))))))))))))))))) :: ((Zpos (XO
    (XI (XI (XI (XO (XO (XI (XO (XO (XO (XO (XO (XO (XI (XI (XI (XO (XI (XI
    (XO (XO (XI (XI (XI (XI (XO (XO (XO (XO (XI (XO
    XH)))))))))))))))))))))))))))))))) :: ((Zpos (XI (XI (XO (XI (XO (XO (XI
    (XO (XO (XO (XO (XO (XI (XI (XO (XI (XI (XO (XO (XO (XO (XI (XO (XI (XI
    (XI (XI (XI (XI (XI (XO XH)))))))))))))))))))))))))))))))) :: ((Zpos (XO
    (XO (XI (XI (XI (XI (XI (XI (XI (XO (XI (XI (XO (XI (XO (XI (XO (XO (XO
    (XO (XO (XI (XI (XO (XI (XI (XO (XI (XI (XI (XO
    XH)))))))))))))))))))))))))))))))) :: ((Zpos (XI (XO (XI (XO (XO (XI (XO
    (XO (XI (XI (XO (XI (XO (XO (XO (XI (XI (XI (XO (XO (XO (XI (XO (XO (XO
    (XI (XI (XO (XI (XI (XO XH)))))))))))))))))))))))))))))))) :: ((Zpos (XO
    (XI (XO (XO (XI (XO (XO (XI (XO (XI (XI (XO (XI (XO (XO (XI (XO (XI (XO
    (XO (XO (XI (XI (XI (XO (XI (XO (XO (XI (XI (XO
    XH)))))))))))))))))))))))))))))))) :: ((Zpos (XI (XI (XI (XI (XO (XI (XO
    (XO (XI (XI (XO (XI (XO (XI (XO (XO (XI (XO (XI (XI (XO (XI (XO (XI (XO
    (XI (XO (XI (XO (XO (XO XH)))))))))))))))))))))))))))))))) :: ((Zpos (XO
    (XO (XO (XI (XI (XO (XO (XI (XO (XI (XI (XO (XI (XI (XO (XO (XO (XO (XI
    (XI (XO (XI (XI (XO (XO (XI (XI (XI (XO (XO (XO
    XH)))))))))))))))))))))))))))))))) :: ((Zpos (XI (XO (XO (XO (XO (XO (XI
    (XO (XO (XO (XO (XO (XI (XO (XO (XO (XI (XI (XI (XI (XO (XI (XO (XO (XI
    (XI (XO (XO (XO (XO (XO XH)))))))))))))))))))))))))))))))) :: ((Zpos (XO
    (XI (XI (XO (XI (XI (XI (XI (XI (XO (XI (XI (XO (XO (XO (XO (XO (XI (XI
    (XI (XO (XI (XI (XI (XI (XI (XI (XO (XO (XO (XO
    XH)))))))))))))))))))))))))))))))) :: ((Zpos (XI (XI (XO (XO (XI (XI (XI
    (XI (XI (XO (XI (XI (XI (XO (XI (XO (XI (XO (XO (XI (XO (XI (XO (XI (XI
    (XO (XO (XI (XI (XO (XO XH)))))))))))))))))))))))))))))))) :: ((Zpos (XO
    (XO (XI (XO (XO (XO (XI (XO (XO (XO (XO (XO (XO (XO (XI (XO (XO (XO (XO
    (XI (XO (XI (XI (XO (XI (XO (XI (XI (XI (XO (XO
    XH)))))))))))))))))))))))))))))))) :: ((Zpos (XI (XO (XI (XI (XI (XO (XO
    (XI (XO (XI (XI (XO (XO (XI (XI (XO (XI (XI (XO (XI (XO (XI (XO (XO (XO
    (XO (XO (XO (XI (XO (XO XH)))))))))))))))))))))))))))))))) :: ((Zpos (XO
    (XI (XO (XI (XO (XI (XO (XO (XI (XI (XO (XI (XI (XI (XI (XO (XO (XI (XO
    (XI (XO (XI (XI (XI (XO (XO (XI (XO (XI (XO (XO
    XH)))))))))))))))))))))))))))))))) :: ((Zpos (XI (XI (XI (XO (XO (XI (XI
    (XI (XI (XO (XI (XI (XI (XO (XO (XO (XO (XO (XI (XO (XI (XI (XO (XI (XO
    (XO (XO (XO (XO (XI (XI XH)))))))))))))))))))))))))))))))) :: ((Zpos (XO
    (XO (XO (XO (XI (XO (XI (XO (XO (XO (XO (XO (XO (XO (XO (XO (XI (XO (XI
    (XO (XI (XI (XI (XO (XO (XO (XI (XO (XO (XI (XI
    XH)))))))))))))))))))))))))))))))) :: ((Zpos (XI (XO (XO (XI (XO (XO (XO
    (XI (XO (XI (XI (XO (XO (XI (XO (XO (XO (XI (XI (XO (XI (XI (XO (XO (XI
    (XO (XO (XI (XO (XI (XI XH)))))))))))))))))))))))))))))))) :: ((Zpos (XO
    (XI (XI (XI (XI (XI (XO (XO (XI (XI (XO (XI (XI (XI (XO (XO (XI (XI (XI
    (XO (XI (XI (XI (XI (XI (XO (XI (XI (XO (XI (XI
    XH)))))))))))))))))))))))))))))))) :: ((Zpos (XI (XI (XO (XI (XI (XI (XO
    (XO (XI (XI (XO (XI (XO (XI (XI (XO (XO (XO (XO (XO (XI (XI (XO (XI (XI
    (XI (XO (XO (XI (XI (XI XH)))))))))))))))))))))))))))))))) :: ((Zpos (XO
    (XO (XI (XI (XO (XO (XO (XI (XO (XI (XI (XO (XI (XI (XI (XO (XI (XO (XO
    (XO (XI (XI (XI (XO (XI (XI (XI (XO (XI (XI (XI
    XH)))))))))))))))))))))))))))))))) :: ((Zpos (XI (XO (XI (XO (XI (XO (XI
    (XO (XO (XO (XO (XO (XI (XO (XI (XO (XO (XI (XO (XO (XI (XI (XO (XO (XO
    (XI (XO (XI (XI (XI (XI XH)))))))))))))))))))))))))))))))) :: ((Zpos (XO
    (XI (XO (XO (XO (XI (XI (XI (XI (XO (XI (XI (XO (XO (XI (XO (XI (XI (XO
    (XO (XI (XI (XI (XI (XO (XI (XI (XI (XI (XI (XI
    XH)))))))))))))))))))))))))))))))) :: ((Zpos (XI (XI (XI (XI (XI (XO (XI
    (XO (XO (XO (XO (XO (XI (XI (XI (XI (XO (XO (XI (XI (XI (XI (XO (XI (XO
    (XI (XI (XO (XO (XO (XI XH)))))))))))))))))))))))))))))))) :: ((Zpos (XO
    (XO (XO (XI (XO (XI (XI (XI (XI (XO (XI (XI (XO (XI (XI (XI (XI (XO (XI
    (XI (XI (XI (XI (XO (XO (XI (XO (XO (XO (XO (XI
    XH)))))))))))))))))))))))))))))))) :: ((Zpos (XI (XO (XO (XO (XI (XI (XO
    (XO (XI (XI (XO (XI (XO (XO (XI (XI (XO (XI (XI (XI (XI (XI (XO (XO (XI
    (XI (XI (XI (XO (XO (XI XH)))))))))))))))))))))))))))))))) :: ((Zpos (XO
    (XI (XI (XO (XO (XO (XO (XI (XO (XI (XI (XO (XI (XO (XI (XI (XI (XI (XI
    (XI (XI (XI (XI (XI (XI (XI (XO (XI (XO (XO (XI
    XH)))))))))))))))))))))))))))))))) :: ((Zpos (XI (XI (XO (XO (XO (XO (XO
    (XI (XO (XI (XI (XO (XO (XO (XO (XI (XO (XO (XO (XI (XI (XI (XO (XI (XI
    (XO (XI (XO (XI (XO (XI XH)))))))))))))))))))))))))))))))) :: ((Zpos (XO
    (XO (XI (XO (XI (XI (XO (XO (XI (XI (XO (XI (XI (XO (XO (XI (XI (XO (XO
    (XI (XI (XI (XI (XO (XI (XO (XO (XO (XI (XO (XI
    XH)))))))))))))))))))))))))))))))) :: ((Zpos (XI (XO (XI (XI (XO (XI (XI
    (XI (XI (XO (XI (XI (XI (XI (XO (XI (XO (XI (XO (XI (XI (XI (XO (XO (XO
    (XO (XI (XI (XI (XO (XI XH)))))))))))))))))))))))))))))))) :: ((Zpos (XO
    (XI (XO (XI (XI (XO (XI (XO (XO (XO (XO (XO (XO (XI (XO (XI (XI (XI (XO
    (XI (XI (XI (XI (XI (XO (XO (XO (XI (XI (XO (XI
    XH)))))))))))))))))))))))))))))))) :: ((Zpos (XO (XI (XI (XI (XO (XI (XI
    (XI (XO (XO (XO (XO (XO (XI (XI (XI (XO (XO (XI (XI (XO (XO (XO (XO (XI
    (XO (XO (XI (XO (XI XH))))))))))))))))))))))))))))))) :: ((Zpos (XI (XO
    (XO (XI (XI (XO (XI (XO (XI (XO (XI (XI (XI (XI (XI (XI (XI (XO (XI (XI
    (XO (XO (XI (XI (XI (XO (XI (XI (XO (XI
    XH))))))))))))))))))))))))))))))) :: ((Zpos (XO (XO (XO (XO (XO (XO (XO
    (XI (XI (XI (XO (XI (XI (XO (XI (XI (XO (XI (XI (XI (XO (XO (XO (XI (XO
    (XO (XO (XO (XO (XI XH))))))))))))))))))))))))))))))) :: ((Zpos (XI (XI
    (XI (XO (XI (XI (XO (XO (XO (XI (XI (XO (XO (XO (XI (XI (XI (XI (XI (XI
    (XO (XO (XI (XO (XO (XO (XI (XO (XO (XI
    XH))))))))))))))))))))))))))))))) :: ((Zpos (XO (XI (XO (XO (XI (XI (XO
    (XO (XO (XI (XI (XO (XI (XO (XO (XI (XO (XO (XO (XI (XO (XO (XO (XO (XO
    (XI (XO (XI (XI (XI XH))))))))))))))))))))))))))))))) :: ((Zpos (XI (XO
    (XI (XO (XO (XO (XO (XI (XI (XI (XO (XI (XO (XO (XO (XI (XI (XO (XO (XI
    (XO (XO (XI (XI (XO (XI (XI (XI (XI (XI
    XH))))))))))))))))))))))))))))))) :: ((Zpos (XO (XO (XI (XI (XI (XO (XI
    (XO (XI (XO (XI (XI (XO (XI (XO (XI (XO (XI (XO (XI (XO (XO (XO (XI (XI
    (XI (XO (XO (XI (XI XH))))))))))))))))))))))))))))))) :: ((Zpos (XI (XI
    (XO (XI (XO (XI (XI (XI (XO (XO (XO (XO (XI (XI (XO (XI (XI (XI (XO (XI
    (XO (XO (XI (XO (XI (XI (XI (XO (XI (XI
    XH))))))))))))))))))))))))))))))) :: ((Zpos (XO (XI (XI (XO (XI (XO (XI
    (XO (XI (XO (XI (XI (XO (XO (XO (XO (XO (XO (XI (XO (XO (XO (XO (XO (XI
    (XI (XI (XI (XO (XO XH))))))))))))))))))))))))))))))) :: ((Zpos (XI (XO
    (XO (XO (XO (XI (XI (XI (XO (XO (XO (XO (XI (XO (XO (XO (XI (XO (XI (XO
    (XO (XO (XI (XI (XI (XI (XO (XI (XO (XO
    XH))))))))))))))))))))))))))))))) :: ((Zpos (XO (XO (XO (XI (XI (XI (XO
    (XO (XO (XI (XI (XO (XI (XI (XO (XO (XO (XI (XI (XO (XO (XO (XO (XI (XO
    (XI (XI (XO (XO (XO XH))))))))))))))))))))))))))))))) :: ((Zpos (XI (XI
    (XI (XI (XO (XO (XO (XI (XI (XI (XO (XI (XO (XI (XO (XO (XI (XI (XI (XO
    (XO (XO (XI (XO (XO (XI (XO (XO (XO (XO
    XH))))))))))))))))))))))))))))))) :: ((Zpos (XO (XI (XO (XI (XO (XO (XO
    (XI (XI (XI (XO (XI (XI (XI (XI (XO (XO (XO (XO (XO (XO (XO (XO (XO (XO
    (XO (XI (XI (XI (XO XH))))))))))))))))))))))))))))))) :: ((Zpos (XI (XO
    (XI (XI (XI (XI (XO (XO (XO (XI (XI (XO (XO (XI (XI (XO (XI (XO (XO (XO
    (XO (XO (XI (XI (XO (XO (XO (XI (XI (XO
    XH))))))))))))))))))))))))))))))) :: ((Zpos (XO (XO (XI (XO (XO (XI (XI
    (XI (XO (XO (XO (XO (XO (XO (XI (XO (XO (XI (XO (XO (XO (XO (XO (XI (XI
    (XO (XI (XO (XI (XO XH))))))))))))))))))))))))))))))) :: ((Zpos (XI (XI
    (XO (XO (XI (XO (XI (XO (XI (XO (XI (XI (XI (XO (XI (XO (XI (XI (XO (XO
    (XO (XO (XI (XO (XI (XO (XO (XO (XI (XO
    XH))))))))))))))))))))))))))))))) :: ((Zpos (XO (XI (XI (XI (XI (XO (XO
    (XI (XI (XI (XO (XI (XI (XI (XO (XO (XI (XO (XI (XI (XI (XO (XO (XO (XI
    (XO (XI (XO (XO XH)))))))))))))))))))))))))))))) :: ((Zpos (XI (XO (XO
    (XI (XO (XI (XO (XO (XO (XI (XI (XO (XO (XI (XO (XO (XO (XO (XI (XI (XI
    (XO (XI (XI (XI (XO (XO (XO (XO
    XH)))))))))))))))))))))))))))))) :: ((Zpos (XO (XO (XO (XO (XI (XI (XI
    (XI (XO (XO (XO (XO (XO (XO (XO (XO (XI (XI (XI (XI (XI (XO (XO (XI (XO
    (XO (XI (XI (XO XH)))))))))))))))))))))))))))))) :: ((Zpos (XI (XI (XI
    (XO (XO (XO (XI (XO (XI (XO (XI (XI (XI (XO (XO (XO (XO (XI (XI (XI (XI
    (XO (XI (XO (XO (XO (XO (XI (XO
    XH)))))))))))))))))))))))))))))) :: ((Zpos (XO (XI (XO (XO (XO (XO (XI
    (XO (XI (XO (XI (XI (XO (XO (XI (XO (XI (XO (XO (XI (XI (XO (XO (XO (XO
    (XI (XI (XO (XI XH)))))))))))))))))))))))))))))) :: ((Zpos (XI (XO (XI
    (XO (XI (XI (XI (XI (XO (XO (XO (XO (XI (XO (XI (XO (XO (XO (XO (XI (XI
    (XO (XI (XI (XO (XI (XO (XO (XI
    XH)))))))))))))))))))))))))))))) :: ((Zpos (XO (XO (XI (XI (XO (XI (XO
    (XO (XO (XI (XI (XO (XI (XI (XI (XO (XI (XI (XO (XI (XI (XO (XO (XI (XI
    (XI (XI (XI (XI XH)))))))))))))))))))))))))))))) :: ((Zpos (XI (XI (XO
    (XI (XI (XO (XO (XI (XI (XI (XO (XI (XO (XI (XI (XO (XO (XI (XO (XI (XI
    (XO (XI (XO (XI (XI (XO (XI (XI
    XH)))))))))))))))))))))))))))))) :: ((Zpos (XO (XI (XI (XO (XO (XI (XO
    (XO (XO (XI (XI (XO (XI (XO (XI (XI (XI (XO (XI (XO (XI (XO (XO (XO (XI
    XH)))))))))))))))))))))))))) :: ((Zpos (XI (XO (XO (XO (XI (XO (XO (XI
    (XI (XI (XO (XI (XO (XO (XI (XI (XO (XO (XI (XO (XI (XO (XI (XI (XI (XI
    XH))))))))))))))))))))))))))) :: ((Zpos (XO (XO (XO (XI (XO (XO (XI (XO
    (XI (XO (XI (XI (XO (XI (XI (XI (XI (XI (XI (XO (XI (XO (XO (XI (XO (XI
    (XO XH)))))))))))))))))))))))))))) :: ((Zpos (XI (XI (XI (XI (XI (XI (XI
    (XI (XO (XO (XO (XO (XI (XI (XI (XI (XO (XI (XI (XO (XI (XO (XI (XO (XO
    (XI (XI XH)))))))))))))))))))))))))))) :: ((Zpos (XO (XI (XO (XI (XI (XI
    (XI (XI (XO (XO (XO (XO (XO (XI (XO (XI (XI (XO (XO (XO (XI (XO (XO (XO
    (XO (XO (XO (XO XH))))))))))))))))))))))))))))) :: ((Zpos (XI (XO (XI (XI
    (XO (XO (XI (XO (XI (XO (XI (XI (XI (XI (XO (XI (XO (XO (XO (XO (XI (XO
    (XI (XI (XO (XO (XI (XO XH))))))))))))))))))))))))))))) :: ((Zpos (XO (XO
    (XI (XO (XI (XO (XO (XI (XI (XI (XO (XI (XI (XO (XO (XI (XI (XI (XO (XO
    (XI (XO (XO (XI (XI (XO (XO (XI XH))))))))))))))))))))))))))))) :: ((Zpos
    (XI (XI (XO (XO (XO (XI (XO (XO (XO (XI (XI (XO (XO (XO (XO (XI (XO (XI
    (XO (XO (XI (XO (XI (XO (XI (XO (XI (XI
    XH))))))))))))))))))))))))))))) :: ((Zpos (XO (XI (XI (XI (XO (XO (XO (XO
    (XO (XI (XI (XO (XI (XO (XI (XO (XI (XI (XI (XI (XO (XI (XO (XO (XI (XO
    (XO (XO (XI (XI (XI XH)))))))))))))))))))))))))))))))) :: ((Zpos (XI (XO
    (XO (XI (XI (XI (XO (XI (XI (XI (XO (XI (XO (XO (XI (XO (XO (XI (XI (XI
    (XO (XI (XI (XI (XI (XO (XI (XO (XI (XI (XI
    XH)))))))))))))))))))))))))))))))) :: ((Zpos (XO (XO (XO (XO (XO (XI (XI
    (XO (XI (XO (XI (XI (XO (XI (XI (XO (XI (XO (XI (XI (XO (XI (XO (XI (XO
    (XO (XO (XI (XI (XI (XI XH)))))))))))))))))))))))))))))))) :: ((Zpos (XI
    (XI (XI (XO (XI (XO (XI (XI (XO (XO (XO (XO (XI (XI (XI (XO (XO (XO (XI
    (XI (XO (XI (XI (XO (XO (XO (XI (XI (XI (XI (XI
    XH)))))))))))))))))))))))))))))))) :: ((Zpos (XO (XI (XO (XO (XI (XO (XI
    (XI (XO (XO (XO (XO (XO (XI (XO (XO (XI (XI (XO (XI (XO (XI (XO (XO (XO
    (XI (XO (XO (XO (XI (XI XH)))))))))))))))))))))))))))))))) :: ((Zpos (XI
    (XO (XI (XO (XO (XI (XI (XO (XI (XO (XI (XI (XI (XI (XO (XO (XO (XI (XO
    (XI (XO (XI (XI (XI (XO (XI (XI (XO (XO (XI (XI
    XH)))))))))))))))))))))))))))))))) :: ((Zpos (XO (XO (XI (XI (XI (XI (XO
    (XI (XI (XI (XO (XI (XI (XO (XO (XO (XI (XO (XO (XI (XO (XI (XO (XI (XI
    (XI (XO (XI (XO (XI (XI XH)))))))))))))))))))))))))))))))) :: ((Zpos (XI
    (XI (XO (XI (XO (XO (XO (XO (XO (XI (XI (XO (XO (XO (XO (XO (XO (XO (XO
    (XI (XO (XI (XI (XO (XI (XI (XI (XI (XO (XI (XI
    XH)))))))))))))))))))))))))))))))) :: ((Zpos (XO (XI (XI (XO (XI (XI (XO
    (XI (XI (XI (XO (XI (XI (XI (XO (XI (XI (XI (XI (XO (XO (XI (XO (XO (XI
    (XI (XI (XO (XI (XO (XI XH)))))))))))))))))))))))))))))))) :: ((Zpos (XI
    (XO (XO (XO (XO (XO (XO (XO (XO (XI (XI (XO (XO (XI (XO (XI (XO (XI (XI
    (XO (XO (XI (XI (XI (XI (XI (XO (XO (XI (XO (XI
    XH)))))))))))))))))))))))))))))))) :: ((Zpos (XO (XO (XO (XI (XI (XO (XI
    (XI (XO (XO (XO (XO (XO (XO (XO (XI (XI (XO (XI (XO (XO (XI (XO (XI (XO
    (XI (XI (XI (XI (XO (XI XH)))))))))))))))))))))))))))))))) :: ((Zpos (XI
    (XI (XI (XI (XO (XI (XI (XO (XI (XO (XI (XI (XI (XO (XO (XI (XO (XO (XI
    (XO (XO (XI (XI (XO (XO (XI (XO (XI (XI (XO (XI
    XH)))))))))))))))))))))))))))))))) :: ((Zpos (XO (XI (XO (XI (XO (XI (XI
    (XO (XI (XO (XI (XI (XO (XO (XI (XI (XI (XI (XO (XO (XO (XI (XO (XO (XO
    (XO (XI (XO (XO (XO (XI XH)))))))))))))))))))))))))))))))) :: ((Zpos (XI
    (XO (XI (XI (XI (XO (XI (XI (XO (XO (XO (XO (XI (XO (XI (XI (XO (XI (XO
    (XO (XO (XI (XI (XI (XO (XO (XO (XO (XO (XO (XI
    XH)))))))))))))))))))))))))))))))) :: ((Zpos (XO (XO (XI (XO (XO (XO (XO
    (XO (XO (XI (XI (XO (XI (XI (XI (XI (XI (XO (XO (XO (XO (XI (XO (XI (XI
    (XO (XI (XI (XO (XO (XI XH)))))))))))))))))))))))))))))))) :: ((Zpos (XI
    (XI (XO (XO (XI (XI (XO (XI (XI (XI (XO (XI (XO (XI (XI (XI (XO (XO (XO
    (XO (XO (XI (XI (XO (XI (XO (XO (XI (XO (XO (XI
    XH)))))))))))))))))))))))))))))))) :: ((Zpos (XO (XI (XI (XI (XI (XI (XI
    (XO (XI (XO (XI (XI (XO (XO (XO (XI (XO (XI (XI (XI (XI (XI (XO (XO (XI
    (XO (XI (XI (XI (XI (XO XH)))))))))))))))))))))))))))))))) :: ((Zpos (XI
    (XO (XO (XI (XO (XO (XI (XI (XO (XO (XO (XO (XI (XO (XO (XI (XI (XI (XI
    (XI (XI (XI (XI (XI (XI (XO (XO (XI (XI (XI (XO
    XH)))))))))))))))))))))))))))))))) :: ((Zpos (XO (XO (XO (XO (XI (XO (XO
    (XO (XO (XI (XI (XO (XI (XI (XO (XI (XO (XO (XI (XI (XI (XI (XO (XI (XO
    (XO (XI (XO (XI (XI (XO XH)))))))))))))))))))))))))))))))) :: ((Zpos (XI
    (XI (XI (XO (XO (XI (XO (XI (XI (XI (XO (XI (XO (XI (XO (XI (XI (XO (XI
    (XI (XI (XI (XI (XO (XO (XO (XO (XO (XI (XI (XO
    XH)))))))))))))))))))))))))))))))) :: ((Zpos (XO (XI (XO (XO (XO (XI (XO
    (XI (XI (XI (XO (XI (XI (XI (XI (XI (XO (XI (XO (XI (XI (XI (XO (XO (XO
    (XI (XI (XI (XO (XI (XO XH)))))))))))))))))))))))))))))))) :: ((Zpos (XI
    (XO (XI (XO (XI (XO (XO (XO (XO (XI (XI (XO (XO (XI (XI (XI (XI (XI (XO
    (XI (XI (XI (XI (XI (XO (XI (XO (XI (XO (XI (XO
    XH)))))))))))))))))))))))))))))))) :: ((Zpos (XO (XO (XI (XI (XO (XO (XI
    (XI (XO (XO (XO (XO (XO (XO (XI (XI (XO (XO (XO (XI (XI (XI (XO (XI (XI
    (XI (XI (XO (XO (XI (XO XH)))))))))))))))))))))))))))))))) :: ((Zpos (XI
    (XI (XO (XI (XI (XI (XI (XO (XI (XO (XI (XI (XI (XO (XI (XI (XI (XO (XO
    (XI (XI (XI (XI (XO (XI (XI (XO (XO (XO (XI (XO
    XH)))))))))))))))))))))))))))))))) :: ((Zpos (XO (XI (XI (XO (XO (XO (XI
    (XI (XO (XO (XO (XO (XO (XI (XI (XO (XO (XI (XI (XO (XI (XI (XO (XO (XI
    (XI (XO (XI (XI (XO (XO XH)))))))))))))))))))))))))))))))) :: ((Zpos (XI
    (XO (XO (XO (XI (XI (XI (XO (XI (XO (XI (XI (XI (XI (XI (XO (XI (XI (XI
    (XO (XI (XI (XI (XI (XI (XI (XI (XI (XI (XO (XO
    XH)))))))))))))))))))))))))))))))) :: ((Zpos (XO (XO (XO (XI (XO (XI (XO
    (XI (XI (XI (XO (XI (XI (XO (XI (XO (XO (XO (XI (XO (XI (XI (XO (XI (XO
    (XI (XO (XO (XI (XO (XO XH)))))))))))))))))))))))))))))))) :: ((Zpos (XI
    (XI (XI (XI (XI (XO (XO (XO (XO (XI (XI (XO (XO (XO (XI (XO (XI (XO (XI
    (XO (XI (XI (XI (XO (XO (XI (XI (XO (XI (XO (XO
    XH)))))))))))))))))))))))))))))))) :: ((Zpos (XO (XI (XO (XI (XI (XO (XO
    (XO (XO (XI (XI (XO (XI (XO (XO (XO (XO (XI (XO (XO (XI (XI (XO (XO (XO
    (XO (XO (XI (XO (XO (XO XH)))))))))))))))))))))))))))))))) :: ((Zpos (XI
    (XO (XI (XI (XO (XI (XO (XI (XI (XI (XO (XI (XO (XO (XO (XO (XI (XI (XO
    (XO (XI (XI (XI (XI (XO (XO (XI (XI (XO (XO (XO
    XH)))))))))))))))))))))))))))))))) :: ((Zpos (XO (XO (XI (XO (XI (XI (XI
    (XO (XI (XO (XI (XI (XO (XI (XO (XO (XO (XO (XO (XO (XI (XI (XO (XI (XI
    (XO (XO (XO (XO (XO (XO XH)))))))))))))))))))))))))))))))) :: ((Zpos (XI
    (XI (XO (XO (XO (XO (XI (XI (XO (XO (XO (XO (XI (XI (XO (XO (XI (XO (XO
    (XO (XI (XI (XI (XO (XI (XO (XI (XO (XO (XO (XO
    XH)))))))))))))))))))))))))))))))) :: ((Zpos (XI (XO (XO (XI (XI (XO (XO
    (XI (XO (XO (XO (XO (XI (XO (XO (XI (XO (XI (XO (XI (XO (XO (XO (XI (XI
    (XO (XI (XI (XI (XO XH))))))))))))))))))))))))))))))) :: ((Zpos (XO (XI
    (XI (XI (XO (XI (XO (XO (XI (XO (XI (XI (XO (XO (XO (XI (XI (XI (XO (XI
    (XO (XO (XI (XO (XI (XO (XO (XI (XI (XO
    XH))))))))))))))))))))))))))))))) :: ((Zpos (XI (XI (XI (XO (XI (XI (XI
    (XI (XI (XI (XO (XI (XO (XI (XO (XI (XO (XO (XO (XI (XO (XO (XO (XO (XO
    (XO (XI (XO (XI (XO XH))))))))))))))))))))))))))))))) :: ((Zpos (XO (XO
    (XO (XO (XO (XO (XI (XO (XO (XI (XI (XO (XI (XI (XO (XI (XI (XO (XO (XI
    (XO (XO (XI (XI (XO (XO (XO (XO (XI (XO
    XH))))))))))))))))))))))))))))))) :: ((Zpos (XI (XO (XI (XO (XO (XO (XI
    (XO (XO (XI (XI (XO (XO (XI (XI (XI (XO (XI (XI (XI (XO (XO (XO (XI (XO
    (XI (XI (XI (XO (XO XH))))))))))))))))))))))))))))))) :: ((Zpos (XO (XI
    (XO (XO (XI (XI (XI (XI (XI (XI (XO (XI (XI (XI (XI (XI (XI (XI (XI (XI
    (XO (XO (XI (XO (XO (XI (XO (XI (XO (XO
    XH))))))))))))))))))))))))))))))) :: ((Zpos (XI (XI (XO (XI (XO (XI (XO
    (XO (XI (XO (XI (XI (XI (XO (XI (XI (XO (XO (XI (XI (XO (XO (XO (XO (XI
    (XI (XI (XO (XO (XO XH))))))))))))))))))))))))))))))) :: ((Zpos (XO (XO
    (XI (XI (XI (XO (XO (XI (XO (XO (XO (XO (XO (XO (XI (XI (XI (XO (XI (XI
    (XO (XO (XI (XI (XI (XI (XO (XO (XO (XO
    XH))))))))))))))))))))))))))))))) :: ((Zpos (XI (XO (XO (XO (XO (XI (XO
    (XO (XI (XO (XI (XI (XI (XI (XI (XO (XO (XI (XO (XO (XO (XO (XO (XI (XI
    (XI (XO (XI (XI (XI XH))))))))))))))))))))))))))))))) :: ((Zpos (XO (XI
    (XI (XO (XI (XO (XO (XI (XO (XO (XO (XO (XO (XI (XI (XO (XI (XI (XO (XO
    (XO (XO (XI (XO (XI (XI (XI (XI (XI (XI
    XH))))))))))))))))))))))))))))))) :: ((Zpos (XI (XI (XI (XI (XO (XO (XI
    (XO (XO (XI (XI (XO (XO (XO (XI (XO (XO (XO (XO (XO (XO (XO (XO (XO (XO
    (XI (XO (XO (XI (XI XH))))))))))))))))))))))))))))))) :: ((Zpos (XO (XO
    (XO (XI (XI (XI (XI (XI (XI (XI (XO (XI (XI (XO (XI (XO (XI (XO (XO (XO
    (XO (XO (XI (XI (XO (XI (XI (XO (XI (XI
    XH))))))))))))))))))))))))))))))) :: ((Zpos (XI (XO (XI (XI (XI (XI (XI
    (XI (XI (XI (XO (XI (XO (XO (XO (XO (XO (XI (XI (XO (XO (XO (XO (XI (XO
    (XO (XO (XI (XO (XI XH))))))))))))))))))))))))))))))) :: ((Zpos (XO (XI
    (XO (XI (XO (XO (XI (XO (XO (XI (XI (XO (XI (XO (XO (XO (XI (XI (XI (XO
    (XO (XO (XI (XO (XO (XO (XI (XI (XO (XI
    XH))))))))))))))))))))))))))))))) :: ((Zpos (XI (XI (XO (XO (XI (XO (XO
    (XI (XO (XO (XO (XO (XI (XI (XO (XO (XO (XO (XI (XO (XO (XO (XO (XO (XI
    (XO (XO (XO (XO (XI XH))))))))))))))))))))))))))))))) :: ((Zpos (XO (XO
    (XI (XO (XO (XI (XO (XO (XI (XO (XI (XI (XO (XI (XO (XO (XI (XO (XI (XO
    (XO (XO (XI (XI (XI (XO (XI (XO (XO (XI
    XH))))))))))))))))))))))))))))))) :: ((Zpos (XI (XO (XO (XI (XO (XI (XI
    (XI (XI (XI (XO (XI (XO (XO (XI (XO (XI (XI (XO (XI (XI (XO (XO (XI (XI
    (XO (XO (XO XH))))))))))))))))))))))))))))) :: ((Zpos (XO (XI (XI (XI (XI
    (XO (XI (XO (XO (XI (XI (XO (XI (XO (XI (XO (XO (XI (XO (XI (XI (XO (XI
    (XO (XI (XO (XI (XO XH))))))))))))))))))))))))))))) :: ((Zpos (XI (XI (XI
    (XO (XO (XO (XO (XI (XO (XO (XO (XO (XI (XI (XI (XO (XI (XO (XO (XI (XI
    (XO (XO (XO (XO (XO (XO (XI XH))))))))))))))))))))))))))))) :: ((Zpos (XO
    (XO (XO (XO (XI (XI (XO (XO (XI (XO (XI (XI (XO (XI (XI (XO (XO (XO (XO
    (XI (XI (XO (XI (XI (XO (XO (XI (XI
    XH))))))))))))))))))))))))))))) :: ((Zpos (XI (XO (XI (XO (XI (XI (XO (XO
    (XI (XO (XI (XI (XI (XI (XO (XO (XI (XI (XI (XI (XI (XO (XO (XI (XO
    XH)))))))))))))))))))))))))) :: ((Zpos (XO (XI (XO (XO (XO (XO (XO (XI
    (XO (XO (XO (XO (XO (XI (XO (XO (XO (XI (XI (XI (XI (XO (XI (XO (XO (XI
    XH))))))))))))))))))))))))))) :: ((Zpos (XI (XI (XO (XI (XI (XO (XI (XO
    (XO (XI (XI (XO (XO (XO (XO (XO (XI (XO (XI (XI (XI (XO (XO (XO (XI (XI
    (XO XH)))))))))))))))))))))))))))) :: ((Zpos (XO (XO (XI (XI (XO (XI (XI
    (XI (XI (XI (XO (XI (XI (XO (XO (XO (XO (XO (XI (XI (XI (XO (XI (XI (XI
    (XI (XI XH)))))))))))))))))))))))))))) :: ((Zpos (XI (XO (XO (XO (XI (XO
    (XI (XO (XO (XI (XI (XO (XO (XI (XO (XI (XI (XI (XO (XO (XI (XO (XO (XI
    (XI (XI (XI (XO (XI XH)))))))))))))))))))))))))))))) :: ((Zpos (XO (XI
    (XI (XO (XO (XI (XI (XI (XI (XI (XO (XI (XI (XI (XO (XI (XO (XI (XO (XO
    (XI (XO (XI (XO (XI (XI (XO (XO (XI
    XH)))))))))))))))))))))))))))))) :: ((Zpos (XI (XI (XI (XI (XI (XI (XO
    (XO (XI (XO (XI (XI (XI (XO (XO (XI (XI (XO (XO (XO (XI (XO (XO (XO (XO
    (XI (XI (XI (XI XH)))))))))))))))))))))))))))))) :: ((Zpos (XO (XO (XO
    (XI (XO (XO (XO (XI (XO (XO (XO (XO (XO (XO (XO (XI (XO (XO (XO (XO (XI
    (XO (XI (XI (XO (XI (XO (XI (XI
    XH)))))))))))))))))))))))))))))) :: ((Zpos (XI (XO (XI (XI (XO (XO (XO
    (XI (XO (XO (XO (XO (XI (XO (XI (XI (XI (XI (XI (XO (XI (XO (XO (XI (XO
    (XO (XI (XO (XO XH)))))))))))))))))))))))))))))) :: ((Zpos (XO (XI (XO
    (XI (XI (XI (XO (XO (XI (XO (XI (XI (XO (XO (XI (XI (XO (XI (XI (XO (XI
    (XO (XI (XO (XO (XO (XO (XO (XO
    XH)))))))))))))))))))))))))))))) :: ((Zpos (XI (XI (XO (XO (XO (XI (XI
    (XI (XI (XI (XO (XI (XO (XI (XI (XI (XI (XO (XI (XO (XI (XO (XO (XO (XI
    (XO (XI (XI (XO XH)))))))))))))))))))))))))))))) :: ((Zpos (XO (XO (XI
    (XO (XI (XO (XI (XO (XO (XI (XI (XO (XI (XI (XI (XI (XO (XO (XI (XO (XI
    (XO (XI (XI (XI (XO (XO (XI (XO
    XH)))))))))))))))))))))))))))))) :: ((Zpos (XI (XO (XO (XI (XI (XI (XI
    (XO (XO (XI (XI (XO (XO (XI (XO (XO (XI (XO (XO (XI (XO (XI (XO (XI (XI
    (XO (XI (XO (XO (XO (XI XH)))))))))))))))))))))))))))))))) :: ((Zpos (XO
    (XI (XI (XI (XO (XO (XI (XI (XI (XI (XO (XI (XI (XI (XO (XO (XO (XO (XO
    (XI (XO (XI (XI (XO (XI (XO (XO (XO (XO (XO (XI
    XH)))))))))))))))))))))))))))))))) :: ((Zpos (XI (XI (XI (XO (XI (XO (XO
    (XO (XI (XO (XI (XI (XI (XO (XO (XO (XI (XI (XO (XI (XO (XI (XO (XO (XO
    (XO (XI (XI (XO (XO (XI XH)))))))))))))))))))))))))))))))) :: ((Zpos (XO
    (XO (XO (XO (XO (XI (XO (XI (XO (XO (XO (XO (XO (XO (XO (XO (XO (XI (XO
    (XI (XO (XI (XI (XI (XO (XO (XO (XI (XO (XO (XI
    XH)))))))))))))))))))))))))))))))) :: ((Zpos (XI (XO (XI (XO (XO (XI (XO
    (XI (XO (XO (XO (XO (XI (XO (XI (XO (XI (XO (XI (XI (XO (XI (XO (XI (XO
    (XI (XI (XO (XI (XO (XI XH)))))))))))))))))))))))))))))))) :: ((Zpos (XO
    (XI (XO (XO (XI (XO (XO (XO (XI (XO (XI (XI (XO (XO (XI (XO (XO (XO (XI
    (XI (XO (XI (XI (XO (XO (XI (XO (XO (XI (XO (XI
    XH)))))))))))))))))))))))))))))))) :: ((Zpos (XI (XI (XO (XI (XO (XO (XI
    (XI (XI (XI (XO (XI (XO (XI (XI (XO (XI (XI (XI (XI (XO (XI (XO (XO (XI
    (XI (XI (XI (XI (XO (XI XH)))))))))))))))))))))))))))))))) :: ((Zpos (XO
    (XO (XI (XI (XI (XI (XI (XO (XO (XI (XI (XO (XI (XI (XI (XO (XO (XI (XI
    (XI (XO (XI (XI (XI (XI (XI (XO (XI (XI (XO (XI
    XH)))))))))))))))))))))))))))))))) :: ((Zpos (XI (XO (XO (XO (XO (XO (XI
    (XI (XI (XI (XO (XI (XO (XO (XI (XI (XI (XO (XO (XO (XO (XI (XO (XI (XI
    (XI (XO (XO (XO (XI (XI XH)))))))))))))))))))))))))))))))) :: ((Zpos (XO
    (XI (XI (XO (XI (XI (XI (XO (XO (XI (XI (XO (XI (XO (XI (XI (XO (XO (XO
    (XO (XO (XI (XI (XO (XI (XI (XI (XO (XO (XI (XI
    XH)))))))))))))))))))))))))))))))) :: ((Zpos (XI (XI (XI (XI (XO (XI (XO
    (XI (XO (XO (XO (XO (XI (XI (XI (XI (XI (XI (XO (XO (XO (XI (XO (XO (XO
    (XI (XO (XI (XO (XI (XI XH)))))))))))))))))))))))))))))))) :: ((Zpos (XO
    (XO (XO (XI (XI (XO (XO (XO (XI (XO (XI (XI (XO (XI (XI (XI (XO (XI (XO
    (XO (XO (XI (XI (XI (XO (XI (XI (XI (XO (XI (XI
    XH)))))))))))))))))))))))))))))))) :: ((Zpos (XI (XO (XI (XI (XI (XO (XO
    (XO (XI (XO (XI (XI (XI (XI (XO (XI (XI (XO (XI (XO (XO (XI (XO (XI (XO
    (XO (XO (XO (XI (XI (XI XH)))))))))))))))))))))))))))))))) :: ((Zpos (XO
    (XI (XO (XI (XO (XI (XO (XI (XO (XO (XO (XO (XO (XI (XO (XI (XO (XO (XI
    (XO (XO (XI (XI (XO (XO (XO (XI (XO (XI (XI (XI
    XH)))))))))))))))))))))))))))))))) :: ((Zpos (XI (XI (XO (XO (XI (XI (XI
    (XO (XO (XI (XI (XO (XO (XO (XO (XI (XI (XI (XI (XO (XO (XI (XO (XO (XI
    (XO (XO (XI (XI (XI (XI XH)))))))))))))))))))))))))))))))) :: ((Zpos (XO
    (XO (XI (XO (XO (XO (XI (XI (XI (XI (XO (XI (XI (XO (XO (XI (XO (XI (XI
    (XO (XO (XI (XI (XI (XI (XO (XI (XI (XI (XI (XI
    XH)))))))))))))))))))))))))))))))) :: ((Zpos (XI (XO (XO (XI (XO (XO (XO
    (XO (XI (XO (XI (XI (XI (XI (XI (XI (XO (XO (XO (XI (XI (XI (XO (XI (XI
    (XO (XO (XI (XO (XO (XO XH)))))))))))))))))))))))))))))))) :: ((Zpos (XO
    (XI (XI (XI (XI (XI (XO (XI (XO (XO (XO (XO (XO (XI (XI (XI (XI (XO (XO
    (XI (XI (XI (XI (XO (XI (XO (XI (XI (XO (XO (XO
    XH)))))))))))))))))))))))))))))))) :: ((Zpos (XI (XI (XI (XO (XO (XI (XI
    (XO (XO (XI (XI (XO (XO (XO (XI (XI (XO (XI (XO (XI (XI (XI (XO (XO (XO
    (XO (XO (XO (XO (XO (XO XH)))))))))))))))))))))))))))))))) :: ((Zpos (XO
    (XO (XO (XO (XI (XO (XI (XI (XI (XI (XO (XI (XI (XO (XI (XI (XI (XI (XO
    (XI (XI (XI (XI (XI (XO (XO (XI (XO (XO (XO (XO
    XH)))))))))))))))))))))))))))))))) :: ((Zpos (XI (XO (XI (XO (XI (XO (XI
    (XI (XI (XI (XO (XI (XO (XO (XO (XI (XO (XO (XI (XI (XI (XI (XO (XI (XO
    (XI (XO (XI (XI (XO (XO XH)))))))))))))))))))))))))))))))) :: ((Zpos (XO
    (XI (XO (XO (XO (XI (XI (XO (XO (XI (XI (XO (XI (XO (XO (XI (XI (XO (XI
    (XI (XI (XI (XI (XO (XO (XI (XI (XI (XI (XO (XO
    XH)))))))))))))))))))))))))))))))) :: ((Zpos (XI (XI (XO (XI (XI (XI (XO
    (XI (XO (XO (XO (XO (XI (XI (XO (XI (XO (XI (XI (XI (XI (XI (XO (XO (XI
    (XI (XO (XO (XI (XO (XO XH)))))))))))))))))))))))))))))))) :: ((Zpos (XO
    (XO (XI (XI (XO (XO (XO (XO (XI (XO (XI (XI (XO (XI (XO (XI (XI (XI (XI
    (XI (XI (XI (XI (XI (XI (XI (XI (XO (XI (XO (XO
    XH)))))))))))))))))))))))))))))))) :: ((Zpos (XI (XO (XO (XO (XI (XI (XO
    (XI (XO (XO (XO (XO (XI (XO (XO (XO (XO (XO (XO (XO (XI (XI (XO (XI (XI
    (XI (XI (XI (XO (XI (XO XH)))))))))))))))))))))))))))))))) :: ((Zpos (XO
    (XI (XI (XO (XO (XO (XO (XO (XI (XO (XI (XI (XO (XO (XO (XO (XI (XO (XO
    (XO (XI (XI (XI (XO (XI (XI (XO (XI (XO (XI (XO
    XH)))))))))))))))))))))))))))))))) :: ((Zpos (XI (XI (XI (XI (XI (XO (XI
    (XI (XI (XI (XO (XI (XO (XI (XO (XO (XO (XI (XO (XO (XI (XI (XO (XO (XO
    (XI (XI (XO (XO (XI (XO XH)))))))))))))))))))))))))))))))) :: ((Zpos (XO
    (XO (XO (XI (XO (XI (XI (XO (XO (XI (XI (XO (XI (XI (XO (XO (XI (XI (XO
    (XO (XI (XI (XI (XI (XO (XI (XO (XO (XO (XI (XO
    XH)))))))))))))))))))))))))))))))) :: ((Zpos (XI (XO (XI (XI (XO (XI (XI
    (XO (XO (XI (XI (XO (XO (XI (XI (XO (XO (XO (XI (XO (XI (XI (XO (XI (XO
    (XO (XI (XI (XI (XI (XO XH)))))))))))))))))))))))))))))))) :: ((Zpos (XO
    (XI (XO (XI (XI (XO (XI (XI (XI (XI (XO (XI (XI (XI (XI (XO (XI (XO (XI
    (XO (XI (XI (XI (XO (XO (XO (XO (XI (XI (XI (XO
    XH)))))))))))))))))))))))))))))))) :: ((Zpos (XI (XI (XO (XO (XO (XO (XO
    (XO (XI (XO (XI (XI (XI (XO (XI (XO (XO (XI (XI (XO (XI (XI (XO (XO (XI
    (XO (XI (XO (XI (XI (XO XH)))))))))))))))))))))))))))))))) :: ((Zpos (XO
    (XO (XI (XO (XI (XI (XO (XI (XO (XO (XO (XO (XO (XO (XI (XO (XI (XI (XI
    (XO (XI (XI (XI (XI (XI (XO (XO (XO (XI (XI (XO
    XH)))))))))))))))))))))))))))))))) :: [])))))))))))))))))))))))))))))))))))))))))))))))))))))))))))))))))))))))))))))))))))))))))))))))))))))))))))))))))))))))))))))))))))))))))))))))))))))))))))))))))))))))))))))))))))))))))))))))))))))))))))))))))))))))))))))))))))))))))))))))))))))))))))))))

(** val wAL_PAGE_SIZE : z **)

let wAL_PAGE_SIZE =
  Zpos (XO (XO (XO (XO (XO (XO (XO (XO (XO (XO (XO (XO XH))))))))))))

(** val wAL_IWFSM_MAGICK : z **)

let wAL_IWFSM_MAGICK =
  Zpos (XO (XO (XI (XI (XO (XO (XI (XI (XI (XI (XI (XO (XO (XO (XI (XI (XO
    (XO (XI (XI (XI (XO (XO (XI XH))))))))))))))))))))))))

(** val bKP_WAL_CLEANUP : z **)

let bKP_WAL_CLEANUP =
  Zpos (XO XH)

(** val bKP_MAIN_COPY : z **)

let bKP_MAIN_COPY =
  Zpos (XI XH)

(** val wAL_SCAN_SP_CHECKS_AVAIL : z **)

let wAL_SCAN_SP_CHECKS_AVAIL =
  Zpos XH

(** val wAL_REPLAY_REBASES_FPOS : z **)

let wAL_REPLAY_REBASES_FPOS =
  Zpos XH

(** val iW_ROUNDUP : z -> z -> z **)

let iW_ROUNDUP x v =
  Z.coq_land
    (uw (Zpos (XO (XO (XO (XO (XO (XO XH)))))))
      (Z.sub (uw (Zpos (XO (XO (XO (XO (XO (XO XH))))))) (Z.add x v))
        (uw (Zpos (XO (XO (XO (XO (XO (XO XH))))))) (Zpos XH))))
    (uw (Zpos (XO (XO (XO (XO (XO (XO XH)))))))
      (Z.lnot
        (uw (Zpos (XO (XO (XO (XO (XO (XO XH)))))))
          (Z.sub v (uw (Zpos (XO (XO (XO (XO (XO (XO XH))))))) (Zpos XH))))))

type bytes = z list

(** val le_enc : nat -> z -> bytes **)

let rec le_enc n0 v =
  match n0 with
  | O -> []
  | S k ->
    (Z.modulo v (Zpos (XO (XO (XO (XO (XO (XO (XO (XO XH)))))))))) :: 
      (le_enc k (Z.div v (Zpos (XO (XO (XO (XO (XO (XO (XO (XO XH)))))))))))

(** val le_dec : bytes -> z **)

let rec le_dec = function
| [] -> Z0
| b :: r ->
  Z.add b (Z.mul (Zpos (XO (XO (XO (XO (XO (XO (XO (XO XH))))))))) (le_dec r))

(** val rd : nat -> z -> bytes -> z **)

let rd n0 off l =
  le_dec (firstn n0 (skipn (Z.to_nat off) l))

(** val rd_off : z -> bytes -> z **)

let rd_off off l =
  sw (Zpos (XO (XO (XO (XO (XO (XO XH)))))))
    (rd (S (S (S (S (S (S (S (S O)))))))) off l)

type rec0 =
| RSep of z * z
| RSet of z * z * z
| RCopy of z * z * z
| RWrite of z * z * bytes
| RResize of z * z
| RSavepoint of z
| RReset

(** val hdr : z -> bytes **)

let hdr id =
  id :: (Z0 :: (Z0 :: (Z0 :: [])))

(** val enc_rec : rec0 -> bytes **)

let enc_rec = function
| RSep (crc, len) ->
  app (hdr wOP_SEP)
    (app (le_enc (S (S (S (S O)))) crc) (le_enc (S (S (S (S O)))) len))
| RSet (val0, off, len) ->
  app (hdr wOP_SET)
    (app (le_enc (S (S (S (S O)))) val0)
      (app (le_enc (S (S (S (S (S (S (S (S O)))))))) off)
        (le_enc (S (S (S (S (S (S (S (S O)))))))) len)))
| RCopy (off, len, noff) ->
  app (hdr wOP_COPY)
    (app (le_enc (S (S (S (S (S (S (S (S O)))))))) off)
      (app (le_enc (S (S (S (S (S (S (S (S O)))))))) len)
        (le_enc (S (S (S (S (S (S (S (S O)))))))) noff)))
| RWrite (crc, off, payload) ->
  app (hdr wOP_WRITE)
    (app (le_enc (S (S (S (S O)))) crc)
      (app (le_enc (S (S (S (S O)))) (Z.of_nat (length payload)))
        (app (le_enc (S (S (S (S (S (S (S (S O)))))))) off) payload)))
| RResize (osize, nsize) ->
  app (hdr wOP_RESIZE)
    (app (le_enc (S (S (S (S (S (S (S (S O)))))))) osize)
      (le_enc (S (S (S (S (S (S (S (S O)))))))) nsize))
| RSavepoint ts ->
  app (hdr wOP_SAVEPOINT) (le_enc (S (S (S (S (S (S (S (S O)))))))) ts)
| RReset -> hdr wOP_RESET

(** val encode : rec0 list -> bytes **)

let encode rs =
  flat_map enc_rec rs

(** val rec_size : rec0 -> z **)

let rec_size = function
| RSep (_, _) -> sizeof_WBSEP
| RSet (_, _, _) -> sizeof_WBSET
| RCopy (_, _, _) -> sizeof_WBCOPY
| RWrite (_, _, p) -> Z.add sizeof_WBWRITE (Z.of_nat (length p))
| RResize (_, _) -> sizeof_WBRESIZE
| RSavepoint _ -> sizeof_WBSAVEPOINT
| RReset -> sizeof_WBRESET

(** val layout_ok : bool **)

let layout_ok =
  (&&)
    ((&&)
      ((&&)
        ((&&)
          ((&&)
            ((&&)
              ((&&)
                ((&&)
                  ((&&)
                    ((&&)
                      ((&&)
                        ((&&)
                          ((&&)
                            ((&&)
                              ((&&)
                                ((&&)
                                  ((&&)
                                    ((&&)
                                      ((&&)
                                        ((&&)
                                          ((&&)
                                            ((&&)
                                              ((&&)
                                                ((&&)
                                                  ((&&)
                                                    ((&&)
                                                      ((&&)
                                                        (Z.eqb sizeof_WBSEP
                                                          (Zpos (XO (XO (XI
                                                          XH)))))
                                                        (Z.eqb
                                                          offsetof_WBSEP_crc
                                                          (Zpos (XO (XO XH)))))
                                                      (Z.eqb
                                                        offsetof_WBSEP_len
                                                        (Zpos (XO (XO (XO
                                                        XH))))))
                                                    (Z.eqb sizeof_WBRESET
                                                      (Zpos (XO (XO XH)))))
                                                  (Z.eqb sizeof_WBSET (Zpos
                                                    (XO (XO (XO (XI XH)))))))
                                                (Z.eqb offsetof_WBSET_val
                                                  (Zpos (XO (XO XH)))))
                                              (Z.eqb offsetof_WBSET_off (Zpos
                                                (XO (XO (XO XH))))))
                                            (Z.eqb offsetof_WBSET_len (Zpos
                                              (XO (XO (XO (XO XH)))))))
                                          (Z.eqb sizeof_WBCOPY (Zpos (XO (XO
                                            (XI (XI XH)))))))
                                        (Z.eqb offsetof_WBCOPY_off (Zpos (XO
                                          (XO XH)))))
                                      (Z.eqb offsetof_WBCOPY_len (Zpos (XO
                                        (XO (XI XH))))))
                                    (Z.eqb offsetof_WBCOPY_noff (Zpos (XO (XO
                                      (XI (XO XH)))))))
                                  (Z.eqb sizeof_WBWRITE (Zpos (XO (XO (XI (XO
                                    XH)))))))
                                (Z.eqb offsetof_WBWRITE_crc (Zpos (XO (XO
                                  XH)))))
                              (Z.eqb offsetof_WBWRITE_len (Zpos (XO (XO (XO
                                XH))))))
                            (Z.eqb offsetof_WBWRITE_off (Zpos (XO (XO (XI
                              XH))))))
                          (Z.eqb sizeof_WBRESIZE (Zpos (XO (XO (XI (XO
                            XH)))))))
                        (Z.eqb offsetof_WBRESIZE_osize (Zpos (XO (XO XH)))))
                      (Z.eqb offsetof_WBRESIZE_nsize (Zpos (XO (XO (XI XH))))))
                    (Z.eqb sizeof_WBSAVEPOINT (Zpos (XO (XO (XI XH))))))
                  (Z.eqb offsetof_WBSAVEPOINT_ts (Zpos (XO (XO XH)))))
                (Z.eqb wOP_SET (Zpos XH))) (Z.eqb wOP_COPY (Zpos (XO XH))))
            (Z.eqb wOP_WRITE (Zpos (XI XH))))
          (Z.eqb wOP_RESIZE (Zpos (XO (XO XH)))))
        (Z.eqb wOP_SAVEPOINT (Zpos (XI (XO XH)))))
      (Z.eqb wOP_RESET (Zpos (XO (XI XH)))))
    (Z.eqb wOP_SEP (Zpos (XI (XI (XI (XI (XI (XI XH))))))))

(** val crc32_step : z -> z -> z **)

let crc32_step crc b =
  Z.coq_lxor
    (Z.coq_land (Z.shiftl crc (Zpos (XO (XO (XO XH))))) (Zpos (XI (XI (XI (XI
      (XI (XI (XI (XI (XI (XI (XI (XI (XI (XI (XI (XI (XI (XI (XI (XI (XI (XI
      (XI (XI (XI (XI (XI (XI (XI (XI (XI XH)))))))))))))))))))))))))))))))))
    (nth
      (Z.to_nat
        (Z.coq_land
          (Z.coq_lxor (Z.shiftr crc (Zpos (XO (XO (XO (XI XH)))))) b) (Zpos
          (XI (XI (XI (XI (XI (XI (XI XH)))))))))) iwu_crc32_table Z0)

(** val crc32 : bytes -> z -> z **)

let crc32 buf init =
  fold_left crc32_step buf init

type sstep =
| SStop
| SNext of z * z * z

(** val scan_step : bool -> bool -> z -> z -> bytes -> z -> z -> sstep **)

let scan_step spchk first avail pos l fpos rpos =
  let opid = nth O l Z0 in
  if (&&) first (negb (Z.eqb opid wOP_SEP))
  then SStop
  else if Z.eqb opid wOP_SEP
       then if Z.ltb avail sizeof_WBSEP
            then SStop
            else if Z.gtb (rd (S (S (S (S O)))) offsetof_WBSEP_len l) avail
                 then SStop
                 else SNext (sizeof_WBSEP, fpos, rpos)
       else if Z.eqb opid wOP_SET
            then if Z.ltb avail sizeof_WBSET
                 then SStop
                 else SNext (sizeof_WBSET, fpos, rpos)
            else if Z.eqb opid wOP_COPY
                 then if Z.ltb avail sizeof_WBCOPY
                      then SStop
                      else SNext (sizeof_WBCOPY, fpos, rpos)
                 else if Z.eqb opid wOP_WRITE
                      then if Z.ltb avail sizeof_WBWRITE
                           then SStop
                           else let len =
                                  rd (S (S (S (S O)))) offsetof_WBWRITE_len l
                                in
                                if Z.ltb avail len
                                then SStop
                                else SNext ((Z.add sizeof_WBWRITE len), fpos,
                                       rpos)
                      else if Z.eqb opid wOP_RESIZE
                           then if Z.ltb avail sizeof_WBRESIZE
                                then SStop
                                else SNext (sizeof_WBRESIZE, fpos, rpos)
                           else if Z.eqb opid wOP_SAVEPOINT
                                then if (&&) spchk
                                          (Z.ltb avail sizeof_WBSAVEPOINT)
                                     then SStop
                                     else SNext (sizeof_WBSAVEPOINT, pos,
                                            rpos)
                                else if Z.eqb opid wOP_RESET
                                     then SNext (sizeof_WBRESET, fpos, pos)
                                     else SStop

(** val scan_loop :
    bool -> nat -> bool -> z -> z -> bytes -> z -> z -> z * z **)

let rec scan_loop spchk fuel first fsz pos l fpos rpos =
  match fuel with
  | O -> (fpos, rpos)
  | S f ->
    if negb (Z.ltb pos fsz)
    then (fpos, rpos)
    else (match scan_step spchk first (Z.sub fsz pos) pos l fpos rpos with
          | SStop -> (fpos, rpos)
          | SNext (adv, fp, rp) ->
            scan_loop spchk f false fsz (Z.add pos adv)
              (skipn (Z.to_nat adv) l) fp rp)

(** val sp_checks : bool **)

let sp_checks =
  Z.eqb wAL_SCAN_SP_CHECKS_AVAIL (Zpos XH)

(** val scan_with : bool -> bytes -> z * z **)

let scan_with spchk wal =
  scan_loop spchk (S (length wal)) true (Z.of_nat (length wal)) Z0 wal Z0 Z0

(** val scan : bytes -> z * z **)

let scan wal =
  scan_with sp_checks wal

(** val parse_loop : nat -> bytes -> rec0 list option **)

let rec parse_loop fuel l =
  match fuel with
  | O -> None
  | S f ->
    (match l with
     | [] -> Some []
     | opid :: _ ->
       let avail = Z.of_nat (length l) in
       let next = fun sz r ->
         if Z.ltb avail sz
         then None
         else (match parse_loop f (skipn (Z.to_nat sz) l) with
               | Some rs -> Some (r :: rs)
               | None -> None)
       in
       if Z.eqb opid wOP_SEP
       then next sizeof_WBSEP (RSep
              ((rd (S (S (S (S O)))) offsetof_WBSEP_crc l),
              (rd (S (S (S (S O)))) offsetof_WBSEP_len l)))
       else if Z.eqb opid wOP_SET
            then next sizeof_WBSET (RSet
                   ((rd (S (S (S (S O)))) offsetof_WBSET_val l),
                   (rd_off offsetof_WBSET_off l),
                   (rd_off offsetof_WBSET_len l)))
            else if Z.eqb opid wOP_COPY
                 then next sizeof_WBCOPY (RCopy
                        ((rd_off offsetof_WBCOPY_off l),
                        (rd_off offsetof_WBCOPY_len l),
                        (rd_off offsetof_WBCOPY_noff l)))
                 else if Z.eqb opid wOP_WRITE
                      then if Z.ltb avail sizeof_WBWRITE
                           then None
                           else let len =
                                  rd (S (S (S (S O)))) offsetof_WBWRITE_len l
                                in
                                next (Z.add sizeof_WBWRITE len) (RWrite
                                  ((rd (S (S (S (S O)))) offsetof_WBWRITE_crc
                                     l), (rd_off offsetof_WBWRITE_off l),
                                  (firstn (Z.to_nat len)
                                    (skipn (Z.to_nat sizeof_WBWRITE) l))))
                      else if Z.eqb opid wOP_RESIZE
                           then next sizeof_WBRESIZE (RResize
                                  ((rd_off offsetof_WBRESIZE_osize l),
                                  (rd_off offsetof_WBRESIZE_nsize l)))
                           else if Z.eqb opid wOP_SAVEPOINT
                                then next sizeof_WBSAVEPOINT (RSavepoint
                                       (rd (S (S (S (S (S (S (S (S O))))))))
                                         offsetof_WBSAVEPOINT_ts l))
                                else if Z.eqb opid wOP_RESET
                                     then next sizeof_WBRESET RReset
                                     else None)

(** val parse : bytes -> rec0 list option **)

let parse wal =
  parse_loop (S (length wal)) wal

(** val is_sp : rec0 -> bool **)

let is_sp = function
| RSavepoint _ -> true
| _ -> false

(** val is_sep : rec0 -> bool **)

let is_sep = function
| RSep (_, _) -> true
| _ -> false

(** val first_sp : rec0 list -> z -> z option **)

let rec first_sp rs pos =
  match rs with
  | [] -> None
  | r :: t ->
    if is_sp r then Some pos else first_sp t (Z.add pos (rec_size r))

(** val u32 : z -> bool **)

let u32 x =
  (&&) (Z.leb Z0 x)
    (Z.ltb x (Zpos (XO (XO (XO (XO (XO (XO (XO (XO (XO (XO (XO (XO (XO (XO
      (XO (XO (XO (XO (XO (XO (XO (XO (XO (XO (XO (XO (XO (XO (XO (XO (XO (XO
      XH))))))))))))))))))))))))))))))))))

(** val i64 : z -> bool **)

let i64 x =
  (&&)
    (Z.leb (Zneg (XO (XO (XO (XO (XO (XO (XO (XO (XO (XO (XO (XO (XO (XO (XO
      (XO (XO (XO (XO (XO (XO (XO (XO (XO (XO (XO (XO (XO (XO (XO (XO (XO (XO
      (XO (XO (XO (XO (XO (XO (XO (XO (XO (XO (XO (XO (XO (XO (XO (XO (XO (XO
      (XO (XO (XO (XO (XO (XO (XO (XO (XO (XO (XO (XO
      XH)))))))))))))))))))))))))))))))))))))))))))))))))))))))))))))))) x)
    (Z.ltb x (Zpos (XO (XO (XO (XO (XO (XO (XO (XO (XO (XO (XO (XO (XO (XO
      (XO (XO (XO (XO (XO (XO (XO (XO (XO (XO (XO (XO (XO (XO (XO (XO (XO (XO
      (XO (XO (XO (XO (XO (XO (XO (XO (XO (XO (XO (XO (XO (XO (XO (XO (XO (XO
      (XO (XO (XO (XO (XO (XO (XO (XO (XO (XO (XO (XO (XO
      XH)))))))))))))))))))))))))))))))))))))))))))))))))))))))))))))))))

(** val rec_range : rec0 -> bool **)

let rec_range = function
| RSep (crc, len) -> (&&) (u32 crc) (u32 len)
| RSet (val0, off, len) -> (&&) ((&&) (u32 val0) (i64 off)) (i64 len)
| RCopy (off, len, noff) -> (&&) ((&&) (i64 off) (i64 len)) (i64 noff)
| RWrite (crc, off, p) ->
  (&&) ((&&) ((&&) (u32 crc) (i64 off)) (u32 (Z.of_nat (length p))))
    (forallb (fun b ->
      (&&) (Z.leb Z0 b)
        (Z.ltb b (Zpos (XO (XO (XO (XO (XO (XO (XO (XO XH))))))))))) p)
| RResize (o, n0) -> (&&) (i64 o) (i64 n0)
| RSavepoint ts ->
  (&&) (Z.leb Z0 ts)
    (Z.ltb ts (Zpos (XO (XO (XO (XO (XO (XO (XO (XO (XO (XO (XO (XO (XO (XO
      (XO (XO (XO (XO (XO (XO (XO (XO (XO (XO (XO (XO (XO (XO (XO (XO (XO (XO
      (XO (XO (XO (XO (XO (XO (XO (XO (XO (XO (XO (XO (XO (XO (XO (XO (XO (XO
      (XO (XO (XO (XO (XO (XO (XO (XO (XO (XO (XO (XO (XO (XO
      XH))))))))))))))))))))))))))))))))))))))))))))))))))))))))))))))))))
| RReset -> true

(** val sep_ok : rec0 list -> z -> bool **)

let rec sep_ok rs pos =
  match rs with
  | [] -> true
  | r :: t ->
    (&&)
      (match r with
       | RSep (_, len) ->
         (match first_sp t (Z.add pos (rec_size r)) with
          | Some q -> Z.leb (Z.add pos len) q
          | None -> true)
       | _ -> true) (sep_ok t (Z.add pos (rec_size r)))

(** val wf_log : rec0 list -> bool **)

let wf_log rs =
  (&&)
    ((&&) (match rs with
           | [] -> true
           | r :: _ -> is_sep r) (forallb rec_range rs)) (sep_ok rs Z0)

(** val crc_ok : rec0 list -> bool **)

let rec crc_ok = function
| [] -> true
| r :: t ->
  (&&)
    (match r with
     | RSep (crc, len) ->
       (||) (Z.eqb crc Z0)
         (Z.eqb (crc32 (firstn (Z.to_nat len) (encode t)) Z0) crc)
     | RWrite (crc, _, p) -> (||) (Z.eqb crc Z0) (Z.eqb (crc32 p Z0) crc)
     | _ -> true) (crc_ok t)

(** val crc_full : rec0 list -> bool **)

let rec crc_full = function
| [] -> true
| r :: t ->
  (&&)
    (match r with
     | RSep (crc, len) ->
       Z.eqb (crc32 (firstn (Z.to_nat len) (encode t)) Z0) crc
     | RWrite (crc, _, p) -> Z.eqb (crc32 p Z0) crc
     | _ -> true) (crc_full t)

(** val sp_offsets : rec0 list -> z -> z list **)

let rec sp_offsets rs pos =
  match rs with
  | [] -> []
  | r :: t ->
    app (if is_sp r then pos :: [] else [])
      (sp_offsets t (Z.add pos (rec_size r)))

type verdict =
| VOk
| VCorrupt
| VFault

type aop =
| ASet of z * z * z
| ACopy of z * z * z
| AWrite of z * bytes
| AResize of z

(** val take_pad : z -> bytes -> bytes **)

let take_pad n0 l =
  let t = firstn (Z.to_nat n0) l in
  app t (repeat Z0 (sub (Z.to_nat n0) (length t)))

type rstep =
| RStop of verdict
| RNext of z * aop list

(** val replay_step : bool -> bool -> z -> z -> bytes -> z -> rstep **)

let replay_step ccrc first avail pos l fpos =
  let opid = nth O l Z0 in
  if (&&) first (negb (Z.eqb opid wOP_SEP))
  then RStop VCorrupt
  else if Z.eqb opid wOP_SEP
       then if Z.ltb avail sizeof_WBSEP
            then RStop VCorrupt
            else let len = rd (S (S (S (S O)))) offsetof_WBSEP_len l in
                 let crc = rd (S (S (S (S O)))) offsetof_WBSEP_crc l in
                 if Z.gtb len avail
                 then RStop VCorrupt
                 else if (&&) ((&&) ccrc (negb (Z.eqb crc Z0)))
                           (negb
                             (Z.eqb
                               (crc32
                                 (take_pad len
                                   (skipn (Z.to_nat sizeof_WBSEP) l)) Z0) crc))
                      then RStop VCorrupt
                      else RNext (sizeof_WBSEP, [])
       else if Z.eqb opid wOP_SET
            then if Z.ltb avail sizeof_WBSET
                 then RStop VCorrupt
                 else RNext (sizeof_WBSET, ((ASet
                        ((rd (S (S (S (S O)))) offsetof_WBSET_val l),
                        (rd_off offsetof_WBSET_off l),
                        (rd_off offsetof_WBSET_len l))) :: []))
            else if Z.eqb opid wOP_COPY
                 then if Z.ltb avail sizeof_WBCOPY
                      then RStop VCorrupt
                      else RNext (sizeof_WBCOPY, ((ACopy
                             ((rd_off offsetof_WBCOPY_off l),
                             (rd_off offsetof_WBCOPY_len l),
                             (rd_off offsetof_WBCOPY_noff l))) :: []))
                 else if Z.eqb opid wOP_WRITE
                      then if Z.ltb avail sizeof_WBWRITE
                           then RStop VCorrupt
                           else let len =
                                  rd (S (S (S (S O)))) offsetof_WBWRITE_len l
                                in
                                let crc =
                                  rd (S (S (S (S O)))) offsetof_WBWRITE_crc l
                                in
                                if Z.ltb avail len
                                then RStop VCorrupt
                                else let data =
                                       take_pad len
                                         (skipn (Z.to_nat sizeof_WBWRITE) l)
                                     in
                                     if (&&)
                                          ((&&) ccrc (negb (Z.eqb crc Z0)))
                                          (negb (Z.eqb (crc32 data Z0) crc))
                                     then RStop VCorrupt
                                     else RNext ((Z.add sizeof_WBWRITE len),
                                            ((AWrite
                                            ((rd_off offsetof_WBWRITE_off l),
                                            data)) :: []))
                      else if Z.eqb opid wOP_RESIZE
                           then if Z.ltb avail sizeof_WBRESIZE
                                then RStop VCorrupt
                                else RNext (sizeof_WBRESIZE, ((AResize
                                       (rd_off offsetof_WBRESIZE_nsize l)) :: []))
                           else if Z.eqb opid wOP_SAVEPOINT
                                then if Z.eqb fpos pos
                                     then RStop VOk
                                     else RNext (sizeof_WBSAVEPOINT, [])
                                else if Z.eqb opid wOP_RESET
                                     then RNext (sizeof_WBRESET, [])
                                     else RStop VCorrupt

(** val replay_loop :
    nat -> bool -> bool -> z -> z -> bytes -> z -> verdict * aop list **)

let rec replay_loop fuel ccrc first fsz pos l fpos =
  match fuel with
  | O -> (VOk, [])
  | S f ->
    if negb (Z.ltb pos fsz)
    then (VOk, [])
    else (match replay_step ccrc first (Z.sub fsz pos) pos l fpos with
          | RStop v -> (v, [])
          | RNext (adv, op) ->
            let (v, ops) =
              replay_loop f ccrc false fsz (Z.add pos adv)
                (skipn (Z.to_nat adv) l) fpos
            in
            (v, (app op ops)))

(** val fpos_rebased : bool **)

let fpos_rebased =
  Z.eqb wAL_REPLAY_REBASES_FPOS (Zpos XH)

(** val replay_ops_with :
    bool -> bool -> z -> z -> bytes -> verdict * aop list **)

let replay_ops_with spchk ccrc mode rfoff wal =
  let fsz = Z.of_nat (length wal) in
  if Z.eqb fsz Z0
  then (VOk, [])
  else if negb (Z.eqb mode Z0)
       then let (fpos, rpos) = scan_with spchk wal in
            if Z.eqb fpos Z0
            then (VOk, [])
            else if (&&) (Z.gtb rpos Z0) (Z.eqb mode (Zpos XH))
                 then if Z.ltb fpos rpos
                      then (VOk, [])
                      else let r = Z.sub rpos sizeof_WBSEP in
                           replay_loop (S (length wal)) ccrc true
                             (Z.sub fsz r) Z0 (skipn (Z.to_nat r) wal)
                             (if fpos_rebased then Z.sub fpos r else fpos)
                 else replay_loop (S (length wal)) ccrc true fsz Z0 wal fpos
       else if Z.gtb rfoff Z0
            then if Z.geb rfoff fsz
                 then (VCorrupt, [])
                 else replay_loop (S (length wal)) ccrc true
                        (Z.sub fsz rfoff) Z0 (skipn (Z.to_nat rfoff) wal) Z0
            else replay_loop (S (length wal)) ccrc true fsz Z0 wal Z0

(** val replay_ops : bool -> z -> z -> bytes -> verdict * aop list **)

let replay_ops ccrc mode rfoff wal =
  replay_ops_with sp_checks ccrc mode rfoff wal

(** val overwrite : bytes -> bytes -> bytes option **)

let rec overwrite m = function
| [] -> Some m
| d :: ds ->
  (match m with
   | [] -> None
   | _ :: t -> option_map (fun x -> d :: x) (overwrite t ds))

(** val splice_at : bytes -> z -> bytes -> bytes option **)

let rec splice_at m off data =
  if Z.leb off Z0
  then overwrite m data
  else (match m with
        | [] -> None
        | x :: t ->
          option_map (fun x0 -> x :: x0)
            (splice_at t (Z.sub off (Zpos XH)) data))

(** val splice : bytes -> z -> bytes -> bytes option **)

let splice m off data =
  if Z.ltb off Z0 then None else splice_at m off data

(** val fill_at : bytes -> z -> z -> z -> bytes option **)

let rec fill_at m off len v =
  match m with
  | [] -> if (&&) (Z.leb off Z0) (Z.leb len Z0) then Some [] else None
  | x :: t ->
    if Z.ltb Z0 off
    then option_map (fun x0 -> x :: x0)
           (fill_at t (Z.sub off (Zpos XH)) len v)
    else if Z.ltb Z0 len
         then option_map (fun x0 -> v :: x0)
                (fill_at t Z0 (Z.sub len (Zpos XH)) v)
         else Some m

(** val slice_at : bytes -> z -> z -> bytes option **)

let rec slice_at m off len =
  match m with
  | [] -> if (&&) (Z.leb off Z0) (Z.leb len Z0) then Some [] else None
  | x :: t ->
    if Z.ltb Z0 off
    then slice_at t (Z.sub off (Zpos XH)) len
    else if Z.ltb Z0 len
         then option_map (fun x0 -> x :: x0)
                (slice_at t Z0 (Z.sub len (Zpos XH)))
         else Some []

(** val resize_nat : nat -> bytes -> bytes **)

let rec resize_nat n0 m =
  match n0 with
  | O -> []
  | S k ->
    (match m with
     | [] -> Z0 :: (resize_nat k [])
     | x :: t -> x :: (resize_nat k t))

(** val apply_op : bytes -> aop -> bytes option **)

let apply_op m = function
| ASet (val0, off, len) ->
  if (||) (Z.ltb len Z0) (Z.ltb off Z0)
  then None
  else fill_at m off len
         (Z.modulo val0 (Zpos (XO (XO (XO (XO (XO (XO (XO (XO XH))))))))))
| ACopy (off, len, noff) ->
  if (||) (Z.ltb len Z0) (Z.ltb off Z0)
  then None
  else (match slice_at m off len with
        | Some src -> splice m noff src
        | None -> None)
| AWrite (off, data) -> splice m off data
| AResize nsize ->
  if (||) (Z.ltb nsize Z0)
       (Z.ltb (Zpos (XO (XO (XO (XO (XO (XO (XO (XO (XO (XO (XO (XO (XO (XO
         (XO (XO (XO (XO (XO (XO (XO (XO (XO (XO XH)))))))))))))))))))))))))
         nsize)
  then None
  else Some (resize_nat (Z.to_nat (iW_ROUNDUP nsize wAL_PAGE_SIZE)) m)

(** val apply_ops : bytes -> aop list -> bytes option **)

let rec apply_ops m = function
| [] -> Some m
| op :: r ->
  (match apply_op m op with
   | Some m' -> apply_ops m' r
   | None -> None)

(** val recover_with :
    bool -> bool -> z -> z -> bytes -> bytes -> (verdict * bytes) * aop list **)

let recover_with spchk ccrc mode rfoff wal main =
  let (v, ops) = replay_ops_with spchk ccrc mode rfoff wal in
  (match apply_ops main ops with
   | Some m -> ((v, m), ops)
   | None -> ((VFault, main), ops))

(** val recover :
    bool -> z -> z -> bytes -> bytes -> (verdict * bytes) * aop list **)

let recover ccrc mode rfoff wal main =
  recover_with sp_checks ccrc mode rfoff wal main

(** val aop_sig : aop -> (z * z) * z **)

let aop_sig = function
| ASet (_, off, len) -> ((wOP_SET, off), len)
| ACopy (_, len, noff) -> ((wOP_COPY, noff), len)
| AWrite (off, d) -> ((wOP_WRITE, off), (Z.of_nat (length d)))
| AResize n0 -> ((wOP_RESIZE, n0), Z0)

type effect =
| ELogAppend of bytes
| ELogFsync
| ELogTruncate
| EMainStore of aop
| EMainResize of z
| EMsync

type pstate = { p_buf : bytes; p_log : bytes; p_disk : bytes; p_rfoff : 
                z; p_stage : z; p_fatal : bool }

type pcfg = { c_bufsz : z; c_ccrc : bool }

(** val lenZ : bytes -> z **)

let lenZ l =
  Z.of_nat (length l)

(** val flush_wl : pcfg -> pstate -> bool -> pstate * effect list **)

let flush_wl c s sync =
  let (s1, e1) =
    match s.p_buf with
    | [] -> (s, [])
    | _ :: _ ->
      let crc = if c.c_ccrc then crc32 s.p_buf Z0 else Z0 in
      let seg = app (enc_rec (RSep (crc, (lenZ s.p_buf)))) s.p_buf in
      ({ p_buf = []; p_log = (app s.p_log seg); p_disk = s.p_disk; p_rfoff =
      s.p_rfoff; p_stage = s.p_stage; p_fatal = s.p_fatal }, ((ELogAppend
      seg) :: []))
  in
  (s1, (app e1 (if sync then ELogFsync :: [] else [])))

(** val write_wl :
    pcfg -> pstate -> bytes -> bytes -> pstate * effect list **)

let write_wl c s hdr0 data =
  let (s1, e1) =
    if Z.ltb (Z.sub c.c_bufsz (lenZ s.p_buf)) (lenZ hdr0)
    then flush_wl c s false
    else (s, [])
  in
  let s2 = { p_buf = (app s1.p_buf hdr0); p_log = s1.p_log; p_disk =
    s1.p_disk; p_rfoff = s1.p_rfoff; p_stage = s1.p_stage; p_fatal =
    s1.p_fatal }
  in
  if Z.ltb (Z.sub c.c_bufsz (lenZ s2.p_buf)) (lenZ data)
  then let (s3, e3) = flush_wl c s2 false in
       ({ p_buf = s3.p_buf; p_log = (app s3.p_log data); p_disk = s3.p_disk;
       p_rfoff = s3.p_rfoff; p_stage = s3.p_stage; p_fatal = s3.p_fatal },
       (app e1 (app e3 ((ELogAppend data) :: []))))
  else ({ p_buf = (app s2.p_buf data); p_log = s2.p_log; p_disk = s2.p_disk;
         p_rfoff = s2.p_rfoff; p_stage = s2.p_stage; p_fatal = s2.p_fatal },
         e1)

(** val replay_effects : z -> aop list -> effect list **)

let rec replay_effects cur = function
| [] -> []
| op :: t ->
  (match op with
   | AResize n0 ->
     let n' = iW_ROUNDUP n0 wAL_PAGE_SIZE in
     app
       (if Z.eqb n' cur
        then []
        else if Z.ltb cur n'
             then (EMainResize n') :: (EMsync :: [])
             else EMsync :: ((EMainResize n') :: []))
       (app ((EMainStore op) :: []) (replay_effects n' t))
   | _ -> (EMainStore op) :: (replay_effects cur t))

(** val rollforward_live : pcfg -> pstate -> pstate * effect list **)

let rollforward_live c s =
  let fsz = lenZ s.p_log in
  if Z.eqb fsz Z0
  then (s, [])
  else let (v, ops) = replay_ops c.c_ccrc Z0 s.p_rfoff s.p_log in
       let disk' =
         match apply_ops s.p_disk ops with
         | Some m -> m
         | None -> s.p_disk
       in
       let e_apply = replay_effects (lenZ s.p_disk) ops in
       (match v with
        | VOk ->
          if (||) (Z.eqb s.p_stage Z0) (Z.eqb s.p_stage bKP_WAL_CLEANUP)
          then ({ p_buf = s.p_buf; p_log = []; p_disk = disk'; p_rfoff = Z0;
                 p_stage = s.p_stage; p_fatal = s.p_fatal },
                 (app e_apply (EMsync :: (ELogTruncate :: (ELogFsync :: [])))))
          else let (s1, e1) =
                 flush_wl c { p_buf = s.p_buf; p_log = s.p_log; p_disk =
                   disk'; p_rfoff = s.p_rfoff; p_stage = s.p_stage; p_fatal =
                   s.p_fatal } false
               in
               let (s2, e2) = write_wl c s1 (enc_rec RReset) [] in
               let (s3, e3) = flush_wl c s2 true in
               ({ p_buf = s3.p_buf; p_log = s3.p_log; p_disk = s3.p_disk;
               p_rfoff =
               (Z.sub (lenZ s3.p_log) (Z.add sizeof_WBSEP sizeof_WBRESET));
               p_stage = s3.p_stage; p_fatal = s3.p_fatal },
               (app e_apply (app (EMsync :: []) (app e1 (app e2 e3)))))
        | _ ->
          ({ p_buf = s.p_buf; p_log = s.p_log; p_disk = disk'; p_rfoff =
            s.p_rfoff; p_stage = s.p_stage; p_fatal = true }, e_apply))

(** val checkpoint : pcfg -> pstate -> bool -> z -> pstate * effect list **)

let checkpoint c s no_fixpoint ts =
  if Z.eqb s.p_stage bKP_MAIN_COPY
  then (s, [])
  else let (s1, e1) =
         if no_fixpoint
         then (s, [])
         else write_wl c s (enc_rec (RSavepoint ts)) []
       in
       let (s2, e2) = flush_wl c s1 true in
       let (s3, e3) = rollforward_live c s2 in (s3, (app e1 (app e2 e3)))

(** val savepoint : pcfg -> pstate -> z -> bool -> pstate * effect list **)

let savepoint c s ts sync =
  let (s1, e1) = write_wl c s (enc_rec (RSavepoint ts)) [] in
  let (s2, e2) = flush_wl c s1 sync in (s2, (app e1 e2))

type event =
| VWrite of z * bytes
| VSet of z * z * z
| VCopy of z * z * z
| VResize of z * z
| VSynced
| VSavepoint of z * bool
| VCheckpoint of z

(** val write_hdr : z -> z -> z -> bytes **)

let write_hdr crc off len =
  app (hdr wOP_WRITE)
    (app (le_enc (S (S (S (S O)))) crc)
      (app (le_enc (S (S (S (S O)))) len)
        (le_enc (S (S (S (S (S (S (S (S O)))))))) off)))

(** val step : pcfg -> pstate -> event -> pstate * effect list **)

let step c s = function
| VWrite (off, data) ->
  write_wl c s
    (write_hdr (if c.c_ccrc then crc32 data Z0 else Z0) off (lenZ data)) data
| VSet (off, val0, len) -> write_wl c s (enc_rec (RSet (val0, off, len))) []
| VCopy (off, len, noff) -> write_wl c s (enc_rec (RCopy (off, len, noff))) []
| VResize (osize, nsize) ->
  let (s1, e1) = write_wl c s (enc_rec (RResize (osize, nsize))) [] in
  let (s2, e2) = checkpoint c s1 true Z0 in (s2, (app e1 e2))
| VSynced -> flush_wl c s true
| VSavepoint (ts, sync) -> savepoint c s ts sync
| VCheckpoint ts -> checkpoint c s false ts

(** val run : pcfg -> pstate -> event list -> pstate * effect list **)

let rec run c s = function
| [] -> (s, [])
| ev :: t ->
  let (s1, e1) = step c s ev in let (s2, e2) = run c s1 t in (s2, (app e1 e2))

(** val apply_effect : (bytes * bytes) -> effect -> bytes * bytes **)

let apply_effect ld e =
  let (log, disk) = ld in
  (match e with
   | ELogAppend bs -> ((app log bs), disk)
   | ELogTruncate -> ([], disk)
   | EMainStore op ->
     (log, (match apply_op disk op with
            | Some m -> m
            | None -> disk))
   | EMainResize n0 -> (log, (resize_nat (Z.to_nat n0) disk))
   | _ -> (log, disk))

(** val after_effects : bytes -> bytes -> effect list -> bytes * bytes **)

let after_effects log disk es =
  fold_left apply_effect es (log, disk)

(** val recovery_effects : bool -> bytes -> bytes -> effect list **)

let recovery_effects ccrc log disk =
  if Z.eqb (lenZ log) Z0
  then []
  else let (v, ops) = replay_ops ccrc (Zpos XH) Z0 log in
       app (replay_effects (lenZ disk) ops)
         (match v with
          | VOk -> EMsync :: (ELogTruncate :: (ELogFsync :: []))
          | _ -> [])

(** val effect_sig : effect -> ((z * z) * z) * z **)

let effect_sig = function
| ELogAppend bs -> ((((Zpos XH), (Zpos XH)), (Zneg XH)), (lenZ bs))
| ELogFsync -> ((((Zpos (XI (XO XH))), (Zpos XH)), Z0), Z0)
| ELogTruncate -> ((((Zpos (XI XH)), (Zpos XH)), Z0), Z0)
| EMainStore op ->
  let (p, l) = aop_sig op in
  let (k, o) = p in ((((Zpos (XO (XO (XO XH)))), k), o), l)
| EMainResize n0 -> ((((Zpos (XO (XO XH))), (Zpos (XO XH))), n0), Z0)
| EMsync -> ((((Zpos (XI (XI XH))), (Zpos (XO XH))), Z0), Z0)

(** val lenB : bytes -> z **)

let lenB l =
  Z.of_nat (length l)

(** val mk_image : bytes -> bytes -> bytes **)

let mk_image main wal =
  app main
    (app wal
      (app (le_enc (S (S (S (S (S (S (S (S O)))))))) (lenB main))
        (le_enc (S (S (S (S O)))) iWKV_BACKUP_MAGIC)))

(** val split_image : bytes -> (bytes * bytes) option **)

let split_image img =
  let fsz = lenB img in
  if Z.ltb fsz wAL_PAGE_SIZE
  then None
  else if negb (Z.eqb (rd (S (S (S (S O)))) Z0 img) wAL_IWFSM_MAGICK)
       then None
       else if negb
                 (Z.eqb
                   (rd (S (S (S (S O)))) iWFSM_CUSTOM_HDR_DATA_OFFSET img)
                   iWKV_MAGIC)
            then None
            else if negb
                      (Z.eqb
                        (rd (S (S (S (S O)))) (Z.sub fsz (Zpos (XO (XO XH))))
                          img) iWKV_BACKUP_MAGIC)
                 then None
                 else let pos = Z.sub fsz (Zpos (XO (XO (XI XH)))) in
                      let waloff =
                        rd (S (S (S (S (S (S (S (S O)))))))) pos img
                      in
                      if (||)
                           ((&&) (negb (Z.eqb waloff pos))
                             (Z.gtb waloff (Z.sub pos sizeof_WBSEP)))
                           (negb
                             (Z.eqb
                               (Z.coq_land waloff
                                 (Z.sub wAL_PAGE_SIZE (Zpos XH))) Z0))
                      then None
                      else if (&&) (negb (Z.eqb waloff pos))
                                (negb
                                  (Z.eqb (nth (Z.to_nat waloff) img Z0)
                                    wOP_SEP))
                           then None
                           else Some ((firstn (Z.to_nat waloff) img),
                                  (firstn (Z.to_nat (Z.sub pos waloff))
                                    (skipn (Z.to_nat waloff) img)))

(** val open_image : bool -> bytes -> (verdict * bytes) * aop list **)

let open_image ccrc img =
  match split_image img with
  | Some p -> let (main, wal) = p in recover ccrc (Zpos (XO XH)) Z0 wal main
  | None -> ((VOk, img), [])
