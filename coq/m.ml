
(** val negb : bool -> bool **)

let negb = function
| true -> false
| false -> true

type nat =
| O
| S of nat

(** val fst : ('a1 * 'a2) -> 'a1 **)

let fst = function
| (x, _) -> x

(** val snd : ('a1 * 'a2) -> 'a2 **)

let snd = function
| (_, y) -> y

(** val length : 'a1 list -> nat **)

let rec length = function
| [] -> O
| _ :: l' -> S (length l')

(** val app : 'a1 list -> 'a1 list -> 'a1 list **)

let rec app l m =
  match l with
  | [] -> m
  | a :: l1 -> a :: (app l1 m)

type comparison =
| Eq
| Lt
| Gt

(** val compOpp : comparison -> comparison **)

let compOpp = function
| Eq -> Eq
| Lt -> Gt
| Gt -> Lt

module Coq__1 = struct
 (** val add : nat -> nat -> nat **)
 let rec add n0 m =
   match n0 with
   | O -> m
   | S p -> S (add p m)
end
include Coq__1

type positive =
| XI of positive
| XO of positive
| XH

type n =
| N0
| Npos of positive

type z =
| Z0
| Zpos of positive
| Zneg of positive

module Nat =
 struct
  (** val min : nat -> nat -> nat **)

  let rec min n0 m =
    match n0 with
    | O -> O
    | S n' -> (match m with
               | O -> O
               | S m' -> S (min n' m'))
 end

module Pos =
 struct
  (** val succ : positive -> positive **)

  let rec succ = function
  | XI p -> XO (succ p)
  | XO p -> XI p
  | XH -> XO XH

  (** val add : positive -> positive -> positive **)

  let rec add x y =
    match x with
    | XI p ->
      (match y with
       | XI q -> XO (add_carry p q)
       | XO q -> XI (add p q)
       | XH -> XO (succ p))
    | XO p ->
      (match y with
       | XI q -> XI (add p q)
       | XO q -> XO (add p q)
       | XH -> XI p)
    | XH -> (match y with
             | XI q -> XO (succ q)
             | XO q -> XI q
             | XH -> XO XH)

  (** val add_carry : positive -> positive -> positive **)

  and add_carry x y =
    match x with
    | XI p ->
      (match y with
       | XI q -> XI (add_carry p q)
       | XO q -> XO (add_carry p q)
       | XH -> XI (succ p))
    | XO p ->
      (match y with
       | XI q -> XO (add_carry p q)
       | XO q -> XI (add p q)
       | XH -> XO (succ p))
    | XH ->
      (match y with
       | XI q -> XI (succ q)
       | XO q -> XO (succ q)
       | XH -> XI XH)

  (** val pred_double : positive -> positive **)

  let rec pred_double = function
  | XI p -> XI (XO p)
  | XO p -> XI (pred_double p)
  | XH -> XH

  (** val pred_N : positive -> n **)

  let pred_N = function
  | XI p -> Npos (XO p)
  | XO p -> Npos (pred_double p)
  | XH -> N0

  (** val mul : positive -> positive -> positive **)

  let rec mul x y =
    match x with
    | XI p -> add y (XO (mul p y))
    | XO p -> XO (mul p y)
    | XH -> y

  (** val iter : ('a1 -> 'a1) -> 'a1 -> positive -> 'a1 **)

  let rec iter f x = function
  | XI n' -> f (iter f (iter f x n') n')
  | XO n' -> iter f (iter f x n') n'
  | XH -> f x

  (** val div2 : positive -> positive **)

  let div2 = function
  | XI p0 -> p0
  | XO p0 -> p0
  | XH -> XH

  (** val div2_up : positive -> positive **)

  let div2_up = function
  | XI p0 -> succ p0
  | XO p0 -> p0
  | XH -> XH

  (** val compare_cont : comparison -> positive -> positive -> comparison **)

  let rec compare_cont r x y =
    match x with
    | XI p ->
      (match y with
       | XI q -> compare_cont r p q
       | XO q -> compare_cont Gt p q
       | XH -> Gt)
    | XO p ->
      (match y with
       | XI q -> compare_cont Lt p q
       | XO q -> compare_cont r p q
       | XH -> Gt)
    | XH -> (match y with
             | XH -> r
             | _ -> Lt)

  (** val compare : positive -> positive -> comparison **)

  let compare =
    compare_cont Eq

  (** val eqb : positive -> positive -> bool **)

  let rec eqb p q =
    match p with
    | XI p0 -> (match q with
                | XI q0 -> eqb p0 q0
                | _ -> false)
    | XO p0 -> (match q with
                | XO q0 -> eqb p0 q0
                | _ -> false)
    | XH -> (match q with
             | XH -> true
             | _ -> false)

  (** val coq_Nsucc_double : n -> n **)

  let coq_Nsucc_double = function
  | N0 -> Npos XH
  | Npos p -> Npos (XI p)

  (** val coq_Ndouble : n -> n **)

  let coq_Ndouble = function
  | N0 -> N0
  | Npos p -> Npos (XO p)

  (** val coq_lor : positive -> positive -> positive **)

  let rec coq_lor p q =
    match p with
    | XI p0 ->
      (match q with
       | XI q0 -> XI (coq_lor p0 q0)
       | XO q0 -> XI (coq_lor p0 q0)
       | XH -> p)
    | XO p0 ->
      (match q with
       | XI q0 -> XI (coq_lor p0 q0)
       | XO q0 -> XO (coq_lor p0 q0)
       | XH -> XI p0)
    | XH -> (match q with
             | XO q0 -> XI q0
             | _ -> q)

  (** val coq_land : positive -> positive -> n **)

  let rec coq_land p q =
    match p with
    | XI p0 ->
      (match q with
       | XI q0 -> coq_Nsucc_double (coq_land p0 q0)
       | XO q0 -> coq_Ndouble (coq_land p0 q0)
       | XH -> Npos XH)
    | XO p0 ->
      (match q with
       | XI q0 -> coq_Ndouble (coq_land p0 q0)
       | XO q0 -> coq_Ndouble (coq_land p0 q0)
       | XH -> N0)
    | XH -> (match q with
             | XO _ -> N0
             | _ -> Npos XH)

  (** val ldiff : positive -> positive -> n **)

  let rec ldiff p q =
    match p with
    | XI p0 ->
      (match q with
       | XI q0 -> coq_Ndouble (ldiff p0 q0)
       | XO q0 -> coq_Nsucc_double (ldiff p0 q0)
       | XH -> Npos (XO p0))
    | XO p0 ->
      (match q with
       | XI q0 -> coq_Ndouble (ldiff p0 q0)
       | XO q0 -> coq_Ndouble (ldiff p0 q0)
       | XH -> Npos p)
    | XH -> (match q with
             | XO _ -> Npos XH
             | _ -> N0)

  (** val iter_op : ('a1 -> 'a1 -> 'a1) -> positive -> 'a1 -> 'a1 **)

  let rec iter_op op p a =
    match p with
    | XI p0 -> op a (iter_op op p0 (op a a))
    | XO p0 -> iter_op op p0 (op a a)
    | XH -> a

  (** val to_nat : positive -> nat **)

  let to_nat x =
    iter_op Coq__1.add x (S O)

  (** val of_succ_nat : nat -> positive **)

  let rec of_succ_nat = function
  | O -> XH
  | S x -> succ (of_succ_nat x)
 end

module N =
 struct
  (** val succ_pos : n -> positive **)

  let succ_pos = function
  | N0 -> XH
  | Npos p -> Pos.succ p

  (** val coq_lor : n -> n -> n **)

  let coq_lor n0 m =
    match n0 with
    | N0 -> m
    | Npos p -> (match m with
                 | N0 -> n0
                 | Npos q -> Npos (Pos.coq_lor p q))

  (** val coq_land : n -> n -> n **)

  let coq_land n0 m =
    match n0 with
    | N0 -> N0
    | Npos p -> (match m with
                 | N0 -> N0
                 | Npos q -> Pos.coq_land p q)

  (** val ldiff : n -> n -> n **)

  let ldiff n0 m =
    match n0 with
    | N0 -> N0
    | Npos p -> (match m with
                 | N0 -> n0
                 | Npos q -> Pos.ldiff p q)
 end

module Z =
 struct
  (** val double : z -> z **)

  let double = function
  | Z0 -> Z0
  | Zpos p -> Zpos (XO p)
  | Zneg p -> Zneg (XO p)

  (** val succ_double : z -> z **)

  let succ_double = function
  | Z0 -> Zpos XH
  | Zpos p -> Zpos (XI p)
  | Zneg p -> Zneg (Pos.pred_double p)

  (** val pred_double : z -> z **)

  let pred_double = function
  | Z0 -> Zneg XH
  | Zpos p -> Zpos (Pos.pred_double p)
  | Zneg p -> Zneg (XI p)

  (** val pos_sub : positive -> positive -> z **)

  let rec pos_sub x y =
    match x with
    | XI p ->
      (match y with
       | XI q -> double (pos_sub p q)
       | XO q -> succ_double (pos_sub p q)
       | XH -> Zpos (XO p))
    | XO p ->
      (match y with
       | XI q -> pred_double (pos_sub p q)
       | XO q -> double (pos_sub p q)
       | XH -> Zpos (Pos.pred_double p))
    | XH ->
      (match y with
       | XI q -> Zneg (XO q)
       | XO q -> Zneg (Pos.pred_double q)
       | XH -> Z0)

  (** val add : z -> z -> z **)

  let add x y =
    match x with
    | Z0 -> y
    | Zpos x' ->
      (match y with
       | Z0 -> x
       | Zpos y' -> Zpos (Pos.add x' y')
       | Zneg y' -> pos_sub x' y')
    | Zneg x' ->
      (match y with
       | Z0 -> x
       | Zpos y' -> pos_sub y' x'
       | Zneg y' -> Zneg (Pos.add x' y'))

  (** val opp : z -> z **)

  let opp = function
  | Z0 -> Z0
  | Zpos x0 -> Zneg x0
  | Zneg x0 -> Zpos x0

  (** val pred : z -> z **)

  let pred x =
    add x (Zneg XH)

  (** val sub : z -> z -> z **)

  let sub m n0 =
    add m (opp n0)

  (** val mul : z -> z -> z **)

  let mul x y =
    match x with
    | Z0 -> Z0
    | Zpos x' ->
      (match y with
       | Z0 -> Z0
       | Zpos y' -> Zpos (Pos.mul x' y')
       | Zneg y' -> Zneg (Pos.mul x' y'))
    | Zneg x' ->
      (match y with
       | Z0 -> Z0
       | Zpos y' -> Zneg (Pos.mul x' y')
       | Zneg y' -> Zpos (Pos.mul x' y'))

  (** val pow_pos : z -> positive -> z **)

  let pow_pos z0 =
    Pos.iter (mul z0) (Zpos XH)

  (** val pow : z -> z -> z **)

  let pow x = function
  | Z0 -> Zpos XH
  | Zpos p -> pow_pos x p
  | Zneg _ -> Z0

  (** val compare : z -> z -> comparison **)

  let compare x y =
    match x with
    | Z0 -> (match y with
             | Z0 -> Eq
             | Zpos _ -> Lt
             | Zneg _ -> Gt)
    | Zpos x' -> (match y with
                  | Zpos y' -> Pos.compare x' y'
                  | _ -> Gt)
    | Zneg x' ->
      (match y with
       | Zneg y' -> compOpp (Pos.compare x' y')
       | _ -> Lt)

  (** val leb : z -> z -> bool **)

  let leb x y =
    match compare x y with
    | Gt -> false
    | _ -> true

  (** val ltb : z -> z -> bool **)

  let ltb x y =
    match compare x y with
    | Lt -> true
    | _ -> false

  (** val geb : z -> z -> bool **)

  let geb x y =
    match compare x y with
    | Lt -> false
    | _ -> true

  (** val gtb : z -> z -> bool **)

  let gtb x y =
    match compare x y with
    | Gt -> true
    | _ -> false

  (** val eqb : z -> z -> bool **)

  let eqb x y =
    match x with
    | Z0 -> (match y with
             | Z0 -> true
             | _ -> false)
    | Zpos p -> (match y with
                 | Zpos q -> Pos.eqb p q
                 | _ -> false)
    | Zneg p -> (match y with
                 | Zneg q -> Pos.eqb p q
                 | _ -> false)

  (** val min : z -> z -> z **)

  let min n0 m =
    match compare n0 m with
    | Gt -> m
    | _ -> n0

  (** val to_nat : z -> nat **)

  let to_nat = function
  | Zpos p -> Pos.to_nat p
  | _ -> O

  (** val of_nat : nat -> z **)

  let of_nat = function
  | O -> Z0
  | S n1 -> Zpos (Pos.of_succ_nat n1)

  (** val of_N : n -> z **)

  let of_N = function
  | N0 -> Z0
  | Npos p -> Zpos p

  (** val pos_div_eucl : positive -> z -> z * z **)

  let rec pos_div_eucl a b =
    match a with
    | XI a' ->
      let (q, r) = pos_div_eucl a' b in
      let r' = add (mul (Zpos (XO XH)) r) (Zpos XH) in
      if ltb r' b
      then ((mul (Zpos (XO XH)) q), r')
      else ((add (mul (Zpos (XO XH)) q) (Zpos XH)), (sub r' b))
    | XO a' ->
      let (q, r) = pos_div_eucl a' b in
      let r' = mul (Zpos (XO XH)) r in
      if ltb r' b
      then ((mul (Zpos (XO XH)) q), r')
      else ((add (mul (Zpos (XO XH)) q) (Zpos XH)), (sub r' b))
    | XH -> if leb (Zpos (XO XH)) b then (Z0, (Zpos XH)) else ((Zpos XH), Z0)

  (** val div_eucl : z -> z -> z * z **)

  let div_eucl a b =
    match a with
    | Z0 -> (Z0, Z0)
    | Zpos a' ->
      (match b with
       | Z0 -> (Z0, a)
       | Zpos _ -> pos_div_eucl a' b
       | Zneg b' ->
         let (q, r) = pos_div_eucl a' (Zpos b') in
         (match r with
          | Z0 -> ((opp q), Z0)
          | _ -> ((opp (add q (Zpos XH))), (add b r))))
    | Zneg a' ->
      (match b with
       | Z0 -> (Z0, a)
       | Zpos _ ->
         let (q, r) = pos_div_eucl a' b in
         (match r with
          | Z0 -> ((opp q), Z0)
          | _ -> ((opp (add q (Zpos XH))), (sub b r)))
       | Zneg b' -> let (q, r) = pos_div_eucl a' (Zpos b') in (q, (opp r)))

  (** val div : z -> z -> z **)

  let div a b =
    let (q, _) = div_eucl a b in q

  (** val modulo : z -> z -> z **)

  let modulo a b =
    let (_, r) = div_eucl a b in r

  (** val odd : z -> bool **)

  let odd = function
  | Z0 -> false
  | Zpos p -> (match p with
               | XO _ -> false
               | _ -> true)
  | Zneg p -> (match p with
               | XO _ -> false
               | _ -> true)

  (** val div2 : z -> z **)

  let div2 = function
  | Z0 -> Z0
  | Zpos p -> (match p with
               | XH -> Z0
               | _ -> Zpos (Pos.div2 p))
  | Zneg p -> Zneg (Pos.div2_up p)

  (** val shiftl : z -> z -> z **)

  let shiftl a = function
  | Z0 -> a
  | Zpos p -> Pos.iter (mul (Zpos (XO XH))) a p
  | Zneg p -> Pos.iter div2 a p

  (** val shiftr : z -> z -> z **)

  let shiftr a n0 =
    shiftl a (opp n0)

  (** val coq_lor : z -> z -> z **)

  let coq_lor a b =
    match a with
    | Z0 -> b
    | Zpos a0 ->
      (match b with
       | Z0 -> a
       | Zpos b0 -> Zpos (Pos.coq_lor a0 b0)
       | Zneg b0 -> Zneg (N.succ_pos (N.ldiff (Pos.pred_N b0) (Npos a0))))
    | Zneg a0 ->
      (match b with
       | Z0 -> a
       | Zpos b0 -> Zneg (N.succ_pos (N.ldiff (Pos.pred_N a0) (Npos b0)))
       | Zneg b0 ->
         Zneg (N.succ_pos (N.coq_land (Pos.pred_N a0) (Pos.pred_N b0))))

  (** val coq_land : z -> z -> z **)

  let coq_land a b =
    match a with
    | Z0 -> Z0
    | Zpos a0 ->
      (match b with
       | Z0 -> Z0
       | Zpos b0 -> of_N (Pos.coq_land a0 b0)
       | Zneg b0 -> of_N (N.ldiff (Npos a0) (Pos.pred_N b0)))
    | Zneg a0 ->
      (match b with
       | Z0 -> Z0
       | Zpos b0 -> of_N (N.ldiff (Npos b0) (Pos.pred_N a0))
       | Zneg b0 ->
         Zneg (N.succ_pos (N.coq_lor (Pos.pred_N a0) (Pos.pred_N b0))))

  (** val lnot : z -> z **)

  let lnot a =
    pred (opp a)
 end

(** val hd : 'a1 -> 'a1 list -> 'a1 **)

let hd default = function
| [] -> default
| x :: _ -> x

(** val tl : 'a1 list -> 'a1 list **)

let tl = function
| [] -> []
| _ :: m -> m

(** val nth : nat -> 'a1 list -> 'a1 -> 'a1 **)

let rec nth n0 l default =
  match n0 with
  | O -> (match l with
          | [] -> default
          | x :: _ -> x)
  | S m -> (match l with
            | [] -> default
            | _ :: t -> nth m t default)

(** val firstn : nat -> 'a1 list -> 'a1 list **)

let rec firstn n0 l =
  match n0 with
  | O -> []
  | S n1 -> (match l with
             | [] -> []
             | a :: l0 -> a :: (firstn n1 l0))

(** val skipn : nat -> 'a1 list -> 'a1 list **)

let rec skipn n0 l =
  match n0 with
  | O -> l
  | S n1 -> (match l with
             | [] -> []
             | _ :: l0 -> skipn n1 l0)

(** val uw : z -> z -> z **)

let uw bits x =
  Z.modulo x (Z.pow (Zpos (XO XH)) bits)

(** val sw : z -> z -> z **)

let sw bits x =
  Z.sub
    (Z.modulo (Z.add x (Z.pow (Zpos (XO XH)) (Z.sub bits (Zpos XH))))
      (Z.pow (Zpos (XO XH)) bits))
    (Z.pow (Zpos (XO XH)) (Z.sub bits (Zpos XH)))

(** val set_vnum_loop : nat -> z -> z list **)

let rec set_vnum_loop fuel num =
  match fuel with
  | O -> []
  | S f ->
    if Z.leb num Z0
    then []
    else let rem = Z.modulo num (Zpos (XO (XO (XO (XO (XO (XO (XO XH))))))))
         in
         let num' = Z.div num (Zpos (XO (XO (XO (XO (XO (XO (XO XH)))))))) in
         if Z.ltb Z0 num'
         then (Z.sub (Zpos (XI (XI (XI (XI (XI (XI (XI XH)))))))) rem) :: 
                (set_vnum_loop f num')
         else rem :: []

(** val set_vnum64 : z -> z list **)

let set_vnum64 v =
  let num = sw (Zpos (XO (XO (XO (XO (XO (XO XH))))))) v in
  if Z.eqb num Z0
  then Z0 :: []
  else set_vnum_loop (S (S (S (S (S (S (S (S (S (S O)))))))))) num

(** val set_vnum32 : z -> z list **)

let set_vnum32 v =
  let num = sw (Zpos (XO (XO (XO (XO (XO XH)))))) v in
  if Z.eqb num Z0 then Z0 :: [] else set_vnum_loop (S (S (S (S (S O))))) num

(** val read_vnum_loop : z list -> z -> z -> nat -> (z * nat) option **)

let rec read_vnum_loop buf base acc i =
  match buf with
  | [] -> None
  | b :: rest ->
    if Z.ltb b (Zpos (XO (XO (XO (XO (XO (XO (XO XH))))))))
    then Some ((Z.add acc (Z.mul base b)), (S i))
    else read_vnum_loop rest
           (Z.mul base (Zpos (XO (XO (XO (XO (XO (XO (XO XH)))))))))
           (Z.add acc
             (Z.mul base
               (Z.sub (Zpos (XI (XI (XI (XI (XI (XI (XI XH)))))))) b))) (S i)

(** val read_vnum : z list -> (z * nat) option **)

let read_vnum buf =
  read_vnum_loop buf (Zpos XH) Z0 O

(** val iWNUMBUF_SIZE : z **)

let iWNUMBUF_SIZE =
  Zpos (XO (XO (XO (XO (XO XH)))))

(** val ascii2hex_tbl : z list **)

let ascii2hex_tbl =
  Z0 :: (Z0 :: (Z0 :: (Z0 :: (Z0 :: (Z0 :: (Z0 :: (Z0 :: (Z0 :: (Z0 :: (Z0 :: (Z0 :: (Z0 :: (Z0 :: (Z0 :: (Z0 :: (Z0 :: (Z0 :: (Z0 :: (Z0 :: (Z0 :: (Z0 :: (Z0 :: (Z0 :: (Z0 :: (Z0 :: (Z0 :: (Z0 :: (Z0 :: (Z0 :: (Z0 :: (Z0 :: (Z0 :: (Z0 :: (Z0 :: (Z0 :: (Z0 :: (Z0 :: (Z0 :: (Z0 :: (Z0 :: (Z0 :: (Z0 :: (Z0 :: (Z0 :: (Z0 :: (Z0 :: (Z0 :: (Z0 :: ((Zpos
    XH) :: ((Zpos (XO XH)) :: ((Zpos (XI XH)) :: ((Zpos (XO (XO
    XH))) :: ((Zpos (XI (XO XH))) :: ((Zpos (XO (XI XH))) :: ((Zpos (XI (XI
    XH))) :: ((Zpos (XO (XO (XO XH)))) :: ((Zpos (XI (XO (XO
    XH)))) :: (Z0 :: (Z0 :: (Z0 :: (Z0 :: (Z0 :: (Z0 :: (Z0 :: ((Zpos (XO (XI
    (XO XH)))) :: ((Zpos (XI (XI (XO XH)))) :: ((Zpos (XO (XO (XI
    XH)))) :: ((Zpos (XI (XO (XI XH)))) :: ((Zpos (XO (XI (XI
    XH)))) :: ((Zpos (XI (XI (XI
    XH)))) :: (Z0 :: (Z0 :: (Z0 :: (Z0 :: (Z0 :: (Z0 :: (Z0 :: (Z0 :: (Z0 :: (Z0 :: (Z0 :: (Z0 :: (Z0 :: (Z0 :: (Z0 :: (Z0 :: (Z0 :: (Z0 :: (Z0 :: (Z0 :: (Z0 :: (Z0 :: (Z0 :: (Z0 :: (Z0 :: (Z0 :: ((Zpos
    (XO (XI (XO XH)))) :: ((Zpos (XI (XI (XO XH)))) :: ((Zpos (XO (XO (XI
    XH)))) :: ((Zpos (XI (XO (XI XH)))) :: ((Zpos (XO (XI (XI
    XH)))) :: ((Zpos (XI (XI (XI
    XH)))) :: (Z0 :: (Z0 :: (Z0 :: (Z0 :: (Z0 :: (Z0 :: (Z0 :: (Z0 :: (Z0 :: (Z0 :: (Z0 :: (Z0 :: (Z0 :: (Z0 :: (Z0 :: (Z0 :: (Z0 :: (Z0 :: (Z0 :: (Z0 :: (Z0 :: (Z0 :: (Z0 :: (Z0 :: (Z0 :: (Z0 :: (Z0 :: (Z0 :: (Z0 :: (Z0 :: (Z0 :: (Z0 :: (Z0 :: (Z0 :: (Z0 :: (Z0 :: (Z0 :: (Z0 :: (Z0 :: (Z0 :: (Z0 :: (Z0 :: (Z0 :: (Z0 :: (Z0 :: (Z0 :: (Z0 :: (Z0 :: (Z0 :: (Z0 :: (Z0 :: (Z0 :: (Z0 :: (Z0 :: (Z0 :: (Z0 :: (Z0 :: (Z0 :: (Z0 :: (Z0 :: (Z0 :: (Z0 :: (Z0 :: (Z0 :: (Z0 :: (Z0 :: (Z0 :: (Z0 :: (Z0 :: (Z0 :: (Z0 :: (Z0 :: (Z0 :: (Z0 :: (Z0 :: (Z0 :: (Z0 :: (Z0 :: (Z0 :: (Z0 :: (Z0 :: (Z0 :: (Z0 :: (Z0 :: (Z0 :: (Z0 :: (Z0 :: (Z0 :: (Z0 :: (Z0 :: (Z0 :: (Z0 :: (Z0 :: (Z0 :: (Z0 :: (Z0 :: (Z0 :: (Z0 :: (Z0 :: (Z0 :: (Z0 :: (Z0 :: (Z0 :: (Z0 :: (Z0 :: (Z0 :: (Z0 :: (Z0 :: (Z0 :: (Z0 :: (Z0 :: (Z0 :: (Z0 :: (Z0 :: (Z0 :: (Z0 :: (Z0 :: (Z0 :: (Z0 :: (Z0 :: (Z0 :: (Z0 :: (Z0 :: (Z0 :: (Z0 :: (Z0 :: (Z0 :: (Z0 :: (Z0 :: (Z0 :: (Z0 :: (Z0 :: (Z0 :: (Z0 :: (Z0 :: (Z0 :: (Z0 :: (Z0 :: (Z0 :: (Z0 :: (Z0 :: (Z0 :: (Z0 :: (Z0 :: (Z0 :: (Z0 :: (Z0 :: (Z0 :: (Z0 :: (Z0 :: (Z0 :: (Z0 :: (Z0 :: [])))))))))))))))))))))))))))))))))))))))))))))))))))))))))))))))))))))))))))))))))))))))))))))))))))))))))))))))))))))))))))))))))))))))))))))))))))))))))))))))))))))))))))))))))))))))))))))))))))))))))))))))))))))))))))))))))))))))))))))))))))))))))))))))

(** val pREFIX_KEY_LEN_V2 : z **)

let pREFIX_KEY_LEN_V2 =
  Zpos (XI (XI (XO (XO (XI (XI XH))))))

(** val iW_VNUMBUFSZ : z **)

let iW_VNUMBUFSZ =
  Zpos (XO (XI (XO XH)))

(** val iW_VNUMSIZE : z -> z **)

let iW_VNUMSIZE n0 =
  if Z.eqb
       (if Z.ltb (uw (Zpos (XO (XO (XO (XO (XO (XO XH))))))) n0) (Zpos (XO
             (XO (XO (XO (XO (XO (XO XH))))))))
        then Zpos XH
        else Z0) Z0
  then if Z.eqb
            (if Z.ltb (uw (Zpos (XO (XO (XO (XO (XO (XO XH))))))) n0) (Zpos
                  (XO (XO (XO (XO (XO (XO (XO (XO (XO (XO (XO (XO (XO (XO
                  XH)))))))))))))))
             then Zpos XH
             else Z0) Z0
       then if Z.eqb
                 (if Z.ltb (uw (Zpos (XO (XO (XO (XO (XO (XO XH))))))) n0)
                       (Zpos (XO (XO (XO (XO (XO (XO (XO (XO (XO (XO (XO (XO
                       (XO (XO (XO (XO (XO (XO (XO (XO (XO
                       XH))))))))))))))))))))))
                  then Zpos XH
                  else Z0) Z0
            then if Z.eqb
                      (if Z.ltb
                            (uw (Zpos (XO (XO (XO (XO (XO (XO XH))))))) n0)
                            (Zpos (XO (XO (XO (XO (XO (XO (XO (XO (XO (XO (XO
                            (XO (XO (XO (XO (XO (XO (XO (XO (XO (XO (XO (XO
                            (XO (XO (XO (XO (XO
                            XH)))))))))))))))))))))))))))))
                       then Zpos XH
                       else Z0) Z0
                 then if Z.eqb
                           (if Z.ltb
                                 (uw (Zpos (XO (XO (XO (XO (XO (XO XH)))))))
                                   n0) (Zpos (XO (XO (XO (XO (XO (XO (XO (XO
                                 (XO (XO (XO (XO (XO (XO (XO (XO (XO (XO (XO
                                 (XO (XO (XO (XO (XO (XO (XO (XO (XO (XO (XO
                                 (XO (XO (XO (XO (XO
                                 XH))))))))))))))))))))))))))))))))))))
                            then Zpos XH
                            else Z0) Z0
                      then if Z.eqb
                                (if Z.ltb
                                      (uw (Zpos (XO (XO (XO (XO (XO (XO
                                        XH))))))) n0) (Zpos (XO (XO (XO (XO
                                      (XO (XO (XO (XO (XO (XO (XO (XO (XO (XO
                                      (XO (XO (XO (XO (XO (XO (XO (XO (XO (XO
                                      (XO (XO (XO (XO (XO (XO (XO (XO (XO (XO
                                      (XO (XO (XO (XO (XO (XO (XO (XO
                                      XH)))))))))))))))))))))))))))))))))))))))))))
                                 then Zpos XH
                                 else Z0) Z0
                           then if Z.eqb
                                     (if Z.ltb
                                           (uw (Zpos (XO (XO (XO (XO (XO (XO
                                             XH))))))) n0) (Zpos (XO (XO (XO
                                           (XO (XO (XO (XO (XO (XO (XO (XO
                                           (XO (XO (XO (XO (XO (XO (XO (XO
                                           (XO (XO (XO (XO (XO (XO (XO (XO
                                           (XO (XO (XO (XO (XO (XO (XO (XO
                                           (XO (XO (XO (XO (XO (XO (XO (XO
                                           (XO (XO (XO (XO (XO (XO
                                           XH))))))))))))))))))))))))))))))))))))))))))))))))))
                                      then Zpos XH
                                      else Z0) Z0
                                then if Z.eqb
                                          (if Z.ltb
                                                (uw (Zpos (XO (XO (XO (XO (XO
                                                  (XO XH))))))) n0) (Zpos (XO
                                                (XO (XO (XO (XO (XO (XO (XO
                                                (XO (XO (XO (XO (XO (XO (XO
                                                (XO (XO (XO (XO (XO (XO (XO
                                                (XO (XO (XO (XO (XO (XO (XO
                                                (XO (XO (XO (XO (XO (XO (XO
                                                (XO (XO (XO (XO (XO (XO (XO
                                                (XO (XO (XO (XO (XO (XO (XO
                                                (XO (XO (XO (XO (XO (XO
                                                XH)))))))))))))))))))))))))))))))))))))))))))))))))))))))))
                                           then Zpos XH
                                           else Z0) Z0
                                     then if Z.eqb
                                               (if Z.ltb
                                                     (uw (Zpos (XO (XO (XO
                                                       (XO (XO (XO XH)))))))
                                                       n0) (Zpos (XO (XO (XO
                                                     (XO (XO (XO (XO (XO (XO
                                                     (XO (XO (XO (XO (XO (XO
                                                     (XO (XO (XO (XO (XO (XO
                                                     (XO (XO (XO (XO (XO (XO
                                                     (XO (XO (XO (XO (XO (XO
                                                     (XO (XO (XO (XO (XO (XO
                                                     (XO (XO (XO (XO (XO (XO
                                                     (XO (XO (XO (XO (XO (XO
                                                     (XO (XO (XO (XO (XO (XO
                                                     (XO (XO (XO (XO (XO (XO
                                                     XH))))))))))))))))))))))))))))))))))))))))))))))))))))))))))))))))
                                                then Zpos XH
                                                else Z0) Z0
                                          then Zpos (XO (XI (XO XH)))
                                          else Zpos (XI (XO (XO XH)))
                                     else Zpos (XO (XO (XO XH)))
                                else Zpos (XI (XI XH))
                           else Zpos (XO (XI XH))
                      else Zpos (XI (XO XH))
                 else Zpos (XO (XO XH))
            else Zpos (XI XH)
       else Zpos (XO XH)
  else Zpos XH

(** val iW_VNUMSIZE32 : z -> z **)

let iW_VNUMSIZE32 n0 =
  if Z.eqb
       (if Z.ltb (uw (Zpos (XO (XO (XO (XO (XO (XO XH))))))) n0) (Zpos (XO
             (XO (XO (XO (XO (XO (XO XH))))))))
        then Zpos XH
        else Z0) Z0
  then if Z.eqb
            (if Z.ltb (uw (Zpos (XO (XO (XO (XO (XO (XO XH))))))) n0) (Zpos
                  (XO (XO (XO (XO (XO (XO (XO (XO (XO (XO (XO (XO (XO (XO
                  XH)))))))))))))))
             then Zpos XH
             else Z0) Z0
       then if Z.eqb
                 (if Z.ltb (uw (Zpos (XO (XO (XO (XO (XO (XO XH))))))) n0)
                       (Zpos (XO (XO (XO (XO (XO (XO (XO (XO (XO (XO (XO (XO
                       (XO (XO (XO (XO (XO (XO (XO (XO (XO
                       XH))))))))))))))))))))))
                  then Zpos XH
                  else Z0) Z0
            then if Z.eqb
                      (if Z.ltb
                            (uw (Zpos (XO (XO (XO (XO (XO (XO XH))))))) n0)
                            (Zpos (XO (XO (XO (XO (XO (XO (XO (XO (XO (XO (XO
                            (XO (XO (XO (XO (XO (XO (XO (XO (XO (XO (XO (XO
                            (XO (XO (XO (XO (XO
                            XH)))))))))))))))))))))))))))))
                       then Zpos XH
                       else Z0) Z0
                 then Zpos (XI (XO XH))
                 else Zpos (XO (XO XH))
            else Zpos (XI XH)
       else Zpos (XO XH)
  else Zpos XH

(** val iW_RANGES_OVERLAP : z -> z -> z -> z -> z **)

let iW_RANGES_OVERLAP s1 e1 s2 e2 =
  if Z.eqb
       (if Z.eqb
             (if Z.eqb (if Z.gtb e1 s2 then Zpos XH else Z0) Z0
              then Z0
              else if Z.eqb (if Z.leb e1 e2 then Zpos XH else Z0) Z0
                   then Z0
                   else Zpos XH) Z0
        then if Z.eqb
                  (if Z.eqb (if Z.geb s1 s2 then Zpos XH else Z0) Z0
                   then Z0
                   else if Z.eqb (if Z.ltb s1 e2 then Zpos XH else Z0) Z0
                        then Z0
                        else Zpos XH) Z0
             then Z0
             else Zpos XH
        else Zpos XH) Z0
  then if Z.eqb
            (if Z.eqb (if Z.leb s1 s2 then Zpos XH else Z0) Z0
             then Z0
             else if Z.eqb (if Z.geb e1 e2 then Zpos XH else Z0) Z0
                  then Z0
                  else Zpos XH) Z0
       then Z0
       else Zpos XH
  else Zpos XH

(** val iW_ROUNDUP : z -> z -> z **)

let iW_ROUNDUP x v =
  Z.coq_land
    (uw (Zpos (XO (XO (XO (XO (XO (XO XH)))))))
      (Z.sub (uw (Zpos (XO (XO (XO (XO (XO (XO XH))))))) (Z.add x v))
        (uw (Zpos (XO (XO (XO (XO (XO (XO XH))))))) (Zpos XH))))
    (uw (Zpos (XO (XO (XO (XO (XO (XO XH)))))))
      (Z.lnot
        (uw (Zpos (XO (XO (XO (XO (XO (XO XH)))))))
          (Z.sub v (uw (Zpos (XO (XO (XO (XO (XO (XO XH))))))) (Zpos XH))))))

(** val iW_ROUNDOWN : z -> z -> z **)

let iW_ROUNDOWN x v =
  uw (Zpos (XO (XO (XO (XO (XO (XO XH)))))))
    (Z.sub x
      (Z.coq_land x
        (uw (Zpos (XO (XO (XO (XO (XO (XO XH)))))))
          (Z.sub v (uw (Zpos (XO (XO (XO (XO (XO (XO XH))))))) (Zpos XH))))))

type mem = { m_len : z; m_init : (z -> z); m_wr : (z * z) list }

(** val rd_wr : (z * z) list -> (z -> z) -> z -> z **)

let rec rd_wr w init i =
  match w with
  | [] -> init i
  | p :: r -> let (j, x) = p in if Z.eqb j i then x else rd_wr r init i

(** val inb : mem -> z -> bool **)

let inb m i =
  (&&) (Z.leb Z0 i) (Z.ltb i m.m_len)

(** val rd : mem -> z -> z option **)

let rd m i =
  if inb m i then Some (rd_wr m.m_wr m.m_init i) else None

(** val wr : mem -> z -> z -> mem option **)

let wr m i x =
  if inb m i
  then Some { m_len = m.m_len; m_init = m.m_init; m_wr = ((i, x) :: m.m_wr) }
  else None

(** val peek : mem -> z -> z **)

let peek m i =
  rd_wr m.m_wr m.m_init i

(** val shl1 : nat -> mem -> z -> mem option **)

let rec shl1 n0 m dst =
  match n0 with
  | O -> Some m
  | S k ->
    (match rd m (Z.add dst (Zpos XH)) with
     | Some x ->
       (match wr m dst x with
        | Some m' -> shl1 k m' (Z.add dst (Zpos XH))
        | None -> None)
     | None -> None)

(** val itoa_loop :
    nat -> z -> z -> z -> z -> z -> mem -> ((z * z) * mem) option **)

let rec itoa_loop fuel ptr max ret p v m =
  match fuel with
  | O -> Some ((ret, p), m)
  | S f ->
    if Z.eqb v Z0
    then Some ((ret, p), m)
    else let ret0 = Z.add ret (Zpos XH) in
         if Z.geb ret0 max
         then if Z.eqb p ptr
              then Some ((ret0, p), m)
              else (match shl1 (Z.to_nat (Z.sub p ptr)) m ptr with
                    | Some m1 ->
                      (match wr m1 (Z.sub p (Zpos XH))
                               (Z.add (Zpos (XO (XO (XO (XO (XI XH))))))
                                 (Z.modulo v (Zpos (XO (XI (XO XH)))))) with
                       | Some m2 ->
                         itoa_loop f ptr max ret0 p
                           (Z.div v (Zpos (XO (XI (XO XH))))) m2
                       | None -> None)
                    | None -> None)
         else (match wr m p
                       (Z.add (Zpos (XO (XO (XO (XO (XI XH))))))
                         (Z.modulo v (Zpos (XO (XI (XO XH)))))) with
               | Some m2 ->
                 itoa_loop f ptr max ret0 (Z.add p (Zpos XH))
                   (Z.div v (Zpos (XO (XI (XO XH))))) m2
               | None -> None)

(** val rev_loop : nat -> z -> z -> mem -> mem option **)

let rec rev_loop fuel ptr p m =
  match fuel with
  | O -> Some m
  | S f ->
    if Z.gtb p ptr
    then let p0 = Z.sub p (Zpos XH) in
         (match rd m p0 with
          | Some c ->
            (match rd m ptr with
             | Some d ->
               (match wr m p0 d with
                | Some m1 ->
                  (match wr m1 ptr c with
                   | Some m2 -> rev_loop f (Z.add ptr (Zpos XH)) p0 m2
                   | None -> None)
                | None -> None)
             | None -> None)
          | None -> None)
    else Some m

(** val int64_min_text : z list **)

let int64_min_text =
  (Zpos (XI (XO (XI (XI (XO XH)))))) :: ((Zpos (XI (XO (XO (XI (XI
    XH)))))) :: ((Zpos (XO (XI (XO (XO (XI XH)))))) :: ((Zpos (XO (XI (XO (XO
    (XI XH)))))) :: ((Zpos (XI (XI (XO (XO (XI XH)))))) :: ((Zpos (XI (XI (XO
    (XO (XI XH)))))) :: ((Zpos (XI (XI (XI (XO (XI XH)))))) :: ((Zpos (XO (XI
    (XO (XO (XI XH)))))) :: ((Zpos (XO (XO (XO (XO (XI XH)))))) :: ((Zpos (XI
    (XI (XO (XO (XI XH)))))) :: ((Zpos (XO (XI (XI (XO (XI XH)))))) :: ((Zpos
    (XO (XO (XO (XI (XI XH)))))) :: ((Zpos (XI (XO (XI (XO (XI
    XH)))))) :: ((Zpos (XO (XO (XI (XO (XI XH)))))) :: ((Zpos (XI (XI (XI (XO
    (XI XH)))))) :: ((Zpos (XI (XI (XI (XO (XI XH)))))) :: ((Zpos (XI (XO (XI
    (XO (XI XH)))))) :: ((Zpos (XO (XO (XO (XI (XI XH)))))) :: ((Zpos (XO (XO
    (XO (XO (XI XH)))))) :: ((Zpos (XO (XO (XO (XI (XI
    XH)))))) :: [])))))))))))))))))))

(** val wr_list : mem -> z -> z list -> mem option **)

let rec wr_list m i = function
| [] -> Some m
| x :: r ->
  (match wr m i x with
   | Some m' -> wr_list m' (Z.add i (Zpos XH)) r
   | None -> None)

(** val itoa_digits : z -> mem -> z -> z -> z -> (z * mem) option **)

let itoa_digits v m0 max ptr ret =
  match itoa_loop (S (S (S (S (S (S (S (S (S (S (S (S (S (S (S (S (S (S (S (S
          O)))))))))))))))))))) ptr max ret ptr v m0 with
  | Some p0 ->
    let (p1, m1) = p0 in
    let (ret', p) = p1 in
    (match rev_loop (S (S (S (S (S (S (S (S (S (S (S (S (S (S (S (S (S (S (S
             (S O)))))))))))))))))))) ptr p m1 with
     | Some m2 ->
       (match wr m2 p Z0 with
        | Some m3 -> Some (ret', m3)
        | None -> None)
     | None -> None)
  | None -> None

(** val itoa : z -> mem -> z -> (z * mem) option **)

let itoa v m max =
  if Z.ltb max (Zpos XH)
  then Some (Z0, m)
  else if Z.eqb v Z0
       then if Z.geb (Zpos XH) max
            then (match wr m Z0 Z0 with
                  | Some m' -> Some ((Zpos XH), m')
                  | None -> None)
            else (match wr m Z0 (Zpos (XO (XO (XO (XO (XI XH)))))) with
                  | Some m1 ->
                    (match wr m1 (Zpos XH) Z0 with
                     | Some m2 -> Some ((Zpos XH), m2)
                     | None -> None)
                  | None -> None)
       else if Z.eqb v
                 (Z.opp
                   (Z.pow (Zpos (XO XH)) (Zpos (XI (XI (XI (XI (XI XH))))))))
            then let n0 =
                   Z.min (Z.sub max (Zpos XH)) (Zpos (XO (XO (XI (XO XH)))))
                 in
                 (match wr_list m Z0 (firstn (Z.to_nat n0) int64_min_text) with
                  | Some m1 ->
                    (match wr m1 n0 Z0 with
                     | Some m2 -> Some ((Zpos (XO (XO (XI (XO XH))))), m2)
                     | None -> None)
                  | None -> None)
            else if Z.ltb v Z0
                 then if Z.geb (Zpos XH) max
                      then (match wr m Z0 Z0 with
                            | Some m' -> Some ((Zpos XH), m')
                            | None -> None)
                      else (match wr m Z0 (Zpos (XI (XO (XI (XI (XO XH)))))) with
                            | Some m0 ->
                              itoa_digits (Z.opp v) m0 max (Zpos XH) (Zpos XH)
                            | None -> None)
                 else itoa_digits v m max Z0 Z0

(** val cstr : nat -> mem -> z -> z list **)

let rec cstr fuel m i =
  match fuel with
  | O -> []
  | S f ->
    if inb m i
    then let c = peek m i in
         if Z.eqb c Z0 then [] else c :: (cstr f m (Z.add i (Zpos XH)))
    else []

(** val skip_ws : z list -> z list **)

let rec skip_ws s = match s with
| [] -> []
| c :: r ->
  if (&&) (Z.leb (Zpos XH) c) (Z.leb c (Zpos (XO (XO (XO (XO (XO XH)))))))
  then skip_ws r
  else s

(** val atoi_digits : z list -> z -> z **)

let rec atoi_digits s num =
  match s with
  | [] -> num
  | c :: r ->
    if (||) (Z.ltb c (Zpos (XO (XO (XO (XO (XI XH)))))))
         (Z.gtb c (Zpos (XI (XO (XO (XI (XI XH)))))))
    then num
    else atoi_digits r
           (sw (Zpos (XO (XO (XO (XO (XO (XO XH)))))))
             (Z.sub (Z.add (Z.mul num (Zpos (XO (XI (XO XH))))) c) (Zpos (XO
               (XO (XO (XO (XI XH))))))))

(** val is_inf : z list -> bool **)

let is_inf = function
| [] -> false
| z0 :: l ->
  (match z0 with
   | Zpos p ->
     (match p with
      | XI p0 ->
        (match p0 with
         | XO p1 ->
           (match p1 with
            | XO p2 ->
              (match p2 with
               | XI p3 ->
                 (match p3 with
                  | XO p4 ->
                    (match p4 with
                     | XI p5 ->
                       (match p5 with
                        | XH ->
                          (match l with
                           | [] -> false
                           | z1 :: l0 ->
                             (match z1 with
                              | Zpos p6 ->
                                (match p6 with
                                 | XO p7 ->
                                   (match p7 with
                                    | XI p8 ->
                                      (match p8 with
                                       | XI p9 ->
                                         (match p9 with
                                          | XI p10 ->
                                            (match p10 with
                                             | XO p11 ->
                                               (match p11 with
                                                | XI p12 ->
                                                  (match p12 with
                                                   | XH ->
                                                     (match l0 with
                                                      | [] -> false
                                                      | z2 :: l1 ->
                                                        (match z2 with
                                                         | Zpos p13 ->
                                                           (match p13 with
                                                            | XO p14 ->
                                                              (match p14 with
                                                               | XI p15 ->
                                                                 (match p15 with
                                                                  | XI p16 ->
                                                                    (match p16 with
                                                                    | XO p17 ->
                                                                    (match p17 with
                                                                    | XO p18 ->
                                                                    (match p18 with
                                                                    | XI p19 ->
                                                                    (match p19 with
                                                                    | XH ->
                                                                    (match l1 with
                                                                    | [] ->
                                                                    true
                                                                    | _ :: _ ->
                                                                    false)
                                                                    | _ ->
                                                                    false)
                                                                    | _ ->
                                                                    false)
                                                                    | _ ->
                                                                    false)
                                                                    | _ ->
                                                                    false)
                                                                  | _ -> false)
                                                               | _ -> false)
                                                            | _ -> false)
                                                         | _ -> false))
                                                   | _ -> false)
                                                | _ -> false)
                                             | _ -> false)
                                          | _ -> false)
                                       | _ -> false)
                                    | _ -> false)
                                 | _ -> false)
                              | _ -> false))
                        | _ -> false)
                     | _ -> false)
                  | _ -> false)
               | _ -> false)
            | _ -> false)
         | _ -> false)
      | _ -> false)
   | _ -> false)

(** val atoi : z list -> z **)

let atoi s =
  let s0 = skip_ws s in
  (match s0 with
   | [] ->
     let sign = Zpos XH in
     if is_inf s0
     then sw (Zpos (XO (XO (XO (XO (XO (XO XH)))))))
            (Z.mul
              (Z.sub
                (Z.pow (Zpos (XO XH)) (Zpos (XI (XI (XI (XI (XI XH)))))))
                (Zpos XH)) sign)
     else sw (Zpos (XO (XO (XO (XO (XO (XO XH)))))))
            (Z.mul (atoi_digits s0 Z0) sign)
   | z0 :: r ->
     (match z0 with
      | Zpos p ->
        (match p with
         | XI p0 ->
           (match p0 with
            | XI p1 ->
              (match p1 with
               | XO p2 ->
                 (match p2 with
                  | XI p3 ->
                    (match p3 with
                     | XO p4 ->
                       (match p4 with
                        | XH ->
                          let sign = Zpos XH in
                          if is_inf r
                          then sw (Zpos (XO (XO (XO (XO (XO (XO XH)))))))
                                 (Z.mul
                                   (Z.sub
                                     (Z.pow (Zpos (XO XH)) (Zpos (XI (XI (XI
                                       (XI (XI XH))))))) (Zpos XH)) sign)
                          else sw (Zpos (XO (XO (XO (XO (XO (XO XH)))))))
                                 (Z.mul (atoi_digits r Z0) sign)
                        | _ ->
                          let sign = Zpos XH in
                          if is_inf s0
                          then sw (Zpos (XO (XO (XO (XO (XO (XO XH)))))))
                                 (Z.mul
                                   (Z.sub
                                     (Z.pow (Zpos (XO XH)) (Zpos (XI (XI (XI
                                       (XI (XI XH))))))) (Zpos XH)) sign)
                          else sw (Zpos (XO (XO (XO (XO (XO (XO XH)))))))
                                 (Z.mul (atoi_digits s0 Z0) sign))
                     | _ ->
                       let sign = Zpos XH in
                       if is_inf s0
                       then sw (Zpos (XO (XO (XO (XO (XO (XO XH)))))))
                              (Z.mul
                                (Z.sub
                                  (Z.pow (Zpos (XO XH)) (Zpos (XI (XI (XI (XI
                                    (XI XH))))))) (Zpos XH)) sign)
                       else sw (Zpos (XO (XO (XO (XO (XO (XO XH)))))))
                              (Z.mul (atoi_digits s0 Z0) sign))
                  | _ ->
                    let sign = Zpos XH in
                    if is_inf s0
                    then sw (Zpos (XO (XO (XO (XO (XO (XO XH)))))))
                           (Z.mul
                             (Z.sub
                               (Z.pow (Zpos (XO XH)) (Zpos (XI (XI (XI (XI
                                 (XI XH))))))) (Zpos XH)) sign)
                    else sw (Zpos (XO (XO (XO (XO (XO (XO XH)))))))
                           (Z.mul (atoi_digits s0 Z0) sign))
               | _ ->
                 let sign = Zpos XH in
                 if is_inf s0
                 then sw (Zpos (XO (XO (XO (XO (XO (XO XH)))))))
                        (Z.mul
                          (Z.sub
                            (Z.pow (Zpos (XO XH)) (Zpos (XI (XI (XI (XI (XI
                              XH))))))) (Zpos XH)) sign)
                 else sw (Zpos (XO (XO (XO (XO (XO (XO XH)))))))
                        (Z.mul (atoi_digits s0 Z0) sign))
            | XO p1 ->
              (match p1 with
               | XI p2 ->
                 (match p2 with
                  | XI p3 ->
                    (match p3 with
                     | XO p4 ->
                       (match p4 with
                        | XH ->
                          let sign = Zneg XH in
                          if is_inf r
                          then sw (Zpos (XO (XO (XO (XO (XO (XO XH)))))))
                                 (Z.mul
                                   (Z.sub
                                     (Z.pow (Zpos (XO XH)) (Zpos (XI (XI (XI
                                       (XI (XI XH))))))) (Zpos XH)) sign)
                          else sw (Zpos (XO (XO (XO (XO (XO (XO XH)))))))
                                 (Z.mul (atoi_digits r Z0) sign)
                        | _ ->
                          let sign = Zpos XH in
                          if is_inf s0
                          then sw (Zpos (XO (XO (XO (XO (XO (XO XH)))))))
                                 (Z.mul
                                   (Z.sub
                                     (Z.pow (Zpos (XO XH)) (Zpos (XI (XI (XI
                                       (XI (XI XH))))))) (Zpos XH)) sign)
                          else sw (Zpos (XO (XO (XO (XO (XO (XO XH)))))))
                                 (Z.mul (atoi_digits s0 Z0) sign))
                     | _ ->
                       let sign = Zpos XH in
                       if is_inf s0
                       then sw (Zpos (XO (XO (XO (XO (XO (XO XH)))))))
                              (Z.mul
                                (Z.sub
                                  (Z.pow (Zpos (XO XH)) (Zpos (XI (XI (XI (XI
                                    (XI XH))))))) (Zpos XH)) sign)
                       else sw (Zpos (XO (XO (XO (XO (XO (XO XH)))))))
                              (Z.mul (atoi_digits s0 Z0) sign))
                  | _ ->
                    let sign = Zpos XH in
                    if is_inf s0
                    then sw (Zpos (XO (XO (XO (XO (XO (XO XH)))))))
                           (Z.mul
                             (Z.sub
                               (Z.pow (Zpos (XO XH)) (Zpos (XI (XI (XI (XI
                                 (XI XH))))))) (Zpos XH)) sign)
                    else sw (Zpos (XO (XO (XO (XO (XO (XO XH)))))))
                           (Z.mul (atoi_digits s0 Z0) sign))
               | _ ->
                 let sign = Zpos XH in
                 if is_inf s0
                 then sw (Zpos (XO (XO (XO (XO (XO (XO XH)))))))
                        (Z.mul
                          (Z.sub
                            (Z.pow (Zpos (XO XH)) (Zpos (XI (XI (XI (XI (XI
                              XH))))))) (Zpos XH)) sign)
                 else sw (Zpos (XO (XO (XO (XO (XO (XO XH)))))))
                        (Z.mul (atoi_digits s0 Z0) sign))
            | XH ->
              let sign = Zpos XH in
              if is_inf s0
              then sw (Zpos (XO (XO (XO (XO (XO (XO XH)))))))
                     (Z.mul
                       (Z.sub
                         (Z.pow (Zpos (XO XH)) (Zpos (XI (XI (XI (XI (XI
                           XH))))))) (Zpos XH)) sign)
              else sw (Zpos (XO (XO (XO (XO (XO (XO XH)))))))
                     (Z.mul (atoi_digits s0 Z0) sign))
         | _ ->
           let sign = Zpos XH in
           if is_inf s0
           then sw (Zpos (XO (XO (XO (XO (XO (XO XH)))))))
                  (Z.mul
                    (Z.sub
                      (Z.pow (Zpos (XO XH)) (Zpos (XI (XI (XI (XI (XI
                        XH))))))) (Zpos XH)) sign)
           else sw (Zpos (XO (XO (XO (XO (XO (XO XH)))))))
                  (Z.mul (atoi_digits s0 Z0) sign))
      | _ ->
        let sign = Zpos XH in
        if is_inf s0
        then sw (Zpos (XO (XO (XO (XO (XO (XO XH)))))))
               (Z.mul
                 (Z.sub
                   (Z.pow (Zpos (XO XH)) (Zpos (XI (XI (XI (XI (XI XH)))))))
                   (Zpos XH)) sign)
        else sw (Zpos (XO (XO (XO (XO (XO (XO XH)))))))
               (Z.mul (atoi_digits s0 Z0) sign)))

(** val hexdigit : z -> z **)

let hexdigit c =
  uw (Zpos (XO (XO (XO XH))))
    (Z.add (Z.add (Zpos (XI (XI (XI (XO (XI (XO XH))))))) c)
      (Z.coq_land
        (Z.shiftr
          (uw (Zpos (XO (XO (XO (XO (XO XH))))))
            (Z.sub c (Zpos (XO (XI (XO XH)))))) (Zpos (XO (XO (XO XH)))))
        (uw (Zpos (XO (XO (XO (XO (XO XH))))))
          (Z.lnot (Zpos (XO (XI (XI (XO (XO XH))))))))))

(** val bin2hex : z list -> z list **)

let rec bin2hex = function
| [] -> []
| b :: r ->
  (hexdigit (Z.shiftr b (Zpos (XO (XO XH))))) :: ((hexdigit
                                                    (Z.coq_land b (Zpos (XI
                                                      (XI (XI XH)))))) :: 
    (bin2hex r))

(** val a2h : z -> z **)

let a2h c =
  nth (Z.to_nat c) ascii2hex_tbl Z0

(** val hex2bin_even : z list -> z list **)

let rec hex2bin_even = function
| [] -> []
| a :: l ->
  (match l with
   | [] -> []
   | b :: r ->
     (uw (Zpos (XO (XO (XO XH))))
       (Z.coq_lor
         (uw (Zpos (XO (XO (XO XH)))) (Z.shiftl (a2h a) (Zpos (XO (XO XH)))))
         (a2h b))) :: (hex2bin_even r))

(** val hex2bin : z list -> z list **)

let hex2bin hex =
  if Z.odd (Z.of_nat (length hex))
  then hex2bin_even ((Zpos (XO (XO (XO (XO (XI XH)))))) :: hex)
  else hex2bin_even hex

type kmode = { km_vnum : bool; km_real : bool; km_compound : bool }

(** val cmp2 : z list -> z list -> z **)

let rec cmp2 a b =
  match a with
  | [] -> Z0
  | x :: a' ->
    (match b with
     | [] -> Z0
     | y :: b' -> if Z.eqb x y then cmp2 a' b' else Z.sub x y)

(** val sgn3 : z -> z -> z **)

let sgn3 n1 n2 =
  if Z.gtb n1 n2 then Zneg XH else if Z.ltb n1 n2 then Zpos XH else Z0

(** val read_vnum2 : z list -> z **)

let read_vnum2 b =
  match read_vnum b with
  | Some p -> let (n0, _) = p in n0
  | None -> Z0

(** val strncmp : nat -> z list -> z list -> z **)

let rec strncmp n0 a b =
  match n0 with
  | O -> Z0
  | S k ->
    let x = hd Z0 a in
    let y = hd Z0 b in
    if Z.eqb x y
    then if Z.eqb x Z0 then Z0 else strncmp k (tl a) (tl b)
    else Z.sub x y

(** val memcmp : nat -> z list -> z list -> z **)

let memcmp n0 a b =
  cmp2 (firstn n0 a) (firstn n0 b)

(** val af_skip : z list -> z list **)

let rec af_skip s = match s with
| [] -> []
| c :: r ->
  if (||) (Z.leb c (Zpos (XO (XO (XO (XO (XO XH)))))))
       (Z.eqb c (Zpos (XI (XI (XI (XI (XI (XI XH))))))))
  then af_skip r
  else s

(** val af_int : z list -> z -> z * z list **)

let rec af_int s acc =
  match s with
  | [] -> (acc, [])
  | c :: r ->
    if (||) (Z.ltb c (Zpos (XO (XO (XO (XO (XI XH)))))))
         (Z.gtb c (Zpos (XI (XO (XO (XI (XI XH)))))))
    then (acc, s)
    else af_int r
           (sw (Zpos (XO (XO (XO (XO (XO (XO XH)))))))
             (Z.sub (Z.add (Z.mul acc (Zpos (XO (XI (XO XH))))) c) (Zpos (XO
               (XO (XO (XO (XI XH))))))))

(** val af_frac : z list -> nat -> z -> z -> z * z **)

let rec af_frac s lim num k =
  match lim with
  | O -> (num, k)
  | S l ->
    (match s with
     | [] -> (num, k)
     | c :: r ->
       if (||) (Z.ltb c (Zpos (XO (XO (XO (XO (XI XH)))))))
            (Z.gtb c (Zpos (XI (XO (XO (XI (XI XH)))))))
       then (num, k)
       else af_frac r l
              (Z.add (Z.mul num (Zpos (XO (XI (XO XH)))))
                (Z.sub c (Zpos (XO (XO (XO (XO (XI XH))))))))
              (Z.add k (Zpos XH)))

(** val af_part : z list -> (z * z) * z list **)

let af_part s =
  let s0 = af_skip s in
  (match s0 with
   | [] ->
     let sign = Zpos XH in
     let (n0, rest) = af_int s0 Z0 in
     ((sign, (sw (Zpos (XO (XO (XO (XO (XO (XO XH))))))) (Z.mul n0 sign))),
     rest)
   | z0 :: r ->
     (match z0 with
      | Zpos p ->
        (match p with
         | XI p0 ->
           (match p0 with
            | XO p1 ->
              (match p1 with
               | XI p2 ->
                 (match p2 with
                  | XI p3 ->
                    (match p3 with
                     | XO p4 ->
                       (match p4 with
                        | XH ->
                          let sign = Zneg XH in
                          let (n0, rest) = af_int r Z0 in
                          ((sign,
                          (sw (Zpos (XO (XO (XO (XO (XO (XO XH)))))))
                            (Z.mul n0 sign))), rest)
                        | _ ->
                          let sign = Zpos XH in
                          let (n0, rest) = af_int s0 Z0 in
                          ((sign,
                          (sw (Zpos (XO (XO (XO (XO (XO (XO XH)))))))
                            (Z.mul n0 sign))), rest))
                     | _ ->
                       let sign = Zpos XH in
                       let (n0, rest) = af_int s0 Z0 in
                       ((sign,
                       (sw (Zpos (XO (XO (XO (XO (XO (XO XH)))))))
                         (Z.mul n0 sign))), rest))
                  | _ ->
                    let sign = Zpos XH in
                    let (n0, rest) = af_int s0 Z0 in
                    ((sign,
                    (sw (Zpos (XO (XO (XO (XO (XO (XO XH)))))))
                      (Z.mul n0 sign))), rest))
               | _ ->
                 let sign = Zpos XH in
                 let (n0, rest) = af_int s0 Z0 in
                 ((sign,
                 (sw (Zpos (XO (XO (XO (XO (XO (XO XH))))))) (Z.mul n0 sign))),
                 rest))
            | _ ->
              let sign = Zpos XH in
              let (n0, rest) = af_int s0 Z0 in
              ((sign,
              (sw (Zpos (XO (XO (XO (XO (XO (XO XH))))))) (Z.mul n0 sign))),
              rest))
         | _ ->
           let sign = Zpos XH in
           let (n0, rest) = af_int s0 Z0 in
           ((sign,
           (sw (Zpos (XO (XO (XO (XO (XO (XO XH))))))) (Z.mul n0 sign))),
           rest))
      | _ ->
        let sign = Zpos XH in
        let (n0, rest) = af_int s0 Z0 in
        ((sign,
        (sw (Zpos (XO (XO (XO (XO (XO (XO XH))))))) (Z.mul n0 sign))), rest)))

(** val af_hasfrac : z list -> bool **)

let af_hasfrac = function
| [] -> false
| z0 :: l ->
  (match z0 with
   | Zpos p ->
     (match p with
      | XO p0 ->
        (match p0 with
         | XI p1 ->
           (match p1 with
            | XI p2 ->
              (match p2 with
               | XI p3 ->
                 (match p3 with
                  | XO p4 ->
                    (match p4 with
                     | XH -> (match l with
                              | [] -> false
                              | _ :: _ -> true)
                     | _ -> false)
                  | _ -> false)
               | _ -> false)
            | _ -> false)
         | _ -> false)
      | _ -> false)
   | _ -> false)

(** val af_fracval : z -> z list -> z * z **)

let af_fracval sign rest =
  if af_hasfrac rest
  then let (n0, k) = af_frac (tl rest) (Z.to_nat iWNUMBUF_SIZE) Z0 Z0 in
       ((Z.mul n0 sign), k)
  else (Z0, Z0)

(** val afcmp : (nat -> z list -> z list -> z) -> z list -> z list -> z **)

let afcmp tie a b =
  let (p, arest) = af_part a in
  let (asign, anum) = p in
  let (p0, brest) = af_part b in
  let (bsign, bnum) = p0 in
  if Z.ltb anum bnum
  then Zneg XH
  else if Z.gtb anum bnum
       then Zpos XH
       else let (an, ak) = af_fracval asign arest in
            let (bn, bk) = af_fracval bsign brest in
            let l = Z.mul an (Z.pow (Zpos (XO (XI (XO XH)))) bk) in
            let r = Z.mul bn (Z.pow (Zpos (XO (XI (XO XH)))) ak) in
            if (&&) ((||) (af_hasfrac arest) (af_hasfrac brest)) (Z.ltb l r)
            then Zneg XH
            else if (&&) ((||) (af_hasfrac arest) (af_hasfrac brest))
                      (Z.gtb l r)
                 then Zpos XH
                 else let rv = tie (Nat.min (length a) (length b)) a b in
                      if Z.eqb rv Z0
                      then Z.sub (Z.of_nat (length a)) (Z.of_nat (length b))
                      else rv

(** val vnum_cmp : z list -> z list -> z **)

let vnum_cmp v1 v2 =
  let l1 = Z.of_nat (length v1) in
  let l2 = Z.of_nat (length v2) in
  if (||) ((||) (negb (Z.eqb l2 l1)) (Z.gtb l2 iW_VNUMBUFSZ))
       (Z.gtb l1 iW_VNUMBUFSZ)
  then Z.sub l2 l1
  else sgn3 (read_vnum2 v1) (read_vnum2 v2)

(** val cmp_keys_prefix :
    (nat -> z list -> z list -> z) -> kmode -> z list -> z list -> z -> z **)

let cmp_keys_prefix tie m v1 kdata kcomp =
  if m.km_compound
  then (match read_vnum v1 with
        | Some p ->
          let (c1, step) = p in
          let u1 = skipn step v1 in
          let v1len = Z.sub (Z.of_nat (length v1)) (Z.of_nat step) in
          let v2len = Z.of_nat (length kdata) in
          if Z.ltb v1len (Zpos XH)
          then Z.sub v2len v1len
          else if m.km_vnum
               then let r = vnum_cmp u1 kdata in
                    if (||)
                         ((||) (negb (Z.eqb v2len v1len))
                           (Z.gtb v2len iW_VNUMBUFSZ))
                         (Z.gtb v1len iW_VNUMBUFSZ)
                    then r
                    else if Z.eqb r Z0 then sgn3 c1 kcomp else r
               else if m.km_real
                    then let r = afcmp tie kdata u1 in
                         if Z.eqb r Z0 then sgn3 c1 kcomp else r
                    else cmp2 kdata u1
        | None -> Z0)
  else if m.km_vnum
       then vnum_cmp v1 kdata
       else if m.km_real then afcmp tie kdata v1 else cmp2 kdata v1

(** val cmp_keys :
    (nat -> z list -> z list -> z) -> kmode -> z list -> z list -> z -> z **)

let cmp_keys tie m v1 kdata kcomp =
  let rv = cmp_keys_prefix tie m v1 kdata kcomp in
  if (&&) (Z.eqb rv Z0) (negb ((||) m.km_vnum m.km_real))
  then if m.km_compound
       then (match read_vnum v1 with
             | Some p ->
               let (c1, step) = p in
               let v1len = Z.sub (Z.of_nat (length v1)) (Z.of_nat step) in
               if Z.eqb (Z.of_nat (length kdata)) v1len
               then sgn3 c1 kcomp
               else Z.sub (Z.of_nat (length kdata)) v1len
             | None -> Z0)
       else Z.sub (Z.of_nat (length kdata)) (Z.of_nat (length v1))
  else rv

(** val stored : kmode -> z list -> z -> z list **)

let stored m kdata kcomp =
  if m.km_compound then app (set_vnum64 kcomp) kdata else kdata

(** val kcmp :
    (nat -> z list -> z list -> z) -> kmode -> (z list * z) -> (z list * z)
    -> z **)

let kcmp tie m a b =
  cmp_keys tie m (stored m (fst a) (snd a)) (fst b) (snd b)

(** val sblk_cmp_key :
    (nat -> z list -> z list -> z) -> kmode -> z list -> bool -> z list -> z
    -> z option **)

let sblk_cmp_key tie m lk full kdata kcomp =
  let ksize =
    Z.add (Z.of_nat (length kdata))
      (if m.km_compound then iW_VNUMSIZE kcomp else Z0)
  in
  if (||)
       ((||)
         ((||) full
           ((&&) (negb m.km_compound) (Z.ltb ksize (Z.of_nat (length lk)))))
         m.km_vnum) m.km_real
  then Some (cmp_keys tie m lk kdata kcomp)
  else let r = cmp_keys_prefix tie m lk kdata kcomp in
       if Z.eqb r Z0 then None else Some r

(** val sblk_cmp_key_full :
    (nat -> z list -> z list -> z) -> kmode -> z list -> z list -> z -> z **)

let sblk_cmp_key_full tie m skey kdata kcomp =
  let lk = firstn (Z.to_nat pREFIX_KEY_LEN_V2) skey in
  let full = Z.leb (Z.of_nat (length skey)) pREFIX_KEY_LEN_V2 in
  (match sblk_cmp_key tie m lk full kdata kcomp with
   | Some r -> r
   | None -> cmp_keys tie m skey kdata kcomp)
