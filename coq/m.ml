
(** val negb : bool -> bool **)

let negb = function
| true -> false
| false -> true

type nat =
| O
| S of nat

(** val option_map : ('a1 -> 'a2) -> 'a1 option -> 'a2 option **)

let option_map f = function
| Some a -> Some (f a)
| None -> None

type ('a, 'b) sum =
| Inl of 'a
| Inr of 'b

(** val fst : ('a1 * 'a2) -> 'a1 **)

let fst = function
| (x, _) -> x

(** val snd : ('a1 * 'a2) -> 'a2 **)

let snd = function
| (_, y) -> y

(** val length : 'a1 list -> nat **)

let rec length = function
| [] -> O
| _ :: l' -> S (length l')

(** val app : 'a1 list -> 'a1 list -> 'a1 list **)

let rec app l m =
  match l with
  | [] -> m
  | a :: l1 -> a :: (app l1 m)

type comparison =
| Eq
| Lt
| Gt

(** val compOpp : comparison -> comparison **)

let compOpp = function
| Eq -> Eq
| Lt -> Gt
| Gt -> Lt

(** val pred : nat -> nat **)

let pred n = match n with
| O -> n
| S u -> u

module Coq__1 = struct
 (** val add : nat -> nat -> nat **)
 let rec add n m =
   match n with
   | O -> m
   | S p -> S (add p m)
end
include Coq__1

type positive =
| XI of positive
| XO of positive
| XH

type z =
| Z0
| Zpos of positive
| Zneg of positive

(** val eqb : bool -> bool -> bool **)

let eqb b1 b2 =
  if b1 then b2 else if b2 then false else true

module Nat =
 struct
  (** val eqb : nat -> nat -> bool **)

  let rec eqb n m =
    match n with
    | O -> (match m with
            | O -> true
            | S _ -> false)
    | S n' -> (match m with
               | O -> false
               | S m' -> eqb n' m')

  (** val leb : nat -> nat -> bool **)

  let rec leb n m =
    match n with
    | O -> true
    | S n' -> (match m with
               | O -> false
               | S m' -> leb n' m')
 end

module Pos =
 struct
  (** val succ : positive -> positive **)

  let rec succ = function
  | XI p -> XO (succ p)
  | XO p -> XI p
  | XH -> XO XH

  (** val add : positive -> positive -> positive **)

  let rec add x y =
    match x with
    | XI p ->
      (match y with
       | XI q -> XO (add_carry p q)
       | XO q -> XI (add p q)
       | XH -> XO (succ p))
    | XO p ->
      (match y with
       | XI q -> XI (add p q)
       | XO q -> XO (add p q)
       | XH -> XI p)
    | XH -> (match y with
             | XI q -> XO (succ q)
             | XO q -> XI q
             | XH -> XO XH)

  (** val add_carry : positive -> positive -> positive **)

  and add_carry x y =
    match x with
    | XI p ->
      (match y with
       | XI q -> XI (add_carry p q)
       | XO q -> XO (add_carry p q)
       | XH -> XI (succ p))
    | XO p ->
      (match y with
       | XI q -> XO (add_carry p q)
       | XO q -> XI (add p q)
       | XH -> XO (succ p))
    | XH ->
      (match y with
       | XI q -> XI (succ q)
       | XO q -> XO (succ q)
       | XH -> XI XH)

  (** val pred_double : positive -> positive **)

  let rec pred_double = function
  | XI p -> XI (XO p)
  | XO p -> XI (pred_double p)
  | XH -> XH

  (** val mul : positive -> positive -> positive **)

  let rec mul x y =
    match x with
    | XI p -> add y (XO (mul p y))
    | XO p -> XO (mul p y)
    | XH -> y

  (** val iter : ('a1 -> 'a1) -> 'a1 -> positive -> 'a1 **)

  let rec iter f x = function
  | XI n' -> f (iter f (iter f x n') n')
  | XO n' -> iter f (iter f x n') n'
  | XH -> f x

  (** val compare_cont : comparison -> positive -> positive -> comparison **)

  let rec compare_cont r x y =
    match x with
    | XI p ->
      (match y with
       | XI q -> compare_cont r p q
       | XO q -> compare_cont Gt p q
       | XH -> Gt)
    | XO p ->
      (match y with
       | XI q -> compare_cont Lt p q
       | XO q -> compare_cont r p q
       | XH -> Gt)
    | XH -> (match y with
             | XH -> r
             | _ -> Lt)

  (** val compare : positive -> positive -> comparison **)

  let compare =
    compare_cont Eq

  (** val eqb : positive -> positive -> bool **)

  let rec eqb p q =
    match p with
    | XI p0 -> (match q with
                | XI q0 -> eqb p0 q0
                | _ -> false)
    | XO p0 -> (match q with
                | XO q0 -> eqb p0 q0
                | _ -> false)
    | XH -> (match q with
             | XH -> true
             | _ -> false)

  (** val iter_op : ('a1 -> 'a1 -> 'a1) -> positive -> 'a1 -> 'a1 **)

  let rec iter_op op p a =
    match p with
    | XI p0 -> op a (iter_op op p0 (op a a))
    | XO p0 -> iter_op op p0 (op a a)
    | XH -> a

  (** val to_nat : positive -> nat **)

  let to_nat x =
    iter_op Coq__1.add x (S O)

  (** val of_succ_nat : nat -> positive **)

  let rec of_succ_nat = function
  | O -> XH
  | S x -> succ (of_succ_nat x)
 end

module Z =
 struct
  (** val double : z -> z **)

  let double = function
  | Z0 -> Z0
  | Zpos p -> Zpos (XO p)
  | Zneg p -> Zneg (XO p)

  (** val succ_double : z -> z **)

  let succ_double = function
  | Z0 -> Zpos XH
  | Zpos p -> Zpos (XI p)
  | Zneg p -> Zneg (Pos.pred_double p)

  (** val pred_double : z -> z **)

  let pred_double = function
  | Z0 -> Zneg XH
  | Zpos p -> Zpos (Pos.pred_double p)
  | Zneg p -> Zneg (XI p)

  (** val pos_sub : positive -> positive -> z **)

  let rec pos_sub x y =
    match x with
    | XI p ->
      (match y with
       | XI q -> double (pos_sub p q)
       | XO q -> succ_double (pos_sub p q)
       | XH -> Zpos (XO p))
    | XO p ->
      (match y with
       | XI q -> pred_double (pos_sub p q)
       | XO q -> double (pos_sub p q)
       | XH -> Zpos (Pos.pred_double p))
    | XH ->
      (match y with
       | XI q -> Zneg (XO q)
       | XO q -> Zneg (Pos.pred_double q)
       | XH -> Z0)

  (** val add : z -> z -> z **)

  let add x y =
    match x with
    | Z0 -> y
    | Zpos x' ->
      (match y with
       | Z0 -> x
       | Zpos y' -> Zpos (Pos.add x' y')
       | Zneg y' -> pos_sub x' y')
    | Zneg x' ->
      (match y with
       | Z0 -> x
       | Zpos y' -> pos_sub y' x'
       | Zneg y' -> Zneg (Pos.add x' y'))

  (** val opp : z -> z **)

  let opp = function
  | Z0 -> Z0
  | Zpos x0 -> Zneg x0
  | Zneg x0 -> Zpos x0

  (** val sub : z -> z -> z **)

  let sub m n =
    add m (opp n)

  (** val mul : z -> z -> z **)

  let mul x y =
    match x with
    | Z0 -> Z0
    | Zpos x' ->
      (match y with
       | Z0 -> Z0
       | Zpos y' -> Zpos (Pos.mul x' y')
       | Zneg y' -> Zneg (Pos.mul x' y'))
    | Zneg x' ->
      (match y with
       | Z0 -> Z0
       | Zpos y' -> Zneg (Pos.mul x' y')
       | Zneg y' -> Zpos (Pos.mul x' y'))

  (** val pow_pos : z -> positive -> z **)

  let pow_pos z0 =
    Pos.iter (mul z0) (Zpos XH)

  (** val pow : z -> z -> z **)

  let pow x = function
  | Z0 -> Zpos XH
  | Zpos p -> pow_pos x p
  | Zneg _ -> Z0

  (** val compare : z -> z -> comparison **)

  let compare x y =
    match x with
    | Z0 -> (match y with
             | Z0 -> Eq
             | Zpos _ -> Lt
             | Zneg _ -> Gt)
    | Zpos x' -> (match y with
                  | Zpos y' -> Pos.compare x' y'
                  | _ -> Gt)
    | Zneg x' ->
      (match y with
       | Zneg y' -> compOpp (Pos.compare x' y')
       | _ -> Lt)

  (** val leb : z -> z -> bool **)

  let leb x y =
    match compare x y with
    | Gt -> false
    | _ -> true

  (** val ltb : z -> z -> bool **)

  let ltb x y =
    match compare x y with
    | Lt -> true
    | _ -> false

  (** val gtb : z -> z -> bool **)

  let gtb x y =
    match compare x y with
    | Gt -> true
    | _ -> false

  (** val eqb : z -> z -> bool **)

  let eqb x y =
    match x with
    | Z0 -> (match y with
             | Z0 -> true
             | _ -> false)
    | Zpos p -> (match y with
                 | Zpos q -> Pos.eqb p q
                 | _ -> false)
    | Zneg p -> (match y with
                 | Zneg q -> Pos.eqb p q
                 | _ -> false)

  (** val to_nat : z -> nat **)

  let to_nat = function
  | Zpos p -> Pos.to_nat p
  | _ -> O

  (** val of_nat : nat -> z **)

  let of_nat = function
  | O -> Z0
  | S n0 -> Zpos (Pos.of_succ_nat n0)

  (** val pos_div_eucl : positive -> z -> z * z **)

  let rec pos_div_eucl a b =
    match a with
    | XI a' ->
      let (q, r) = pos_div_eucl a' b in
      let r' = add (mul (Zpos (XO XH)) r) (Zpos XH) in
      if ltb r' b
      then ((mul (Zpos (XO XH)) q), r')
      else ((add (mul (Zpos (XO XH)) q) (Zpos XH)), (sub r' b))
    | XO a' ->
      let (q, r) = pos_div_eucl a' b in
      let r' = mul (Zpos (XO XH)) r in
      if ltb r' b
      then ((mul (Zpos (XO XH)) q), r')
      else ((add (mul (Zpos (XO XH)) q) (Zpos XH)), (sub r' b))
    | XH -> if leb (Zpos (XO XH)) b then (Z0, (Zpos XH)) else ((Zpos XH), Z0)

  (** val div_eucl : z -> z -> z * z **)

  let div_eucl a b =
    match a with
    | Z0 -> (Z0, Z0)
    | Zpos a' ->
      (match b with
       | Z0 -> (Z0, a)
       | Zpos _ -> pos_div_eucl a' b
       | Zneg b' ->
         let (q, r) = pos_div_eucl a' (Zpos b') in
         (match r with
          | Z0 -> ((opp q), Z0)
          | _ -> ((opp (add q (Zpos XH))), (add b r))))
    | Zneg a' ->
      (match b with
       | Z0 -> (Z0, a)
       | Zpos _ ->
         let (q, r) = pos_div_eucl a' b in
         (match r with
          | Z0 -> ((opp q), Z0)
          | _ -> ((opp (add q (Zpos XH))), (sub b r)))
       | Zneg b' -> let (q, r) = pos_div_eucl a' (Zpos b') in (q, (opp r)))

  (** val modulo : z -> z -> z **)

  let modulo a b =
    let (_, r) = div_eucl a b in r
 end

(** val nth_error : 'a1 list -> nat -> 'a1 option **)

let rec nth_error l = function
| O -> (match l with
        | [] -> None
        | x :: _ -> Some x)
| S n0 -> (match l with
           | [] -> None
           | _ :: l0 -> nth_error l0 n0)

(** val last : 'a1 list -> 'a1 -> 'a1 **)

let rec last l d =
  match l with
  | [] -> d
  | a :: l0 -> (match l0 with
                | [] -> a
                | _ :: _ -> last l0 d)

(** val removelast : 'a1 list -> 'a1 list **)

let rec removelast = function
| [] -> []
| a :: l0 -> (match l0 with
              | [] -> []
              | _ :: _ -> a :: (removelast l0))

(** val rev : 'a1 list -> 'a1 list **)

let rec rev = function
| [] -> []
| x :: l' -> app (rev l') (x :: [])

(** val map : ('a1 -> 'a2) -> 'a1 list -> 'a2 list **)

let rec map f = function
| [] -> []
| a :: t -> (f a) :: (map f t)

(** val fold_left : ('a1 -> 'a2 -> 'a1) -> 'a2 list -> 'a1 -> 'a1 **)

let rec fold_left f l a0 =
  match l with
  | [] -> a0
  | b :: t -> fold_left f t (f a0 b)

(** val existsb : ('a1 -> bool) -> 'a1 list -> bool **)

let rec existsb f = function
| [] -> false
| a :: l0 -> (||) (f a) (existsb f l0)

(** val forallb : ('a1 -> bool) -> 'a1 list -> bool **)

let rec forallb f = function
| [] -> true
| a :: l0 -> (&&) (f a) (forallb f l0)

(** val firstn : nat -> 'a1 list -> 'a1 list **)

let rec firstn n l =
  match n with
  | O -> []
  | S n0 -> (match l with
             | [] -> []
             | a :: l0 -> a :: (firstn n0 l0))

(** val skipn : nat -> 'a1 list -> 'a1 list **)

let rec skipn n l =
  match n with
  | O -> l
  | S n0 -> (match l with
             | [] -> []
             | _ :: l0 -> skipn n0 l0)

(** val sw : z -> z -> z **)

let sw bits x =
  Z.sub
    (Z.modulo (Z.add x (Z.pow (Zpos (XO XH)) (Z.sub bits (Zpos XH))))
      (Z.pow (Zpos (XO XH)) bits))
    (Z.pow (Zpos (XO XH)) (Z.sub bits (Zpos XH)))

(** val jP_JBV_NONE : z **)

let jP_JBV_NONE =
  Z0

(** val jP_JBV_NULL : z **)

let jP_JBV_NULL =
  Zpos XH

(** val jP_JBV_BOOL : z **)

let jP_JBV_BOOL =
  Zpos (XO XH)

(** val jP_JBV_I64 : z **)

let jP_JBV_I64 =
  Zpos (XI XH)

(** val jP_JBV_F64 : z **)

let jP_JBV_F64 =
  Zpos (XO (XO XH))

(** val jP_JBV_STR : z **)

let jP_JBV_STR =
  Zpos (XI (XO XH))

(** val jP_JBV_OBJECT : z **)

let jP_JBV_OBJECT =
  Zpos (XO (XI XH))

(** val jP_JBV_ARRAY : z **)

let jP_JBV_ARRAY =
  Zpos (XI (XI XH))

(** val jP_JBP_ADD : z **)

let jP_JBP_ADD =
  Zpos XH

(** val jP_JBP_REMOVE : z **)

let jP_JBP_REMOVE =
  Zpos (XO XH)

(** val jP_JBP_REPLACE : z **)

let jP_JBP_REPLACE =
  Zpos (XI XH)

(** val jP_JBP_COPY : z **)

let jP_JBP_COPY =
  Zpos (XO (XO XH))

(** val jP_JBP_MOVE : z **)

let jP_JBP_MOVE =
  Zpos (XI (XO XH))

(** val jP_JBP_TEST : z **)

let jP_JBP_TEST =
  Zpos (XO (XI XH))

(** val jP_JBP_INCREMENT : z **)

let jP_JBP_INCREMENT =
  Zpos (XI (XI XH))

(** val jP_JBP_ADD_CREATE : z **)

let jP_JBP_ADD_CREATE =
  Zpos (XO (XO (XO XH)))

(** val jP_JBP_SWAP : z **)

let jP_JBP_SWAP =
  Zpos (XI (XO (XO XH)))

(** val jP_ERR_PATH_NOTFOUND : z **)

let jP_ERR_PATH_NOTFOUND =
  Zpos (XI (XO (XO (XI (XO (XI (XI (XI (XO (XO (XO (XI (XO (XI (XO (XO
    XH))))))))))))))))

(** val jP_ERR_PATCH_INVALID : z **)

let jP_ERR_PATCH_INVALID =
  Zpos (XO (XI (XO (XI (XO (XI (XI (XI (XO (XO (XO (XI (XO (XI (XO (XO
    XH))))))))))))))))

(** val jP_ERR_PATCH_INVALID_OP : z **)

let jP_ERR_PATCH_INVALID_OP =
  Zpos (XI (XI (XO (XI (XO (XI (XI (XI (XO (XO (XO (XI (XO (XI (XO (XO
    XH))))))))))))))))

(** val jP_ERR_PATCH_NOVALUE : z **)

let jP_ERR_PATCH_NOVALUE =
  Zpos (XO (XO (XI (XI (XO (XI (XI (XI (XO (XO (XO (XI (XO (XI (XO (XO
    XH))))))))))))))))

(** val jP_ERR_PATCH_TARGET_INVALID : z **)

let jP_ERR_PATCH_TARGET_INVALID =
  Zpos (XI (XO (XI (XI (XO (XI (XI (XI (XO (XO (XO (XI (XO (XI (XO (XO
    XH))))))))))))))))

(** val jP_ERR_PATCH_INVALID_VALUE : z **)

let jP_ERR_PATCH_INVALID_VALUE =
  Zpos (XO (XI (XI (XI (XO (XI (XI (XI (XO (XO (XO (XI (XO (XI (XO (XO
    XH))))))))))))))))

(** val jP_ERR_PATCH_INVALID_ARRAY_INDEX : z **)

let jP_ERR_PATCH_INVALID_ARRAY_INDEX =
  Zpos (XI (XI (XI (XI (XO (XI (XI (XI (XO (XO (XO (XI (XO (XI (XO (XO
    XH))))))))))))))))

(** val jP_ERR_PATCH_TEST_FAILED : z **)

let jP_ERR_PATCH_TEST_FAILED =
  Zpos (XO (XI (XO (XO (XI (XI (XI (XI (XO (XO (XO (XI (XO (XI (XO (XO
    XH))))))))))))))))

(** val jP_ERR_JSON_POINTER : z **)

let jP_ERR_JSON_POINTER =
  Zpos (XO (XO (XO (XI (XO (XI (XI (XI (XO (XO (XO (XI (XO (XI (XO (XO
    XH))))))))))))))))

(** val jP_ERR_CREATION : z **)

let jP_ERR_CREATION =
  Zpos (XO (XI (XO (XO (XO (XI (XI (XI (XO (XO (XO (XI (XO (XI (XO (XO
    XH))))))))))))))))

(** val jP_ERR_INVALID_ARGS : z **)

let jP_ERR_INVALID_ARGS =
  Zpos (XI (XO (XO (XO (XO (XO (XO (XI (XI (XO (XO (XO (XI (XO (XO (XO
    XH))))))))))))))))

(** val jP_ERR_NOT_IMPLEMENTED : z **)

let jP_ERR_NOT_IMPLEMENTED =
  Zpos (XO (XO (XI (XI (XI (XI (XI (XO (XI (XO (XO (XO (XI (XO (XO (XO
    XH))))))))))))))))

(** val skip_ws : z list -> z list **)

let rec skip_ws s = match s with
| [] -> []
| c :: r ->
  if (&&) (Z.leb (Zpos XH) c) (Z.leb c (Zpos (XO (XO (XO (XO (XO XH)))))))
  then skip_ws r
  else s

(** val atoi_digits : z list -> z -> z **)

let rec atoi_digits s num =
  match s with
  | [] -> num
  | c :: r ->
    if (||) (Z.ltb c (Zpos (XO (XO (XO (XO (XI XH)))))))
         (Z.gtb c (Zpos (XI (XO (XO (XI (XI XH)))))))
    then num
    else atoi_digits r
           (sw (Zpos (XO (XO (XO (XO (XO (XO XH)))))))
             (Z.sub (Z.add (Z.mul num (Zpos (XO (XI (XO XH))))) c) (Zpos (XO
               (XO (XO (XO (XI XH))))))))

(** val is_inf : z list -> bool **)

let is_inf = function
| [] -> false
| z0 :: l ->
  (match z0 with
   | Zpos p ->
     (match p with
      | XI p0 ->
        (match p0 with
         | XO p1 ->
           (match p1 with
            | XO p2 ->
              (match p2 with
               | XI p3 ->
                 (match p3 with
                  | XO p4 ->
                    (match p4 with
                     | XI p5 ->
                       (match p5 with
                        | XH ->
                          (match l with
                           | [] -> false
                           | z1 :: l0 ->
                             (match z1 with
                              | Zpos p6 ->
                                (match p6 with
                                 | XO p7 ->
                                   (match p7 with
                                    | XI p8 ->
                                      (match p8 with
                                       | XI p9 ->
                                         (match p9 with
                                          | XI p10 ->
                                            (match p10 with
                                             | XO p11 ->
                                               (match p11 with
                                                | XI p12 ->
                                                  (match p12 with
                                                   | XH ->
                                                     (match l0 with
                                                      | [] -> false
                                                      | z2 :: l1 ->
                                                        (match z2 with
                                                         | Zpos p13 ->
                                                           (match p13 with
                                                            | XO p14 ->
                                                              (match p14 with
                                                               | XI p15 ->
                                                                 (match p15 with
                                                                  | XI p16 ->
                                                                    (match p16 with
                                                                    | XO p17 ->
                                                                    (match p17 with
                                                                    | XO p18 ->
                                                                    (match p18 with
                                                                    | XI p19 ->
                                                                    (match p19 with
                                                                    | XH ->
                                                                    (match l1 with
                                                                    | [] ->
                                                                    true
                                                                    | _ :: _ ->
                                                                    false)
                                                                    | _ ->
                                                                    false)
                                                                    | _ ->
                                                                    false)
                                                                    | _ ->
                                                                    false)
                                                                    | _ ->
                                                                    false)
                                                                  | _ -> false)
                                                               | _ -> false)
                                                            | _ -> false)
                                                         | _ -> false))
                                                   | _ -> false)
                                                | _ -> false)
                                             | _ -> false)
                                          | _ -> false)
                                       | _ -> false)
                                    | _ -> false)
                                 | _ -> false)
                              | _ -> false))
                        | _ -> false)
                     | _ -> false)
                  | _ -> false)
               | _ -> false)
            | _ -> false)
         | _ -> false)
      | _ -> false)
   | _ -> false)

(** val atoi : z list -> z **)

let atoi s =
  let s0 = skip_ws s in
  (match s0 with
   | [] ->
     let sign = Zpos XH in
     if is_inf s0
     then sw (Zpos (XO (XO (XO (XO (XO (XO XH)))))))
            (Z.mul
              (Z.sub
                (Z.pow (Zpos (XO XH)) (Zpos (XI (XI (XI (XI (XI XH)))))))
                (Zpos XH)) sign)
     else sw (Zpos (XO (XO (XO (XO (XO (XO XH)))))))
            (Z.mul (atoi_digits s0 Z0) sign)
   | z0 :: r ->
     (match z0 with
      | Zpos p ->
        (match p with
         | XI p0 ->
           (match p0 with
            | XI p1 ->
              (match p1 with
               | XO p2 ->
                 (match p2 with
                  | XI p3 ->
                    (match p3 with
                     | XO p4 ->
                       (match p4 with
                        | XH ->
                          let sign = Zpos XH in
                          if is_inf r
                          then sw (Zpos (XO (XO (XO (XO (XO (XO XH)))))))
                                 (Z.mul
                                   (Z.sub
                                     (Z.pow (Zpos (XO XH)) (Zpos (XI (XI (XI
                                       (XI (XI XH))))))) (Zpos XH)) sign)
                          else sw (Zpos (XO (XO (XO (XO (XO (XO XH)))))))
                                 (Z.mul (atoi_digits r Z0) sign)
                        | _ ->
                          let sign = Zpos XH in
                          if is_inf s0
                          then sw (Zpos (XO (XO (XO (XO (XO (XO XH)))))))
                                 (Z.mul
                                   (Z.sub
                                     (Z.pow (Zpos (XO XH)) (Zpos (XI (XI (XI
                                       (XI (XI XH))))))) (Zpos XH)) sign)
                          else sw (Zpos (XO (XO (XO (XO (XO (XO XH)))))))
                                 (Z.mul (atoi_digits s0 Z0) sign))
                     | _ ->
                       let sign = Zpos XH in
                       if is_inf s0
                       then sw (Zpos (XO (XO (XO (XO (XO (XO XH)))))))
                              (Z.mul
                                (Z.sub
                                  (Z.pow (Zpos (XO XH)) (Zpos (XI (XI (XI (XI
                                    (XI XH))))))) (Zpos XH)) sign)
                       else sw (Zpos (XO (XO (XO (XO (XO (XO XH)))))))
                              (Z.mul (atoi_digits s0 Z0) sign))
                  | _ ->
                    let sign = Zpos XH in
                    if is_inf s0
                    then sw (Zpos (XO (XO (XO (XO (XO (XO XH)))))))
                           (Z.mul
                             (Z.sub
                               (Z.pow (Zpos (XO XH)) (Zpos (XI (XI (XI (XI
                                 (XI XH))))))) (Zpos XH)) sign)
                    else sw (Zpos (XO (XO (XO (XO (XO (XO XH)))))))
                           (Z.mul (atoi_digits s0 Z0) sign))
               | _ ->
                 let sign = Zpos XH in
                 if is_inf s0
                 then sw (Zpos (XO (XO (XO (XO (XO (XO XH)))))))
                        (Z.mul
                          (Z.sub
                            (Z.pow (Zpos (XO XH)) (Zpos (XI (XI (XI (XI (XI
                              XH))))))) (Zpos XH)) sign)
                 else sw (Zpos (XO (XO (XO (XO (XO (XO XH)))))))
                        (Z.mul (atoi_digits s0 Z0) sign))
            | XO p1 ->
              (match p1 with
               | XI p2 ->
                 (match p2 with
                  | XI p3 ->
                    (match p3 with
                     | XO p4 ->
                       (match p4 with
                        | XH ->
                          let sign = Zneg XH in
                          if is_inf r
                          then sw (Zpos (XO (XO (XO (XO (XO (XO XH)))))))
                                 (Z.mul
                                   (Z.sub
                                     (Z.pow (Zpos (XO XH)) (Zpos (XI (XI (XI
                                       (XI (XI XH))))))) (Zpos XH)) sign)
                          else sw (Zpos (XO (XO (XO (XO (XO (XO XH)))))))
                                 (Z.mul (atoi_digits r Z0) sign)
                        | _ ->
                          let sign = Zpos XH in
                          if is_inf s0
                          then sw (Zpos (XO (XO (XO (XO (XO (XO XH)))))))
                                 (Z.mul
                                   (Z.sub
                                     (Z.pow (Zpos (XO XH)) (Zpos (XI (XI (XI
                                       (XI (XI XH))))))) (Zpos XH)) sign)
                          else sw (Zpos (XO (XO (XO (XO (XO (XO XH)))))))
                                 (Z.mul (atoi_digits s0 Z0) sign))
                     | _ ->
                       let sign = Zpos XH in
                       if is_inf s0
                       then sw (Zpos (XO (XO (XO (XO (XO (XO XH)))))))
                              (Z.mul
                                (Z.sub
                                  (Z.pow (Zpos (XO XH)) (Zpos (XI (XI (XI (XI
                                    (XI XH))))))) (Zpos XH)) sign)
                       else sw (Zpos (XO (XO (XO (XO (XO (XO XH)))))))
                              (Z.mul (atoi_digits s0 Z0) sign))
                  | _ ->
                    let sign = Zpos XH in
                    if is_inf s0
                    then sw (Zpos (XO (XO (XO (XO (XO (XO XH)))))))
                           (Z.mul
                             (Z.sub
                               (Z.pow (Zpos (XO XH)) (Zpos (XI (XI (XI (XI
                                 (XI XH))))))) (Zpos XH)) sign)
                    else sw (Zpos (XO (XO (XO (XO (XO (XO XH)))))))
                           (Z.mul (atoi_digits s0 Z0) sign))
               | _ ->
                 let sign = Zpos XH in
                 if is_inf s0
                 then sw (Zpos (XO (XO (XO (XO (XO (XO XH)))))))
                        (Z.mul
                          (Z.sub
                            (Z.pow (Zpos (XO XH)) (Zpos (XI (XI (XI (XI (XI
                              XH))))))) (Zpos XH)) sign)
                 else sw (Zpos (XO (XO (XO (XO (XO (XO XH)))))))
                        (Z.mul (atoi_digits s0 Z0) sign))
            | XH ->
              let sign = Zpos XH in
              if is_inf s0
              then sw (Zpos (XO (XO (XO (XO (XO (XO XH)))))))
                     (Z.mul
                       (Z.sub
                         (Z.pow (Zpos (XO XH)) (Zpos (XI (XI (XI (XI (XI
                           XH))))))) (Zpos XH)) sign)
              else sw (Zpos (XO (XO (XO (XO (XO (XO XH)))))))
                     (Z.mul (atoi_digits s0 Z0) sign))
         | _ ->
           let sign = Zpos XH in
           if is_inf s0
           then sw (Zpos (XO (XO (XO (XO (XO (XO XH)))))))
                  (Z.mul
                    (Z.sub
                      (Z.pow (Zpos (XO XH)) (Zpos (XI (XI (XI (XI (XI
                        XH))))))) (Zpos XH)) sign)
           else sw (Zpos (XO (XO (XO (XO (XO (XO XH)))))))
                  (Z.mul (atoi_digits s0 Z0) sign))
      | _ ->
        let sign = Zpos XH in
        if is_inf s0
        then sw (Zpos (XO (XO (XO (XO (XO (XO XH)))))))
               (Z.mul
                 (Z.sub
                   (Z.pow (Zpos (XO XH)) (Zpos (XI (XI (XI (XI (XI XH)))))))
                   (Zpos XH)) sign)
        else sw (Zpos (XO (XO (XO (XO (XO (XO XH)))))))
               (Z.mul (atoi_digits s0 Z0) sign)))

type jval =
| JNull
| JBool of bool
| JI64 of z
| JF64 of z
| JStr of z list
| JArr of jval list
| JObj of (z list * jval) list

(** val bytes_eqb : z list -> z list -> bool **)

let rec bytes_eqb a b =
  match a with
  | [] -> (match b with
           | [] -> true
           | _ :: _ -> false)
  | x :: a' ->
    (match b with
     | [] -> false
     | y :: b' -> (&&) (Z.eqb x y) (bytes_eqb a' b'))

type jty =
| TNone
| TNull
| TBool
| TI64
| TF64
| TStr
| TObj
| TArr

(** val ty_code : jty -> z **)

let ty_code = function
| TNone -> jP_JBV_NONE
| TNull -> jP_JBV_NULL
| TBool -> jP_JBV_BOOL
| TI64 -> jP_JBV_I64
| TF64 -> jP_JBV_F64
| TStr -> jP_JBV_STR
| TObj -> jP_JBV_OBJECT
| TArr -> jP_JBV_ARRAY

(** val ty_eqb : jty -> jty -> bool **)

let ty_eqb a b =
  Z.eqb (ty_code a) (ty_code b)

(** val is_container : jty -> bool **)

let is_container t =
  Z.leb jP_JBV_OBJECT (ty_code t)

type node =
| Node of z * z list * jty * z * z list * node list

(** val n_kl : node -> z **)

let n_kl = function
| Node (kl, _, _, _, _, _) -> kl

(** val n_key : node -> z list **)

let n_key = function
| Node (_, k, _, _, _, _) -> k

(** val n_ty : node -> jty **)

let n_ty = function
| Node (_, _, t, _, _, _) -> t

(** val n_vi : node -> z **)

let n_vi = function
| Node (_, _, _, v, _, _) -> v

(** val n_vs : node -> z list **)

let n_vs = function
| Node (_, _, _, _, s, _) -> s

(** val n_ch : node -> node list **)

let n_ch = function
| Node (_, _, _, _, _, c) -> c

(** val set_kl : node -> z -> node **)

let set_kl n kl =
  let Node (_, k, t, v, s, c) = n in Node (kl, k, t, v, s, c)

(** val set_key : node -> z list -> node **)

let set_key n k =
  let Node (kl, _, t, v, s, c) = n in Node (kl, k, t, v, s, c)

(** val set_ch : node -> node list -> node **)

let set_ch n c =
  let Node (kl, k, t, v, s, _) = n in Node (kl, k, t, v, s, c)

(** val copy_data : node -> node -> node **)

let copy_data target value =
  let Node (kl, k, _, _, _, _) = target in
  Node (kl, k, (n_ty value), (n_vi value), (n_vs value), (n_ch value))

(** val zero_node : node **)

let zero_node =
  Node (Z0, [], TNone, Z0, [], [])

type seg = z list

(** val is_dash : seg -> bool **)

let is_dash = function
| [] -> false
| z0 :: l ->
  (match z0 with
   | Zpos p ->
     (match p with
      | XI p0 ->
        (match p0 with
         | XO p1 ->
           (match p1 with
            | XI p2 ->
              (match p2 with
               | XI p3 ->
                 (match p3 with
                  | XO p4 ->
                    (match p4 with
                     | XH -> (match l with
                              | [] -> true
                              | _ :: _ -> false)
                     | _ -> false)
                  | _ -> false)
               | _ -> false)
            | _ -> false)
         | _ -> false)
      | _ -> false)
   | _ -> false)

(** val strncmp_eq : z list -> z list -> nat -> bool **)

let rec strncmp_eq a b = function
| O -> true
| S n' ->
  (match a with
   | [] -> (match b with
            | [] -> true
            | _ :: _ -> false)
   | x :: a' ->
     (match b with
      | [] -> false
      | y :: b' -> (&&) (Z.eqb x y) (strncmp_eq a' b' n')))

(** val key_match : seg -> node -> bool **)

let key_match seg0 c =
  (&&) (strncmp_eq (n_key c) seg0 (Z.to_nat (n_kl c)))
    (Z.eqb (Z.of_nat (length seg0)) (n_kl c))

(** val find_pos : (node -> bool) -> node list -> nat option **)

let rec find_pos f = function
| [] -> None
| x :: r ->
  if f x
  then Some O
  else (match find_pos f r with
        | Some i -> Some (S i)
        | None -> None)

(** val child_pos : node -> seg -> nat option **)

let child_pos n s =
  match n_ty n with
  | TObj -> find_pos (key_match s) (n_ch n)
  | TArr ->
    if is_dash s
    then (match n_ch n with
          | [] -> None
          | _ :: _ -> Some (pred (length (n_ch n))))
    else find_pos (fun c -> Z.eqb (atoi s) (n_kl c)) (n_ch n)
  | _ -> None

(** val set_child : node -> nat -> node -> node **)

let set_child n i c =
  set_ch n (app (firstn i (n_ch n)) (c :: (skipn (S i) (n_ch n))))

(** val add_item : node -> node -> node **)

let add_item p c =
  let c' =
    match n_ty p with
    | TArr ->
      set_key
        (set_kl c
          (match rev (n_ch p) with
           | [] -> Z0
           | l :: _ -> Z.add (n_kl l) (Zpos XH))) []
    | _ -> c
  in
  set_ch p (app (n_ch p) (c' :: []))

(** val dec_kl : node -> node **)

let dec_kl n =
  set_kl n (Z.sub (n_kl n) (Zpos XH))

(** val inc_kl : node -> node **)

let inc_kl n =
  set_kl n (Z.add (n_kl n) (Zpos XH))

(** val remove_item : node -> nat -> node **)

let remove_item p i =
  set_ch p
    (app (firstn i (n_ch p))
      (match n_ty p with
       | TArr -> map dec_kl (skipn (S i) (n_ch p))
       | _ -> skipn (S i) (n_ch p)))

(** val m_find : node -> seg list -> node option **)

let rec m_find n = function
| [] -> Some n
| s :: r ->
  (match child_pos n s with
   | Some i ->
     (match nth_error (n_ch n) i with
      | Some c -> m_find c r
      | None -> None)
   | None -> None)

(** val m_detach : node -> seg list -> (node * node) option **)

let rec m_detach n = function
| [] -> None
| s :: r ->
  (match child_pos n s with
   | Some i ->
     (match nth_error (n_ch n) i with
      | Some c ->
        (match r with
         | [] -> Some ((remove_item n i), c)
         | _ :: _ ->
           (match m_detach c r with
            | Some p -> let (c', d) = p in Some ((set_child n i c'), d)
            | None -> None))
      | None -> None)
   | None -> None)

type rc =
| RcOk
| RcNotFound
| RcNoValue
| RcTargetInvalid
| RcBadIdx
| RcTestFailed
| RcInvalidValue
| RcPtr
| RcPatchInvalid
| RcBadOp
| RcInvArgs
| RcNotImpl
| RcCreation
| RcUnmodelled

(** val rc_code : rc -> z **)

let rc_code = function
| RcOk -> Z0
| RcNotFound -> jP_ERR_PATH_NOTFOUND
| RcNoValue -> jP_ERR_PATCH_NOVALUE
| RcTargetInvalid -> jP_ERR_PATCH_TARGET_INVALID
| RcBadIdx -> jP_ERR_PATCH_INVALID_ARRAY_INDEX
| RcTestFailed -> jP_ERR_PATCH_TEST_FAILED
| RcInvalidValue -> jP_ERR_PATCH_INVALID_VALUE
| RcPtr -> jP_ERR_JSON_POINTER
| RcPatchInvalid -> jP_ERR_PATCH_INVALID
| RcBadOp -> jP_ERR_PATCH_INVALID_OP
| RcInvArgs -> jP_ERR_INVALID_ARGS
| RcNotImpl -> jP_ERR_NOT_IMPLEMENTED
| RcCreation -> jP_ERR_CREATION
| RcUnmodelled -> Zneg XH

type opk =
| ONone
| OAdd
| ORemove
| OReplace
| OCopy
| OMove
| OTest
| OIncrement
| OAddCreate
| OSwap

(** val op_code : opk -> z **)

let op_code = function
| ONone -> Z0
| OAdd -> jP_JBP_ADD
| ORemove -> jP_JBP_REMOVE
| OReplace -> jP_JBP_REPLACE
| OCopy -> jP_JBP_COPY
| OMove -> jP_JBP_MOVE
| OTest -> jP_JBP_TEST
| OIncrement -> jP_JBP_INCREMENT
| OAddCreate -> jP_JBP_ADD_CREATE
| OSwap -> jP_JBP_SWAP

(** val op_eqb : opk -> opk -> bool **)

let op_eqb a b =
  Z.eqb (op_code a) (op_code b)

type fops = { f_add : (z -> z -> z); f_of_i : (z -> z); f_to_i : (z -> z);
              f_eq : (z -> z -> bool) }

(** val increment : fops -> node -> node -> rc * node **)

let increment fo target value =
  match n_ty value with
  | TI64 ->
    let Node (kl, k, ty, vi, s, c) = target in
    (match ty with
     | TI64 ->
       (RcOk, (Node (kl, k, TI64,
         (sw (Zpos (XO (XO (XO (XO (XO (XO XH)))))))
           (Z.add vi
             (match n_ty value with
              | TI64 -> n_vi value
              | _ -> fo.f_to_i (n_vi value)))), s, c)))
     | TF64 ->
       (RcOk, (Node (kl, k, TF64,
         (fo.f_add vi
           (match n_ty value with
            | TF64 -> n_vi value
            | _ -> fo.f_of_i (n_vi value))), s, c)))
     | _ -> (RcTargetInvalid, target))
  | TF64 ->
    let Node (kl, k, ty, vi, s, c) = target in
    (match ty with
     | TI64 ->
       (RcOk, (Node (kl, k, TI64,
         (sw (Zpos (XO (XO (XO (XO (XO (XO XH)))))))
           (Z.add vi
             (match n_ty value with
              | TI64 -> n_vi value
              | _ -> fo.f_to_i (n_vi value)))), s, c)))
     | TF64 ->
       (RcOk, (Node (kl, k, TF64,
         (fo.f_add vi
           (match n_ty value with
            | TF64 -> n_vi value
            | _ -> fo.f_of_i (n_vi value))), s, c)))
     | _ -> (RcTargetInvalid, target))
  | _ -> (RcInvalidValue, target)

(** val member_match : node -> node -> bool **)

let member_match a c =
  (&&) (Z.eqb (n_kl a) (n_kl c))
    (strncmp_eq (n_key a) (n_key c) (Z.to_nat (n_kl a)))

(** val nodes_eq : fops -> node -> node -> bool **)

let rec nodes_eq fo a b =
  let Node (_, _, ty, vi, vs, ch) = a in
  (&&) (ty_eqb ty (n_ty b))
    (match ty with
     | TBool -> eqb (negb (Z.eqb vi Z0)) (negb (Z.eqb (n_vi b) Z0))
     | TI64 -> Z.eqb vi (n_vi b)
     | TF64 -> fo.f_eq vi (n_vi b)
     | TStr ->
       (&&) (Z.eqb (Z.of_nat (length vs)) (Z.of_nat (length (n_vs b))))
         (strncmp_eq vs (n_vs b) (length vs))
     | TObj ->
       (&&) (Z.eqb (Z.of_nat (length ch)) (Z.of_nat (length (n_ch b))))
         (let rec go = function
          | [] -> true
          | x :: l' ->
            (&&)
              (match find_pos (member_match x) (n_ch b) with
               | Some i ->
                 (match nth_error (n_ch b) i with
                  | Some y -> nodes_eq fo x y
                  | None -> false)
               | None -> false) (go l')
          in go ch)
     | TArr ->
       let rec go l m =
         match l with
         | [] -> (match m with
                  | [] -> true
                  | _ :: _ -> false)
         | x :: l' ->
           (match m with
            | [] -> false
            | y :: m' -> (&&) (nodes_eq fo x y) (go l' m'))
       in go ch (n_ch b)
     | _ -> true)

(** val renumber : z -> node list -> node list **)

let rec renumber i = function
| [] -> []
| x :: r -> (set_kl x i) :: (renumber (Z.add i (Zpos XH)) r)

(** val clone : node -> node **)

let rec clone = function
| Node (kl, k, ty, vi, vs, ch) ->
  let ch' = map clone ch in
  Node (kl, (firstn (Z.to_nat kl) k), ty, vi, vs,
  (match ty with
   | TObj -> ch'
   | TArr -> renumber Z0 (map (fun c -> set_key c []) ch')
   | _ -> []))

(** val put_here : fops -> opk -> node -> seg -> node -> rc * node **)

let put_here fo k p s v =
  match n_ty p with
  | TObj ->
    (match child_pos p s with
     | Some i ->
       (match nth_error (n_ch p) i with
        | Some c ->
          if op_eqb k OIncrement
          then let (r, c') = increment fo c v in (r, (set_child p i c'))
          else (RcOk, (set_child p i (copy_data c v)))
        | None -> (RcTargetInvalid, p))
     | None ->
       if op_eqb k OIncrement
       then (RcTargetInvalid, p)
       else (RcOk, (add_item p (set_kl (set_key v s) (Z.of_nat (length s))))))
  | TArr ->
    if is_dash s
    then (RcOk, (add_item p v))
    else let idx = sw (Zpos (XO (XO (XO (XO (XO XH)))))) (atoi s) in
         let len = Z.of_nat (length (n_ch p)) in
         if (||) (Z.gtb idx len) (Z.ltb idx Z0)
         then (RcBadIdx, p)
         else let v1 = set_kl v idx in
              if Z.ltb idx len
              then let i = Z.to_nat idx in
                   (RcOk,
                   (set_ch p
                     (app (firstn i (n_ch p))
                       (v1 :: (map inc_kl (skipn i (n_ch p)))))))
              else (RcOk, (add_item p v1))
  | _ -> (RcTargetInvalid, p)

(** val m_put :
    fops -> opk -> node -> seg list -> node -> (rc * node) option **)

let rec m_put fo k n segs v =
  match segs with
  | [] -> Some (RcTargetInvalid, n)
  | s :: r ->
    (match r with
     | [] -> Some (put_here fo k n s v)
     | _ :: _ ->
       (match child_pos n s with
        | Some i ->
          (match nth_error (n_ch n) i with
           | Some c ->
             (match m_put fo k c r v with
              | Some p -> let (rc0, c') = p in Some (rc0, (set_child n i c'))
              | None -> None)
           | None -> None)
        | None -> None))

(** val m_create : fops -> node -> seg list -> node -> rc * node **)

let rec m_create fo n segs v =
  match segs with
  | [] -> (RcTargetInvalid, n)
  | s :: r ->
    (match r with
     | [] -> put_here fo OAddCreate n s v
     | _ :: _ ->
       (match child_pos n s with
        | Some i ->
          (match nth_error (n_ch n) i with
           | Some c ->
             (match n_ty c with
              | TObj ->
                let (rc0, c') = m_create fo c r v in (rc0, (set_child n i c'))
              | _ -> (RcTargetInvalid, n))
           | None -> (RcTargetInvalid, n))
        | None ->
          let pn = Node ((Z.of_nat (length s)), s, TObj, Z0, [], []) in
          let n1 = add_item n pn in
          let i = length (n_ch n) in
          (match nth_error (n_ch n1) i with
           | Some pn1 ->
             let (rc0, c') = m_create fo pn1 r v in (rc0, (set_child n1 i c'))
           | None -> (RcTargetInvalid, n1))))

(** val is_prefix : seg list -> seg list -> bool **)

let rec is_prefix a b =
  match a with
  | [] -> true
  | x :: a' ->
    (match b with
     | [] -> false
     | y :: b' -> (&&) (bytes_eqb x y) (is_prefix a' b'))

(** val m_set_data : node -> seg list -> node -> node option **)

let rec m_set_data n segs d =
  match segs with
  | [] -> Some (copy_data n d)
  | s :: r ->
    (match child_pos n s with
     | Some i ->
       (match nth_error (n_ch n) i with
        | Some c ->
          (match m_set_data c r d with
           | Some c' -> Some (set_child n i c')
           | None -> None)
        | None -> None)
     | None -> None)

type pop = { p_op : opk; p_path : seg list; p_from : seg list option;
             p_val : node option }

(** val is_root : seg list -> bool **)

let is_root = function
| [] -> true
| s :: l ->
  (match s with
   | [] -> (match l with
            | [] -> true
            | _ :: _ -> false)
   | _ :: _ -> false)

(** val put_or_create :
    fops -> opk -> node -> seg list -> node -> rc * node **)

let put_or_create fo k t path v =
  match m_put fo k t path v with
  | Some r -> r
  | None ->
    if op_eqb k OAddCreate then m_create fo t path v else (RcTargetInvalid, t)

(** val swap_target : node -> seg list -> node option option **)

let swap_target t path =
  match m_find t (removelast path) with
  | Some p ->
    (match n_ty p with
     | TObj ->
       (match child_pos p (last path []) with
        | Some i -> Some (nth_error (n_ch p) i)
        | None -> Some None)
     | TArr ->
       let s = last path [] in
       if is_dash s
       then Some None
       else let idx = sw (Zpos (XO (XO (XO (XO (XO XH)))))) (atoi s) in
            if (&&) (Z.leb Z0 idx) (Z.ltb idx (Z.of_nat (length (n_ch p))))
            then Some (nth_error (n_ch p) (Z.to_nat idx))
            else Some None
     | _ -> Some None)
  | None -> None

(** val apply_op : fops -> node -> pop -> rc * node **)

let apply_op fo t o =
  let k = o.p_op in
  let path = o.p_path in
  if (&&) (op_eqb k OSwap)
       (match o.p_from with
        | Some l -> (match l with
                     | [] -> true
                     | _ :: _ -> false)
        | None -> false)
  then (RcPatchInvalid, t)
  else if op_eqb k OTest
       then (match o.p_val with
             | Some v ->
               (match if is_root path then Some t else m_find t path with
                | Some x ->
                  if nodes_eq fo x v then (RcOk, t) else (RcTestFailed, t)
                | None -> (RcTestFailed, t))
             | None -> (RcNoValue, t))
       else if is_root path
            then if op_eqb k ORemove
                 then (RcOk, zero_node)
                 else if (||) ((||) (op_eqb k OReplace) (op_eqb k OAdd))
                           (op_eqb k OAddCreate)
                      then (match o.p_val with
                            | Some v -> (RcOk, v)
                            | None -> (RcNoValue, t))
                      else (RcOk, t)
            else if (||) (op_eqb k ORemove) (op_eqb k OReplace)
                 then (match m_detach t path with
                       | Some p ->
                         let (t', _) = p in
                         if op_eqb k ORemove
                         then (RcOk, t')
                         else if (&&)
                                   ((||)
                                     ((||) (op_eqb k OMove) (op_eqb k OCopy))
                                     (op_eqb k OSwap))
                                   (match o.p_from with
                                    | Some _ -> false
                                    | None -> true)
                              then (RcPatchInvalid, t')
                              else if op_eqb k OMove
                                   then (match match o.p_from with
                                               | Some f -> m_detach t' f
                                               | None -> None with
                                         | Some p0 ->
                                           let (t2, v) = p0 in
                                           put_or_create fo k t2 path v
                                         | None -> (RcNotFound, t'))
                                   else if op_eqb k OCopy
                                        then (match match o.p_from with
                                                    | Some f -> m_find t' f
                                                    | None -> None with
                                              | Some v ->
                                                put_or_create fo k t' path
                                                  (clone v)
                                              | None -> (RcNotFound, t'))
                                        else if op_eqb k OSwap
                                             then (match o.p_from with
                                                   | Some f ->
                                                     (match m_find t' f with
                                                      | Some v ->
                                                        (match swap_target t'
                                                                 path with
                                                         | Some o0 ->
                                                           (match o0 with
                                                            | Some c ->
                                                              if (&&)
                                                                   (is_prefix
                                                                    f path)
                                                                   (is_prefix
                                                                    path f)
                                                              then (RcOk, t')
                                                              else if 
                                                                    (||)
                                                                    (is_prefix
                                                                    f path)
                                                                    (is_prefix
                                                                    path f)
                                                                   then 
                                                                    (RcUnmodelled,
                                                                    t')
                                                                   else 
                                                                    (match 
                                                                    m_set_data
                                                                    t' f c with
                                                                    | Some t2 ->
                                                                    (match 
                                                                    m_set_data
                                                                    t2 path v with
                                                                    | Some t3 ->
                                                                    (RcOk, t3)
                                                                    | None ->
                                                                    (RcUnmodelled,
                                                                    t'))
                                                                    | None ->
                                                                    (RcUnmodelled,
                                                                    t'))
                                                            | None ->
                                                              if is_prefix f
                                                                   path
                                                              then (RcUnmodelled,
                                                                    t')
                                                              else let (
                                                                    r0, t2) =
                                                                    put_or_create
                                                                    fo k t'
                                                                    path v
                                                                   in
                                                                   (match r0 with
                                                                    | RcOk ->
                                                                    (match 
                                                                    m_detach
                                                                    t2 f with
                                                                    | Some p0 ->
                                                                    let (
                                                                    t3, _) =
                                                                    p0
                                                                    in
                                                                    (RcOk, t3)
                                                                    | None ->
                                                                    (RcUnmodelled,
                                                                    t'))
                                                                    | x ->
                                                                    (x, t2)))
                                                         | None ->
                                                           (RcTargetInvalid,
                                                             t'))
                                                      | None ->
                                                        (RcNotFound, t'))
                                                   | None -> (RcNotFound, t'))
                                             else (match o.p_val with
                                                   | Some v ->
                                                     put_or_create fo k t'
                                                       path v
                                                   | None -> (RcNoValue, t'))
                       | None -> (RcNotFound, t))
                 else if op_eqb k ORemove
                      then (RcOk, t)
                      else if (&&)
                                ((||)
                                  ((||) (op_eqb k OMove) (op_eqb k OCopy))
                                  (op_eqb k OSwap))
                                (match o.p_from with
                                 | Some _ -> false
                                 | None -> true)
                           then (RcPatchInvalid, t)
                           else if op_eqb k OMove
                                then (match match o.p_from with
                                            | Some f -> m_detach t f
                                            | None -> None with
                                      | Some p ->
                                        let (t2, v) = p in
                                        put_or_create fo k t2 path v
                                      | None -> (RcNotFound, t))
                                else if op_eqb k OCopy
                                     then (match match o.p_from with
                                                 | Some f -> m_find t f
                                                 | None -> None with
                                           | Some v ->
                                             put_or_create fo k t path
                                               (clone v)
                                           | None -> (RcNotFound, t))
                                     else if op_eqb k OSwap
                                          then (match o.p_from with
                                                | Some f ->
                                                  (match m_find t f with
                                                   | Some v ->
                                                     (match swap_target t path with
                                                      | Some o0 ->
                                                        (match o0 with
                                                         | Some c ->
                                                           if (&&)
                                                                (is_prefix f
                                                                  path)
                                                                (is_prefix
                                                                  path f)
                                                           then (RcOk, t)
                                                           else if (||)
                                                                    (is_prefix
                                                                    f path)
                                                                    (is_prefix
                                                                    path f)
                                                                then 
                                                                  (RcUnmodelled,
                                                                    t)
                                                                else 
                                                                  (match 
                                                                   m_set_data
                                                                    t f c with
                                                                   | Some t2 ->
                                                                    (match 
                                                                    m_set_data
                                                                    t2 path v with
                                                                    | Some t3 ->
                                                                    (RcOk, t3)
                                                                    | None ->
                                                                    (RcUnmodelled,
                                                                    t))
                                                                   | None ->
                                                                    (RcUnmodelled,
                                                                    t))
                                                         | None ->
                                                           if is_prefix f path
                                                           then (RcUnmodelled,
                                                                  t)
                                                           else let (
                                                                  r0, t2) =
                                                                  put_or_create
                                                                    fo k t
                                                                    path v
                                                                in
                                                                (match r0 with
                                                                 | RcOk ->
                                                                   (match 
                                                                    m_detach
                                                                    t2 f with
                                                                    | Some p ->
                                                                    let (
                                                                    t3, _) = p
                                                                    in
                                                                    (RcOk, t3)
                                                                    | None ->
                                                                    (RcUnmodelled,
                                                                    t))
                                                                 | x ->
                                                                   (x, t2)))
                                                      | None ->
                                                        (RcTargetInvalid, t))
                                                   | None -> (RcNotFound, t))
                                                | None -> (RcNotFound, t))
                                          else (match o.p_val with
                                                | Some v ->
                                                  put_or_create fo k t path v
                                                | None -> (RcNoValue, t))

(** val ptr_segs : z list -> z list -> seg list option **)

let rec ptr_segs s cur =
  match s with
  | [] -> Some ((rev cur) :: [])
  | c :: r ->
    (match c with
     | Zpos p ->
       (match p with
        | XI p0 ->
          (match p0 with
           | XI p1 ->
             (match p1 with
              | XI p2 ->
                (match p2 with
                 | XI p3 ->
                   (match p3 with
                    | XO p4 ->
                      (match p4 with
                       | XH ->
                         (match ptr_segs r [] with
                          | Some l -> Some ((rev cur) :: l)
                          | None -> None)
                       | _ -> ptr_segs r (c :: cur))
                    | _ -> ptr_segs r (c :: cur))
                 | _ -> ptr_segs r (c :: cur))
              | _ -> ptr_segs r (c :: cur))
           | _ -> ptr_segs r (c :: cur))
        | XO p0 ->
          (match p0 with
           | XI p1 ->
             (match p1 with
              | XI p2 ->
                (match p2 with
                 | XI p3 ->
                   (match p3 with
                    | XI p4 ->
                      (match p4 with
                       | XI p5 ->
                         (match p5 with
                          | XH ->
                            (match r with
                             | [] -> None
                             | z0 :: r0 ->
                               (match z0 with
                                | Zpos p6 ->
                                  (match p6 with
                                   | XI p7 ->
                                     (match p7 with
                                      | XO p8 ->
                                        (match p8 with
                                         | XO p9 ->
                                           (match p9 with
                                            | XO p10 ->
                                              (match p10 with
                                               | XI p11 ->
                                                 (match p11 with
                                                  | XH ->
                                                    ptr_segs r0 ((Zpos (XI
                                                      (XI (XI (XI (XO
                                                      XH)))))) :: cur)
                                                  | _ -> None)
                                               | _ -> None)
                                            | _ -> None)
                                         | _ -> None)
                                      | _ -> None)
                                   | XO p7 ->
                                     (match p7 with
                                      | XO p8 ->
                                        (match p8 with
                                         | XO p9 ->
                                           (match p9 with
                                            | XO p10 ->
                                              (match p10 with
                                               | XI p11 ->
                                                 (match p11 with
                                                  | XH ->
                                                    ptr_segs r0 ((Zpos (XO
                                                      (XI (XI (XI (XI (XI
                                                      XH))))))) :: cur)
                                                  | _ -> None)
                                               | _ -> None)
                                            | _ -> None)
                                         | _ -> None)
                                      | _ -> None)
                                   | XH -> None)
                                | _ -> None))
                          | _ -> ptr_segs r (c :: cur))
                       | _ -> ptr_segs r (c :: cur))
                    | _ -> ptr_segs r (c :: cur))
                 | _ -> ptr_segs r (c :: cur))
              | _ -> ptr_segs r (c :: cur))
           | _ -> ptr_segs r (c :: cur))
        | XH -> ptr_segs r (c :: cur))
     | _ -> ptr_segs r (c :: cur))

type ptr_res =
| PtrOk of seg list
| PtrErr
| PtrUnmodelled

(** val ptr_parse : z list -> ptr_res **)

let ptr_parse s = match s with
| [] -> PtrOk []
| z0 :: r ->
  (match z0 with
   | Zpos p ->
     (match p with
      | XI p0 ->
        (match p0 with
         | XI p1 ->
           (match p1 with
            | XI p2 ->
              (match p2 with
               | XI p3 ->
                 (match p3 with
                  | XO p4 ->
                    (match p4 with
                     | XH ->
                       if (&&) (Z.ltb (Zpos XH) (Z.of_nat (length s)))
                            (match rev s with
                             | [] -> false
                             | z1 :: _ ->
                               (match z1 with
                                | Zpos p5 ->
                                  (match p5 with
                                   | XI p6 ->
                                     (match p6 with
                                      | XI p7 ->
                                        (match p7 with
                                         | XI p8 ->
                                           (match p8 with
                                            | XI p9 ->
                                              (match p9 with
                                               | XO p10 ->
                                                 (match p10 with
                                                  | XH -> true
                                                  | _ -> false)
                                               | _ -> false)
                                            | _ -> false)
                                         | _ -> false)
                                      | _ -> false)
                                   | _ -> false)
                                | _ -> false))
                       then PtrErr
                       else (match ptr_segs r [] with
                             | Some l -> PtrOk l
                             | None -> PtrUnmodelled)
                     | _ -> PtrErr)
                  | _ -> PtrErr)
               | _ -> PtrErr)
            | _ -> PtrErr)
         | _ -> PtrErr)
      | _ -> PtrErr)
   | _ -> PtrErr)

type rawop = { r_op : opk; r_path : z list option; r_from : z list option;
               r_val : node option }

(** val parse_op : rawop -> (rc, pop) sum **)

let parse_op r =
  match ptr_parse (match r.r_path with
                   | Some p -> p
                   | None -> []) with
  | PtrOk path ->
    (match r.r_from with
     | Some f ->
       (match ptr_parse f with
        | PtrOk fs ->
          Inr { p_op = r.r_op; p_path = path; p_from = (Some fs); p_val =
            r.r_val }
        | PtrErr -> Inl RcPtr
        | PtrUnmodelled -> Inl RcUnmodelled)
     | None ->
       Inr { p_op = r.r_op; p_path = path; p_from = None; p_val = r.r_val })
  | PtrErr -> Inl RcPtr
  | PtrUnmodelled -> Inl RcUnmodelled

(** val parse_ops : rawop list -> (rc, pop list) sum **)

let rec parse_ops = function
| [] -> Inr []
| r :: l' ->
  (match parse_op r with
   | Inl e -> Inl e
   | Inr o ->
     (match parse_ops l' with
      | Inl e -> Inl e
      | Inr os -> Inr (o :: os)))

(** val apply_ops : fops -> node -> pop list -> rc * node **)

let rec apply_ops fo t = function
| [] -> (RcOk, t)
| o :: l' ->
  let (r0, t') = apply_op fo t o in
  (match r0 with
   | RcOk -> apply_ops fo t' l'
   | x -> (x, t'))

(** val patch_node : fops -> node -> rawop list -> rc * node **)

let patch_node fo t l = match l with
| [] -> (RcOk, t)
| _ :: _ ->
  (match parse_ops l with
   | Inl e -> (e, t)
   | Inr os -> apply_ops fo t os)

(** val lit_op : z list **)

let lit_op =
  (Zpos (XI (XI (XI (XI (XO (XI XH))))))) :: ((Zpos (XO (XO (XO (XO (XI (XI
    XH))))))) :: [])

(** val lit_value : z list **)

let lit_value =
  (Zpos (XO (XI (XI (XO (XI (XI XH))))))) :: ((Zpos (XI (XO (XO (XO (XO (XI
    XH))))))) :: ((Zpos (XO (XO (XI (XI (XO (XI XH))))))) :: ((Zpos (XI (XO
    (XI (XO (XI (XI XH))))))) :: ((Zpos (XI (XO (XI (XO (XO (XI
    XH))))))) :: []))))

(** val lit_path : z list **)

let lit_path =
  (Zpos (XO (XO (XO (XO (XI (XI XH))))))) :: ((Zpos (XI (XO (XO (XO (XO (XI
    XH))))))) :: ((Zpos (XO (XO (XI (XO (XI (XI XH))))))) :: ((Zpos (XO (XO
    (XO (XI (XO (XI XH))))))) :: [])))

(** val lit_from : z list **)

let lit_from =
  (Zpos (XO (XI (XI (XO (XO (XI XH))))))) :: ((Zpos (XO (XI (XO (XO (XI (XI
    XH))))))) :: ((Zpos (XI (XI (XI (XI (XO (XI XH))))))) :: ((Zpos (XI (XO
    (XI (XI (XO (XI XH))))))) :: [])))

(** val op_names : (z list * opk) list **)

let op_names =
  (((Zpos (XI (XO (XO (XO (XO (XI XH))))))) :: ((Zpos (XO (XO (XI (XO (XO (XI
    XH))))))) :: ((Zpos (XO (XO (XI (XO (XO (XI XH))))))) :: []))),
    OAdd) :: ((((Zpos (XO (XI (XO (XO (XI (XI XH))))))) :: ((Zpos (XI (XO (XI
    (XO (XO (XI XH))))))) :: ((Zpos (XI (XO (XI (XI (XO (XI
    XH))))))) :: ((Zpos (XI (XI (XI (XI (XO (XI XH))))))) :: ((Zpos (XO (XI
    (XI (XO (XI (XI XH))))))) :: ((Zpos (XI (XO (XI (XO (XO (XI
    XH))))))) :: [])))))), ORemove) :: ((((Zpos (XO (XI (XO (XO (XI (XI
    XH))))))) :: ((Zpos (XI (XO (XI (XO (XO (XI XH))))))) :: ((Zpos (XO (XO
    (XO (XO (XI (XI XH))))))) :: ((Zpos (XO (XO (XI (XI (XO (XI
    XH))))))) :: ((Zpos (XI (XO (XO (XO (XO (XI XH))))))) :: ((Zpos (XI (XI
    (XO (XO (XO (XI XH))))))) :: ((Zpos (XI (XO (XI (XO (XO (XI
    XH))))))) :: []))))))), OReplace) :: ((((Zpos (XI (XI (XO (XO (XO (XI
    XH))))))) :: ((Zpos (XI (XI (XI (XI (XO (XI XH))))))) :: ((Zpos (XO (XO
    (XO (XO (XI (XI XH))))))) :: ((Zpos (XI (XO (XO (XI (XI (XI
    XH))))))) :: [])))), OCopy) :: ((((Zpos (XI (XO (XI (XI (XO (XI
    XH))))))) :: ((Zpos (XI (XI (XI (XI (XO (XI XH))))))) :: ((Zpos (XO (XI
    (XI (XO (XI (XI XH))))))) :: ((Zpos (XI (XO (XI (XO (XO (XI
    XH))))))) :: [])))), OMove) :: ((((Zpos (XO (XO (XI (XO (XI (XI
    XH))))))) :: ((Zpos (XI (XO (XI (XO (XO (XI XH))))))) :: ((Zpos (XI (XI
    (XO (XO (XI (XI XH))))))) :: ((Zpos (XO (XO (XI (XO (XI (XI
    XH))))))) :: [])))), OTest) :: ((((Zpos (XI (XO (XO (XI (XO (XI
    XH))))))) :: ((Zpos (XO (XI (XI (XI (XO (XI XH))))))) :: ((Zpos (XI (XI
    (XO (XO (XO (XI XH))))))) :: ((Zpos (XO (XI (XO (XO (XI (XI
    XH))))))) :: ((Zpos (XI (XO (XI (XO (XO (XI XH))))))) :: ((Zpos (XI (XO
    (XI (XI (XO (XI XH))))))) :: ((Zpos (XI (XO (XI (XO (XO (XI
    XH))))))) :: ((Zpos (XO (XI (XI (XI (XO (XI XH))))))) :: ((Zpos (XO (XO
    (XI (XO (XI (XI XH))))))) :: []))))))))), OIncrement) :: ((((Zpos (XI (XO
    (XO (XO (XO (XI XH))))))) :: ((Zpos (XO (XO (XI (XO (XO (XI
    XH))))))) :: ((Zpos (XO (XO (XI (XO (XO (XI XH))))))) :: ((Zpos (XI (XI
    (XI (XI (XI (XO XH))))))) :: ((Zpos (XI (XI (XO (XO (XO (XI
    XH))))))) :: ((Zpos (XO (XI (XO (XO (XI (XI XH))))))) :: ((Zpos (XI (XO
    (XI (XO (XO (XI XH))))))) :: ((Zpos (XI (XO (XO (XO (XO (XI
    XH))))))) :: ((Zpos (XO (XO (XI (XO (XI (XI XH))))))) :: ((Zpos (XI (XO
    (XI (XO (XO (XI XH))))))) :: [])))))))))), OAddCreate) :: ((((Zpos (XI
    (XI (XO (XO (XI (XI XH))))))) :: ((Zpos (XI (XI (XI (XO (XI (XI
    XH))))))) :: ((Zpos (XI (XO (XO (XO (XO (XI XH))))))) :: ((Zpos (XO (XO
    (XO (XO (XI (XI XH))))))) :: [])))), OSwap) :: []))))))))

(** val op_by_prefix : (z list * opk) list -> z list -> opk option **)

let rec op_by_prefix names v =
  match names with
  | [] -> None
  | p :: r ->
    let (nm, o) = p in
    if strncmp_eq nm v (length v) then Some o else op_by_prefix r v

(** val lit_match : z list -> node -> bool **)

let lit_match lit m =
  strncmp_eq lit (n_key m) (Z.to_nat (n_kl m))

(** val decode_members : node list -> rawop -> (rc, rawop) sum **)

let rec decode_members ms acc =
  match ms with
  | [] -> Inr acc
  | m :: r ->
    if lit_match lit_op m
    then (match n_ty m with
          | TStr ->
            (match op_by_prefix op_names (n_vs m) with
             | Some o ->
               decode_members r { r_op = o; r_path = acc.r_path; r_from =
                 acc.r_from; r_val = acc.r_val }
             | None -> Inl RcBadOp)
          | _ -> Inl RcPatchInvalid)
    else if lit_match lit_value m
         then decode_members r { r_op = acc.r_op; r_path = acc.r_path;
                r_from = acc.r_from; r_val = (Some m) }
         else if lit_match lit_path m
              then (match n_ty m with
                    | TStr ->
                      decode_members r { r_op = acc.r_op; r_path = (Some
                        (n_vs m)); r_from = acc.r_from; r_val = acc.r_val }
                    | _ -> Inl RcPatchInvalid)
              else if lit_match lit_from m
                   then (match n_ty m with
                         | TStr ->
                           decode_members r { r_op = acc.r_op; r_path =
                             acc.r_path; r_from = (Some (n_vs m)); r_val =
                             acc.r_val }
                         | _ -> Inl RcPatchInvalid)
                   else decode_members r acc

(** val empty_rawop : rawop **)

let empty_rawop =
  { r_op = ONone; r_path = None; r_from = None; r_val = None }

(** val decode_ops : node list -> (rc, rawop list) sum **)

let rec decode_ops = function
| [] -> Inr []
| n :: r ->
  (match decode_members (n_ch n) empty_rawop with
   | Inl e -> Inl e
   | Inr o ->
     (match decode_ops r with
      | Inl e -> Inl e
      | Inr os -> Inr (o :: os)))

(** val create_patch : node -> (rc, rawop list) sum **)

let create_patch p =
  if forallb (fun n -> ty_eqb (n_ty n) TObj) (n_ch p)
  then decode_ops (n_ch p)
  else Inl RcPatchInvalid

(** val key_is : z list -> node -> bool **)

let key_is lit m =
  bytes_eqb lit (firstn (Z.to_nat (n_kl m)) (n_key m))

(** val op_exact : (z list * opk) list -> z list -> opk option **)

let rec op_exact names v =
  match names with
  | [] -> None
  | p :: r ->
    let (nm, o) = p in if bytes_eqb nm v then Some o else op_exact r v

(** val decode_members_exact : node list -> rawop -> (rc, rawop) sum **)

let rec decode_members_exact ms acc =
  match ms with
  | [] -> Inr acc
  | m :: r ->
    if key_is lit_op m
    then (match n_ty m with
          | TStr ->
            (match op_exact op_names (n_vs m) with
             | Some o ->
               decode_members_exact r { r_op = o; r_path = acc.r_path;
                 r_from = acc.r_from; r_val = acc.r_val }
             | None -> Inl RcBadOp)
          | _ -> Inl RcPatchInvalid)
    else if key_is lit_value m
         then decode_members_exact r { r_op = acc.r_op; r_path = acc.r_path;
                r_from = acc.r_from; r_val = (Some m) }
         else if key_is lit_path m
              then (match n_ty m with
                    | TStr ->
                      decode_members_exact r { r_op = acc.r_op; r_path =
                        (Some (n_vs m)); r_from = acc.r_from; r_val =
                        acc.r_val }
                    | _ -> Inl RcPatchInvalid)
              else if key_is lit_from m
                   then (match n_ty m with
                         | TStr ->
                           decode_members_exact r { r_op = acc.r_op; r_path =
                             acc.r_path; r_from = (Some (n_vs m)); r_val =
                             acc.r_val }
                         | _ -> Inl RcPatchInvalid)
                   else decode_members_exact r acc

(** val decode_ops_exact : node list -> (rc, rawop list) sum **)

let rec decode_ops_exact = function
| [] -> Inr []
| n :: r ->
  (match match n_ty n with
         | TObj -> decode_members_exact (n_ch n) empty_rawop
         | TArr -> Inl RcPatchInvalid
         | _ -> Inl RcPatchInvalid with
   | Inl e -> Inl e
   | Inr o ->
     (match decode_ops_exact r with
      | Inl e -> Inl e
      | Inr os -> Inr (o :: os)))

(** val patch_binary :
    ('a1 -> node) -> (node -> 'a1 option) -> 'a1 -> fops -> 'a1 -> rawop list
    -> rc * 'a1 **)

let patch_binary dec enc empty fo b l = match l with
| [] -> (RcOk, b)
| _ :: _ ->
  let (e, t) = patch_node fo (dec b) l in
  (match e with
   | RcOk ->
     (match n_ty t with
      | TNone -> (RcOk, empty)
      | _ ->
        (match enc t with
         | Some b' -> (RcOk, b')
         | None -> (RcCreation, b)))
   | _ -> (e, b))

(** val val0 : node -> jval **)

let rec val0 = function
| Node (_, _, ty, vi, vs, ch) ->
  (match ty with
   | TBool -> JBool (negb (Z.eqb vi Z0))
   | TI64 -> JI64 vi
   | TF64 -> JF64 vi
   | TStr -> JStr vs
   | TObj -> JObj (map (fun c -> ((n_key c), (val0 c))) ch)
   | TArr -> JArr (map val0 ch)
   | _ -> JNull)

(** val doc_val : node -> jval option **)

let doc_val n =
  match n_ty n with
  | TNone -> None
  | _ -> Some (val0 n)

(** val of_val : z -> z list -> jval -> node **)

let rec of_val kl key = function
| JNull -> Node (kl, key, TNull, Z0, [], [])
| JBool b -> Node (kl, key, TBool, (if b then Zpos XH else Z0), [], [])
| JI64 n -> Node (kl, key, TI64, n, [], [])
| JF64 n -> Node (kl, key, TF64, n, [], [])
| JStr s -> Node (kl, key, TStr, Z0, s, [])
| JArr l ->
  Node (kl, key, TArr, Z0, [],
    (let rec go i = function
     | [] -> []
     | x :: r -> (of_val i [] x) :: (go (Z.add i (Zpos XH)) r)
     in go Z0 l))
| JObj ms ->
  Node (kl, key, TObj, Z0, [],
    (let rec go = function
     | [] -> []
     | p :: r ->
       let (k, x) = p in (of_val (Z.of_nat (length k)) k x) :: (go r)
     in go ms))

type heap = { h_next : nat; h_live : nat list }

(** val h_live : heap -> nat list **)

let h_live h =
  h.h_live

(** val h_empty : heap **)

let h_empty =
  { h_next = O; h_live = [] }

(** val h_alloc : heap -> nat * heap **)

let h_alloc h =
  (h.h_next, { h_next = (S h.h_next); h_live = (h.h_next :: h.h_live) })

(** val remove1 : nat -> nat list -> nat list option **)

let rec remove1 x = function
| [] -> None
| y :: r ->
  if Nat.eqb x y
  then Some r
  else (match remove1 x r with
        | Some r' -> Some (y :: r')
        | None -> None)

type herr =
| DoubleFree
| UseAfterFree

(** val h_free : heap -> nat -> (herr, heap) sum **)

let h_free h id =
  match remove1 id h.h_live with
  | Some l -> Inr { h_next = h.h_next; h_live = l }
  | None -> Inl DoubleFree

(** val h_free_opt : heap -> nat option -> (herr, heap) sum **)

let h_free_opt h = function
| Some i -> h_free h i
| None -> Inr h

(** val h_is_live : heap -> nat -> bool **)

let h_is_live h id =
  existsb (Nat.eqb id) h.h_live

(** val h_use : heap -> nat option -> (herr, unit) sum **)

let h_use h = function
| Some i -> if h_is_live h i then Inr () else Inl UseAfterFree
| None -> Inr ()

(** val mkey_match : node -> node -> bool **)

let mkey_match pc c =
  (&&) (Z.eqb (n_kl c) (n_kl pc))
    (strncmp_eq (n_key c) (n_key pc) (Z.to_nat (n_kl c)))

(** val reset_obj : node -> node **)

let reset_obj = function
| Node (kl, k, _, _, _, _) -> Node (kl, k, TObj, Z0, [], [])

(** val merge_pool : node option -> node -> node **)

let rec merge_pool t p = match p with
| Node (pkl, pkey, pty, _, _, pch) ->
  (match pty with
   | TObj ->
     let t0 =
       match t with
       | Some t0 -> (match n_ty t0 with
                     | TObj -> t0
                     | _ -> reset_obj t0)
       | None -> Node (pkl, pkey, TObj, Z0, [], [])
     in
     let rec go tgt = function
     | [] -> tgt
     | pc :: l' ->
       let tgt' =
         match n_ty pc with
         | TNull ->
           (match find_pos (mkey_match pc) (n_ch tgt) with
            | Some i ->
              set_ch tgt (app (firstn i (n_ch tgt)) (skipn (S i) (n_ch tgt)))
            | None -> tgt)
         | _ ->
           (match find_pos (mkey_match pc) (n_ch tgt) with
            | Some i ->
              (match nth_error (n_ch tgt) i with
               | Some c ->
                 let src = merge_pool (Some c) pc in
                 set_child tgt i
                   (match n_ty pc with
                    | TObj -> src
                    | _ -> copy_data c src)
               | None -> tgt)
            | None -> set_ch tgt (app (n_ch tgt) ((merge_pool None pc) :: [])))
       in
       go tgt' l'
     in go t0 pch
   | _ -> p)

(** val jbn_merge_patch_pool : node -> node -> rc * node **)

let jbn_merge_patch_pool root patch =
  match n_ty root with
  | TObj ->
    (match n_ty patch with
     | TObj -> (RcOk, (merge_pool (Some root) patch))
     | _ -> (RcInvArgs, root))
  | _ -> (RcInvArgs, root)

(** val jbn_merge_patch_node : node -> node -> node **)

let jbn_merge_patch_node root patch =
  merge_pool (Some root) patch

(** val jbn_patch_auto : fops -> node -> node -> rc * node **)

let jbn_patch_auto fo root patch =
  match n_ty patch with
  | TObj -> (RcOk, (merge_pool (Some root) patch))
  | TArr ->
    (match create_patch patch with
     | Inl e -> (e, root)
     | Inr ops -> patch_node fo root ops)
  | _ -> (RcInvArgs, root)

(** val wrap_child : seg list -> node option -> node option **)

let rec wrap_child segs v =
  match segs with
  | [] -> None
  | s :: r ->
    let kl = Z.of_nat (length s) in
    (match r with
     | [] ->
       (match v with
        | Some v0 -> Some (set_kl (set_key v0 s) kl)
        | None ->
          Some (Node (kl, s, TObj, Z0, [],
            (match wrap_child r v with
             | Some c -> c :: []
             | None -> []))))
     | _ :: _ ->
       Some (Node (kl, s, TObj, Z0, [],
         (match wrap_child r v with
          | Some c -> c :: []
          | None -> []))))

(** val merge_patch_create :
    z list -> node option -> (rc, node option) sum **)

let merge_patch_create path v =
  match path with
  | [] -> Inr v
  | z0 :: l ->
    (match z0 with
     | Zpos p ->
       (match p with
        | XI p0 ->
          (match p0 with
           | XI p1 ->
             (match p1 with
              | XI p2 ->
                (match p2 with
                 | XI p3 ->
                   (match p3 with
                    | XO p4 ->
                      (match p4 with
                       | XH ->
                         (match l with
                          | [] -> Inr v
                          | _ :: _ ->
                            (match ptr_parse path with
                             | PtrOk segs ->
                               Inr (Some (Node (Z0, [], TObj, Z0, [],
                                 (match wrap_child segs v with
                                  | Some c -> c :: []
                                  | None -> []))))
                             | PtrErr -> Inl RcPtr
                             | PtrUnmodelled -> Inl RcUnmodelled))
                       | _ ->
                         (match ptr_parse path with
                          | PtrOk segs ->
                            Inr (Some (Node (Z0, [], TObj, Z0, [],
                              (match wrap_child segs v with
                               | Some c -> c :: []
                               | None -> []))))
                          | PtrErr -> Inl RcPtr
                          | PtrUnmodelled -> Inl RcUnmodelled))
                    | _ ->
                      (match ptr_parse path with
                       | PtrOk segs ->
                         Inr (Some (Node (Z0, [], TObj, Z0, [],
                           (match wrap_child segs v with
                            | Some c -> c :: []
                            | None -> []))))
                       | PtrErr -> Inl RcPtr
                       | PtrUnmodelled -> Inl RcUnmodelled))
                 | _ ->
                   (match ptr_parse path with
                    | PtrOk segs ->
                      Inr (Some (Node (Z0, [], TObj, Z0, [],
                        (match wrap_child segs v with
                         | Some c -> c :: []
                         | None -> []))))
                    | PtrErr -> Inl RcPtr
                    | PtrUnmodelled -> Inl RcUnmodelled))
              | _ ->
                (match ptr_parse path with
                 | PtrOk segs ->
                   Inr (Some (Node (Z0, [], TObj, Z0, [],
                     (match wrap_child segs v with
                      | Some c -> c :: []
                      | None -> []))))
                 | PtrErr -> Inl RcPtr
                 | PtrUnmodelled -> Inl RcUnmodelled))
           | _ ->
             (match ptr_parse path with
              | PtrOk segs ->
                Inr (Some (Node (Z0, [], TObj, Z0, [],
                  (match wrap_child segs v with
                   | Some c -> c :: []
                   | None -> []))))
              | PtrErr -> Inl RcPtr
              | PtrUnmodelled -> Inl RcUnmodelled))
        | _ ->
          (match ptr_parse path with
           | PtrOk segs ->
             Inr (Some (Node (Z0, [], TObj, Z0, [],
               (match wrap_child segs v with
                | Some c -> c :: []
                | None -> []))))
           | PtrErr -> Inl RcPtr
           | PtrUnmodelled -> Inl RcUnmodelled))
     | _ ->
       (match ptr_parse path with
        | PtrOk segs ->
          Inr (Some (Node (Z0, [], TObj, Z0, [],
            (match wrap_child segs v with
             | Some c -> c :: []
             | None -> []))))
        | PtrErr -> Inl RcPtr
        | PtrUnmodelled -> Inl RcUnmodelled))

(** val jbn_merge_patch_path_pool :
    node -> z list -> node option -> rc * node **)

let jbn_merge_patch_path_pool root path v =
  match merge_patch_create path v with
  | Inl e -> (e, root)
  | Inr o ->
    (match o with
     | Some p -> jbn_merge_patch_pool root p
     | None -> (RcInvArgs, root))

(** val merge_binary :
    ('a1 -> node) -> (node -> 'a1 option) -> 'a1 -> node -> rc * 'a1 **)

let merge_binary dec enc b patch =
  match enc (jbn_merge_patch_node (dec b) patch) with
  | Some b' -> (RcOk, b')
  | None -> (RcCreation, b)

type hnode =
| HNode of nat * nat option * z * z list * jty * z * nat option * z list
   * hnode list

(** val hn_id : hnode -> nat **)

let hn_id = function
| HNode (i, _, _, _, _, _, _, _, _) -> i

(** val hn_kid : hnode -> nat option **)

let hn_kid = function
| HNode (_, k, _, _, _, _, _, _, _) -> k

(** val hn_kl : hnode -> z **)

let hn_kl = function
| HNode (_, _, kl, _, _, _, _, _, _) -> kl

(** val hn_key : hnode -> z list **)

let hn_key = function
| HNode (_, _, _, k, _, _, _, _, _) -> k

(** val hn_ty : hnode -> jty **)

let hn_ty = function
| HNode (_, _, _, _, t, _, _, _, _) -> t

(** val hn_vi : hnode -> z **)

let hn_vi = function
| HNode (_, _, _, _, _, v, _, _, _) -> v

(** val hn_sid : hnode -> nat option **)

let hn_sid = function
| HNode (_, _, _, _, _, _, s, _, _) -> s

(** val hn_vs : hnode -> z list **)

let hn_vs = function
| HNode (_, _, _, _, _, _, _, s, _) -> s

(** val hn_ch : hnode -> hnode list **)

let hn_ch = function
| HNode (_, _, _, _, _, _, _, _, c) -> c

(** val hset_ch : hnode -> hnode list -> hnode **)

let hset_ch n c =
  let HNode (i, k, kl, ke, t, v, s, vs, _) = n in
  HNode (i, k, kl, ke, t, v, s, vs, c)

(** val hset_child : hnode -> nat -> hnode -> hnode **)

let hset_child n i c =
  hset_ch n (app (firstn i (hn_ch n)) (c :: (skipn (S i) (hn_ch n))))

(** val forget : hnode -> node **)

let rec forget = function
| HNode (_, _, kl, key, ty, vi, _, vs, ch) ->
  Node (kl, key, ty, vi, vs, (map forget ch))

(** val bindh :
    (herr, 'a1) sum -> ('a1 -> (herr, 'a2) sum) -> (herr, 'a2) sum **)

let bindh x f =
  match x with
  | Inl e -> Inl e
  | Inr a -> f a

(** val destroy : heap -> hnode -> (herr, heap) sum **)

let rec destroy h = function
| HNode (id, kid, _, _, ty, _, sid, _, ch) ->
  bindh
    (if is_container ty
     then let rec go h0 = function
          | [] -> Inr h0
          | c :: l' -> bindh (destroy h0 c) (fun h' -> go h' l')
          in go h ch
     else Inr h) (fun h1 ->
    bindh (h_free_opt h1 kid) (fun h2 ->
      bindh (match ty with
             | TStr -> h_free_opt h2 sid
             | _ -> Inr h2) (fun h3 -> h_free h3 id)))

(** val destroy_list : heap -> hnode list -> (herr, heap) sum **)

let rec destroy_list h = function
| [] -> Inr h
| c :: l' -> bindh (destroy h c) (fun h' -> destroy_list h' l')

(** val hrenumber : z -> hnode list -> hnode list **)

let rec hrenumber i = function
| [] -> []
| h :: r ->
  let HNode (id, k, _, key, t, v, s, vs, c) = h in
  (HNode (id, k, i, key, t, v, s, vs, c)) :: (hrenumber (Z.add i (Zpos XH)) r)

(** val clone_h : heap -> bool -> node -> heap * hnode **)

let rec clone_h h wk = function
| Node (kl, key, ty, vi, vs, ch) ->
  let (id, h1) = h_alloc h in
  if wk
  then let (k, h') = h_alloc h1 in
       let kid = Some k in
       (match ty with
        | TNone ->
          let sid = None in
          let wk' = match ty with
                    | TObj -> true
                    | _ -> false in
          let (h4, ch') =
            if is_container ty
            then let rec go h0 = function
                 | [] -> (h0, [])
                 | c :: l' ->
                   let (h'0, c') = clone_h h0 wk' c in
                   let (h'', r') = go h'0 l' in (h'', (c' :: r'))
                 in go h' ch
            else (h', [])
          in
          (h4, (HNode (id, kid, kl,
          (if wk then firstn (Z.to_nat kl) key else []), ty, vi, sid, vs,
          (match ty with
           | TArr -> hrenumber Z0 ch'
           | _ -> ch'))))
        | TNull ->
          let sid = None in
          let wk' = match ty with
                    | TObj -> true
                    | _ -> false in
          let (h4, ch') =
            if is_container ty
            then let rec go h0 = function
                 | [] -> (h0, [])
                 | c :: l' ->
                   let (h'0, c') = clone_h h0 wk' c in
                   let (h'', r') = go h'0 l' in (h'', (c' :: r'))
                 in go h' ch
            else (h', [])
          in
          (h4, (HNode (id, kid, kl,
          (if wk then firstn (Z.to_nat kl) key else []), ty, vi, sid, vs,
          (match ty with
           | TArr -> hrenumber Z0 ch'
           | _ -> ch'))))
        | TBool ->
          let sid = None in
          let wk' = match ty with
                    | TObj -> true
                    | _ -> false in
          let (h4, ch') =
            if is_container ty
            then let rec go h0 = function
                 | [] -> (h0, [])
                 | c :: l' ->
                   let (h'0, c') = clone_h h0 wk' c in
                   let (h'', r') = go h'0 l' in (h'', (c' :: r'))
                 in go h' ch
            else (h', [])
          in
          (h4, (HNode (id, kid, kl,
          (if wk then firstn (Z.to_nat kl) key else []), ty, vi, sid, vs,
          (match ty with
           | TArr -> hrenumber Z0 ch'
           | _ -> ch'))))
        | TI64 ->
          let sid = None in
          let wk' = match ty with
                    | TObj -> true
                    | _ -> false in
          let (h4, ch') =
            if is_container ty
            then let rec go h0 = function
                 | [] -> (h0, [])
                 | c :: l' ->
                   let (h'0, c') = clone_h h0 wk' c in
                   let (h'', r') = go h'0 l' in (h'', (c' :: r'))
                 in go h' ch
            else (h', [])
          in
          (h4, (HNode (id, kid, kl,
          (if wk then firstn (Z.to_nat kl) key else []), ty, vi, sid, vs,
          (match ty with
           | TArr -> hrenumber Z0 ch'
           | _ -> ch'))))
        | TF64 ->
          let sid = None in
          let wk' = match ty with
                    | TObj -> true
                    | _ -> false in
          let (h4, ch') =
            if is_container ty
            then let rec go h0 = function
                 | [] -> (h0, [])
                 | c :: l' ->
                   let (h'0, c') = clone_h h0 wk' c in
                   let (h'', r') = go h'0 l' in (h'', (c' :: r'))
                 in go h' ch
            else (h', [])
          in
          (h4, (HNode (id, kid, kl,
          (if wk then firstn (Z.to_nat kl) key else []), ty, vi, sid, vs,
          (match ty with
           | TArr -> hrenumber Z0 ch'
           | _ -> ch'))))
        | TStr ->
          let (s, h'0) = h_alloc h' in
          let sid = Some s in
          let wk' = match ty with
                    | TObj -> true
                    | _ -> false in
          let (h4, ch') =
            if is_container ty
            then let rec go h0 = function
                 | [] -> (h0, [])
                 | c :: l' ->
                   let (h'1, c') = clone_h h0 wk' c in
                   let (h'', r') = go h'1 l' in (h'', (c' :: r'))
                 in go h'0 ch
            else (h'0, [])
          in
          (h4, (HNode (id, kid, kl,
          (if wk then firstn (Z.to_nat kl) key else []), ty, vi, sid, vs,
          (match ty with
           | TArr -> hrenumber Z0 ch'
           | _ -> ch'))))
        | _ ->
          let sid = None in
          let wk' = match ty with
                    | TObj -> true
                    | _ -> false in
          let (h4, ch') =
            if is_container ty
            then let rec go h0 = function
                 | [] -> (h0, [])
                 | c :: l' ->
                   let (h'0, c') = clone_h h0 wk' c in
                   let (h'', r') = go h'0 l' in (h'', (c' :: r'))
                 in go h' ch
            else (h', [])
          in
          (h4, (HNode (id, kid, kl,
          (if wk then firstn (Z.to_nat kl) key else []), ty, vi, sid, vs,
          (match ty with
           | TArr -> hrenumber Z0 ch'
           | _ -> ch')))))
  else let kid = None in
       (match ty with
        | TNone ->
          let sid = None in
          let wk' = match ty with
                    | TObj -> true
                    | _ -> false in
          let (h4, ch') =
            if is_container ty
            then let rec go h0 = function
                 | [] -> (h0, [])
                 | c :: l' ->
                   let (h', c') = clone_h h0 wk' c in
                   let (h'', r') = go h' l' in (h'', (c' :: r'))
                 in go h1 ch
            else (h1, [])
          in
          (h4, (HNode (id, kid, kl,
          (if wk then firstn (Z.to_nat kl) key else []), ty, vi, sid, vs,
          (match ty with
           | TArr -> hrenumber Z0 ch'
           | _ -> ch'))))
        | TNull ->
          let sid = None in
          let wk' = match ty with
                    | TObj -> true
                    | _ -> false in
          let (h4, ch') =
            if is_container ty
            then let rec go h0 = function
                 | [] -> (h0, [])
                 | c :: l' ->
                   let (h', c') = clone_h h0 wk' c in
                   let (h'', r') = go h' l' in (h'', (c' :: r'))
                 in go h1 ch
            else (h1, [])
          in
          (h4, (HNode (id, kid, kl,
          (if wk then firstn (Z.to_nat kl) key else []), ty, vi, sid, vs,
          (match ty with
           | TArr -> hrenumber Z0 ch'
           | _ -> ch'))))
        | TBool ->
          let sid = None in
          let wk' = match ty with
                    | TObj -> true
                    | _ -> false in
          let (h4, ch') =
            if is_container ty
            then let rec go h0 = function
                 | [] -> (h0, [])
                 | c :: l' ->
                   let (h', c') = clone_h h0 wk' c in
                   let (h'', r') = go h' l' in (h'', (c' :: r'))
                 in go h1 ch
            else (h1, [])
          in
          (h4, (HNode (id, kid, kl,
          (if wk then firstn (Z.to_nat kl) key else []), ty, vi, sid, vs,
          (match ty with
           | TArr -> hrenumber Z0 ch'
           | _ -> ch'))))
        | TI64 ->
          let sid = None in
          let wk' = match ty with
                    | TObj -> true
                    | _ -> false in
          let (h4, ch') =
            if is_container ty
            then let rec go h0 = function
                 | [] -> (h0, [])
                 | c :: l' ->
                   let (h', c') = clone_h h0 wk' c in
                   let (h'', r') = go h' l' in (h'', (c' :: r'))
                 in go h1 ch
            else (h1, [])
          in
          (h4, (HNode (id, kid, kl,
          (if wk then firstn (Z.to_nat kl) key else []), ty, vi, sid, vs,
          (match ty with
           | TArr -> hrenumber Z0 ch'
           | _ -> ch'))))
        | TF64 ->
          let sid = None in
          let wk' = match ty with
                    | TObj -> true
                    | _ -> false in
          let (h4, ch') =
            if is_container ty
            then let rec go h0 = function
                 | [] -> (h0, [])
                 | c :: l' ->
                   let (h', c') = clone_h h0 wk' c in
                   let (h'', r') = go h' l' in (h'', (c' :: r'))
                 in go h1 ch
            else (h1, [])
          in
          (h4, (HNode (id, kid, kl,
          (if wk then firstn (Z.to_nat kl) key else []), ty, vi, sid, vs,
          (match ty with
           | TArr -> hrenumber Z0 ch'
           | _ -> ch'))))
        | TStr ->
          let (s, h') = h_alloc h1 in
          let sid = Some s in
          let wk' = match ty with
                    | TObj -> true
                    | _ -> false in
          let (h4, ch') =
            if is_container ty
            then let rec go h0 = function
                 | [] -> (h0, [])
                 | c :: l' ->
                   let (h'0, c') = clone_h h0 wk' c in
                   let (h'', r') = go h'0 l' in (h'', (c' :: r'))
                 in go h' ch
            else (h', [])
          in
          (h4, (HNode (id, kid, kl,
          (if wk then firstn (Z.to_nat kl) key else []), ty, vi, sid, vs,
          (match ty with
           | TArr -> hrenumber Z0 ch'
           | _ -> ch'))))
        | _ ->
          let sid = None in
          let wk' = match ty with
                    | TObj -> true
                    | _ -> false in
          let (h4, ch') =
            if is_container ty
            then let rec go h0 = function
                 | [] -> (h0, [])
                 | c :: l' ->
                   let (h', c') = clone_h h0 wk' c in
                   let (h'', r') = go h' l' in (h'', (c' :: r'))
                 in go h1 ch
            else (h1, [])
          in
          (h4, (HNode (id, kid, kl,
          (if wk then firstn (Z.to_nat kl) key else []), ty, vi, sid, vs,
          (match ty with
           | TArr -> hrenumber Z0 ch'
           | _ -> ch')))))

(** val hfind : heap -> node -> hnode list -> (herr, nat option) sum **)

let rec hfind h pc = function
| [] -> Inr None
| c :: r ->
  if Z.eqb (hn_kl c) (n_kl pc)
  then bindh (h_use h (hn_kid c)) (fun _ ->
         if strncmp_eq (hn_key c) (n_key pc) (Z.to_nat (hn_kl c))
         then Inr (Some O)
         else bindh (hfind h pc r) (fun o -> Inr
                (match o with
                 | Some i -> Some (S i)
                 | None -> None)))
  else bindh (hfind h pc r) (fun o -> Inr
         (match o with
          | Some i -> Some (S i)
          | None -> None))

(** val merge_h : heap -> hnode option -> node -> (herr, heap * hnode) sum **)

let rec merge_h h t p = match p with
| Node (pkl, pkey, pty, _, _, pch) ->
  (match pty with
   | TObj ->
     bindh
       (match t with
        | Some h0 ->
          let HNode (id, kid, kl, key, ty, vi, sid, vs, ch) = h0 in
          (match ty with
           | TStr ->
             bindh (h_free_opt h sid) (fun h1 -> Inr (h1, (HNode (id, kid,
               kl, key, TObj, Z0, None, [], []))))
           | TObj -> Inr (h, (HNode (id, kid, kl, key, ty, vi, sid, vs, ch)))
           | TArr ->
             bindh (destroy_list h ch) (fun h1 -> Inr (h1, (HNode (id, kid,
               kl, key, TObj, Z0, None, [], []))))
           | _ -> Inr (h, (HNode (id, kid, kl, key, TObj, Z0, None, [], []))))
        | None ->
          let (id, h1) = h_alloc h in
          let (kid, h2) = h_alloc h1 in
          Inr (h2, (HNode (id, (Some kid), pkl, pkey, TObj, Z0, None, [],
          [])))) (fun ht0 ->
       let rec go h0 tgt = function
       | [] -> Inr (h0, tgt)
       | pc :: l' ->
         bindh
           (bindh (hfind h0 pc (hn_ch tgt)) (fun pos ->
             match n_ty pc with
             | TNone ->
               (match pos with
                | Some i ->
                  (match nth_error (hn_ch tgt) i with
                   | Some c ->
                     bindh
                       (match hn_ty c with
                        | TStr ->
                          (match n_ty pc with
                           | TObj -> Inr h0
                           | _ -> h_free_opt h0 (hn_sid c))
                        | _ -> Inr h0) (fun h1 ->
                       bindh (merge_h h1 (Some c) pc) (fun hs ->
                         let (h2, src) = hs in
                         (match n_ty pc with
                          | TObj -> Inr (h2, (hset_child tgt i src))
                          | _ ->
                            bindh
                              (if is_container (hn_ty c)
                               then destroy_list h2 (hn_ch c)
                               else Inr h2) (fun h3 ->
                              let c' =
                                let HNode (id, kid, kl, key, _, _, _, _, _) =
                                  c
                                in
                                HNode (id, kid, kl, key, (hn_ty src),
                                (hn_vi src), (hn_sid src), (hn_vs src),
                                (hn_ch src))
                              in
                              bindh (h_free_opt h3 (hn_kid src)) (fun h4 ->
                                bindh (h_free h4 (hn_id src)) (fun h5 -> Inr
                                  (h5, (hset_child tgt i c'))))))))
                   | None -> Inr (h0, tgt))
                | None ->
                  bindh (merge_h h0 None pc) (fun hs ->
                    let (h1, nn) = hs in
                    Inr (h1, (hset_ch tgt (app (hn_ch tgt) (nn :: []))))))
             | TNull ->
               (match pos with
                | Some i ->
                  (match nth_error (hn_ch tgt) i with
                   | Some c ->
                     bindh (destroy h0 c) (fun h1 -> Inr (h1,
                       (hset_ch tgt
                         (app (firstn i (hn_ch tgt))
                           (skipn (S i) (hn_ch tgt))))))
                   | None -> Inr (h0, tgt))
                | None -> Inr (h0, tgt))
             | TBool ->
               (match pos with
                | Some i ->
                  (match nth_error (hn_ch tgt) i with
                   | Some c ->
                     bindh
                       (match hn_ty c with
                        | TStr ->
                          (match n_ty pc with
                           | TObj -> Inr h0
                           | _ -> h_free_opt h0 (hn_sid c))
                        | _ -> Inr h0) (fun h1 ->
                       bindh (merge_h h1 (Some c) pc) (fun hs ->
                         let (h2, src) = hs in
                         (match n_ty pc with
                          | TObj -> Inr (h2, (hset_child tgt i src))
                          | _ ->
                            bindh
                              (if is_container (hn_ty c)
                               then destroy_list h2 (hn_ch c)
                               else Inr h2) (fun h3 ->
                              let c' =
                                let HNode (id, kid, kl, key, _, _, _, _, _) =
                                  c
                                in
                                HNode (id, kid, kl, key, (hn_ty src),
                                (hn_vi src), (hn_sid src), (hn_vs src),
                                (hn_ch src))
                              in
                              bindh (h_free_opt h3 (hn_kid src)) (fun h4 ->
                                bindh (h_free h4 (hn_id src)) (fun h5 -> Inr
                                  (h5, (hset_child tgt i c'))))))))
                   | None -> Inr (h0, tgt))
                | None ->
                  bindh (merge_h h0 None pc) (fun hs ->
                    let (h1, nn) = hs in
                    Inr (h1, (hset_ch tgt (app (hn_ch tgt) (nn :: []))))))
             | TI64 ->
               (match pos with
                | Some i ->
                  (match nth_error (hn_ch tgt) i with
                   | Some c ->
                     bindh
                       (match hn_ty c with
                        | TStr ->
                          (match n_ty pc with
                           | TObj -> Inr h0
                           | _ -> h_free_opt h0 (hn_sid c))
                        | _ -> Inr h0) (fun h1 ->
                       bindh (merge_h h1 (Some c) pc) (fun hs ->
                         let (h2, src) = hs in
                         (match n_ty pc with
                          | TObj -> Inr (h2, (hset_child tgt i src))
                          | _ ->
                            bindh
                              (if is_container (hn_ty c)
                               then destroy_list h2 (hn_ch c)
                               else Inr h2) (fun h3 ->
                              let c' =
                                let HNode (id, kid, kl, key, _, _, _, _, _) =
                                  c
                                in
                                HNode (id, kid, kl, key, (hn_ty src),
                                (hn_vi src), (hn_sid src), (hn_vs src),
                                (hn_ch src))
                              in
                              bindh (h_free_opt h3 (hn_kid src)) (fun h4 ->
                                bindh (h_free h4 (hn_id src)) (fun h5 -> Inr
                                  (h5, (hset_child tgt i c'))))))))
                   | None -> Inr (h0, tgt))
                | None ->
                  bindh (merge_h h0 None pc) (fun hs ->
                    let (h1, nn) = hs in
                    Inr (h1, (hset_ch tgt (app (hn_ch tgt) (nn :: []))))))
             | TF64 ->
               (match pos with
                | Some i ->
                  (match nth_error (hn_ch tgt) i with
                   | Some c ->
                     bindh
                       (match hn_ty c with
                        | TStr ->
                          (match n_ty pc with
                           | TObj -> Inr h0
                           | _ -> h_free_opt h0 (hn_sid c))
                        | _ -> Inr h0) (fun h1 ->
                       bindh (merge_h h1 (Some c) pc) (fun hs ->
                         let (h2, src) = hs in
                         (match n_ty pc with
                          | TObj -> Inr (h2, (hset_child tgt i src))
                          | _ ->
                            bindh
                              (if is_container (hn_ty c)
                               then destroy_list h2 (hn_ch c)
                               else Inr h2) (fun h3 ->
                              let c' =
                                let HNode (id, kid, kl, key, _, _, _, _, _) =
                                  c
                                in
                                HNode (id, kid, kl, key, (hn_ty src),
                                (hn_vi src), (hn_sid src), (hn_vs src),
                                (hn_ch src))
                              in
                              bindh (h_free_opt h3 (hn_kid src)) (fun h4 ->
                                bindh (h_free h4 (hn_id src)) (fun h5 -> Inr
                                  (h5, (hset_child tgt i c'))))))))
                   | None -> Inr (h0, tgt))
                | None ->
                  bindh (merge_h h0 None pc) (fun hs ->
                    let (h1, nn) = hs in
                    Inr (h1, (hset_ch tgt (app (hn_ch tgt) (nn :: []))))))
             | TStr ->
               (match pos with
                | Some i ->
                  (match nth_error (hn_ch tgt) i with
                   | Some c ->
                     bindh
                       (match hn_ty c with
                        | TStr ->
                          (match n_ty pc with
                           | TObj -> Inr h0
                           | _ -> h_free_opt h0 (hn_sid c))
                        | _ -> Inr h0) (fun h1 ->
                       bindh (merge_h h1 (Some c) pc) (fun hs ->
                         let (h2, src) = hs in
                         (match n_ty pc with
                          | TObj -> Inr (h2, (hset_child tgt i src))
                          | _ ->
                            bindh
                              (if is_container (hn_ty c)
                               then destroy_list h2 (hn_ch c)
                               else Inr h2) (fun h3 ->
                              let c' =
                                let HNode (id, kid, kl, key, _, _, _, _, _) =
                                  c
                                in
                                HNode (id, kid, kl, key, (hn_ty src),
                                (hn_vi src), (hn_sid src), (hn_vs src),
                                (hn_ch src))
                              in
                              bindh (h_free_opt h3 (hn_kid src)) (fun h4 ->
                                bindh (h_free h4 (hn_id src)) (fun h5 -> Inr
                                  (h5, (hset_child tgt i c'))))))))
                   | None -> Inr (h0, tgt))
                | None ->
                  bindh (merge_h h0 None pc) (fun hs ->
                    let (h1, nn) = hs in
                    Inr (h1, (hset_ch tgt (app (hn_ch tgt) (nn :: []))))))
             | TObj ->
               (match pos with
                | Some i ->
                  (match nth_error (hn_ch tgt) i with
                   | Some c ->
                     bindh
                       (match hn_ty c with
                        | TStr ->
                          (match n_ty pc with
                           | TObj -> Inr h0
                           | _ -> h_free_opt h0 (hn_sid c))
                        | _ -> Inr h0) (fun h1 ->
                       bindh (merge_h h1 (Some c) pc) (fun hs ->
                         let (h2, src) = hs in
                         (match n_ty pc with
                          | TObj -> Inr (h2, (hset_child tgt i src))
                          | _ ->
                            bindh
                              (if is_container (hn_ty c)
                               then destroy_list h2 (hn_ch c)
                               else Inr h2) (fun h3 ->
                              let c' =
                                let HNode (id, kid, kl, key, _, _, _, _, _) =
                                  c
                                in
                                HNode (id, kid, kl, key, (hn_ty src),
                                (hn_vi src), (hn_sid src), (hn_vs src),
                                (hn_ch src))
                              in
                              bindh (h_free_opt h3 (hn_kid src)) (fun h4 ->
                                bindh (h_free h4 (hn_id src)) (fun h5 -> Inr
                                  (h5, (hset_child tgt i c'))))))))
                   | None -> Inr (h0, tgt))
                | None ->
                  bindh (merge_h h0 None pc) (fun hs ->
                    let (h1, nn) = hs in
                    Inr (h1, (hset_ch tgt (app (hn_ch tgt) (nn :: []))))))
             | TArr ->
               (match pos with
                | Some i ->
                  (match nth_error (hn_ch tgt) i with
                   | Some c ->
                     bindh
                       (match hn_ty c with
                        | TStr ->
                          (match n_ty pc with
                           | TObj -> Inr h0
                           | _ -> h_free_opt h0 (hn_sid c))
                        | _ -> Inr h0) (fun h1 ->
                       bindh (merge_h h1 (Some c) pc) (fun hs ->
                         let (h2, src) = hs in
                         (match n_ty pc with
                          | TObj -> Inr (h2, (hset_child tgt i src))
                          | _ ->
                            bindh
                              (if is_container (hn_ty c)
                               then destroy_list h2 (hn_ch c)
                               else Inr h2) (fun h3 ->
                              let c' =
                                let HNode (id, kid, kl, key, _, _, _, _, _) =
                                  c
                                in
                                HNode (id, kid, kl, key, (hn_ty src),
                                (hn_vi src), (hn_sid src), (hn_vs src),
                                (hn_ch src))
                              in
                              bindh (h_free_opt h3 (hn_kid src)) (fun h4 ->
                                bindh (h_free h4 (hn_id src)) (fun h5 -> Inr
                                  (h5, (hset_child tgt i c'))))))))
                   | None -> Inr (h0, tgt))
                | None ->
                  bindh (merge_h h0 None pc) (fun hs ->
                    let (h1, nn) = hs in
                    Inr (h1, (hset_ch tgt (app (hn_ch tgt) (nn :: []))))))))
           (fun ht -> let (h', tgt') = ht in go h' tgt' l')
       in go (fst ht0) (snd ht0) pch)
   | _ -> Inr (clone_h h true p))

(** val jbn_merge_patch_heap :
    heap -> hnode -> node -> (herr, (rc * heap) * hnode) sum **)

let jbn_merge_patch_heap h root patch =
  match hn_ty root with
  | TObj ->
    (match n_ty patch with
     | TObj ->
       bindh (merge_h h (Some root) patch) (fun hs -> Inr ((RcOk, (fst hs)),
         (snd hs)))
     | _ -> Inr ((RcInvArgs, h), root))
  | _ -> Inr ((RcInvArgs, h), root)

(** val jbn_merge_patch_path_heap :
    heap -> hnode -> z list -> node option -> (herr, (rc * heap) * hnode) sum **)

let jbn_merge_patch_path_heap h root path v =
  match merge_patch_create path v with
  | Inl e -> Inr ((e, h), root)
  | Inr o ->
    (match o with
     | Some p -> jbn_merge_patch_heap h root p
     | None -> Inr ((RcInvArgs, h), root))

(** val heap_of : node -> heap * hnode **)

let heap_of doc =
  clone_h h_empty false doc

type sseg = z list

(** val s_is_dash : sseg -> bool **)

let s_is_dash = function
| [] -> false
| z0 :: l ->
  (match z0 with
   | Zpos p ->
     (match p with
      | XI p0 ->
        (match p0 with
         | XO p1 ->
           (match p1 with
            | XI p2 ->
              (match p2 with
               | XI p3 ->
                 (match p3 with
                  | XO p4 ->
                    (match p4 with
                     | XH -> (match l with
                              | [] -> true
                              | _ :: _ -> false)
                     | _ -> false)
                  | _ -> false)
               | _ -> false)
            | _ -> false)
         | _ -> false)
      | _ -> false)
   | _ -> false)

type cfg = { c_look : (sseg -> z option); c_ins : (sseg -> z option);
             c_lenient : bool }

(** val is_digit : z -> bool **)

let is_digit c =
  (&&) (Z.leb (Zpos (XO (XO (XO (XO (XI XH)))))) c)
    (Z.leb c (Zpos (XI (XO (XO (XI (XI XH)))))))

(** val dec_val : sseg -> z **)

let dec_val s =
  fold_left (fun a c ->
    Z.add (Z.mul a (Zpos (XO (XI (XO XH)))))
      (Z.sub c (Zpos (XO (XO (XO (XO (XI XH)))))))) s Z0

(** val strict_idx : sseg -> z option **)

let strict_idx s = match s with
| [] -> None
| c :: r ->
  if Z.eqb c (Zpos (XO (XO (XO (XO (XI XH))))))
  then (match r with
        | [] -> Some Z0
        | _ :: _ -> None)
  else if (&&) (forallb is_digit s)
            (Nat.leb (length s) (S (S (S (S (S (S (S (S (S O))))))))))
       then Some (dec_val s)
       else None

(** val strict : cfg **)

let strict =
  { c_look = strict_idx; c_ins = strict_idx; c_lenient = false }

(** val lenient : cfg **)

let lenient =
  { c_look = (fun s -> Some (atoi s)); c_ins = (fun s -> Some
    (sw (Zpos (XO (XO (XO (XO (XO XH)))))) (atoi s))); c_lenient = true }

(** val lookup : sseg -> (sseg * jval) list -> jval option **)

let rec lookup k = function
| [] -> None
| p :: r -> let (k', v) = p in if bytes_eqb k' k then Some v else lookup k r

(** val set_member :
    sseg -> jval -> (sseg * jval) list -> (sseg * jval) list **)

let rec set_member k x = function
| [] -> []
| p :: r ->
  let (k', v) = p in
  if bytes_eqb k' k then (k', x) :: r else (k', v) :: (set_member k x r)

(** val remove_member : sseg -> (sseg * jval) list -> (sseg * jval) list **)

let rec remove_member k = function
| [] -> []
| p :: r ->
  let (k', v) = p in
  if bytes_eqb k' k then r else (k', v) :: (remove_member k r)

(** val aidx : cfg -> jval list -> sseg -> nat option **)

let aidx c l s =
  if s_is_dash s
  then if c.c_lenient
       then (match l with
             | [] -> None
             | _ :: _ -> Some (pred (length l)))
       else None
  else (match c.c_look s with
        | Some i ->
          if (&&) (Z.leb Z0 i) (Z.ltb i (Z.of_nat (length l)))
          then Some (Z.to_nat i)
          else None
        | None -> None)

(** val jget : cfg -> jval -> sseg list -> jval option **)

let rec jget c v = function
| [] -> Some v
| s :: r ->
  (match v with
   | JArr l ->
     (match aidx c l s with
      | Some i ->
        (match nth_error l i with
         | Some x -> jget c x r
         | None -> None)
      | None -> None)
   | JObj ms -> (match lookup s ms with
                 | Some x -> jget c x r
                 | None -> None)
   | _ -> None)

(** val jmod :
    cfg -> jval -> sseg list -> (jval -> sseg -> jval option) -> jval option **)

let rec jmod c v p f =
  match p with
  | [] -> None
  | s :: r ->
    (match r with
     | [] -> f v s
     | _ :: _ ->
       (match v with
        | JArr l ->
          (match aidx c l s with
           | Some i ->
             (match nth_error l i with
              | Some x ->
                (match jmod c x r f with
                 | Some x' ->
                   Some (JArr (app (firstn i l) (x' :: (skipn (S i) l))))
                 | None -> None)
              | None -> None)
           | None -> None)
        | JObj ms ->
          (match lookup s ms with
           | Some x ->
             (match jmod c x r f with
              | Some x' -> Some (JObj (set_member s x' ms))
              | None -> None)
           | None -> None)
        | _ -> None))

(** val remove_here : cfg -> jval -> sseg -> jval option **)

let remove_here c parent s =
  match parent with
  | JArr l ->
    (match aidx c l s with
     | Some i -> Some (JArr (app (firstn i l) (skipn (S i) l)))
     | None -> None)
  | JObj ms ->
    (match lookup s ms with
     | Some _ -> Some (JObj (remove_member s ms))
     | None -> None)
  | _ -> None

(** val add_here : cfg -> jval -> jval -> sseg -> jval option **)

let add_here c x parent s =
  match parent with
  | JArr l ->
    if s_is_dash s
    then Some (JArr (app l (x :: [])))
    else (match c.c_ins s with
          | Some i ->
            if (&&) (Z.leb Z0 i) (Z.leb i (Z.of_nat (length l)))
            then Some (JArr
                   (app (firstn (Z.to_nat i) l) (x :: (skipn (Z.to_nat i) l))))
            else None
          | None -> None)
  | JObj ms ->
    Some (JObj
      (match lookup s ms with
       | Some _ -> set_member s x ms
       | None -> app ms ((s, x) :: [])))
  | _ -> None

(** val s_remove : cfg -> jval -> sseg list -> jval option **)

let s_remove c v p =
  jmod c v p (remove_here c)

(** val s_add : cfg -> jval -> sseg list -> jval -> jval option **)

let s_add c v p x =
  jmod c v p (add_here c x)

(** val jeq : (z -> z -> bool) -> jval -> jval -> bool **)

let rec jeq feq a b =
  match a with
  | JNull -> (match b with
              | JNull -> true
              | _ -> false)
  | JBool x -> (match b with
                | JBool y -> eqb x y
                | _ -> false)
  | JI64 x -> (match b with
               | JI64 y -> Z.eqb x y
               | _ -> false)
  | JF64 x -> (match b with
               | JF64 y -> feq x y
               | _ -> false)
  | JStr x -> (match b with
               | JStr y -> bytes_eqb x y
               | _ -> false)
  | JArr xs ->
    (match b with
     | JArr ys ->
       let rec go l m =
         match l with
         | [] -> (match m with
                  | [] -> true
                  | _ :: _ -> false)
         | x :: l' ->
           (match m with
            | [] -> false
            | y :: m' -> (&&) (jeq feq x y) (go l' m'))
       in go xs ys
     | _ -> false)
  | JObj xs ->
    (match b with
     | JObj ys ->
       (&&) (Z.eqb (Z.of_nat (length xs)) (Z.of_nat (length ys)))
         (let rec go = function
          | [] -> true
          | p :: l' ->
            let (k, x) = p in
            (&&)
              (match lookup k ys with
               | Some y -> jeq feq x y
               | None -> false) (go l')
          in go xs)
     | _ -> false)

type sopk =
| SNone
| SAdd
| SRemove
| SReplace
| SCopy
| SMove
| STest
| SIncrement
| SAddCreate
| SSwap

type sop = { s_op : sopk; s_path : sseg list; s_from : sseg list option;
             s_val : jval option }

(** val seg_prefix : sseg list -> sseg list -> bool **)

let rec seg_prefix a b =
  match a with
  | [] -> true
  | x :: a' ->
    (match b with
     | [] -> false
     | y :: b' -> (&&) (bytes_eqb x y) (seg_prefix a' b'))

(** val proper_prefix : sseg list -> sseg list -> bool **)

let proper_prefix a b =
  (&&) (seg_prefix a b) (negb (seg_prefix b a))

(** val s_is_root : cfg -> sseg list -> bool **)

let s_is_root c = function
| [] -> true
| s :: l ->
  (match s with
   | [] -> (match l with
            | [] -> c.c_lenient
            | _ :: _ -> false)
   | _ :: _ -> false)

(** val rfc_op :
    cfg -> (z -> z -> bool) -> jval option -> sop -> jval option option **)

let rfc_op c feq d o =
  let path = o.s_path in
  (match o.s_op with
   | SAdd ->
     (match o.s_val with
      | Some v ->
        if s_is_root c path
        then Some (Some v)
        else (match d with
              | Some dv -> option_map (fun x -> Some x) (s_add c dv path v)
              | None -> None)
      | None -> None)
   | SRemove ->
     if s_is_root c path
     then Some None
     else (match d with
           | Some dv -> option_map (fun x -> Some x) (s_remove c dv path)
           | None -> None)
   | SReplace ->
     (match o.s_val with
      | Some v ->
        if s_is_root c path
        then Some (Some v)
        else (match d with
              | Some dv ->
                (match s_remove c dv path with
                 | Some d1 -> option_map (fun x -> Some x) (s_add c d1 path v)
                 | None -> None)
              | None -> None)
      | None -> None)
   | SCopy ->
     (match o.s_from with
      | Some f ->
        (match d with
         | Some dv ->
           if s_is_root c path
           then if c.c_lenient
                then Some d
                else (match jget c dv f with
                      | Some x -> Some (Some x)
                      | None -> None)
           else (match jget c dv f with
                 | Some x ->
                   option_map (fun x0 -> Some x0) (s_add c dv path x)
                 | None -> None)
         | None ->
           if (&&) (s_is_root c path) c.c_lenient then Some d else None)
      | None -> if (&&) (s_is_root c path) c.c_lenient then Some d else None)
   | SMove ->
     (match o.s_from with
      | Some f ->
        (match d with
         | Some dv ->
           if s_is_root c path
           then if c.c_lenient
                then Some d
                else (match jget c dv f with
                      | Some x -> Some (Some x)
                      | None -> None)
           else if (&&) (negb c.c_lenient) (proper_prefix f path)
                then None
                else (match jget c dv f with
                      | Some x ->
                        (match s_remove c dv f with
                         | Some d1 ->
                           option_map (fun x0 -> Some x0) (s_add c d1 path x)
                         | None -> None)
                      | None -> None)
         | None ->
           if (&&) (s_is_root c path) c.c_lenient then Some d else None)
      | None -> if (&&) (s_is_root c path) c.c_lenient then Some d else None)
   | STest ->
     (match o.s_val with
      | Some v ->
        (match if s_is_root c path
               then d
               else (match d with
                     | Some dv -> jget c dv path
                     | None -> None) with
         | Some x -> if jeq feq x v then Some d else None
         | None -> None)
      | None -> None)
   | _ -> None)

(** val rfc_program :
    cfg -> (z -> z -> bool) -> jval option -> sop list -> jval option option **)

let rec rfc_program c feq d = function
| [] -> Some d
| o :: l' ->
  (match rfc_op c feq d o with
   | Some d' -> rfc_program c feq d' l'
   | None -> None)

(** val merge_spec : jval option -> jval -> jval **)

let rec merge_spec t p = match p with
| JObj pms ->
  JObj
    (let rec go tm = function
     | [] -> tm
     | p0 :: l' ->
       let (k, pv) = p0 in
       go
         (match pv with
          | JNull -> remove_member k tm
          | _ ->
            (match lookup k tm with
             | Some x -> set_member k (merge_spec (Some x) pv) tm
             | None -> app tm ((k, (merge_spec None pv)) :: []))) l'
     in go
          (match t with
           | Some j ->
             (match j with
              | JNull -> []
              | JBool _ -> []
              | JI64 _ -> []
              | JF64 _ -> []
              | JStr _ -> []
              | JArr _ -> []
              | JObj ms -> ms)
           | None -> []) pms)
| _ -> p
