
(** val negb : bool -> bool **)

let negb = function
| true -> false
| false -> true

type nat =
| O
| S of nat

(** val option_map : ('a1 -> 'a2) -> 'a1 option -> 'a2 option **)

let option_map f = function
| Some a -> Some (f a)
| None -> None

(** val fst : ('a1 * 'a2) -> 'a1 **)

let fst = function
| (x, _) -> x

(** val snd : ('a1 * 'a2) -> 'a2 **)

let snd = function
| (_, y) -> y

(** val length : 'a1 list -> nat **)

let rec length = function
| [] -> O
| _ :: l' -> S (length l')

(** val app : 'a1 list -> 'a1 list -> 'a1 list **)

let rec app l m =
  match l with
  | [] -> m
  | a :: l1 -> a :: (app l1 m)

type comparison =
| Eq
| Lt
| Gt

(** val compOpp : comparison -> comparison **)

let compOpp = function
| Eq -> Eq
| Lt -> Gt
| Gt -> Lt

module Coq__1 = struct
 (** val add : nat -> nat -> nat **)
 let rec add n0 m =
   match n0 with
   | O -> m
   | S p -> S (add p m)
end
include Coq__1

type positive =
| XI of positive
| XO of positive
| XH

type n =
| N0
| Npos of positive

type z =
| Z0
| Zpos of positive
| Zneg of positive

module Pos =
 struct
  (** val succ : positive -> positive **)

  let rec succ = function
  | XI p -> XO (succ p)
  | XO p -> XI p
  | XH -> XO XH

  (** val add : positive -> positive -> positive **)

  let rec add x y =
    match x with
    | XI p ->
      (match y with
       | XI q -> XO (add_carry p q)
       | XO q -> XI (add p q)
       | XH -> XO (succ p))
    | XO p ->
      (match y with
       | XI q -> XI (add p q)
       | XO q -> XO (add p q)
       | XH -> XI p)
    | XH -> (match y with
             | XI q -> XO (succ q)
             | XO q -> XI q
             | XH -> XO XH)

  (** val add_carry : positive -> positive -> positive **)

  and add_carry x y =
    match x with
    | XI p ->
      (match y with
       | XI q -> XI (add_carry p q)
       | XO q -> XO (add_carry p q)
       | XH -> XI (succ p))
    | XO p ->
      (match y with
       | XI q -> XO (add_carry p q)
       | XO q -> XI (add p q)
       | XH -> XO (succ p))
    | XH ->
      (match y with
       | XI q -> XI (succ q)
       | XO q -> XO (succ q)
       | XH -> XI XH)

  (** val pred_double : positive -> positive **)

  let rec pred_double = function
  | XI p -> XI (XO p)
  | XO p -> XI (pred_double p)
  | XH -> XH

  (** val pred_N : positive -> n **)

  let pred_N = function
  | XI p -> Npos (XO p)
  | XO p -> Npos (pred_double p)
  | XH -> N0

  (** val mul : positive -> positive -> positive **)

  let rec mul x y =
    match x with
    | XI p -> add y (XO (mul p y))
    | XO p -> XO (mul p y)
    | XH -> y

  (** val iter : ('a1 -> 'a1) -> 'a1 -> positive -> 'a1 **)

  let rec iter f x = function
  | XI n' -> f (iter f (iter f x n') n')
  | XO n' -> iter f (iter f x n') n'
  | XH -> f x

  (** val compare_cont : comparison -> positive -> positive -> comparison **)

  let rec compare_cont r x y =
    match x with
    | XI p ->
      (match y with
       | XI q -> compare_cont r p q
       | XO q -> compare_cont Gt p q
       | XH -> Gt)
    | XO p ->
      (match y with
       | XI q -> compare_cont Lt p q
       | XO q -> compare_cont r p q
       | XH -> Gt)
    | XH -> (match y with
             | XH -> r
             | _ -> Lt)

  (** val compare : positive -> positive -> comparison **)

  let compare =
    compare_cont Eq

  (** val eqb : positive -> positive -> bool **)

  let rec eqb p q =
    match p with
    | XI p0 -> (match q with
                | XI q0 -> eqb p0 q0
                | _ -> false)
    | XO p0 -> (match q with
                | XO q0 -> eqb p0 q0
                | _ -> false)
    | XH -> (match q with
             | XH -> true
             | _ -> false)

  (** val coq_Nsucc_double : n -> n **)

  let coq_Nsucc_double = function
  | N0 -> Npos XH
  | Npos p -> Npos (XI p)

  (** val coq_Ndouble : n -> n **)

  let coq_Ndouble = function
  | N0 -> N0
  | Npos p -> Npos (XO p)

  (** val coq_lor : positive -> positive -> positive **)

  let rec coq_lor p q =
    match p with
    | XI p0 ->
      (match q with
       | XI q0 -> XI (coq_lor p0 q0)
       | XO q0 -> XI (coq_lor p0 q0)
       | XH -> p)
    | XO p0 ->
      (match q with
       | XI q0 -> XI (coq_lor p0 q0)
       | XO q0 -> XO (coq_lor p0 q0)
       | XH -> XI p0)
    | XH -> (match q with
             | XO q0 -> XI q0
             | _ -> q)

  (** val coq_land : positive -> positive -> n **)

  let rec coq_land p q =
    match p with
    | XI p0 ->
      (match q with
       | XI q0 -> coq_Nsucc_double (coq_land p0 q0)
       | XO q0 -> coq_Ndouble (coq_land p0 q0)
       | XH -> Npos XH)
    | XO p0 ->
      (match q with
       | XI q0 -> coq_Ndouble (coq_land p0 q0)
       | XO q0 -> coq_Ndouble (coq_land p0 q0)
       | XH -> N0)
    | XH -> (match q with
             | XO _ -> N0
             | _ -> Npos XH)

  (** val ldiff : positive -> positive -> n **)

  let rec ldiff p q =
    match p with
    | XI p0 ->
      (match q with
       | XI q0 -> coq_Ndouble (ldiff p0 q0)
       | XO q0 -> coq_Nsucc_double (ldiff p0 q0)
       | XH -> Npos (XO p0))
    | XO p0 ->
      (match q with
       | XI q0 -> coq_Ndouble (ldiff p0 q0)
       | XO q0 -> coq_Ndouble (ldiff p0 q0)
       | XH -> Npos p)
    | XH -> (match q with
             | XO _ -> Npos XH
             | _ -> N0)

  (** val iter_op : ('a1 -> 'a1 -> 'a1) -> positive -> 'a1 -> 'a1 **)

  let rec iter_op op p a =
    match p with
    | XI p0 -> op a (iter_op op p0 (op a a))
    | XO p0 -> iter_op op p0 (op a a)
    | XH -> a

  (** val to_nat : positive -> nat **)

  let to_nat x =
    iter_op Coq__1.add x (S O)

  (** val of_succ_nat : nat -> positive **)

  let rec of_succ_nat = function
  | O -> XH
  | S x -> succ (of_succ_nat x)
 end

module N =
 struct
  (** val succ_pos : n -> positive **)

  let succ_pos = function
  | N0 -> XH
  | Npos p -> Pos.succ p

  (** val coq_lor : n -> n -> n **)

  let coq_lor n0 m =
    match n0 with
    | N0 -> m
    | Npos p -> (match m with
                 | N0 -> n0
                 | Npos q -> Npos (Pos.coq_lor p q))

  (** val coq_land : n -> n -> n **)

  let coq_land n0 m =
    match n0 with
    | N0 -> N0
    | Npos p -> (match m with
                 | N0 -> N0
                 | Npos q -> Pos.coq_land p q)

  (** val ldiff : n -> n -> n **)

  let ldiff n0 m =
    match n0 with
    | N0 -> N0
    | Npos p -> (match m with
                 | N0 -> n0
                 | Npos q -> Pos.ldiff p q)
 end

module Z =
 struct
  (** val double : z -> z **)

  let double = function
  | Z0 -> Z0
  | Zpos p -> Zpos (XO p)
  | Zneg p -> Zneg (XO p)

  (** val succ_double : z -> z **)

  let succ_double = function
  | Z0 -> Zpos XH
  | Zpos p -> Zpos (XI p)
  | Zneg p -> Zneg (Pos.pred_double p)

  (** val pred_double : z -> z **)

  let pred_double = function
  | Z0 -> Zneg XH
  | Zpos p -> Zpos (Pos.pred_double p)
  | Zneg p -> Zneg (XI p)

  (** val pos_sub : positive -> positive -> z **)

  let rec pos_sub x y =
    match x with
    | XI p ->
      (match y with
       | XI q -> double (pos_sub p q)
       | XO q -> succ_double (pos_sub p q)
       | XH -> Zpos (XO p))
    | XO p ->
      (match y with
       | XI q -> pred_double (pos_sub p q)
       | XO q -> double (pos_sub p q)
       | XH -> Zpos (Pos.pred_double p))
    | XH ->
      (match y with
       | XI q -> Zneg (XO q)
       | XO q -> Zneg (Pos.pred_double q)
       | XH -> Z0)

  (** val add : z -> z -> z **)

  let add x y =
    match x with
    | Z0 -> y
    | Zpos x' ->
      (match y with
       | Z0 -> x
       | Zpos y' -> Zpos (Pos.add x' y')
       | Zneg y' -> pos_sub x' y')
    | Zneg x' ->
      (match y with
       | Z0 -> x
       | Zpos y' -> pos_sub y' x'
       | Zneg y' -> Zneg (Pos.add x' y'))

  (** val opp : z -> z **)

  let opp = function
  | Z0 -> Z0
  | Zpos x0 -> Zneg x0
  | Zneg x0 -> Zpos x0

  (** val sub : z -> z -> z **)

  let sub m n0 =
    add m (opp n0)

  (** val mul : z -> z -> z **)

  let mul x y =
    match x with
    | Z0 -> Z0
    | Zpos x' ->
      (match y with
       | Z0 -> Z0
       | Zpos y' -> Zpos (Pos.mul x' y')
       | Zneg y' -> Zneg (Pos.mul x' y'))
    | Zneg x' ->
      (match y with
       | Z0 -> Z0
       | Zpos y' -> Zneg (Pos.mul x' y')
       | Zneg y' -> Zpos (Pos.mul x' y'))

  (** val pow_pos : z -> positive -> z **)

  let pow_pos z0 =
    Pos.iter (mul z0) (Zpos XH)

  (** val pow : z -> z -> z **)

  let pow x = function
  | Z0 -> Zpos XH
  | Zpos p -> pow_pos x p
  | Zneg _ -> Z0

  (** val compare : z -> z -> comparison **)

  let compare x y =
    match x with
    | Z0 -> (match y with
             | Z0 -> Eq
             | Zpos _ -> Lt
             | Zneg _ -> Gt)
    | Zpos x' -> (match y with
                  | Zpos y' -> Pos.compare x' y'
                  | _ -> Gt)
    | Zneg x' ->
      (match y with
       | Zneg y' -> compOpp (Pos.compare x' y')
       | _ -> Lt)

  (** val leb : z -> z -> bool **)

  let leb x y =
    match compare x y with
    | Gt -> false
    | _ -> true

  (** val ltb : z -> z -> bool **)

  let ltb x y =
    match compare x y with
    | Lt -> true
    | _ -> false

  (** val geb : z -> z -> bool **)

  let geb x y =
    match compare x y with
    | Lt -> false
    | _ -> true

  (** val gtb : z -> z -> bool **)

  let gtb x y =
    match compare x y with
    | Gt -> true
    | _ -> false

  (** val eqb : z -> z -> bool **)

  let eqb x y =
    match x with
    | Z0 -> (match y with
             | Z0 -> true
             | _ -> false)
    | Zpos p -> (match y with
                 | Zpos q -> Pos.eqb p q
                 | _ -> false)
    | Zneg p -> (match y with
                 | Zneg q -> Pos.eqb p q
                 | _ -> false)

  (** val to_nat : z -> nat **)

  let to_nat = function
  | Zpos p -> Pos.to_nat p
  | _ -> O

  (** val of_nat : nat -> z **)

  let of_nat = function
  | O -> Z0
  | S n1 -> Zpos (Pos.of_succ_nat n1)

  (** val of_N : n -> z **)

  let of_N = function
  | N0 -> Z0
  | Npos p -> Zpos p

  (** val pos_div_eucl : positive -> z -> z * z **)

  let rec pos_div_eucl a b =
    match a with
    | XI a' ->
      let (q, r) = pos_div_eucl a' b in
      let r' = add (mul (Zpos (XO XH)) r) (Zpos XH) in
      if ltb r' b
      then ((mul (Zpos (XO XH)) q), r')
      else ((add (mul (Zpos (XO XH)) q) (Zpos XH)), (sub r' b))
    | XO a' ->
      let (q, r) = pos_div_eucl a' b in
      let r' = mul (Zpos (XO XH)) r in
      if ltb r' b
      then ((mul (Zpos (XO XH)) q), r')
      else ((add (mul (Zpos (XO XH)) q) (Zpos XH)), (sub r' b))
    | XH -> if leb (Zpos (XO XH)) b then (Z0, (Zpos XH)) else ((Zpos XH), Z0)

  (** val div_eucl : z -> z -> z * z **)

  let div_eucl a b =
    match a with
    | Z0 -> (Z0, Z0)
    | Zpos a' ->
      (match b with
       | Z0 -> (Z0, a)
       | Zpos _ -> pos_div_eucl a' b
       | Zneg b' ->
         let (q, r) = pos_div_eucl a' (Zpos b') in
         (match r with
          | Z0 -> ((opp q), Z0)
          | _ -> ((opp (add q (Zpos XH))), (add b r))))
    | Zneg a' ->
      (match b with
       | Z0 -> (Z0, a)
       | Zpos _ ->
         let (q, r) = pos_div_eucl a' b in
         (match r with
          | Z0 -> ((opp q), Z0)
          | _ -> ((opp (add q (Zpos XH))), (sub b r)))
       | Zneg b' -> let (q, r) = pos_div_eucl a' (Zpos b') in (q, (opp r)))

  (** val div : z -> z -> z **)

  let div a b =
    let (q, _) = div_eucl a b in q

  (** val modulo : z -> z -> z **)

  let modulo a b =
    let (_, r) = div_eucl a b in r

  (** val coq_lor : z -> z -> z **)

  let coq_lor a b =
    match a with
    | Z0 -> b
    | Zpos a0 ->
      (match b with
       | Z0 -> a
       | Zpos b0 -> Zpos (Pos.coq_lor a0 b0)
       | Zneg b0 -> Zneg (N.succ_pos (N.ldiff (Pos.pred_N b0) (Npos a0))))
    | Zneg a0 ->
      (match b with
       | Z0 -> a
       | Zpos b0 -> Zneg (N.succ_pos (N.ldiff (Pos.pred_N a0) (Npos b0)))
       | Zneg b0 ->
         Zneg (N.succ_pos (N.coq_land (Pos.pred_N a0) (Pos.pred_N b0))))

  (** val coq_land : z -> z -> z **)

  let coq_land a b =
    match a with
    | Z0 -> Z0
    | Zpos a0 ->
      (match b with
       | Z0 -> Z0
       | Zpos b0 -> of_N (Pos.coq_land a0 b0)
       | Zneg b0 -> of_N (N.ldiff (Npos a0) (Pos.pred_N b0)))
    | Zneg a0 ->
      (match b with
       | Z0 -> Z0
       | Zpos b0 -> of_N (N.ldiff (Npos b0) (Pos.pred_N a0))
       | Zneg b0 ->
         Zneg (N.succ_pos (N.coq_lor (Pos.pred_N a0) (Pos.pred_N b0))))
 end

(** val nth : nat -> 'a1 list -> 'a1 -> 'a1 **)

let rec nth n0 l default =
  match n0 with
  | O -> (match l with
          | [] -> default
          | x :: _ -> x)
  | S m -> (match l with
            | [] -> default
            | _ :: t -> nth m t default)

(** val nth_error : 'a1 list -> nat -> 'a1 option **)

let rec nth_error l = function
| O -> (match l with
        | [] -> None
        | x :: _ -> Some x)
| S n1 -> (match l with
           | [] -> None
           | _ :: l0 -> nth_error l0 n1)

(** val last : 'a1 list -> 'a1 -> 'a1 **)

let rec last l d =
  match l with
  | [] -> d
  | a :: l0 -> (match l0 with
                | [] -> a
                | _ :: _ -> last l0 d)

(** val rev : 'a1 list -> 'a1 list **)

let rec rev = function
| [] -> []
| x :: l' -> app (rev l') (x :: [])

(** val map : ('a1 -> 'a2) -> 'a1 list -> 'a2 list **)

let rec map f = function
| [] -> []
| a :: t -> (f a) :: (map f t)

(** val fold_left : ('a1 -> 'a2 -> 'a1) -> 'a2 list -> 'a1 -> 'a1 **)

let rec fold_left f l a0 =
  match l with
  | [] -> a0
  | b :: t -> fold_left f t (f a0 b)

(** val existsb : ('a1 -> bool) -> 'a1 list -> bool **)

let rec existsb f = function
| [] -> false
| a :: l0 -> (||) (f a) (existsb f l0)

(** val forallb : ('a1 -> bool) -> 'a1 list -> bool **)

let rec forallb f = function
| [] -> true
| a :: l0 -> (&&) (f a) (forallb f l0)

(** val filter : ('a1 -> bool) -> 'a1 list -> 'a1 list **)

let rec filter f = function
| [] -> []
| x :: l0 -> if f x then x :: (filter f l0) else filter f l0

(** val firstn : nat -> 'a1 list -> 'a1 list **)

let rec firstn n0 l =
  match n0 with
  | O -> []
  | S n1 -> (match l with
             | [] -> []
             | a :: l0 -> a :: (firstn n1 l0))

(** val skipn : nat -> 'a1 list -> 'a1 list **)

let rec skipn n0 l =
  match n0 with
  | O -> l
  | S n1 -> (match l with
             | [] -> []
             | _ :: l0 -> skipn n1 l0)

type jval =
| JNull
| JBool of bool
| JI64 of z
| JF64 of z
| JStr of z list
| JArr of jval list
| JObj of (z list * jval) list

(** val bytes_eqb : z list -> z list -> bool **)

let rec bytes_eqb a b =
  match a with
  | [] -> (match b with
           | [] -> true
           | _ :: _ -> false)
  | x :: a' ->
    (match b with
     | [] -> false
     | y :: b' -> (&&) (Z.eqb x y) (bytes_eqb a' b'))

(** val jbinn_BINN_LIST : z **)

let jbinn_BINN_LIST =
  Zpos (XO (XO (XO (XO (XO (XI (XI XH)))))))

(** val jbinn_BINN_MAP : z **)

let jbinn_BINN_MAP =
  Zpos (XI (XO (XO (XO (XO (XI (XI XH)))))))

(** val jbinn_BINN_OBJECT : z **)

let jbinn_BINN_OBJECT =
  Zpos (XO (XI (XO (XO (XO (XI (XI XH)))))))

(** val jbinn_BINN_NULL : z **)

let jbinn_BINN_NULL =
  Z0

(** val jbinn_BINN_TRUE : z **)

let jbinn_BINN_TRUE =
  Zpos XH

(** val jbinn_BINN_FALSE : z **)

let jbinn_BINN_FALSE =
  Zpos (XO XH)

(** val jbinn_BINN_BOOL : z **)

let jbinn_BINN_BOOL =
  Zpos (XI (XO (XO (XO (XO (XI (XI (XO (XO (XO (XO (XO (XO (XO (XO (XO (XO
    (XO (XO XH)))))))))))))))))))

(** val jbinn_BINN_UINT8 : z **)

let jbinn_BINN_UINT8 =
  Zpos (XO (XO (XO (XO (XO XH)))))

(** val jbinn_BINN_INT8 : z **)

let jbinn_BINN_INT8 =
  Zpos (XI (XO (XO (XO (XO XH)))))

(** val jbinn_BINN_UINT16 : z **)

let jbinn_BINN_UINT16 =
  Zpos (XO (XO (XO (XO (XO (XO XH))))))

(** val jbinn_BINN_INT16 : z **)

let jbinn_BINN_INT16 =
  Zpos (XI (XO (XO (XO (XO (XO XH))))))

(** val jbinn_BINN_UINT32 : z **)

let jbinn_BINN_UINT32 =
  Zpos (XO (XO (XO (XO (XO (XI XH))))))

(** val jbinn_BINN_INT32 : z **)

let jbinn_BINN_INT32 =
  Zpos (XI (XO (XO (XO (XO (XI XH))))))

(** val jbinn_BINN_UINT64 : z **)

let jbinn_BINN_UINT64 =
  Zpos (XO (XO (XO (XO (XO (XO (XO XH)))))))

(** val jbinn_BINN_INT64 : z **)

let jbinn_BINN_INT64 =
  Zpos (XI (XO (XO (XO (XO (XO (XO XH)))))))

(** val jbinn_BINN_FLOAT32 : z **)

let jbinn_BINN_FLOAT32 =
  Zpos (XO (XI (XO (XO (XO (XI XH))))))

(** val jbinn_BINN_FLOAT64 : z **)

let jbinn_BINN_FLOAT64 =
  Zpos (XO (XI (XO (XO (XO (XO (XO XH)))))))

(** val jbinn_BINN_DOUBLE : z **)

let jbinn_BINN_DOUBLE =
  Zpos (XO (XI (XO (XO (XO (XO (XO XH)))))))

(** val jbinn_BINN_STRING : z **)

let jbinn_BINN_STRING =
  Zpos (XO (XO (XO (XO (XO (XI (XO XH)))))))

(** val jbinn_STORAGE_NOBYTES : z **)

let jbinn_STORAGE_NOBYTES =
  Z0

(** val jbinn_STORAGE_BYTE : z **)

let jbinn_STORAGE_BYTE =
  Zpos (XO (XO (XO (XO (XO XH)))))

(** val jbinn_STORAGE_WORD : z **)

let jbinn_STORAGE_WORD =
  Zpos (XO (XO (XO (XO (XO (XO XH))))))

(** val jbinn_STORAGE_DWORD : z **)

let jbinn_STORAGE_DWORD =
  Zpos (XO (XO (XO (XO (XO (XI XH))))))

(** val jbinn_STORAGE_QWORD : z **)

let jbinn_STORAGE_QWORD =
  Zpos (XO (XO (XO (XO (XO (XO (XO XH)))))))

(** val jbinn_STORAGE_STRING : z **)

let jbinn_STORAGE_STRING =
  Zpos (XO (XO (XO (XO (XO (XI (XO XH)))))))

(** val jbinn_STORAGE_BLOB : z **)

let jbinn_STORAGE_BLOB =
  Zpos (XO (XO (XO (XO (XO (XO (XI XH)))))))

(** val jbinn_STORAGE_CONTAINER : z **)

let jbinn_STORAGE_CONTAINER =
  Zpos (XO (XO (XO (XO (XO (XI (XI XH)))))))

(** val jbinn_STORAGE_MASK : z **)

let jbinn_STORAGE_MASK =
  Zpos (XO (XO (XO (XO (XO (XI (XI XH)))))))

(** val jbinn_STORAGE_HAS_MORE : z **)

let jbinn_STORAGE_HAS_MORE =
  Zpos (XO (XO (XO (XO XH))))

(** val jbinn_MIN_BINN_SIZE : z **)

let jbinn_MIN_BINN_SIZE =
  Zpos (XI XH)

(** val jbinn_MAX_BIN_KEY_LEN : z **)

let jbinn_MAX_BIN_KEY_LEN =
  Zpos (XI (XI (XI (XI (XI (XI (XI XH)))))))

(** val jbinn_JBL_MAX_NESTING_LEVEL : z **)

let jbinn_JBL_MAX_NESTING_LEVEL =
  Zpos (XI (XI (XI (XO (XO (XI (XI (XI (XI XH)))))))))

(** val jbinn_sizeof_int : z **)

let jbinn_sizeof_int =
  Zpos (XO (XO XH))

(** val jbinn_UINT8_MAX : z **)

let jbinn_UINT8_MAX =
  Zpos (XI (XI (XI (XI (XI (XI (XI XH)))))))

(** val jbinn_UINT16_MAX : z **)

let jbinn_UINT16_MAX =
  Zpos (XI (XI (XI (XI (XI (XI (XI (XI (XI (XI (XI (XI (XI (XI (XI
    XH)))))))))))))))

(** val jbinn_UINT32_MAX : z **)

let jbinn_UINT32_MAX =
  Zpos (XI (XI (XI (XI (XI (XI (XI (XI (XI (XI (XI (XI (XI (XI (XI (XI (XI
    (XI (XI (XI (XI (XI (XI (XI (XI (XI (XI (XI (XI (XI (XI
    XH)))))))))))))))))))))))))))))))

(** val jbinn_INT8_MIN : z **)

let jbinn_INT8_MIN =
  Zneg (XO (XO (XO (XO (XO (XO (XO XH)))))))

(** val jbinn_INT16_MIN : z **)

let jbinn_INT16_MIN =
  Zneg (XO (XO (XO (XO (XO (XO (XO (XO (XO (XO (XO (XO (XO (XO (XO
    XH)))))))))))))))

(** val jbinn_INT32_MIN : z **)

let jbinn_INT32_MIN =
  Zneg (XO (XO (XO (XO (XO (XO (XO (XO (XO (XO (XO (XO (XO (XO (XO (XO (XO
    (XO (XO (XO (XO (XO (XO (XO (XO (XO (XO (XO (XO (XO (XO
    XH)))))))))))))))))))))))))))))))

(** val jbinn_STRING_KEEPS_NUL : z **)

let jbinn_STRING_KEEPS_NUL =
  Zpos XH

(** val be_bytes : nat -> z -> z list **)

let rec be_bytes n0 v =
  match n0 with
  | O -> []
  | S k ->
    (Z.modulo
      (Z.div v
        (Z.pow (Zpos (XO XH)) (Z.mul (Zpos (XO (XO (XO XH)))) (Z.of_nat k))))
      (Zpos (XO (XO (XO (XO (XO (XO (XO (XO XH)))))))))) :: (be_bytes k v)

(** val be_val : nat -> z list -> z option **)

let rec be_val n0 bs =
  match n0 with
  | O -> Some Z0
  | S k ->
    (match bs with
     | [] -> None
     | b :: r ->
       (match be_val k r with
        | Some v ->
          Some
            (Z.add
              (Z.mul b
                (Z.pow (Zpos (XO XH))
                  (Z.mul (Zpos (XO (XO (XO XH)))) (Z.of_nat k)))) v)
        | None -> None))

(** val cstr : z list -> z list **)

let rec cstr = function
| [] -> []
| c :: r -> if Z.eqb c Z0 then [] else c :: (cstr r)

(** val zlen : 'a1 list -> z **)

let zlen l =
  Z.of_nat (length l)

(** val zskip : z -> 'a1 list -> 'a1 list **)

let zskip n0 l =
  skipn (Z.to_nat n0) l

(** val zfirst : z -> 'a1 list -> 'a1 list **)

let zfirst n0 l =
  firstn (Z.to_nat n0) l

(** val tolower : z -> z **)

let tolower c =
  if (&&) (Z.leb (Zpos (XI (XO (XO (XO (XO (XO XH))))))) c)
       (Z.leb c (Zpos (XO (XI (XO (XI (XI (XO XH))))))))
  then Z.add c (Zpos (XO (XO (XO (XO (XO XH))))))
  else c

(** val strnieq : z list -> z list -> nat -> bool **)

let rec strnieq a b = function
| O -> true
| S k ->
  (match a with
   | [] -> false
   | x :: a' ->
     (match b with
      | [] -> false
      | y :: b' ->
        if Z.eqb (tolower x) (tolower y)
        then if Z.eqb x Z0 then true else strnieq a' b' k
        else false))

(** val rd_field : z list -> (z * z) option **)

let rd_field p = match p with
| [] -> None
| b :: _ ->
  if negb
       (Z.eqb (Z.coq_land b (Zpos (XO (XO (XO (XO (XO (XO (XO XH))))))))) Z0)
  then (match be_val (S (S (S (S O)))) p with
        | Some v ->
          Some
            ((Z.coq_land v (Zpos (XI (XI (XI (XI (XI (XI (XI (XI (XI (XI (XI
               (XI (XI (XI (XI (XI (XI (XI (XI (XI (XI (XI (XI (XI (XI (XI
               (XI (XI (XI (XI XH)))))))))))))))))))))))))))))))), (Zpos (XO
            (XO XH))))
        | None -> None)
  else Some (b, (Zpos XH))

(** val read_hdr : z list -> (((z * z) * z) * z) option **)

let read_hdr = function
| [] -> None
| byte :: p1 ->
  if negb (Z.eqb (Z.coq_land byte jbinn_STORAGE_MASK) jbinn_STORAGE_CONTAINER)
  then None
  else if negb (Z.eqb (Z.coq_land byte jbinn_STORAGE_HAS_MORE) Z0)
       then None
       else if negb
                 ((||)
                   ((||) (Z.eqb byte jbinn_BINN_LIST)
                     (Z.eqb byte jbinn_BINN_MAP))
                   (Z.eqb byte jbinn_BINN_OBJECT))
            then None
            else (match rd_field p1 with
                  | Some p0 ->
                    let (size, k1) = p0 in
                    (match rd_field (zskip k1 p1) with
                     | Some p2 ->
                       let (count, k2) = p2 in
                       if Z.ltb size jbinn_MIN_BINN_SIZE
                       then None
                       else Some (((byte, size), count),
                              (Z.add (Z.add (Zpos XH) k1) k2))
                     | None -> None)
                  | None -> None)

(** val advance : z list -> z -> (z list * z) option **)

let advance p rem =
  if Z.leb rem Z0
  then None
  else (match p with
        | [] -> None
        | byte :: p1 ->
          let st = Z.coq_land byte jbinn_STORAGE_MASK in
          let p2 =
            if negb (Z.eqb (Z.coq_land byte jbinn_STORAGE_HAS_MORE) Z0)
            then zskip (Zpos XH) p1
            else p1
          in
          let r2 =
            if negb (Z.eqb (Z.coq_land byte jbinn_STORAGE_HAS_MORE) Z0)
            then Z.sub rem (Zpos (XO XH))
            else Z.sub rem (Zpos XH)
          in
          let fin = fun k ->
            if Z.leb (Z.sub r2 k) Z0
            then None
            else Some ((zskip k p2), (Z.sub r2 k))
          in
          if Z.eqb st jbinn_STORAGE_NOBYTES
          then fin Z0
          else if Z.eqb st jbinn_STORAGE_BYTE
               then fin (Zpos XH)
               else if Z.eqb st jbinn_STORAGE_WORD
                    then fin (Zpos (XO XH))
                    else if Z.eqb st jbinn_STORAGE_DWORD
                         then fin (Zpos (XO (XO XH)))
                         else if Z.eqb st jbinn_STORAGE_QWORD
                              then fin (Zpos (XO (XO (XO XH))))
                              else if Z.eqb st jbinn_STORAGE_BLOB
                                   then if Z.leb
                                             (Z.sub r2
                                               (Z.sub jbinn_sizeof_int (Zpos
                                                 XH))) Z0
                                        then None
                                        else (match be_val (S (S (S (S O))))
                                                      p2 with
                                              | Some dsize ->
                                                fin
                                                  (Z.add (Zpos (XO (XO XH)))
                                                    dsize)
                                              | None -> None)
                                   else if Z.eqb st jbinn_STORAGE_CONTAINER
                                        then if Z.leb r2 Z0
                                             then None
                                             else (match p2 with
                                                   | [] -> None
                                                   | d :: _ ->
                                                     if negb
                                                          (Z.eqb
                                                            (Z.coq_land d
                                                              (Zpos (XO (XO
                                                              (XO (XO (XO (XO
                                                              (XO XH)))))))))
                                                            Z0)
                                                     then if Z.leb
                                                               (Z.sub r2
                                                                 (Z.sub
                                                                   jbinn_sizeof_int
                                                                   (Zpos XH)))
                                                               Z0
                                                          then None
                                                          else (match 
                                                                be_val (S (S
                                                                  (S (S O))))
                                                                  p2 with
                                                                | Some v ->
                                                                  fin
                                                                    (Z.sub
                                                                    (Z.coq_land
                                                                    v (Zpos
                                                                    (XI (XI
                                                                    (XI (XI
                                                                    (XI (XI
                                                                    (XI (XI
                                                                    (XI (XI
                                                                    (XI (XI
                                                                    (XI (XI
                                                                    (XI (XI
                                                                    (XI (XI
                                                                    (XI (XI
                                                                    (XI (XI
                                                                    (XI (XI
                                                                    (XI (XI
                                                                    (XI (XI
                                                                    (XI (XI
                                                                    XH))))))))))))))))))))))))))))))))
                                                                    (Zpos XH))
                                                                | None -> None)
                                                     else fin
                                                            (Z.sub d (Zpos
                                                              XH)))
                                        else if Z.eqb st jbinn_STORAGE_STRING
                                             then if Z.leb r2 Z0
                                                  then None
                                                  else (match p2 with
                                                        | [] -> None
                                                        | d :: _ ->
                                                          if negb
                                                               (Z.eqb
                                                                 (Z.coq_land
                                                                   d (Zpos
                                                                   (XO (XO
                                                                   (XO (XO
                                                                   (XO (XO
                                                                   (XO
                                                                   XH)))))))))
                                                                 Z0)
                                                          then if Z.leb
                                                                    (Z.sub r2
                                                                    (Z.sub
                                                                    jbinn_sizeof_int
                                                                    (Zpos XH)))
                                                                    Z0
                                                               then None
                                                               else (match 
                                                                    be_val (S
                                                                    (S (S (S
                                                                    O)))) p2 with
                                                                    | Some v ->
                                                                    fin
                                                                    (Z.add
                                                                    (Z.add
                                                                    (Zpos (XO
                                                                    (XO XH)))
                                                                    (Z.coq_land
                                                                    v (Zpos
                                                                    (XI (XI
                                                                    (XI (XI
                                                                    (XI (XI
                                                                    (XI (XI
                                                                    (XI (XI
                                                                    (XI (XI
                                                                    (XI (XI
                                                                    (XI (XI
                                                                    (XI (XI
                                                                    (XI (XI
                                                                    (XI (XI
                                                                    (XI (XI
                                                                    (XI (XI
                                                                    (XI (XI
                                                                    (XI (XI
                                                                    XH)))))))))))))))))))))))))))))))))
                                                                    (Zpos XH))
                                                                    | None ->
                                                                    None)
                                                          else fin
                                                                 (Z.add
                                                                   (Z.add
                                                                    (Zpos XH)
                                                                    d) (Zpos
                                                                   XH)))
                                             else None)

type bval = { bt : z; bnum : z; bsize : z; bcount : z; bptr : z list }

(** val get_value : z list -> bval option **)

let get_value p = match p with
| [] -> None
| byte :: p1 ->
  let st = Z.coq_land byte jbinn_STORAGE_MASK in
  let more = negb (Z.eqb (Z.coq_land byte jbinn_STORAGE_HAS_MORE) Z0) in
  if more
  then (match p1 with
        | [] -> None
        | b2 :: p1' ->
          let p0 =
            ((Z.add
               (Z.mul byte (Zpos (XO (XO (XO (XO (XO (XO (XO (XO XH))))))))))
               b2), p1')
          in
          let (ty, q) = p0 in
          let conv = fun b ->
            if Z.eqb b.bt jbinn_BINN_TRUE
            then Some { bt = jbinn_BINN_BOOL; bnum = (Zpos XH); bsize =
                   b.bsize; bcount = b.bcount; bptr = [] }
            else if Z.eqb b.bt jbinn_BINN_FALSE
                 then Some { bt = jbinn_BINN_BOOL; bnum = Z0; bsize =
                        b.bsize; bcount = b.bcount; bptr = [] }
                 else Some b
          in
          let num = fun k ->
            match be_val k q with
            | Some v ->
              conv { bt = ty; bnum = v; bsize = Z0; bcount = Z0; bptr = [] }
            | None -> None
          in
          if Z.eqb st jbinn_STORAGE_NOBYTES
          then conv { bt = ty; bnum = Z0; bsize = Z0; bcount = Z0; bptr = [] }
          else if Z.eqb st jbinn_STORAGE_BYTE
               then num (S O)
               else if Z.eqb st jbinn_STORAGE_WORD
                    then num (S (S O))
                    else if Z.eqb st jbinn_STORAGE_DWORD
                         then num (S (S (S (S O))))
                         else if Z.eqb st jbinn_STORAGE_QWORD
                              then num (S (S (S (S (S (S (S (S O))))))))
                              else if Z.eqb st jbinn_STORAGE_BLOB
                                   then (match be_val (S (S (S (S O)))) q with
                                         | Some v ->
                                           conv { bt = ty; bnum = Z0; bsize =
                                             v; bcount = Z0; bptr =
                                             (zskip (Zpos (XO (XO XH))) q) }
                                         | None -> None)
                                   else if Z.eqb st jbinn_STORAGE_CONTAINER
                                        then (match read_hdr p with
                                              | Some p2 ->
                                                let (p3, _) = p2 in
                                                let (p4, count) = p3 in
                                                let (_, size) = p4 in
                                                conv { bt = ty; bnum = Z0;
                                                  bsize = size; bcount =
                                                  count; bptr = p }
                                              | None -> None)
                                        else if Z.eqb st jbinn_STORAGE_STRING
                                             then (match rd_field q with
                                                   | Some p2 ->
                                                     let (dsz, k) = p2 in
                                                     conv { bt = ty; bnum =
                                                       Z0; bsize = dsz;
                                                       bcount = Z0; bptr =
                                                       (zskip k q) }
                                                   | None -> None)
                                             else None)
  else let p0 = (byte, p1) in
       let (ty, q) = p0 in
       let conv = fun b ->
         if Z.eqb b.bt jbinn_BINN_TRUE
         then Some { bt = jbinn_BINN_BOOL; bnum = (Zpos XH); bsize = b.bsize;
                bcount = b.bcount; bptr = [] }
         else if Z.eqb b.bt jbinn_BINN_FALSE
              then Some { bt = jbinn_BINN_BOOL; bnum = Z0; bsize = b.bsize;
                     bcount = b.bcount; bptr = [] }
              else Some b
       in
       let num = fun k ->
         match be_val k q with
         | Some v ->
           conv { bt = ty; bnum = v; bsize = Z0; bcount = Z0; bptr = [] }
         | None -> None
       in
       if Z.eqb st jbinn_STORAGE_NOBYTES
       then conv { bt = ty; bnum = Z0; bsize = Z0; bcount = Z0; bptr = [] }
       else if Z.eqb st jbinn_STORAGE_BYTE
            then num (S O)
            else if Z.eqb st jbinn_STORAGE_WORD
                 then num (S (S O))
                 else if Z.eqb st jbinn_STORAGE_DWORD
                      then num (S (S (S (S O))))
                      else if Z.eqb st jbinn_STORAGE_QWORD
                           then num (S (S (S (S (S (S (S (S O))))))))
                           else if Z.eqb st jbinn_STORAGE_BLOB
                                then (match be_val (S (S (S (S O)))) q with
                                      | Some v ->
                                        conv { bt = ty; bnum = Z0; bsize = v;
                                          bcount = Z0; bptr =
                                          (zskip (Zpos (XO (XO XH))) q) }
                                      | None -> None)
                                else if Z.eqb st jbinn_STORAGE_CONTAINER
                                     then (match read_hdr p with
                                           | Some p2 ->
                                             let (p3, _) = p2 in
                                             let (p4, count) = p3 in
                                             let (_, size) = p4 in
                                             conv { bt = ty; bnum = Z0;
                                               bsize = size; bcount = count;
                                               bptr = p }
                                           | None -> None)
                                     else if Z.eqb st jbinn_STORAGE_STRING
                                          then (match rd_field q with
                                                | Some p2 ->
                                                  let (dsz, k) = p2 in
                                                  conv { bt = ty; bnum = Z0;
                                                    bsize = dsz; bcount = Z0;
                                                    bptr = (zskip k q) }
                                                | None -> None)
                                          else None

type biter = { it_p : (z list * z) option; it_cur : z; it_cnt : z; it_type : z }

(** val iter_init : z list -> z -> biter option **)

let iter_init ptr expected =
  match read_hdr ptr with
  | Some p ->
    let (p0, hs) = p in
    let (p1, count) = p0 in
    let (ty, size) = p1 in
    if negb (Z.eqb ty expected)
    then None
    else Some { it_p = (Some ((zskip hs ptr), (Z.sub size hs))); it_cur = Z0;
           it_cnt = count; it_type = ty }
  | None -> None

(** val list_next : biter -> (bval * biter) option **)

let list_next it =
  match it.it_p with
  | Some p0 ->
    let (p, rem) = p0 in
    if (||) ((||) (Z.leb rem Z0) (Z.gtb it.it_cur it.it_cnt))
         (negb (Z.eqb it.it_type jbinn_BINN_LIST))
    then None
    else let cur = Z.add it.it_cur (Zpos XH) in
         if Z.gtb cur it.it_cnt
         then None
         else (match get_value p with
               | Some b ->
                 Some (b, { it_p = (advance p rem); it_cur = cur; it_cnt =
                   it.it_cnt; it_type = it.it_type })
               | None -> None)
  | None -> None

(** val object_next : biter -> ((z list * bval) * biter) option **)

let object_next it =
  match it.it_p with
  | Some p0 ->
    let (p, rem) = p0 in
    if (||) ((||) (Z.leb rem Z0) (Z.gtb it.it_cur it.it_cnt))
         (negb (Z.eqb it.it_type jbinn_BINN_OBJECT))
    then None
    else let cur = Z.add it.it_cur (Zpos XH) in
         if Z.gtb cur it.it_cnt
         then None
         else (match p with
               | [] -> None
               | len :: p1 ->
                 let key = zfirst len p1 in
                 let p2 = zskip len p1 in
                 let r2 = Z.sub (Z.sub rem (Zpos XH)) len in
                 if Z.leb r2 Z0
                 then None
                 else (match get_value p2 with
                       | Some b ->
                         Some ((key, b), { it_p = (advance p2 r2); it_cur =
                           cur; it_cnt = it.it_cnt; it_type = it.it_type })
                       | None -> None))
  | None -> None

(** val list_items : nat -> biter -> bval list **)

let rec list_items n0 it =
  match n0 with
  | O -> []
  | S k ->
    (match list_next it with
     | Some p -> let (b, it') = p in b :: (list_items k it')
     | None -> [])

(** val obj_items : nat -> biter -> (z list * bval) list **)

let rec obj_items n0 it =
  match n0 with
  | O -> []
  | S k ->
    (match object_next it with
     | Some p -> let (p0, it') = p in p0 :: (obj_items k it')
     | None -> [])

(** val iter_fuel : biter -> nat **)

let iter_fuel it =
  S (Z.to_nat it.it_cnt)

(** val sx : z -> z -> z **)

let sx bits v =
  let m = Z.modulo v (Z.pow (Zpos (XO XH)) bits) in
  if Z.geb m (Z.pow (Zpos (XO XH)) (Z.sub bits (Zpos XH)))
  then Z.sub m (Z.pow (Zpos (XO XH)) bits)
  else m

(** val create_scalar : bval -> jval option **)

let create_scalar b =
  let t = b.bt in
  if Z.eqb t jbinn_BINN_NULL
  then Some JNull
  else if Z.eqb t jbinn_BINN_STRING
       then Some (JStr (zfirst b.bsize b.bptr))
       else if Z.eqb t jbinn_BINN_TRUE
            then Some (JBool true)
            else if Z.eqb t jbinn_BINN_FALSE
                 then Some (JBool false)
                 else if Z.eqb t jbinn_BINN_BOOL
                      then Some (JBool
                             (negb
                               (Z.eqb
                                 (Z.modulo b.bnum
                                   (Z.pow (Zpos (XO XH)) (Zpos (XO (XO (XO
                                     (XO (XO XH)))))))) Z0)))
                      else if Z.eqb t jbinn_BINN_UINT8
                           then Some (JI64
                                  (Z.modulo b.bnum
                                    (Z.pow (Zpos (XO XH)) (Zpos (XO (XO (XO
                                      XH)))))))
                           else if Z.eqb t jbinn_BINN_UINT16
                                then Some (JI64
                                       (Z.modulo b.bnum
                                         (Z.pow (Zpos (XO XH)) (Zpos (XO (XO
                                           (XO (XO XH))))))))
                                else if Z.eqb t jbinn_BINN_UINT32
                                     then Some (JI64
                                            (Z.modulo b.bnum
                                              (Z.pow (Zpos (XO XH)) (Zpos (XO
                                                (XO (XO (XO (XO XH)))))))))
                                     else if Z.eqb t jbinn_BINN_UINT64
                                          then Some (JI64
                                                 (sx (Zpos (XO (XO (XO (XO
                                                   (XO (XO XH))))))) b.bnum))
                                          else if Z.eqb t jbinn_BINN_INT8
                                               then Some (JI64
                                                      (sx (Zpos (XO (XO (XO
                                                        XH)))) b.bnum))
                                               else if Z.eqb t
                                                         jbinn_BINN_INT16
                                                    then Some (JI64
                                                           (sx (Zpos (XO (XO
                                                             (XO (XO XH)))))
                                                             b.bnum))
                                                    else if Z.eqb t
                                                              jbinn_BINN_INT32
                                                         then Some (JI64
                                                                (sx (Zpos (XO
                                                                  (XO (XO (XO
                                                                  (XO
                                                                  XH))))))
                                                                  b.bnum))
                                                         else if Z.eqb t
                                                                   jbinn_BINN_INT64
                                                              then Some (JI64
                                                                    (sx (Zpos
                                                                    (XO (XO
                                                                    (XO (XO
                                                                    (XO (XO
                                                                    XH)))))))
                                                                    b.bnum))
                                                              else if 
                                                                    (||)
                                                                    (Z.eqb t
                                                                    jbinn_BINN_FLOAT32)
                                                                    (Z.eqb t
                                                                    jbinn_BINN_FLOAT64)
                                                                   then 
                                                                    Some
                                                                    (JF64
                                                                    b.bnum)
                                                                   else None

(** val dec_node : nat -> bval -> jval option **)

let rec dec_node fuel b =
  match fuel with
  | O -> None
  | S f ->
    if Z.eqb b.bt jbinn_BINN_OBJECT
    then (match iter_init b.bptr jbinn_BINN_OBJECT with
          | Some it ->
            (match let rec go = function
                   | [] -> Some []
                   | p :: r ->
                     let (k, x) = p in
                     (match dec_node f x with
                      | Some v ->
                        (match go r with
                         | Some vs -> Some ((k, v) :: vs)
                         | None -> None)
                      | None -> None)
                   in go (obj_items (iter_fuel it) it) with
             | Some ms -> Some (JObj ms)
             | None -> None)
          | None -> None)
    else if Z.eqb b.bt jbinn_BINN_MAP
         then None
         else if Z.eqb b.bt jbinn_BINN_LIST
              then (match iter_init b.bptr jbinn_BINN_LIST with
                    | Some it ->
                      (match let rec go = function
                             | [] -> Some []
                             | x :: r ->
                               (match dec_node f x with
                                | Some v ->
                                  (match go r with
                                   | Some vs -> Some (v :: vs)
                                   | None -> None)
                                | None -> None)
                             in go (list_items (iter_fuel it) it) with
                       | Some vs -> Some (JArr vs)
                       | None -> None)
                    | None -> None)
              else create_scalar b

(** val root_bval : z list -> bval option **)

let root_bval bs =
  if Z.ltb (zlen bs) jbinn_MIN_BINN_SIZE
  then None
  else (match read_hdr bs with
        | Some p ->
          let (p0, _) = p in
          let (p1, count) = p0 in
          let (ty, size) = p1 in
          if Z.gtb size (zlen bs)
          then None
          else Some { bt = ty; bnum = Z0; bsize = size; bcount = count;
                 bptr = bs }
        | None -> None)

(** val binn_decode : z list -> jval option **)

let binn_decode bs =
  match root_bval bs with
  | Some b -> dec_node (S (length bs)) b
  | None -> None

(** val compress_int : z -> z * nat **)

let compress_int v =
  if Z.geb v Z0
  then if Z.leb v jbinn_UINT8_MAX
       then (jbinn_BINN_UINT8, (S O))
       else if Z.leb v jbinn_UINT16_MAX
            then (jbinn_BINN_UINT16, (S (S O)))
            else if Z.leb v jbinn_UINT32_MAX
                 then (jbinn_BINN_UINT32, (S (S (S (S O)))))
                 else (jbinn_BINN_INT64, (S (S (S (S (S (S (S (S O)))))))))
  else if Z.geb v jbinn_INT8_MIN
       then (jbinn_BINN_INT8, (S O))
       else if Z.geb v jbinn_INT16_MIN
            then (jbinn_BINN_INT16, (S (S O)))
            else if Z.geb v jbinn_INT32_MIN
                 then (jbinn_BINN_INT32, (S (S (S (S O)))))
                 else (jbinn_BINN_INT64, (S (S (S (S (S (S (S (S O)))))))))

(** val wr_field : z -> z list **)

let wr_field n0 =
  if Z.gtb n0 (Zpos (XI (XI (XI (XI (XI (XI XH)))))))
  then be_bytes (S (S (S (S O))))
         (Z.coq_lor n0 (Zpos (XO (XO (XO (XO (XO (XO (XO (XO (XO (XO (XO (XO
           (XO (XO (XO (XO (XO (XO (XO (XO (XO (XO (XO (XO (XO (XO (XO (XO
           (XO (XO (XO XH)))))))))))))))))))))))))))))))))
  else n0 :: []

(** val save_header : z -> z list -> z -> z list option **)

let save_header ty body count =
  let size0 = Z.add (zlen body) jbinn_MIN_BINN_SIZE in
  let size1 =
    if Z.gtb count (Zpos (XI (XI (XI (XI (XI (XI XH)))))))
    then Z.add size0 (Zpos (XI XH))
    else size0
  in
  let size2 =
    if Z.gtb size1 (Zpos (XI (XI (XI (XI (XI (XI XH)))))))
    then Z.add size1 (Zpos (XI XH))
    else size1
  in
  if Z.gtb size2 (Zpos (XI (XI (XI (XI (XI (XI (XI (XI (XI (XI (XI (XI (XI
       (XI (XI (XI (XI (XI (XI (XI (XI (XI (XI (XI (XI (XI (XI (XI (XI (XI
       XH)))))))))))))))))))))))))))))))
  then None
  else Some (ty :: (app (wr_field size2) (app (wr_field count) body)))

(** val search_key : nat -> z list -> z -> z list -> bool **)

let rec search_key n0 p rem key =
  match n0 with
  | O -> false
  | S k ->
    (match p with
     | [] -> false
     | len :: p1 ->
       let r1 = Z.sub rem (Zpos XH) in
       if Z.leb r1 Z0
       then false
       else let next = fun q r ->
              match advance q r with
              | Some p0 -> let (q', r') = p0 in search_key k q' r' key
              | None -> false
            in
            if Z.gtb len Z0
            then if (&&) (strnieq p1 (app key (Z0 :: [])) (Z.to_nat len))
                      (Z.eqb (zlen key) len)
                 then true
                 else if Z.leb (Z.sub r1 len) Z0
                      then false
                      else next (zskip len p1) (Z.sub r1 len)
            else if Z.eqb len (zlen key) then true else next p1 r1)

(** val enc_item : jval -> z list option **)

let rec enc_item = function
| JNull -> Some (jbinn_BINN_NULL :: [])
| JBool b -> Some ((if b then jbinn_BINN_TRUE else jbinn_BINN_FALSE) :: [])
| JI64 n0 -> let (t, k) = compress_int n0 in Some (t :: (be_bytes k n0))
| JF64 bits ->
  Some
    (jbinn_BINN_DOUBLE :: (be_bytes (S (S (S (S (S (S (S (S O)))))))) bits))
| JStr s ->
  let s' = if Z.eqb jbinn_STRING_KEEPS_NUL (Zpos XH) then s else cstr s in
  Some (jbinn_BINN_STRING :: (app (wr_field (zlen s')) (app s' (Z0 :: []))))
| JArr items ->
  (match let rec go l body cnt =
           match l with
           | [] -> Some (body, cnt)
           | x :: r ->
             (match enc_item x with
              | Some bx -> go r (app body bx) (Z.add cnt (Zpos XH))
              | None -> None)
         in go items [] Z0 with
   | Some p -> let (body, cnt) = p in save_header jbinn_BINN_LIST body cnt
   | None -> None)
| JObj ms ->
  (match let rec go l body cnt =
           match l with
           | [] -> Some (body, cnt)
           | p :: r ->
             let (k, x) = p in
             (match enc_item x with
              | Some bx ->
                if Z.gtb (zlen k) jbinn_MAX_BIN_KEY_LEN
                then None
                else if search_key (Z.to_nat cnt) body (zlen body) k
                     then None
                     else go r (app body ((zlen k) :: (app k bx)))
                            (Z.add cnt (Zpos XH))
              | None -> None)
         in go ms [] Z0 with
   | Some p -> let (body, cnt) = p in save_header jbinn_BINN_OBJECT body cnt
   | None -> None)

(** val binn_encode : jval -> z list option **)

let binn_encode v = match v with
| JArr _ -> enc_item v
| JObj _ -> enc_item v
| _ -> None

(** val binn_clone : z list -> z list option **)

let binn_clone bs =
  match read_hdr bs with
  | Some p ->
    let (p0, hs) = p in
    let (p1, count) = p0 in
    let (ty, size) = p1 in
    let body = firstn (Z.to_nat (Z.sub size hs)) (zskip hs bs) in
    save_header ty body count
  | None -> None

(** val binn_clone_into_pool : z list -> z list option **)

let binn_clone_into_pool bs =
  match read_hdr bs with
  | Some p ->
    let (p0, _) = p in
    let (p1, _) = p0 in let (_, size) = p1 in Some (zfirst size bs)
  | None -> None

(** val char_ok : z -> bool **)

let char_ok c =
  (&&) (Z.leb (Zpos XH) c)
    (Z.leb c (Zpos (XI (XI (XI (XI (XI (XI (XI XH)))))))))

(** val key_ieq : z list -> z list -> bool **)

let rec key_ieq a b =
  match a with
  | [] -> (match b with
           | [] -> true
           | _ :: _ -> false)
  | x :: a' ->
    (match b with
     | [] -> false
     | y :: b' -> (&&) (Z.eqb (tolower x) (tolower y)) (key_ieq a' b'))

(** val keys_unique : z list list -> bool **)

let rec keys_unique = function
| [] -> true
| k :: r -> (&&) (negb (existsb (key_ieq k) r)) (keys_unique r)

(** val wf : jval -> bool **)

let rec wf = function
| JI64 n0 ->
  (&&)
    (Z.leb (Z.opp (Z.pow (Zpos (XO XH)) (Zpos (XI (XI (XI (XI (XI XH))))))))
      n0) (Z.ltb n0 (Z.pow (Zpos (XO XH)) (Zpos (XI (XI (XI (XI (XI XH))))))))
| JF64 b ->
  (&&) (Z.leb Z0 b)
    (Z.ltb b (Z.pow (Zpos (XO XH)) (Zpos (XO (XO (XO (XO (XO (XO XH)))))))))
| JStr s -> forallb char_ok s
| JArr items -> forallb wf items
| JObj ms ->
  (&&)
    (forallb (fun m ->
      (&&)
        ((&&) (forallb char_ok (fst m))
          (Z.leb (zlen (fst m)) jbinn_MAX_BIN_KEY_LEN)) (wf (snd m))) ms)
    (keys_unique (map fst ms))
| _ -> true

type pres =
| PErr
| PUndef
| POk of z list list

(** val seg_scan : z list -> z list -> (z list * z list) option **)

let rec seg_scan p acc =
  match p with
  | [] -> Some ((rev acc), [])
  | c :: p1 ->
    if Z.eqb c (Zpos (XI (XI (XI (XI (XO XH))))))
    then Some ((rev acc), p)
    else if Z.eqb c (Zpos (XO (XI (XI (XI (XI (XI XH)))))))
         then (match p1 with
               | [] -> None
               | d :: p2 ->
                 if Z.eqb d (Zpos (XO (XO (XO (XO (XI XH))))))
                 then seg_scan p2 ((Zpos (XO (XI (XI (XI (XI (XI
                        XH))))))) :: acc)
                 else if Z.eqb d (Zpos (XI (XO (XO (XO (XI XH))))))
                      then seg_scan p2 ((Zpos (XI (XI (XI (XI (XO
                             XH)))))) :: acc)
                      else None)
         else seg_scan p1 (c :: acc)

(** val segs_scan : nat -> z list -> z list list option **)

let rec segs_scan cnt p =
  match cnt with
  | O -> Some []
  | S k ->
    (match p with
     | [] -> Some []
     | c :: p1 ->
       if Z.eqb c (Zpos (XI (XI (XI (XI (XO XH))))))
       then (match seg_scan p1 [] with
             | Some p0 ->
               let (s, rest) = p0 in
               (match segs_scan k rest with
                | Some ss -> Some (s :: ss)
                | None -> None)
             | None -> None)
       else None)

(** val count_slash : z list -> nat **)

let count_slash p =
  length (filter (fun c -> Z.eqb c (Zpos (XI (XI (XI (XI (XO XH))))))) p)

(** val ptr_parse3 : z list -> pres **)

let ptr_parse3 path =
  let p = cstr path in
  (match p with
   | [] -> POk []
   | c :: _ ->
     if negb (Z.eqb c (Zpos (XI (XI (XI (XI (XO XH)))))))
     then PErr
     else if (&&) (Z.gtb (zlen p) (Zpos XH))
               (Z.eqb (last p Z0) (Zpos (XI (XI (XI (XI (XO XH)))))))
          then PErr
          else (match segs_scan (count_slash p) p with
                | Some ss -> POk ss
                | None -> PUndef))

(** val rfc_unescape : z list -> z list option **)

let rec rfc_unescape = function
| [] -> Some []
| c :: r ->
  if Z.eqb c (Zpos (XO (XI (XI (XI (XI (XI XH)))))))
  then (match r with
        | [] -> None
        | d :: r' ->
          if Z.eqb d (Zpos (XO (XO (XO (XO (XI XH))))))
          then option_map (fun x -> (Zpos (XO (XI (XI (XI (XI (XI
                 XH))))))) :: x) (rfc_unescape r')
          else if Z.eqb d (Zpos (XI (XO (XO (XO (XI XH))))))
               then option_map (fun x -> (Zpos (XI (XI (XI (XI (XO
                      XH)))))) :: x) (rfc_unescape r')
               else None)
  else option_map (fun x -> c :: x) (rfc_unescape r)

(** val split_slash : z list -> z list -> z list list **)

let rec split_slash p cur =
  match p with
  | [] -> (rev cur) :: []
  | c :: r ->
    if Z.eqb c (Zpos (XI (XI (XI (XI (XO XH))))))
    then (rev cur) :: (split_slash r [])
    else split_slash r (c :: cur)

(** val all_some : 'a1 option list -> 'a1 list option **)

let rec all_some = function
| [] -> Some []
| o :: r ->
  (match o with
   | Some x ->
     (match all_some r with
      | Some xs -> Some (x :: xs)
      | None -> None)
   | None -> None)

(** val rfc_ptr_parse : z list -> z list list option **)

let rfc_ptr_parse = function
| [] -> Some []
| c :: r ->
  if Z.eqb c (Zpos (XI (XI (XI (XI (XO XH))))))
  then all_some (map rfc_unescape (split_slash r []))
  else None

(** val is_digit : z -> bool **)

let is_digit c =
  (&&) (Z.leb (Zpos (XO (XO (XO (XO (XI XH)))))) c)
    (Z.leb c (Zpos (XI (XO (XO (XI (XI XH)))))))

(** val rfc_index : z list -> z option **)

let rfc_index s = match s with
| [] -> None
| c :: r ->
  (match r with
   | [] ->
     if is_digit c
     then Some (Z.sub c (Zpos (XO (XO (XO (XO (XI XH)))))))
     else None
   | _ :: _ ->
     if (&&)
          ((&&) (Z.leb (Zpos (XI (XO (XO (XO (XI XH)))))) c)
            (Z.leb c (Zpos (XI (XO (XO (XI (XI XH)))))))) (forallb is_digit r)
     then Some
            (fold_left (fun a d ->
              Z.add (Z.mul a (Zpos (XO (XI (XO XH)))))
                (Z.sub d (Zpos (XO (XO (XO (XO (XI XH)))))))) s Z0)
     else None)

(** val find_key : z list -> (z list * jval) list -> jval option **)

let rec find_key k = function
| [] -> None
| p :: r -> let (k', x) = p in if bytes_eqb k k' then Some x else find_key k r

(** val rfc6901_at : z list list -> jval -> jval option **)

let rec rfc6901_at segs v =
  match segs with
  | [] -> Some v
  | s :: rest ->
    (match v with
     | JArr items ->
       (match rfc_index s with
        | Some i ->
          (match nth_error items (Z.to_nat i) with
           | Some x -> rfc6901_at rest x
           | None -> None)
        | None -> None)
     | JObj ms ->
       (match find_key s ms with
        | Some x -> rfc6901_at rest x
        | None -> None)
     | _ -> None)

(** val digits_rev : nat -> z -> z list **)

let rec digits_rev fuel n0 =
  match fuel with
  | O -> []
  | S f ->
    if Z.ltb n0 (Zpos (XO (XI (XO XH))))
    then (Z.add (Zpos (XO (XO (XO (XO (XI XH)))))) n0) :: []
    else (Z.add (Zpos (XO (XO (XO (XO (XI XH))))))
           (Z.modulo n0 (Zpos (XO (XI (XO XH)))))) :: (digits_rev f
                                                        (Z.div n0 (Zpos (XO
                                                          (XI (XO XH))))))

(** val itoa : z -> z list **)

let itoa n0 =
  rev (digits_rev (S (S (S (S (S (S (S (S (S (S (S O))))))))))) n0)

(** val star : z list -> bool **)

let star = function
| [] -> false
| z0 :: l ->
  (match z0 with
   | Zpos p ->
     (match p with
      | XO p0 ->
        (match p0 with
         | XI p1 ->
           (match p1 with
            | XO p2 ->
              (match p2 with
               | XI p3 ->
                 (match p3 with
                  | XO p4 ->
                    (match p4 with
                     | XH -> (match l with
                              | [] -> true
                              | _ :: _ -> false)
                     | _ -> false)
                  | _ -> false)
               | _ -> false)
            | _ -> false)
         | _ -> false)
      | _ -> false)
   | _ -> false)

(** val seg_at : z list list -> z -> z list **)

let seg_at ptr lvl =
  nth (Z.to_nat lvl) ptr []

(** val strncmp_eq : z list -> z list -> z -> bool **)

let strncmp_eq a b n0 =
  bytes_eqb (zfirst n0 (cstr a)) (zfirst n0 (cstr b))

(** val upd_jbl : z list list -> z -> z -> z list option -> z -> z * bool **)

let upd_jbl ptr pos lvl key idx =
  let cnt = zlen ptr in
  if Z.ltb lvl cnt
  then let pos1 = if Z.geb pos lvl then Z.sub lvl (Zpos XH) else pos in
       if Z.eqb (Z.add pos1 (Zpos XH)) lvl
       then let keyptr = match key with
                         | Some k -> cstr k
                         | None -> itoa idx in
            let seg = seg_at ptr lvl in
            if (||) (bytes_eqb keyptr seg) (star seg)
            then (lvl, (Z.eqb cnt (Z.add lvl (Zpos XH))))
            else (pos1, false)
       else (pos1, false)
  else (pos, false)

(** val upd_jbn : z list list -> z -> z -> z list option -> z -> z * bool **)

let upd_jbn ptr pos lvl key idx =
  let cnt = zlen ptr in
  if Z.ltb lvl cnt
  then let pos1 = if Z.geb pos lvl then Z.sub lvl (Zpos XH) else pos in
       if Z.eqb (Z.add pos1 (Zpos XH)) lvl
       then let keyptr = match key with
                         | Some k -> k
                         | None -> itoa idx in
            let idx' = match key with
                       | Some _ -> idx
                       | None -> zlen (itoa idx)
            in
            let seg = seg_at ptr lvl in
            let jplen = zlen seg in
            if (||) ((&&) (Z.eqb idx' jplen) (strncmp_eq keyptr seg idx'))
                 (star seg)
            then (lvl, (Z.eqb cnt (Z.add lvl (Zpos XH))))
            else (pos1, false)
       else (pos1, false)
  else (pos, false)

type 'n kres =
| KNot
| KErr of z
| KSome of ((z list option * z) * 'n) list

(** val e_INVALID : z **)

let e_INVALID =
  Zpos XH

(** val e_NESTING : z **)

let e_NESTING =
  Zpos (XO XH)

(** val e_FUEL : z **)

let e_FUEL =
  Zpos (XI XH)

(** val e_DECODE : z **)

let e_DECODE =
  Zpos (XO (XO XH))

type 'n vst = { v_pos : z; v_res : 'n option; v_term : bool }

type 'n vr =
| VErr of z
| VOk of 'n vst

(** val visit :
    ('a1 -> 'a1 kres) -> (z list list -> z -> z -> z list option -> z ->
    z * bool) -> bool -> z list list -> nat -> z -> ((z list
    option * z) * 'a1) list -> 'a1 vst -> 'a1 vr **)

let rec visit kids upd enter_after_terminate ptr fuel lvl cs st =
  match fuel with
  | O -> VErr e_FUEL
  | S f ->
    let rec loop cs0 st0 =
      match cs0 with
      | [] -> VOk st0
      | p :: rest ->
        let (p0, n0) = p in
        let (key, idx) = p0 in
        if st0.v_term
        then VOk st0
        else let (pos', matched) = upd ptr st0.v_pos lvl key idx in
             let st1 =
               if matched
               then { v_pos = pos'; v_res = (Some n0); v_term = true }
               else { v_pos = pos'; v_res = st0.v_res; v_term = false }
             in
             let skip =
               (&&) (negb matched) (Z.ltb (zlen ptr) (Z.add lvl (Zpos XH)))
             in
             if (&&) matched (negb enter_after_terminate)
             then VOk st1
             else if skip
                  then loop rest st1
                  else (match kids n0 with
                        | KNot -> loop rest st1
                        | KErr e -> VErr e
                        | KSome cs' ->
                          if Z.gtb (Z.add lvl (Zpos XH))
                               jbinn_JBL_MAX_NESTING_LEVEL
                          then VErr e_NESTING
                          else (match visit kids upd enter_after_terminate
                                        ptr f (Z.add lvl (Zpos XH)) cs' st1 with
                                | VErr e -> VErr e
                                | VOk st2 -> loop rest st2))
    in loop cs st

type 'n at_res =
| AtFound of 'n
| AtNotFound
| AtPtrErr
| AtPtrUndef
| AtErr of z

(** val at_fuel : z list list -> nat **)

let at_fuel ptr =
  S (S (length ptr))

(** val number : z -> 'a1 list -> ((z list option * z) * 'a1) list **)

let rec number i = function
| [] -> []
| x :: r -> ((None, i), x) :: (number (Z.add i (Zpos XH)) r)

(** val kids_j : jval -> jval kres **)

let kids_j = function
| JArr items -> KSome (number Z0 items)
| JObj ms ->
  KSome (map (fun m -> (((Some (fst m)), (zlen (fst m))), (snd m))) ms)
| _ -> KNot

(** val at_tree2 : jval -> z list list -> jval at_res **)

let at_tree2 v ptr = match ptr with
| [] -> AtFound v
| _ :: _ ->
  (match kids_j v with
   | KSome cs ->
     (match visit kids_j upd_jbn true ptr (at_fuel ptr) Z0 cs { v_pos = (Zneg
              XH); v_res = None; v_term = false } with
      | VErr e -> AtErr e
      | VOk st ->
        (match st.v_res with
         | Some r -> AtFound r
         | None -> AtNotFound))
   | _ -> AtNotFound)

(** val at_tree : jval -> z list -> jval at_res **)

let at_tree v path =
  match ptr_parse3 path with
  | PErr -> AtPtrErr
  | PUndef -> AtPtrUndef
  | POk ptr -> at_tree2 v ptr

(** val kids_b : bval -> bval kres **)

let kids_b b =
  if Z.eqb b.bt jbinn_BINN_OBJECT
  then (match iter_init b.bptr jbinn_BINN_OBJECT with
        | Some it ->
          KSome
            (map (fun m -> (((Some (fst m)), (Zneg XH)), (snd m)))
              (obj_items (iter_fuel it) it))
        | None -> KErr e_INVALID)
  else if Z.eqb b.bt jbinn_BINN_LIST
       then (match iter_init b.bptr jbinn_BINN_LIST with
             | Some it -> KSome (number Z0 (list_items (iter_fuel it) it))
             | None -> KErr e_INVALID)
       else if Z.eqb b.bt jbinn_BINN_MAP then KErr e_DECODE else KNot

(** val at_bval2 : bval -> z list list -> bval at_res **)

let at_bval2 b ptr = match ptr with
| [] -> AtFound b
| _ :: _ ->
  (match kids_b b with
   | KNot -> AtErr e_INVALID
   | KErr e -> AtErr e
   | KSome cs ->
     (match visit kids_b upd_jbl false ptr (at_fuel ptr) Z0 cs { v_pos =
              (Zneg XH); v_res = None; v_term = false } with
      | VErr e -> AtErr e
      | VOk st ->
        (match st.v_res with
         | Some r -> AtFound r
         | None -> AtNotFound)))

(** val at_binn2 : z list -> z list list -> jval at_res **)

let at_binn2 bs ptr =
  match root_bval bs with
  | Some b ->
    (match at_bval2 b ptr with
     | AtFound r ->
       (match dec_node (S (length bs)) r with
        | Some v -> AtFound v
        | None -> AtErr e_DECODE)
     | AtNotFound -> AtNotFound
     | AtPtrErr -> AtPtrErr
     | AtPtrUndef -> AtPtrUndef
     | AtErr e -> AtErr e)
  | None -> AtErr e_INVALID

(** val at_binn : z list -> z list -> jval at_res **)

let at_binn bs path =
  match ptr_parse3 path with
  | PErr -> AtPtrErr
  | PUndef -> AtPtrUndef
  | POk ptr -> at_binn2 bs ptr

type cframe = { f_key : z list option; f_obj : bool;
                f_kids : (z list option * jval) list }

type cst = { c_stack : cframe list; c_pend : (z list option * bool) option;
             c_pos : z }

(** val frame_val : cframe -> jval **)

let frame_val f =
  if f.f_obj
  then JObj
         (map (fun c -> ((match fst c with
                          | Some k -> k
                          | None -> []), (snd c))) (rev f.f_kids))
  else JArr (map snd (rev f.f_kids))

(** val add_kid : (z list option * jval) -> cframe list -> cframe list **)

let add_kid c = function
| [] -> []
| f :: r ->
  { f_key = f.f_key; f_obj = f.f_obj; f_kids = (c :: f.f_kids) } :: r

(** val flush : cst -> cst **)

let flush s =
  match s.c_pend with
  | Some p ->
    let (k, o) = p in
    { c_stack = (add_kid (k, (if o then JObj [] else JArr [])) s.c_stack);
    c_pend = None; c_pos = s.c_pos }
  | None -> s

(** val pop1 : cframe list -> cframe list **)

let pop1 = function
| [] -> []
| f :: r -> add_kid (f.f_key, (frame_val f)) r

(** val popn : nat -> cframe list -> cframe list **)

let rec popn n0 st =
  match n0 with
  | O -> st
  | S k -> popn k (pop1 st)

(** val clone_visit : z -> z list option -> jval -> cst -> cst **)

let clone_visit lvl key n0 s =
  let s1 =
    if Z.ltb lvl s.c_pos
    then let s0 = flush s in
         { c_stack = (popn (Z.to_nat (Z.sub s.c_pos lvl)) s0.c_stack);
         c_pend = None; c_pos = lvl }
    else if Z.gtb lvl s.c_pos
         then (match s.c_pend with
               | Some p ->
                 let (k, o) = p in
                 { c_stack = ({ f_key = k; f_obj = o; f_kids =
                 [] } :: s.c_stack); c_pend = None; c_pos = lvl }
               | None -> { c_stack = s.c_stack; c_pend = None; c_pos = lvl })
         else flush s
  in
  (match n0 with
   | JArr _ ->
     { c_stack = s1.c_stack; c_pend = (Some (key, false)); c_pos = s1.c_pos }
   | JObj _ ->
     { c_stack = s1.c_stack; c_pend = (Some (key, true)); c_pos = s1.c_pos }
   | _ ->
     { c_stack = (add_kid (key, n0) s1.c_stack); c_pend = None; c_pos =
       s1.c_pos })

(** val clone_walk : z -> jval -> cst -> cst **)

let rec clone_walk lvl v s =
  match v with
  | JArr items ->
    let rec loop l s0 =
      match l with
      | [] -> s0
      | x :: r ->
        loop r
          (clone_walk (Z.add lvl (Zpos XH)) x (clone_visit lvl None x s0))
    in loop items s
  | JObj ms ->
    let rec loop l s0 =
      match l with
      | [] -> s0
      | p :: r ->
        let (k, x) = p in
        loop r
          (clone_walk (Z.add lvl (Zpos XH)) x (clone_visit lvl (Some k) x s0))
    in loop ms s
  | _ -> s

(** val jbn_clone : jval -> jval **)

let jbn_clone v = match v with
| JArr _ ->
  let s =
    flush
      (clone_walk Z0 v { c_stack = ({ f_key = None; f_obj =
        (match v with
         | JObj _ -> true
         | _ -> false); f_kids = [] } :: []); c_pend = None; c_pos = Z0 })
  in
  (match popn (Z.to_nat s.c_pos) s.c_stack with
   | [] -> JNull
   | f :: _ -> frame_val f)
| JObj _ ->
  let s =
    flush
      (clone_walk Z0 v { c_stack = ({ f_key = None; f_obj =
        (match v with
         | JObj _ -> true
         | _ -> false); f_kids = [] } :: []); c_pend = None; c_pos = Z0 })
  in
  (match popn (Z.to_nat s.c_pos) s.c_stack with
   | [] -> JNull
   | f :: _ -> frame_val f)
| _ -> v
