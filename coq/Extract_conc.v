(* C07: the section model run on lock-event traces of the implementation (ml/driver_conc.ml) *)
Require Import ZArith List. Require Extraction. Require Import ExtrOcamlBasic.
Require Import IW.CC.Sections IW.CC.Balance.
Extraction "m.ml" Z.add Z.mul Z.sub Z.div_eucl Z.compare Z.of_nat Z.to_nat Z.opp stale_after unguarded_logs outer_violations compile nlogs trace_balanced.
