(* C10 - the block allocator never hands out space that is already in use.  Statements only.
   Model: FS/Fsm.v (variant record selects the code as it is / after fixes/fsm-*.diff), bit level FS/Bits.v.
   How the statements compose: C10_every_history_good says every state reached by a client that releases only what
   it owns satisfies [Good] (tree = maximal zero runs, cache entry is a tree entry); in a Good state an allocation
   (C10_alloc_fresh_partial) returns a block-aligned, long-enough region all of whose blocks were free and flips
   exactly those bits 0->1 (C10_alloc_flips_only_own), hence never a block that was allocated - header, bitmap and
   live regions have their bits set (C10_alloc_avoids_allocated).
   _partial: histories in which the bitmap does not grow/move (allocations carry IWFSM_ALLOC_NO_EXTEND, no clear, no
   trim on close).  The missing part is the invariant across _fsm_init_lw (bitmap relocation: reload + release of the
   old bitmap area); the model of that path is executable and is compared with the implementation on every run (T2). *)
Require Import ZArith List Bool. Require Import IW.Lib.CInt IW.Gen.Facts IW.FS.Bits IW.FS.Bits_proofs IW.FS.Fsm IW.FS.Fsm_hdr_proofs IW.FS.Fsm_proofs.
Import ListNotations. Local Open Scope Z_scope.

Theorem C10_alloc_fresh_partial : forall s len addr opts ovr, Inv s -> WF s -> len < 2 ^ 62 ->
  has opts IWFSM_ALLOC_NO_EXTEND = true ->
  let '(rc, s', a, l) := allocate s len addr opts ovr in
  (rc <> 0 /\ (s' = s \/ exists off olen, allocated_from s s' off olen)) \/
  (rc = 0 /\ exists off olen, allocated_from s s' off olen /\ a = off * 2 ^ bpow s /\ l = olen * 2 ^ bpow s /\
     len <= l /\ (has opts IWFSM_ALLOC_NO_OVERALLOCATE = true -> l = IW_ROUNDUP len (pow2 (bpow s))) /\
     (has opts IWFSM_ALLOC_PAGE_ALIGNED = true -> a mod aunit s = 0)).
Proof. exact allocate_noext. Qed.
Print Assumptions C10_alloc_fresh_partial.

Theorem C10_alloc_avoids_allocated : forall s s' off olen i, allocated_from s s' off olen ->
  getb (bm s) i = true -> ~ (off <= i < off + olen).
Proof. exact alloc_avoids_allocated. Qed.
Print Assumptions C10_alloc_avoids_allocated.

Theorem C10_alloc_flips_only_own : forall s s' off olen i, allocated_from s s' off olen -> 0 <= i < nbits s ->
  getb (bm s') i = if (off <=? i) && (i <? off + olen) then true else getb (bm s) i.
Proof. exact alloc_flips_only_own. Qed.
Print Assumptions C10_alloc_flips_only_own.

Theorem C10_page_aligned_alloc : forall s length_blk mx, Inv s -> WF s -> 0 < length_blk ->
  let '(rc, s', off, olen) := blk_allocate_aligned s length_blk mx in
  (rc = IWFS_ERROR_NO_FREE_SPACE /\ s' = s) \/
  (rc = 0 /\ olen = length_blk /\ allocated_from s s' off olen /\ off mod shr (aunit s) (bpow s) = 0 /\ off <= mx).
Proof. exact blk_allocate_aligned_spec. Qed.
Print Assumptions C10_page_aligned_alloc.

(* IWFSM_SOLID_ALLOCATED_SPACE: every state, every flag combination, over-allocation, bitmap growth and a file size
   limit (exfile maxoff) included (no _partial, no hypothesis on the state or on the sizes): whenever allocate returns 0
   the whole RETURNED region [a, a+l) lies inside the file. *)
Theorem C10_solid_backed : forall s len addr opts ovr,
  has opts IWFSM_SOLID_ALLOCATED_SPACE = true ->
  let '(rc, s', a, l) := allocate s len addr opts ovr in
  rc = 0 -> a + l <= fsize s' /\ bpow s' = bpow s /\ aunit s' = aunit s.
Proof. exact allocate_solid_backed. Qed.
Print Assumptions C10_solid_backed.
(* ... on a history where the over-allocated tail starts a new page behind the end of the file: 60 blocks asked, 64 returned
   at 16640, file 8192 -> 24576 (corpus/C10/solid-overalloc-beyond-eof.txt is the same script on the implementation) *)
Example C10_solid_backed_overallocated : WF solid_witness_state /\ fsize solid_witness_state = 8192 /\
  (let '(rc, s', a, l) := allocate solid_witness_state 3840 0 IWFSM_SOLID_ALLOCATED_SPACE true in (rc, a, l, fsize s'))
  = (0, 16640, 4096, 24576).
Proof. exact solid_witness. Qed.

Theorem C10_release_exact : forall s addr len, Good s ->
  live_range s (blk_of s addr) (blk_of s len) ->
  let '(rc, s') := deallocate s addr len in
  Good s' /\ same_cfg s s' /\
  (s' = s \/ (rc = 0 /\ bm s' = set_range (bm s) (blk_of s addr) (blk_of s len) false)).
Proof. exact deallocate_good. Qed.
Print Assumptions C10_release_exact.

Theorem C10_reallocate_good : forall s nlen addr olen opts ovr, Good s -> has opts IWFSM_ALLOC_NO_EXTEND = true ->
  0 <= nlen < 2 ^ 62 -> live_range s (blk_of s addr) (blk_of s olen) ->
  Good (state_of (reallocate s nlen addr olen opts ovr)) /\ same_cfg s (state_of (reallocate s nlen addr olen opts ovr)).
Proof. exact reallocate_good. Qed.
Print Assumptions C10_reallocate_good.

Theorem C10_invalid_release_refused : forall s addr len,
  negb (Z.land addr (blkmask s) =? 0) = true \/ touches_meta s (blk_of s addr) (blk_of s len) = true ->
  fst (deallocate s addr len) <> 0 /\ snd (deallocate s addr len) = s.
Proof. exact deallocate_refuses. Qed.
Print Assumptions C10_invalid_release_refused.

(* The boundary of the addressable space.  _fsm_set_bit_status_lw - the one routine behind allocate, release, the shrinking
   reallocate, status queries and the strict read/write probes - accepts a range iff it ends at or before the LAST BIT of
   the bitmap (bmlen * 8): the guard is bit-exact, one block too far is refused, whatever the other arguments ... *)
Theorem C10_range_guard_exact : forall s off len v dry,
  (off + len <= nbits s -> fst (set_bit_status s off len v dry false) = 0) /\
  (nbits s < off + len -> forall chk, set_bit_status s off len v dry chk = (IWFS_ERROR_FSM_SEGMENTATION, s)).
Proof. exact set_bit_status_guard. Qed.
Print Assumptions C10_range_guard_exact.

(* ... so a release whose range ends behind the last block the bitmap describes (starting inside, at the end or beyond;
   aligned or not; strict or not; every variant of the code) is refused and NOTHING changes: bitmap, free-extent tree,
   cache, geometry, file size, counters, header *)
Theorem C10_release_beyond_end_refused : forall s addr len, nbits s < blk_of s addr + blk_of s len ->
  fst (deallocate s addr len) <> 0 /\ snd (deallocate s addr len) = s.
Proof. exact release_beyond_end_refused. Qed.
Print Assumptions C10_release_beyond_end_refused.

(* the shrinking branch of reallocate releases [addr + new length, addr + old length): same refusal, same "nothing changes" *)
Theorem C10_shrink_beyond_end_refused : forall s nlen addr olen opts ovr,
  Z.land addr (blkmask s) = 0 -> Z.land olen (blkmask s) = 0 ->
  shr (IW_ROUNDUP nlen (pow2 (bpow s))) (bpow s) < blk_of s olen ->
  nbits s < blk_of s addr + blk_of s olen ->
  let '(rc, s', a, l) := reallocate s nlen addr olen opts ovr in rc <> 0 /\ s' = s /\ a = addr /\ l = olen.
Proof. exact shrink_beyond_end_refused. Qed.
Print Assumptions C10_shrink_beyond_end_refused.

Theorem C10_status_beyond_end_refused : forall s addr len al, nbits s < blk_of s addr + blk_of s len ->
  check_allocation_status s addr len al <> 0.
Proof. exact status_beyond_end_refused. Qed.
Print Assumptions C10_status_beyond_end_refused.

(* on a concrete full file (64-byte blocks, 32768 of them, mmap_all, everything allocated; corpus/C10/release-past-end.txt
   is the same script on the implementation): the last block of the space is block 32767; releasing [32767, 32769) or
   [32768, 32769) is refused, releasing [32767, 32768) - inside the space - is accepted *)
Example C10_boundary_on_full_file :
  let s := full_file_state in
  nbits s = 32768 /\ tree s = [] /\
  deallocate s 2097088 128 = (IWFS_ERROR_FSM_SEGMENTATION, s) /\ deallocate s 2097152 64 = (IWFS_ERROR_FSM_SEGMENTATION, s) /\
  fst (deallocate s 2097088 64) = 0 /\ tree (snd (deallocate s 2097088 64)) = [(1, 32767)].
Proof. exact boundary_on_full_file. Qed.

(* strict mode, model of the code after fixes/fsm-strict-dealloc.diff *)
Theorem C10_strict_release_refused : forall s a m, fx_strict (vr s) = true -> strict s = true ->
  0 <= a -> 0 <= m -> a + m <= nbits s -> len_z (bm s) = nbits s ->
  (exists i, a <= i < a + m /\ getb (bm s) i = false) ->
  blk_deallocate s a m = (IWFS_ERROR_FSM_SEGMENTATION, s).
Proof. exact strict_release_refused. Qed.
Print Assumptions C10_strict_release_refused.

(* the same statement is false of the code as it is: the allocated part of the range is cleared, then the error is returned *)
Theorem C10_strict_release_refused_refuted : exists s a m, strict s = true /\ 0 <= a /\ 0 <= m /\ a + m <= nbits s /\
  len_z (bm s) = nbits s /\ (exists i, a <= i < a + m /\ getb (bm s) i = false) /\
  fst (blk_deallocate s a m) <> 0 /\ bm (snd (blk_deallocate s a m)) <> bm s.
Proof. exact strict_release_refused_refuted. Qed.
Print Assumptions C10_strict_release_refused_refuted.

(* releases of less than one block: refused after fixes/fsm-dealloc-short.diff, accepted (rc 0, empty extent in the tree) before *)
Theorem C10_short_release_refused : forall s addr len, fx_short (vr s) = true -> blk_of s len < 1 ->
  fst (deallocate s addr len) <> 0 /\ snd (deallocate s addr len) = s.
Proof. exact short_release_refused. Qed.
Print Assumptions C10_short_release_refused.
Theorem C10_short_release_refused_refuted : exists s addr len, blk_of s len < 1 /\
  fst (deallocate s addr len) = 0 /\ In (0, blk_of s addr) (tree (snd (deallocate s addr len))).
Proof. exact short_release_refused_refuted. Qed.
Print Assumptions C10_short_release_refused_refuted.

(* [hdr_current s]: the file header names the bitmap area in use (true of every new or reopened file and kept by every
   operation: C11_header_current_step); needed because these histories close and reopen the file *)
Theorem C10_every_history_good_partial : forall ops s, Good s -> hdr_current s = true -> ok_run s ops -> Good (run s ops).
Proof. exact run_good. Qed.
Print Assumptions C10_every_history_good_partial.

(* the hypotheses are satisfiable: a new 64-byte-block file, closed and reopened, and a history on it *)
Example C10_good_state_exists : Good (reopen (fresh v_fixed false) false false).
Proof. exact fresh_reopened_good. Qed.
Example C10_history_exists : ok_run (fresh v_fixed false) lfbk_witness /\
  (let '(rc, _, a, l) := allocate (fresh v_fixed false) 100 0 11 false in (rc, a, l)) = (0, 128, 128).
Proof. split; [apply lfbk_witness_ok; right; reflexivity|vm_compute; reflexivity]. Qed.
