(* C10 - the block allocator never hands out space that is already in use.  Statements only.
   Model: FS/Fsm.v (variant record selects the code as it is / after fixes/fsm-*.diff), bit level FS/Bits.v.
   How the statements compose: C10_every_history_good says every state reached by a client that releases only what
   it owns satisfies [Good] (tree = maximal zero runs, cache entry is a tree entry); in a Good state an allocation
   (C10_alloc_fresh_partial) returns a block-aligned, long-enough region all of whose blocks were free and flips
   exactly those bits 0->1 (C10_alloc_flips_only_own), hence never a block that was allocated - header, bitmap and
   live regions have their bits set (C10_alloc_avoids_allocated).
   Deepening round: nothing is _partial any more.  C10_every_history_good / C10_alloc_fresh cover EVERY history from a new
   file - any flags, bitmap growth through both retry loops of _fsm_blk_allocate_lw, reallocate, clear, close with trim +
   reopen; their one hypothesis is on the outcome (final bitmap below 2^28 bits: the 32-bit block keys; nothing in the
   code stops the growth before they overflow).  The round-1 statements for histories without growth are kept
   (..._noext / ..._without_growth: no size hypothesis at all), now over reachable states instead of [hdr_current].
   Defects reported on the unchanged library are stated here as ..._refuted (model of the code as it is, replayed on the
   library by corpus/C10/realloc-*.txt, alloc-*-overflow.txt) next to the theorem that holds after the patch. *)
Require Import ZArith List Bool. Require Import IW.Lib.CInt IW.Gen.Facts IW.FS.Bits IW.FS.Bits_proofs IW.FS.Fsm IW.FS.Fsm_hdr_proofs IW.FS.Fsm_proofs IW.FS.Fsm_all_proofs.
Import ListNotations. Local Open Scope Z_scope.

(* allocation that may not extend the bitmap: any state with the invariant, no bound on the size of the bitmap *)
Theorem C10_alloc_fresh_noext : forall s len addr opts ovr, Inv s -> WF s -> len < 2 ^ 62 ->
  has opts IWFSM_ALLOC_NO_EXTEND = true ->
  let '(rc, s', a, l) := allocate s len addr opts ovr in
  (rc <> 0 /\ (s' = s \/ (exists off olen, allocated_from s s' off olen) \/ (exists off olen, given_back s s' off olen))) \/
  (rc = 0 /\ exists off olen, allocated_from s s' off olen /\ a = off * 2 ^ bpow s /\ l = olen * 2 ^ bpow s /\
     len <= l /\ (has opts IWFSM_ALLOC_NO_OVERALLOCATE = true -> l = IW_ROUNDUP len (pow2 (bpow s))) /\
     (has opts IWFSM_ALLOC_PAGE_ALIGNED = true -> a mod aunit s = 0)).
Proof. exact allocate_noext. Qed.
Print Assumptions C10_alloc_fresh_noext.

(* EVERY flag combination, bitmap growth included.  [Full s]: index = maximal zero runs (Inv), geometry, the bitmap's own
   area and the header blocks marked allocated, header current - the predicate of every reachable state (C10_every_history_good).  When the call
   returns 0 the region was carved out of a free run of a state sg that differs from s by relocations of the bitmap only:
   [Grown s sg] = every block in use in s (and not part of the old bitmap area) is in use in sg and outside the bitmap area
   of sg.  So the region is disjoint from every live region, from the header and from the bitmap in use. *)
Theorem C10_alloc_fresh : forall s len addr opts ovr, Full s -> len < 2 ^ 62 ->
  let r := allocate s len addr opts ovr in
  bmlen (state_of r) * 16 <= FSM_BKEY_MAX ->
  Full (state_of r) /\
  (rc_of r = 0 -> exists sg off olen, Full sg /\ Grown s sg /\ allocated_from sg (state_of r) off olen /\
     addr_of r = off * 2 ^ bpow s /\ len_of r = olen * 2 ^ bpow s /\ len <= len_of r /\
     (has opts IWFSM_ALLOC_NO_OVERALLOCATE = true -> len_of r = IW_ROUNDUP len (pow2 (bpow s))) /\
     (has opts IWFSM_ALLOC_PAGE_ALIGNED = true -> addr_of r mod aunit s = 0)).
Proof. exact allocate_full. Qed.
Print Assumptions C10_alloc_fresh.

Theorem C10_alloc_avoids_allocated : forall s s' off olen i, allocated_from s s' off olen ->
  getb (bm s) i = true -> ~ (off <= i < off + olen).
Proof. exact alloc_avoids_allocated. Qed.
Print Assumptions C10_alloc_avoids_allocated.

Theorem C10_alloc_flips_only_own : forall s s' off olen i, allocated_from s s' off olen -> 0 <= i < nbits s ->
  getb (bm s') i = if (off <=? i) && (i <? off + olen) then true else getb (bm s) i.
Proof. exact alloc_flips_only_own. Qed.
Print Assumptions C10_alloc_flips_only_own.

Theorem C10_page_aligned_alloc : forall s length_blk mx, Inv s -> WF s -> 0 < length_blk ->
  let '(rc, s', off, olen) := blk_allocate_aligned s length_blk mx in
  (rc = IWFS_ERROR_NO_FREE_SPACE /\ s' = s) \/
  (rc = 0 /\ olen = length_blk /\ allocated_from s s' off olen /\ off mod shr (aunit s) (bpow s) = 0 /\ off <= mx).
Proof. exact blk_allocate_aligned_spec. Qed.
Print Assumptions C10_page_aligned_alloc.

(* IWFSM_SOLID_ALLOCATED_SPACE: every state, every flag combination, over-allocation, bitmap growth and a file size
   limit (exfile maxoff) included (no _partial, no hypothesis on the state or on the sizes): whenever allocate returns 0
   the whole RETURNED region [a, a+l) lies inside the file. *)
Theorem C10_solid_backed : forall s len addr opts ovr,
  has opts IWFSM_SOLID_ALLOCATED_SPACE = true ->
  let '(rc, s', a, l) := allocate s len addr opts ovr in
  rc = 0 -> a + l <= fsize s' /\ bpow s' = bpow s /\ aunit s' = aunit s.
Proof. exact allocate_solid_backed. Qed.
Print Assumptions C10_solid_backed.
(* ... on a history where the over-allocated tail starts a new page behind the end of the file: 60 blocks asked, 64 returned
   at 16640, file 8192 -> 24576 (corpus/C10/solid-overalloc-beyond-eof.txt is the same script on the implementation) *)
Example C10_solid_backed_overallocated : WF solid_witness_state /\ fsize solid_witness_state = 8192 /\
  (let '(rc, s', a, l) := allocate solid_witness_state 3840 0 IWFSM_SOLID_ALLOCATED_SPACE true in (rc, a, l, fsize s'))
  = (0, 16640, 4096, 24576).
Proof. exact solid_witness. Qed.

Theorem C10_release_exact : forall s addr len, Good s ->
  live_range s (blk_of s addr) (blk_of s len) ->
  let '(rc, s') := deallocate s addr len in
  Good s' /\ same_cfg s s' /\
  (s' = s \/ (rc = 0 /\ bm s' = set_range (bm s) (blk_of s addr) (blk_of s len) false)).
Proof. exact deallocate_good. Qed.
Print Assumptions C10_release_exact.

(* reallocate of an owned range, any flags, bitmap growth included *)
Theorem C10_reallocate_every_flag : forall s nlen addr olen opts ovr, Full s -> 0 <= nlen < 2 ^ 62 ->
  live_range s (blk_of s addr) (blk_of s olen) ->
  fx_realloc (vr s) = true \/ touches_meta s (blk_of s addr) (blk_of s olen) = false ->
  let r := reallocate s nlen addr olen opts ovr in
  bmlen (state_of r) * 16 <= FSM_BKEY_MAX -> Full (state_of r).
Proof. exact reallocate_full. Qed.
Print Assumptions C10_reallocate_every_flag.

Theorem C10_reallocate_good : forall s nlen addr olen opts ovr, Good s -> has opts IWFSM_ALLOC_NO_EXTEND = true ->
  0 <= nlen < 2 ^ 62 -> live_range s (blk_of s addr) (blk_of s olen) ->
  Good (state_of (reallocate s nlen addr olen opts ovr)) /\ same_cfg s (state_of (reallocate s nlen addr olen opts ovr)).
Proof. exact reallocate_good. Qed.
Print Assumptions C10_reallocate_good.

Theorem C10_invalid_release_refused : forall s addr len,
  negb (Z.land addr (blkmask s) =? 0) = true \/ touches_meta s (blk_of s addr) (blk_of s len) = true ->
  fst (deallocate s addr len) <> 0 /\ snd (deallocate s addr len) = s.
Proof. exact deallocate_refuses. Qed.
Print Assumptions C10_invalid_release_refused.

(* The boundary of the addressable space.  _fsm_set_bit_status_lw - the one routine behind allocate, release, the shrinking
   reallocate, status queries and the strict read/write probes - accepts a range iff it ends at or before the LAST BIT of
   the bitmap (bmlen * 8): the guard is bit-exact, one block too far is refused, whatever the other arguments ... *)
Theorem C10_range_guard_exact : forall s off len v dry,
  (off + len <= nbits s -> fst (set_bit_status s off len v dry false) = 0) /\
  (nbits s < off + len -> forall chk, set_bit_status s off len v dry chk = (IWFS_ERROR_FSM_SEGMENTATION, s)).
Proof. exact set_bit_status_guard. Qed.
Print Assumptions C10_range_guard_exact.

(* ... so a release whose range ends behind the last block the bitmap describes (starting inside, at the end or beyond;
   aligned or not; strict or not; every variant of the code) is refused and NOTHING changes: bitmap, free-extent tree,
   cache, geometry, file size, counters, header *)
Theorem C10_release_beyond_end_refused : forall s addr len, nbits s < blk_of s addr + blk_of s len ->
  fst (deallocate s addr len) <> 0 /\ snd (deallocate s addr len) = s.
Proof. exact release_beyond_end_refused. Qed.
Print Assumptions C10_release_beyond_end_refused.

(* the shrinking branch of reallocate releases [addr + new length, addr + old length): same refusal, same "nothing changes" *)
Theorem C10_shrink_beyond_end_refused : forall s nlen addr olen opts ovr,
  Z.land addr (blkmask s) = 0 -> Z.land olen (blkmask s) = 0 ->
  shr (IW_ROUNDUP nlen (pow2 (bpow s))) (bpow s) < blk_of s olen ->
  nbits s < blk_of s addr + blk_of s olen ->
  let '(rc, s', a, l) := reallocate s nlen addr olen opts ovr in rc <> 0 /\ s' = s /\ a = addr /\ l = olen.
Proof. exact shrink_beyond_end_refused. Qed.
Print Assumptions C10_shrink_beyond_end_refused.

Theorem C10_status_beyond_end_refused : forall s addr len al, nbits s < blk_of s addr + blk_of s len ->
  check_allocation_status s addr len al <> 0.
Proof. exact status_beyond_end_refused. Qed.
Print Assumptions C10_status_beyond_end_refused.

(* on a concrete full file (64-byte blocks, 32768 of them, mmap_all, everything allocated; corpus/C10/release-past-end.txt
   is the same script on the implementation): the last block of the space is block 32767; releasing [32767, 32769) or
   [32768, 32769) is refused, releasing [32767, 32768) - inside the space - is accepted *)
Example C10_boundary_on_full_file :
  let s := full_file_state in
  nbits s = 32768 /\ tree s = [] /\
  deallocate s 2097088 128 = (IWFS_ERROR_FSM_SEGMENTATION, s) /\ deallocate s 2097152 64 = (IWFS_ERROR_FSM_SEGMENTATION, s) /\
  fst (deallocate s 2097088 64) = 0 /\ tree (snd (deallocate s 2097088 64)) = [(1, 32767)].
Proof. exact boundary_on_full_file. Qed.

(* strict mode, model of the code after fixes/fsm-strict-dealloc.diff *)
Theorem C10_strict_release_refused : forall s a m, fx_strict (vr s) = true -> strict s = true ->
  0 <= a -> 0 <= m -> a + m <= nbits s -> len_z (bm s) = nbits s ->
  (exists i, a <= i < a + m /\ getb (bm s) i = false) ->
  blk_deallocate s a m = (IWFS_ERROR_FSM_SEGMENTATION, s).
Proof. exact strict_release_refused. Qed.
Print Assumptions C10_strict_release_refused.

(* the same statement is false of the code as it is: the allocated part of the range is cleared, then the error is returned *)
Theorem C10_strict_release_refused_refuted : exists s a m, strict s = true /\ 0 <= a /\ 0 <= m /\ a + m <= nbits s /\
  len_z (bm s) = nbits s /\ (exists i, a <= i < a + m /\ getb (bm s) i = false) /\
  fst (blk_deallocate s a m) <> 0 /\ bm (snd (blk_deallocate s a m)) <> bm s.
Proof. exact strict_release_refused_refuted. Qed.
Print Assumptions C10_strict_release_refused_refuted.

(* releases of less than one block: refused after fixes/fsm-dealloc-short.diff, accepted (rc 0, empty extent in the tree) before *)
Theorem C10_short_release_refused : forall s addr len, fx_short (vr s) = true -> blk_of s len < 1 ->
  fst (deallocate s addr len) <> 0 /\ snd (deallocate s addr len) = s.
Proof. exact short_release_refused. Qed.
Print Assumptions C10_short_release_refused.
Theorem C10_short_release_refused_refuted : exists s addr len, blk_of s len < 1 /\
  fst (deallocate s addr len) = 0 /\ In (0, blk_of s addr) (tree (snd (deallocate s addr len))).
Proof. exact short_release_refused_refuted. Qed.
Print Assumptions C10_short_release_refused_refuted.

(* ---- reallocate and the allocator's own areas (reported on the unchanged library; fixes/fsm-realloc-guard.diff) *)
Theorem C10_realloc_meta_refused : forall s nlen addr olen opts ovr, fx_realloc (vr s) = true ->
  blk_of s olen < 1 \/ touches_meta s (blk_of s addr) (blk_of s olen) = true ->
  let '(rc, s', a, l) := reallocate s nlen addr olen opts ovr in
  s' = s /\ a = addr /\ l = olen /\ (rc = 0 -> shr (IW_ROUNDUP nlen (pow2 (bpow s))) (bpow s) = blk_of s olen).
Proof. exact realloc_meta_refused. Qed.
Print Assumptions C10_realloc_meta_refused.
(* the code as it is: new file, reallocate(192, &a = 0, &l = 128) answers 0, the header blocks are free, and the next
   allocate(64) returns address 0 - inside the file header *)
Theorem C10_realloc_meta_refused_refuted : exists s nlen addr olen opts,
  touches_meta s (blk_of s addr) (blk_of s olen) = true /\
  (let '(rc, s1, a, l) := reallocate s nlen addr olen opts false in
   rc = 0 /\ getb (bm s1) 0 = false /\
   (let '(rc2, _, a2, l2) := allocate s1 64 0 0 false in rc2 = 0 /\ a2 = 0 /\ a2 < hdrlen s)).
Proof. exact realloc_meta_refused_refuted. Qed.
Print Assumptions C10_realloc_meta_refused_refuted.
(* ... and in strict mode 63 of the 64 blocks of the live bitmap are released *)
Theorem C10_realloc_bitmap_refuted : exists s, strict s = true /\ BmArea s /\
  (let r := reallocate s 64 4096 4096 0 false in
   rc_of r = 0 /\ bmoff (state_of r) = 4096 /\ bmlen (state_of r) = 4096 /\
   getb (bm (state_of r)) 65 = false /\ getb (bm (state_of r)) 127 = false /\ ~ BmArea (state_of r)).
Proof. exact realloc_bitmap_refuted. Qed.
Print Assumptions C10_realloc_bitmap_refuted.
Example C10_realloc_meta_fixed_on_new_file :
  (let r := reallocate (fresh v_fixed false) 192 0 128 0 false in
   rc_of r = IWFS_ERROR_FSM_SEGMENTATION /\ state_of r = fresh v_fixed false /\ (addr_of r, len_of r) = (0, 128)) /\
  (let r := reallocate (fresh v_fixed true) 64 4096 4096 0 false in
   rc_of r = IWFS_ERROR_FSM_SEGMENTATION /\ state_of r = fresh v_fixed true /\ (addr_of r, len_of r) = (4096, 4096)).
Proof. exact realloc_meta_fixed_on_new_file. Qed.

(* ---- round 7: reallocate of a range the caller does not own (fixes/fsm-realloc-recheck.diff).  The guard of the old range is
   evaluated before the new region is allocated; that allocation may grow the bitmap and put it INTO a free "old region" *)
Theorem C10_realloc_unowned_refuted : exists s, strict s = true /\ all_range (bm s) 128 256 false = true /\
  (let r := reallocate s 3145728 8192 16384 1 false in
   rc_of r = 0 /\ (bmoff (state_of r), bmlen (state_of r)) = (8192, 8192) /\ getb (bm (state_of r)) 128 = false /\
   ~ BmArea (state_of r)).
Proof. exact realloc_unowned_refuted. Qed.
Print Assumptions C10_realloc_unowned_refuted.
Theorem C10_realloc_strict_unowned_refused : forall s nlen addr olen opts ovr, fx_recheck (vr s) = true -> strict s = true ->
  Z.land addr (blkmask s) = 0 -> Z.land olen (blkmask s) = 0 -> 0 <= nlen ->
  blk_of s olen < shr (IW_ROUNDUP nlen (pow2 (bpow s))) (bpow s) ->
  0 <= blk_of s addr -> 0 <= blk_of s olen -> blk_of s addr + blk_of s olen <= nbits s -> len_z (bm s) = nbits s ->
  (exists i, blk_of s addr <= i < blk_of s addr + blk_of s olen /\ getb (bm s) i = false) ->
  let '(rc, s', a, l) := reallocate s nlen addr olen opts ovr in rc <> 0 /\ s' = s /\ a = addr /\ l = olen.
Proof. exact realloc_strict_unowned_refused. Qed.
Print Assumptions C10_realloc_strict_unowned_refused.
Theorem C10_realloc_negative_refused : forall s nlen addr olen opts ovr, fx_recheck (vr s) = true -> nlen < 0 ->
  let '(rc, s', a, l) := reallocate s nlen addr olen opts ovr in rc <> 0 /\ s' = s /\ a = addr /\ l = olen.
Proof. exact realloc_negative_refused. Qed.
Print Assumptions C10_realloc_negative_refused.
Theorem C10_realloc_negative_refuted : exists s, getb (bm s) 128 = true /\
  (let r := reallocate s (-1) 8192 4096 0 false in rc_of r = 0 /\ len_of r = 0 /\ getb (bm (state_of r)) 128 = false).
Proof. exact realloc_negative_refuted. Qed.
Print Assumptions C10_realloc_negative_refuted.
(* after the patch: strict - refused, nothing changes; non-strict - refused, the bitmap has grown but is intact, the new region
   is given back (the state predicate is kept in every case: C10_reallocate_every_flag covers the patched code) *)
Example C10_realloc_unowned_fixed :
  (let r := reallocate (snd (open_new_max v_fixed 6 0 0 0 true)) 3145728 8192 16384 1 false in
   (rc_of r, bmlen (state_of r), tree (state_of r)) = (IWFS_ERROR_FSM_SEGMENTATION, 4096, [(62, 2); (32640, 128)])) /\
  (let r := reallocate (snd (open_new_max v_fixed 6 0 0 0 false)) 3145728 8192 16384 1 false in
   (rc_of r, bmoff (state_of r), bmlen (state_of r), tree (state_of r)) =
   (IWFS_ERROR_FSM_SEGMENTATION, 8192, 8192, [(126, 2); (65280, 256)]) /\ getb (bm (state_of r)) 128 = true) /\
  rc_of (reallocate (state_of (allocate (snd (open_new_max v_fixed 6 0 0 0 false)) 4096 0 11 false)) (-1) 8192 4096 0 false)
    = FSM_IW_ERROR_INVALID_ARGS.
Proof. exact realloc_unowned_fixed. Qed.

(* ---- the address hint is a hint (reported on the unchanged library; fixes/fsm-alloc-overflow.diff).  After the patch - or for
   any hint below 2^32 blocks - a request that is not page aligned is served from the current bitmap whenever SOME free run is
   long enough; _fsm_find_matching_fblock_lw is complete (C11_lookup_complete) *)
Theorem C10_alloc_hint_harmless : forall s length_blk hint opts ovr, Inv s -> 0 < length_blk ->
  fx_hint (vr s) = true \/ hint <= FSM_BKEY_MAX ->
  has opts IWFSM_ALLOC_PAGE_ALIGNED = false ->
  (exists o n, is_run (bm s) o n /\ length_blk <= n) ->
  let '(rc, s', off, olen) := blk_allocate s length_blk hint opts ovr in
  na_outcome s rc s' off olen /\ length_blk <= olen.
Proof. exact alloc_hint_harmless. Qed.
Print Assumptions C10_alloc_hint_harmless.
(* the code as it is, new file, hint address 2^40: NO_FREE_SPACE under NO_EXTEND although 32640 blocks in a row are free ... *)
Theorem C10_alloc_hint_refuted_noext : exists s hint,
  (exists o n, is_run (bm s) o n /\ 1 <= n) /\ rc_of (allocate s 64 hint IWFSM_ALLOC_NO_EXTEND false) = IWFS_ERROR_NO_FREE_SPACE.
Proof. exact alloc_hint_refuted_noext. Qed.
Print Assumptions C10_alloc_hint_refuted_noext.
(* ... and without the flag the bitmap doubles until the file cannot grow any more (here: size limit 64 KB), then the call fails *)
Theorem C10_alloc_hint_refuted_growth : exists v hint, fx_hint v = false /\
  let s := snd (open_new_max v 6 0 0 65536 false) in
  let r := allocate s 64 hint 0 false in
  (bmlen s, fsize s) = (4096, 8192) /\ rc_of r = FSM_E_MAXOFF /\ (bmlen (state_of r), fsize (state_of r)) = (32768, 65536).
Proof. exact alloc_hint_refuted_growth. Qed.
Print Assumptions C10_alloc_hint_refuted_growth.
Example C10_alloc_hint_fixed :
  let s := snd (open_new_max v_fixed 6 0 0 65536 false) in
  (let r := allocate s 64 (2 ^ 40) IWFSM_ALLOC_NO_EXTEND false in (rc_of r, addr_of r, len_of r)) = (0, 128, 64) /\
  (let r := allocate s 64 (-1) 0 false in (rc_of r, addr_of r, len_of r, bmlen (state_of r))) = (0, 128, 64, 4096) /\
  (let r := allocate s (2 ^ 38) 0 0 false in (rc_of r, bmlen (state_of r), fsize (state_of r))) = (FSM_IW_ERROR_OVERFLOW, 4096, 8192).
Proof. exact alloc_hint_fixed. Qed.

(* ---- EVERY HISTORY from a new file (was C10_every_history_good_partial: allocations had to carry NO_EXTEND, no clear, no trim).
   [client_all]: request anything; release / resize only owned ranges; clear as long as it succeeds; sync; close (trim or not) +
   reopen.  [Full] implies Good, header current, index = maximal zero runs, and the blocks of the bitmap area AND of the file
   header marked allocated (C10_full_facts) - so, with C10_alloc_fresh, no allocation ever returns one of them. *)
Theorem C10_every_history_good : forall v bp hl bl mx st ops, fx_lfbk v = true -> 0 <= bp -> bl <= 2 ^ 28 ->
  fst (open_new_max v bp hl bl mx st) = 0 ->
  ok_all (snd (open_new_max v bp hl bl mx st)) ops ->
  bmlen (run (snd (open_new_max v bp hl bl mx st)) ops) * 16 <= FSM_BKEY_MAX ->
  Full (run (snd (open_new_max v bp hl bl mx st)) ops).
Proof. exact every_history_full. Qed.
Print Assumptions C10_every_history_good.
Theorem C10_every_history_good_from : forall ops s, Full s -> ok_all s ops -> bmlen (run s ops) * 16 <= FSM_BKEY_MAX -> Full (run s ops).
Proof. exact run_full. Qed.
Print Assumptions C10_every_history_good_from.
Theorem C10_full_facts : forall s, Full s ->
  Good s /\ hdr_current s = true /\ (forall o n, In (n, o) (tree s) <-> is_run (bm s) o n) /\
  (forall i, in_area s i -> getb (bm s) i = true) /\
  (forall i, 0 <= i < shr (hdrlen s) (bpow s) -> getb (bm s) i = true).
Proof. exact full_facts. Qed.
Print Assumptions C10_full_facts.
(* the bitmap never shrinks along a history (header current, clears succeed): the bound on the outcome bounds every state *)
Theorem C10_bitmap_only_grows : forall ops s, HS s -> clears_ok_run s ops -> bmlen s <= bmlen (run s ops).
Proof. exact mono_run. Qed.
Print Assumptions C10_bitmap_only_grows.

(* histories without bitmap growth (the round-1 statement): no hypothesis on sizes; [reachable] replaces the hypothesis
   [hdr_current s = true] of round 5 - the header is current in every reachable state (C11_header_current_reachable) *)
Theorem C10_history_without_growth_good : forall ops s, reachable s -> Good s -> ok_run s ops -> Good (run s ops).
Proof. exact run_good_reachable. Qed.
Print Assumptions C10_history_without_growth_good.

(* the hypotheses are satisfiable: a new 64-byte-block file, closed and reopened, and a history on it; and a history that grows
   the bitmap, shrinks a region, releases, syncs, closes with trim, reopens strict, clears, and allocates page aligned *)
Example C10_good_state_exists : Good (reopen (fresh v_fixed false) false false).
Proof. exact fresh_reopened_good. Qed.
Example C10_history_exists : ok_run (fresh v_fixed false) lfbk_witness /\
  (let '(rc, _, a, l) := allocate (fresh v_fixed false) 100 0 11 false in (rc, a, l)) = (0, 128, 128).
Proof. split; [apply lfbk_witness_ok; right; reflexivity|vm_compute; reflexivity]. Qed.
Example C10_full_history_exists : fst (open_new_max v_fixed 6 0 0 0 false) = 0 /\
  ok_all (snd (open_new_max v_fixed 6 0 0 0 false)) full_witness_ops /\
  (let s := run (snd (open_new_max v_fixed 6 0 0 0 false)) full_witness_ops in
   (bmlen s, bmoff s) = (8192, 4096) /\ bmlen s * 16 <= FSM_BKEY_MAX).
Proof. exact full_witness. Qed.
