Require Import ZArith List. Require Extraction. Require Import ExtrOcamlBasic.
Require Import IW.Lib.CInt IW.Lib.Vnum IW.KV.Keys IW.KV.Node IW.KV.Cursor IW.KV.Inst IW.KV.CopyReads IW.KV.Skip IW.Gen.Facts.
Extraction "m.ml" Z.add Z.mul Z.sub Z.div_eucl Z.compare Z.of_nat Z.to_nat Z.opp
  db_empty db_put db_get db_del db_copen db_cto db_cread db_cset db_cdel cur_get cur_del with_curs
  api_key node_keys flat eff_key cursor_at stored_size skip_lower cmp_of db_cmatch le_encode le_decode db_ccopyval db_ccopykey.
