(* C05, corruption of checksum-covered bytes (checksums written and checked): the bytes a segment header covers, or
   the payload of a WRITE record, of an intact log are replaced by ANY bytes of the same length.  The replay then
     - reports corruption (CORRUPTED_WAL) when it reaches the damaged record, or
     - stops with rc 0 at a genuine savepoint of the log that lies before the damaged record,
   unless one of three things holds, each named in the statement: the stored checksum is 0 (the reader takes 0 as
   "no checksum"), the new bytes have the checksum of the old ones (a collision of iwu_crc32), or the scanner
   (_last_fix_and_reset_points, which verifies no checksum) picked up a reset mark somewhere in the damaged log.
   The last case is real: reset_mark_bypass_refuted. *)
Require Import ZArith List Bool Lia.
Require Import IW.Lib.CInt IW.Gen.Facts IW.WAL.Rec IW.WAL.Rec_proofs IW.WAL.Scan IW.WAL.Scan_proofs
  IW.WAL.Replay IW.WAL.Replay_proofs IW.WAL.Proto IW.WAL.Proto_proofs IW.WAL.Segs_proofs.
Import ListNotations.
Local Open Scope Z_scope.

(* the log L with the bytes [a, a + |X'|) replaced by X' *)
Definition damaged (L : bytes) (a : Z) (X' : bytes) : bytes :=
  firstn (Z.to_nat a) L ++ X' ++ skipn (Z.to_nat a + length X') L.

Lemma firstn_agree : forall (a T T0 : bytes) (k len : nat),
  firstn k T = firstn k T0 -> (len <= length a + k)%nat -> firstn len (a ++ T) = firstn len (a ++ T0).
Proof.
  intros a T T0 k len H Hl. rewrite !firstn_app. f_equal.
  assert (E : forall X : bytes, firstn (len - length a) X = firstn (len - length a) (firstn k X)).
  { intros X. rewrite firstn_firstn. f_equal. lia. }
  rewrite (E T), (E T0), H. reflexivity.
Qed.

Lemma existsb_sp_cons : forall f r t pos,
  existsb (Z.eqb f) (sp_offsets (r :: t) pos) = (is_sp r && (f =? pos)) || existsb (Z.eqb f) (sp_offsets t (pos + rec_size r)).
Proof. intros. cbn [sp_offsets]. rewrite existsb_app. destruct (is_sp r); cbn [existsb andb orb]; [rewrite orb_false_r|]; reflexivity. Qed.

Lemma existsb_sp_ge : forall f t pos, existsb (Z.eqb f) (sp_offsets t pos) = true -> pos <= f.
Proof.
  intros f t pos H. apply existsb_exists in H. destruct H as [q [Hin Hq]]. apply Z.eqb_eq in Hq. subst q.
  apply sp_offsets_ge in Hin. exact Hin.
Qed.

(* the replay over intact records Rpre followed by bytes T at whose first record it stops with "corrupted":
   it either stops before, at the savepoint the scanner chose, or reports the corruption *)
Lemma replay_loop_pre : forall Rpre ccrc fuel first pos fpos total T R0 (k : nat),
  forallb rec_range Rpre = true ->
  sep_fit Rpre pos (pos + size Rpre + Z.of_nat k) = true ->
  (ccrc = true -> crc_ok (Rpre ++ R0) = true) ->
  firstn k T = firstn k (encode R0) -> (k <= length T)%nat -> (0 < length T)%nat ->
  total = pos + size Rpre + Z.of_nat (length T) ->
  (first = true -> head_sep Rpre = true) ->
  replay_step ccrc (first && match Rpre with [] => true | _ => false end) (Z.of_nat (length T)) (pos + size Rpre) T fpos
    = RStop VCorrupt ->
  (length (encode Rpre) < fuel)%nat ->
  replay_loop fuel ccrc first total pos (encode Rpre ++ T) fpos =
    if existsb (Z.eqb fpos) (sp_offsets Rpre pos) then (VOk, ops_before Rpre pos fpos) else (VCorrupt, bops Rpre).
Proof.
  induction Rpre as [|r rs IH]; intros ccrc fuel first pos fpos total T R0 k Hr Hs Hcrc Hag Hk HT Htot Hf Hstep Hfu.
  - cbn [encode flat_map app size sp_offsets existsb bops] in *. destruct fuel as [|f]; [lia|]. cbn [replay_loop].
    rewrite Z.add_0_r in *. destruct (Z.ltb_spec pos total); [|lia]. cbn [negb].
    replace (total - pos) with (Z.of_nat (length T)) by lia. rewrite andb_true_r in Hstep. rewrite Hstep. reflexivity.
  - destruct fuel as [|f]; [lia|]. rewrite encode_cons in *. rewrite <- app_assoc. cbn [replay_loop size] in *.
    pose proof (rec_size_pos r) as Hp. pose proof (size_nonneg rs) as Hn.
    destruct (Z.ltb_spec pos total); [|lia]. cbn [negb].
    cbn [forallb] in Hr. apply andb_prop in Hr. destruct Hr as [Hr1 Hr2].
    cbn [sep_fit] in Hs. apply andb_prop in Hs. destruct Hs as [Hs1 Hs2].
    set (T' := encode rs ++ T) in *. set (c := length (enc_rec r ++ T')).
    assert (Hc : Z.of_nat c = total - pos).
    { unfold c, T'. rewrite !app_length, !Nat2Z.inj_add, enc_rec_length, size_encode. lia. }
    rewrite <- Hc. rewrite <- (firstn_all (enc_rec r ++ T')) at 1. fold c.
    assert (Hfit : (length (enc_rec r) <= c)%nat) by (unfold c; rewrite app_length; lia).
    rewrite replay_step_intact by assumption.
    assert (Hk' : length (enc_rec r) = Z.to_nat (rec_size r)) by (rewrite <- enc_rec_length; lia).
    rewrite existsb_sp_cons.
    assert (Hcrc2 : ccrc = true -> crc_ok (rs ++ R0) = true).
    { intros Hc1. specialize (Hcrc Hc1). cbn [app crc_ok] in Hcrc. apply andb_prop in Hcrc. tauto. }
    assert (Hrec : forall adv op, adv = rec_size r -> op = op_of r -> (is_sp r && (fpos =? pos)) = false ->
      (let (v, ops) := replay_loop f ccrc false total (pos + adv) (skipn (Z.to_nat adv) (enc_rec r ++ T')) fpos in (v, op ++ ops))
      = (if false || existsb (Z.eqb fpos) (sp_offsets rs (pos + rec_size r))
         then (VOk, ops_before (r :: rs) pos fpos) else (VCorrupt, bops (r :: rs)))).
    { intros adv op -> -> Hnsp. rewrite skipn_app_exact by exact Hk'. unfold T'.
      rewrite (IH ccrc f false (pos + rec_size r) fpos total T R0 k Hr2); auto.
      - cbn [orb]. destruct (existsb (Z.eqb fpos) (sp_offsets rs (pos + rec_size r))) eqn:Ex.
        + apply existsb_sp_ge in Ex. cbn [ops_before]. destruct (Z.ltb_spec pos fpos); [reflexivity | lia].
        + reflexivity.
      - replace (pos + rec_size r + size rs + Z.of_nat k) with (pos + (rec_size r + size rs) + Z.of_nat k) by ring. exact Hs2.
      - lia.
      - intros; discriminate.
      - cbn [andb] in *. replace (pos + rec_size r + size rs) with (pos + (rec_size r + size rs)) by ring.
        destruct first; cbn [andb] in Hstep; exact Hstep.
      - rewrite app_length in Hfu. lia. }
    destruct r as [crc len|val off len|off len noff|crc off p|os ns|ts|]; cbn [rrstep op_of is_sp andb] in *.
    + (* SEP *)
      apply Z.leb_le in Hs1. cbn [rec_size] in *.
      assert (HlenT' : Z.of_nat (length T') = size rs + Z.of_nat (length T)).
      { unfold T'. rewrite app_length, Nat2Z.inj_add, size_encode. reflexivity. }
      destruct (Z.gtb_spec len (Z.of_nat c)); [unfold sizeof_WBSEP in *; lia|].
      assert (Hck : (ccrc && negb (crc =? 0) && negb (crc32 (take_pad len (firstn (c - 12) T')) 0 =? crc)) = false).
      { destruct ccrc; [|reflexivity]. specialize (Hcrc eq_refl).
        cbn [app crc_ok] in Hcrc. apply andb_prop in Hcrc. destruct Hcrc as [Hcrc _].
        cbn [rec_range] in Hr1. apply andb_prop in Hr1. destruct Hr1 as [_ Hl]. apply u32_range in Hl.
        apply orb_prop in Hcrc. destruct Hcrc as [Hz|Hz]; [rewrite Hz; reflexivity|].
        assert (Hall : firstn (c - 12) T' = T').
        { apply firstn_all2. unfold c. rewrite app_length. pose proof (enc_rec_length (RSep crc len)). cbn [rec_size] in H1. unfold sizeof_WBSEP in *. lia. }
        rewrite Hall. replace len with (Z.of_nat (Z.to_nat len)) at 1 by lia.
        rewrite take_pad_exact by (unfold sizeof_WBSEP in *; lia).
        unfold T'. rewrite (firstn_agree (encode rs) T (encode R0) k (Z.to_nat len) Hag)
          by (pose proof (size_encode rs); unfold sizeof_WBSEP in *; lia).
        rewrite <- encode_app, Hz. cbn [negb andb]. apply andb_false_r. }
      rewrite Hck. apply Hrec; reflexivity.
    + destruct first; [specialize (Hf eq_refl); discriminate|]. apply Hrec; reflexivity.
    + destruct first; [specialize (Hf eq_refl); discriminate|]. apply Hrec; reflexivity.
    + destruct first; [specialize (Hf eq_refl); discriminate|].
      assert (Hck : (ccrc && negb (crc =? 0) && negb (crc32 p 0 =? crc)) = false).
      { destruct ccrc; [|reflexivity]. specialize (Hcrc eq_refl). cbn [app crc_ok] in Hcrc. apply andb_prop in Hcrc.
        destruct Hcrc as [Hcrc _]. apply orb_prop in Hcrc. destruct Hcrc as [Hz|Hz]; rewrite Hz; [reflexivity|].
        cbn [negb andb]. apply andb_false_r. }
      rewrite Hck. apply Hrec; reflexivity.
    + destruct first; [specialize (Hf eq_refl); discriminate|]. apply Hrec; reflexivity.
    + (* SAVEPOINT *)
      destruct first; [specialize (Hf eq_refl); discriminate|].
      destruct (Z.eqb_spec fpos pos) as [E|E].
      * cbn [orb]. cbn [ops_before]. subst fpos. rewrite Z.ltb_irrefl. reflexivity.
      * apply Hrec; reflexivity.
    + destruct first; [specialize (Hf eq_refl); discriminate|]. apply Hrec; reflexivity.
Qed.

Lemma damaged_split : forall Rpre (H T0 : bytes) X',
  damaged (encode Rpre ++ H ++ T0) (size Rpre + lenZ H) X' =
  encode Rpre ++ H ++ X' ++ skipn (length X') T0.
Proof.
  intros Rpre H T0 X'. unfold damaged.
  assert (E : Z.to_nat (size Rpre + lenZ H) = length (encode Rpre ++ H)).
  { rewrite app_length. pose proof (size_encode Rpre). unfold lenZ. lia. }
  rewrite E. rewrite (app_assoc (encode Rpre) H T0). rewrite firstn_app_exact by reflexivity.
  rewrite skipn_app. replace (length (encode Rpre ++ H) + length X' - length (encode Rpre ++ H))%nat with (length X') by lia.
  rewrite skipn_all2 by lia. cbn [app]. rewrite <- app_assoc. reflexivity.
Qed.

(* what the replay answers given what the scanner found, when the first damaged record stops it *)
Lemma replay_damaged : forall Rpre R0 T (k : nat),
  forallb rec_range Rpre = true -> sep_fit Rpre 0 (size Rpre + Z.of_nat k) = true -> crc_ok (Rpre ++ R0) = true ->
  head_sep Rpre = true -> firstn k T = firstn k (encode R0) -> (k <= length T)%nat -> (0 < length T)%nat ->
  (forall fpos, replay_step true (match Rpre with [] => true | _ => false end) (Z.of_nat (length T)) (size Rpre) T fpos = RStop VCorrupt) ->
  snd (scan (encode Rpre ++ T)) = 0 ->
  let f := fst (scan (encode Rpre ++ T)) in
  replay_ops true 1 0 (encode Rpre ++ T) =
    if f =? 0 then (VOk, []) else
    if existsb (Z.eqb f) (sp_offsets Rpre 0) then (VOk, ops_before Rpre 0 f) else (VCorrupt, bops Rpre).
Proof.
  intros Rpre R0 T k Hr Hs Hcrc Hh Hag Hk HT Hstep Hrp f. unfold f. clear f. unfold replay_ops, replay_ops_with.
  set (L' := encode Rpre ++ T) in *.
  assert (HL : Z.of_nat (length L') = size Rpre + Z.of_nat (length T)).
  { unfold L'. rewrite app_length, Nat2Z.inj_add, size_encode. reflexivity. }
  pose proof (size_nonneg Rpre).
  destruct (Z.eqb_spec (Z.of_nat (length L')) 0); [lia|]. cbn [Z.eqb negb].
  unfold scan in *. destruct (scan_with sp_checks L') as [fpos rpos]. cbn [fst snd] in *. subst rpos.
  destruct (Z.eqb_spec fpos 0); [reflexivity|]. cbn [Z.gtb Z.compare andb].
  refine (replay_loop_pre Rpre true (S (length L')) true 0 fpos (Z.of_nat (length L')) T R0 k Hr _ (fun _ => Hcrc) Hag Hk HT _ (fun _ => Hh) _ _).
  - rewrite Z.add_0_l. exact Hs.
  - lia.
  - cbn [andb]. rewrite Z.add_0_l. apply Hstep.
  - unfold L'. rewrite app_length. lia.
Qed.

Lemma replay_step_whole : forall ccrc first r T pos fpos, rec_range r = true ->
  replay_step ccrc first (Z.of_nat (length (enc_rec r ++ T))) pos (enc_rec r ++ T) fpos
  = rrstep ccrc first r T (length (enc_rec r ++ T)) pos fpos.
Proof.
  intros. rewrite <- (firstn_all (enc_rec r ++ T)) at 2. apply replay_step_intact; [assumption|]. rewrite app_length. lia.
Qed.

Lemma sp_offsets_le : forall rs pos q, In q (sp_offsets rs pos) -> q <= pos + size rs.
Proof.
  induction rs as [|r rs IH]; intros pos q Hin; [contradiction|].
  cbn [sp_offsets size] in *. apply in_app_or in Hin. pose proof (rec_size_pos r). pose proof (size_nonneg rs).
  destruct Hin as [Hin|Hin]; [destruct (is_sp r); [destruct Hin as [<-|[]]; lia | contradiction]|].
  apply IH in Hin. lia.
Qed.

Lemma enc_write_split : forall crc off p, enc_rec (RWrite crc off p) = write_hdr crc off (lenZ p) ++ p.
Proof. intros. cbn [enc_rec]. unfold write_hdr, lenZ. rewrite <- !app_assoc. reflexivity. Qed.

Lemma head_sep_app : forall a b, head_sep (a ++ b) = true -> head_sep a = true.
Proof. intros [|r a] b H; [reflexivity | exact H]. Qed.

(* ---- (1) the bytes covered by a segment header *)
Theorem flip_in_segment : forall Rpre crc len Rrest X',
  let R := Rpre ++ RSep crc len :: Rrest in
  wf_log R = true -> crc_ok R = true ->
  sep_fit Rpre 0 (size Rpre) = true ->                      (* the earlier segments end before this one begins *)
  len <= size Rrest -> lenZ X' = len ->
  let L' := damaged (encode R) (size Rpre + sizeof_WBSEP) X' in
  snd (scan L') = 0 -> crc <> 0 -> crc32 X' 0 <> crc ->
  let f := fst (scan L') in
  replay_ops true 1 0 L' =
    if f =? 0 then (VOk, []) else
    if existsb (Z.eqb f) (sp_offsets Rpre 0) then (VOk, ops_before R 0 f) else (VCorrupt, bops Rpre).
Proof.
  intros Rpre crc len Rrest X' R Hwf Hcrc Hfit Hlen HX L' Hrp Hc0 Hcx f.
  destruct (wf_log_parts R Hwf) as [H1 [H2 H3]].
  unfold R in H2. rewrite forallb_app in H2. apply andb_prop in H2. destruct H2 as [Hr1 Hr2].
  cbn [forallb] in Hr2. apply andb_prop in Hr2. destruct Hr2 as [Hrs Hr3].
  assert (HL' : L' = encode Rpre ++ (enc_rec (RSep crc len) ++ X' ++ skipn (length X') (encode Rrest))).
  { unfold L', R. rewrite encode_app, encode_cons.
    replace sizeof_WBSEP with (lenZ (enc_rec (RSep crc len))) by reflexivity. rewrite damaged_split. rewrite <- ?app_assoc. reflexivity. }
  set (T := enc_rec (RSep crc len) ++ X' ++ skipn (length X') (encode Rrest)) in *.
  assert (HlenX : length X' = Z.to_nat len) by (unfold lenZ in HX; lia).
  assert (Hlen0 : 0 <= len) by (unfold lenZ in HX; lia).
  assert (HTlen : (12 + length X' <= length T)%nat).
  { unfold T. rewrite !app_length. cbn [enc_rec hdr app length le_enc]. lia. }
  unfold f. revert Hrp. rewrite HL'. intros Hrp.
  rewrite (replay_damaged Rpre (RSep crc len :: Rrest) T 0); auto; try lia.
  - set (g := fst (scan (encode Rpre ++ T))). destruct (g =? 0); [reflexivity|]. destruct (existsb (Z.eqb g) (sp_offsets Rpre 0)) eqn:Ex; [|reflexivity].
    unfold R. apply existsb_exists in Ex. destruct Ex as [q [Hin Hq]]. apply Z.eqb_eq in Hq. subst q.
    rewrite ops_before_app_le; [reflexivity|].
    apply (sp_offsets_le Rpre 0). exact Hin.
  - rewrite Z.add_0_r. exact Hfit.
  - apply (head_sep_app Rpre (RSep crc len :: Rrest)). exact H1.
  - intros fpos. unfold T. rewrite replay_step_whole by exact Hrs. fold T.
    cbn [rrstep]. destruct (len >? Z.of_nat (length T)); [reflexivity|].
    assert (Hall : firstn (length T - 12) (X' ++ skipn (length X') (encode Rrest)) = X' ++ skipn (length X') (encode Rrest)).
    { apply firstn_all2. unfold T. rewrite !app_length. cbn [enc_rec hdr app length le_enc]. lia. }
    rewrite Hall. replace len with (Z.of_nat (length X')) at 1 by lia.
    rewrite take_pad_exact by (rewrite app_length; lia). rewrite firstn_app_exact by reflexivity.
    destruct (Z.eqb_spec crc 0); [contradiction|]. destruct (Z.eqb_spec (crc32 X' 0) crc); [contradiction|]. reflexivity.
Qed.

(* ---- (1') the general form: ANY damaged log whose records up to some segment header are intact.  The header itself may
   be damaged too (stored checksum crc', length len): if crc' is not 0 and is not the checksum of the len bytes that
   follow, the replay does not get past it.  "crc = 0 means unchecked" is part of the format (crc_zero_unchecked_refuted). *)
Theorem corrupt_segment_detected : forall Rpre crc' len X' post,
  forallb rec_range Rpre = true -> crc_ok Rpre = true -> head_sep Rpre = true -> sep_fit Rpre 0 (size Rpre) = true ->
  u32 crc' = true -> u32 len = true -> lenZ X' = len ->
  let L' := encode Rpre ++ enc_rec (RSep crc' len) ++ X' ++ post in
  snd (scan L') = 0 -> crc' <> 0 -> crc32 X' 0 <> crc' ->
  let f := fst (scan L') in
  replay_ops true 1 0 L' =
    if f =? 0 then (VOk, []) else
    if existsb (Z.eqb f) (sp_offsets Rpre 0) then (VOk, ops_before Rpre 0 f) else (VCorrupt, bops Rpre).
Proof.
  intros Rpre crc' len X' post Hr Hcrc Hh Hfit Hu1 Hu2 HX L' Hrp Hc0 Hcx f.
  set (T := enc_rec (RSep crc' len) ++ X' ++ post) in *.
  assert (Hrs : rec_range (RSep crc' len) = true) by (cbn [rec_range]; rewrite Hu1, Hu2; reflexivity).
  assert (HlenX : length X' = Z.to_nat len) by (unfold lenZ in HX; lia).
  assert (Hlen0 : 0 <= len) by (unfold lenZ in HX; lia).
  assert (HTlen : (12 + length X' <= length T)%nat).
  { unfold T. rewrite !app_length. cbn [enc_rec hdr app length le_enc]. lia. }
  unfold f, L'. apply (replay_damaged Rpre [] T 0); auto; try lia.
  - rewrite Z.add_0_r. exact Hfit.
  - rewrite app_nil_r. exact Hcrc.
  - intros fpos. unfold T. rewrite replay_step_whole by exact Hrs. fold T.
    cbn [rrstep]. destruct (len >? Z.of_nat (length T)); [reflexivity|].
    assert (Hall : firstn (length T - 12) (X' ++ post) = X' ++ post).
    { apply firstn_all2. unfold T. rewrite !app_length. cbn [enc_rec hdr app length le_enc]. lia. }
    rewrite Hall. replace len with (Z.of_nat (length X')) at 1 by lia.
    rewrite take_pad_exact by (rewrite app_length; lia). rewrite firstn_app_exact by reflexivity.
    destruct (Z.eqb_spec crc' 0); [contradiction|]. destruct (Z.eqb_spec (crc32 X' 0) crc'); [contradiction|]. reflexivity.
Qed.

(* ---- (2) the payload of a WRITE record (covered by the record's own checksum; with the buffer bypass by nothing else) *)
Theorem flip_in_payload : forall Rpre crc off payload Rrest X',
  let R := Rpre ++ RWrite crc off payload :: Rrest in
  wf_log R = true -> crc_ok R = true ->
  sep_fit Rpre 0 (size Rpre + sizeof_WBWRITE) = true ->     (* the segment header before it covers at most the WRITE header *)
  length X' = length payload -> forallb (fun b => (0 <=? b) && (b <? 256)) X' = true ->
  let L' := damaged (encode R) (size Rpre + sizeof_WBWRITE) X' in
  snd (scan L') = 0 -> crc <> 0 -> crc32 X' 0 <> crc ->
  let f := fst (scan L') in
  replay_ops true 1 0 L' =
    if f =? 0 then (VOk, []) else
    if existsb (Z.eqb f) (sp_offsets Rpre 0) then (VOk, ops_before R 0 f) else (VCorrupt, bops Rpre).
Proof.
  intros Rpre crc off payload Rrest X' R Hwf Hcrc Hfit HX Hbytes L' Hrp Hc0 Hcx f.
  destruct (wf_log_parts R Hwf) as [H1 [H2 H3]].
  unfold R in H2. rewrite forallb_app in H2. apply andb_prop in H2. destruct H2 as [Hr1 Hr2].
  cbn [forallb] in Hr2. apply andb_prop in Hr2. destruct Hr2 as [Hrs Hr3].
  assert (Hrs' : rec_range (RWrite crc off X') = true).
  { cbn [rec_range] in *. rewrite HX, Hbytes. apply andb_prop in Hrs. destruct Hrs as [Hrs _]. rewrite Hrs. reflexivity. }
  set (hd := write_hdr crc off (lenZ payload)).
  assert (Hhd : forall p, length p = length payload -> enc_rec (RWrite crc off p) = hd ++ p).
  { intros p Hp. rewrite enc_write_split. unfold hd, lenZ. rewrite Hp. reflexivity. }
  assert (HL' : L' = encode Rpre ++ (enc_rec (RWrite crc off X') ++ encode Rrest)).
  { unfold L', R. rewrite encode_app, encode_cons, (Hhd payload eq_refl), (Hhd X' HX).
    replace sizeof_WBWRITE with (lenZ hd) by reflexivity. rewrite <- !app_assoc. rewrite damaged_split.
    rewrite HX. rewrite skipn_app_exact by reflexivity. reflexivity. }
  set (T := enc_rec (RWrite crc off X') ++ encode Rrest) in *.
  assert (HTlen : (20 + length X' <= length T)%nat).
  { unfold T. rewrite app_length, (Hhd X' HX), app_length. unfold hd. cbn [write_hdr hdr app length le_enc]. lia. }
  unfold f. revert Hrp. rewrite HL'. intros Hrp.
  rewrite (replay_damaged Rpre (RWrite crc off payload :: Rrest) T 20); auto; try lia.
  - set (g := fst (scan (encode Rpre ++ T))). destruct (g =? 0); [reflexivity|]. destruct (existsb (Z.eqb g) (sp_offsets Rpre 0)) eqn:Ex; [|reflexivity].
    unfold R. apply existsb_exists in Ex. destruct Ex as [q [Hin Hq]]. apply Z.eqb_eq in Hq. subst q.
    rewrite ops_before_app_le; [reflexivity|].
    apply (sp_offsets_le Rpre 0). exact Hin.
  - apply (head_sep_app Rpre (RWrite crc off payload :: Rrest)). exact H1.
  - unfold T. rewrite encode_cons, (Hhd payload eq_refl), (Hhd X' HX), <- !app_assoc.
    rewrite !firstn_app_exact by reflexivity. reflexivity.
  - intros fpos. unfold T. rewrite replay_step_whole by exact Hrs'. fold T.
    cbn [rrstep]. destruct (match Rpre with [] => true | _ => false end); [reflexivity|].
    destruct (Z.eqb_spec crc 0); [contradiction|]. destruct (Z.eqb_spec (crc32 X' 0) crc); [contradiction|]. reflexivity.
Qed.

Lemma sp_offsets_app_l : forall a b pos q, In q (sp_offsets a pos) -> In q (sp_offsets (a ++ b) pos).
Proof.
  induction a as [|r rs IH]; intros b pos q Hin; [contradiction|].
  cbn [app sp_offsets] in *. apply in_or_app. apply in_app_or in Hin. destruct Hin as [Hin|Hin]; [left; exact Hin | right; apply IH; exact Hin].
Qed.

(* the statements with every escape named: what an undetected change of covered bytes requires *)
Theorem flip_in_segment_cases : forall Rpre crc len Rrest X',
  let R := Rpre ++ RSep crc len :: Rrest in
  wf_log R = true -> crc_ok R = true -> sep_fit Rpre 0 (size Rpre) = true -> len <= size Rrest -> lenZ X' = len ->
  let L' := damaged (encode R) (size Rpre + sizeof_WBSEP) X' in
  crc = 0 \/ crc32 X' 0 = crc \/ snd (scan L') <> 0 \/
  fst (replay_ops true 1 0 L') = VCorrupt \/
  (exists q, (q = 0 \/ In q (sp_offsets R 0)) /\ q <= size Rpre /\ replay_ops true 1 0 L' = (VOk, ops_before R 0 q)).
Proof.
  intros Rpre crc len Rrest X' R Hwf Hcrc Hfit Hlen HX L'.
  destruct (Z.eq_dec crc 0) as [|Hc0]; [left; assumption|]. right.
  destruct (Z.eq_dec (crc32 X' 0) crc) as [|Hcx]; [left; assumption|]. right.
  destruct (Z.eq_dec (snd (scan L')) 0) as [Hrp|]; [|left; assumption]. right.
  pose proof (flip_in_segment Rpre crc len Rrest X' Hwf Hcrc Hfit Hlen HX Hrp Hc0 Hcx) as H. cbv zeta in H. fold R L' in H.
  destruct (Z.eqb_spec (fst (scan L')) 0) as [E0|E0].
  - right. exists 0. split; [left; reflexivity|]. split; [apply size_nonneg|]. rewrite H. rewrite ops_before_nil by lia. reflexivity.
  - destruct (existsb (Z.eqb (fst (scan L'))) (sp_offsets Rpre 0)) eqn:Ex.
    + right. exists (fst (scan L')). apply existsb_exists in Ex. destruct Ex as [q [Hin Hq]]. apply Z.eqb_eq in Hq. subst q.
      split; [right; unfold R; apply sp_offsets_app_l; exact Hin|split; [apply (sp_offsets_le Rpre 0); exact Hin | exact H]].
    + left. rewrite H. reflexivity.
Qed.

Theorem flip_in_payload_cases : forall Rpre crc off payload Rrest X',
  let R := Rpre ++ RWrite crc off payload :: Rrest in
  wf_log R = true -> crc_ok R = true -> sep_fit Rpre 0 (size Rpre + sizeof_WBWRITE) = true ->
  length X' = length payload -> forallb (fun b => (0 <=? b) && (b <? 256)) X' = true ->
  let L' := damaged (encode R) (size Rpre + sizeof_WBWRITE) X' in
  crc = 0 \/ crc32 X' 0 = crc \/ snd (scan L') <> 0 \/
  fst (replay_ops true 1 0 L') = VCorrupt \/
  (exists q, (q = 0 \/ In q (sp_offsets R 0)) /\ q <= size Rpre /\ replay_ops true 1 0 L' = (VOk, ops_before R 0 q)).
Proof.
  intros Rpre crc off payload Rrest X' R Hwf Hcrc Hfit HX Hb L'.
  destruct (Z.eq_dec crc 0) as [|Hc0]; [left; assumption|]. right.
  destruct (Z.eq_dec (crc32 X' 0) crc) as [|Hcx]; [left; assumption|]. right.
  destruct (Z.eq_dec (snd (scan L')) 0) as [Hrp|]; [|left; assumption]. right.
  pose proof (flip_in_payload Rpre crc off payload Rrest X' Hwf Hcrc Hfit HX Hb Hrp Hc0 Hcx) as H. cbv zeta in H. fold R L' in H.
  destruct (Z.eqb_spec (fst (scan L')) 0) as [E0|E0].
  - right. exists 0. split; [left; reflexivity|]. split; [apply size_nonneg|]. rewrite H. rewrite ops_before_nil by lia. reflexivity.
  - destruct (existsb (Z.eqb (fst (scan L'))) (sp_offsets Rpre 0)) eqn:Ex.
    + right. exists (fst (scan L')). apply existsb_exists in Ex. destruct Ex as [q [Hin Hq]]. apply Z.eqb_eq in Hq. subst q.
      split; [right; unfold R; apply sp_offsets_app_l; exact Hin|split; [apply (sp_offsets_le Rpre 0); exact Hin | exact H]].
    + left. rewrite H. reflexivity.
Qed.

(* ---- the third escape is real.  Three synced operations, checksums on; the 36 bytes covered by the second segment's
   header are overwritten by five reset records, a segment header with checksum 0 and a reset record.  The scanner
   takes the planted mark as the restart point: the replay starts there, never looks at the checksum of the damaged
   segment, skips the first two operations, applies the third and returns 0 (log truncated): byte 5 = 3 without
   byte 0 = 1 - a state the store never had.  Replayed on the real library by checks/C05.py (planted reset marks). *)
Definition rb_cfg : pcfg := mkC 4084 true.
Definition rb_main : bytes := repeat 0 4096%nat.
Definition rb_events : list event :=
  [VWrite 0 [1]; VSavepoint 5 true; VWrite 1 [2;2;2;2]; VSavepoint 6 true; VWrite 5 [3]; VSavepoint 7 true].
Definition rb_log : bytes := p_log (fst (run rb_cfg (mkP [] [] rb_main 0 0 false) rb_events)).
Definition rb_X' : bytes := [6;0;0;0; 6;0;0;0; 6;0;0;0; 6;0;0;0; 6;0;0;0; 127;0;0;0; 0;0;0;0; 4;0;0;0; 6;0;0;0].
Definition rb_L' : bytes := damaged rb_log 57 rb_X'.
Definition rb_R : list rec := match parse rb_log with Some R => R | None => [] end.
Definition rb_view (r : verdict * bytes * list aop) : verdict * list aop * Z * Z :=
  let '(v, m, ops) := r in (v, ops, nth 0 m 0, nth 5 m 0).
Theorem reset_mark_bypass_refuted :
  (encode rb_R = rb_log /\ wf_log rb_R = true /\ crc_full rb_R = true /\ no_reset rb_R = true /\
   sp_offsets rb_R 0 = [33; 81; 126] /\ map rec_size (firstn 4 rb_R) = [12; 21; 12; 12] /\
   match nth 3 rb_R RReset with RSep crc len => negb (crc =? 0) && (len =? 36) | _ => false end = true) /\
  length rb_X' = 36%nat /\ scan rb_L' = (126, 89) /\
  (reset_prefix_verified = false -> rb_view (recover true 1 0 rb_L' rb_main) = (VOk, [AWrite 5 [3]], 0, 3)) /\
  (reset_prefix_verified = true -> fst (replay_ops true 1 0 rb_L') = VCorrupt) /\      (* with fixes/wal-reset-prefix-verified.diff *)
  rb_view (recover true 1 0 rb_log rb_main) = (VOk, [AWrite 0 [1]; AWrite 1 [2;2;2;2]; AWrite 5 [3]], 1, 3).
Proof. vm_compute. repeat split; try reflexivity; intros H; first [reflexivity | discriminate H]. Qed.

(* ---- the first escape is real too, and needs no collision: the stored checksums are not covered by anything, and 0
   means "not checked".  Same log; 9 bytes changed: the checksum field of the second segment header (4 bytes -> 0), the
   checksum field of its WRITE record (4 bytes -> 0), one payload byte (2 -> 9).  Every check is switched off for that
   segment: rc 0, the store holds a byte no operation ever wrote. *)
Definition cz_L' : bytes := damaged (damaged (damaged rb_log 49 [0;0;0;0]) 61 [0;0;0;0]) 77 [9].
Theorem crc_zero_unchecked_refuted :
  (firstn 4 (skipn 49 rb_log) <> [0;0;0;0] /\ firstn 4 (skipn 61 rb_log) <> [0;0;0;0] /\ nth 77 rb_log 0 = 2) /\
  length cz_L' = length rb_log /\ scan cz_L' = (126, 0) /\
  let '(v, m, ops) := recover true 1 0 cz_L' rb_main in
  (v, ops, firstn 6 m) = (VOk, [AWrite 0 [1]; AWrite 1 [9;2;2;2]; AWrite 5 [3]], [1;9;2;2;2;3]).
Proof. vm_compute. repeat split; try reflexivity; discriminate. Qed.
