(* Proofs about Replay: on every cut of an encoded well-formed log the replay applies exactly the records that
   precede the recovery point chosen by the scanner, and stops there with rc = 0. *)
Require Import ZArith List Bool Lia.
Require Import IW.Lib.CInt IW.Gen.Facts IW.WAL.Rec IW.WAL.Rec_proofs IW.WAL.Scan IW.WAL.Scan_proofs IW.WAL.Replay.
Import ListNotations.
Local Open Scope Z_scope.

(* ---- remaining field reads *)
Lemma rd_set_val : forall v o l T, rd 4 offsetof_WBSET_val (enc_rec (RSet v o l) ++ T) = v mod 256 ^ Z.of_nat 4.
Proof. intros. cbn [enc_rec]. rewrite <- !app_assoc. apply rd_field. reflexivity. Qed.
Lemma rd_set_off : forall v o l T, rd 8 offsetof_WBSET_off (enc_rec (RSet v o l) ++ T) = o mod 256 ^ Z.of_nat 8.
Proof. intros. cbn [enc_rec]. rewrite <- !app_assoc. rewrite (app_assoc (hdr _)). apply rd_field.
  rewrite app_length, le_enc_length. reflexivity. Qed.
Lemma rd_set_len : forall v o l T, rd 8 offsetof_WBSET_len (enc_rec (RSet v o l) ++ T) = l mod 256 ^ Z.of_nat 8.
Proof. intros. cbn [enc_rec]. rewrite <- !app_assoc. rewrite (app_assoc (le_enc 4 v)), (app_assoc (hdr _)). apply rd_field.
  rewrite !app_length, !le_enc_length. reflexivity. Qed.
Lemma rd_copy_off : forall o l n T, rd 8 offsetof_WBCOPY_off (enc_rec (RCopy o l n) ++ T) = o mod 256 ^ Z.of_nat 8.
Proof. intros. cbn [enc_rec]. rewrite <- !app_assoc. apply rd_field. reflexivity. Qed.
Lemma rd_copy_len : forall o l n T, rd 8 offsetof_WBCOPY_len (enc_rec (RCopy o l n) ++ T) = l mod 256 ^ Z.of_nat 8.
Proof. intros. cbn [enc_rec]. rewrite <- !app_assoc. rewrite (app_assoc (hdr _)). apply rd_field.
  rewrite app_length, le_enc_length. reflexivity. Qed.
Lemma rd_copy_noff : forall o l n T, rd 8 offsetof_WBCOPY_noff (enc_rec (RCopy o l n) ++ T) = n mod 256 ^ Z.of_nat 8.
Proof. intros. cbn [enc_rec]. rewrite <- !app_assoc. rewrite (app_assoc (le_enc 8 o)), (app_assoc (hdr _)). apply rd_field.
  rewrite !app_length, !le_enc_length. reflexivity. Qed.
Lemma rd_resize_nsize : forall o n T, rd 8 offsetof_WBRESIZE_nsize (enc_rec (RResize o n) ++ T) = n mod 256 ^ Z.of_nat 8.
Proof. intros. cbn [enc_rec]. rewrite <- !app_assoc. rewrite (app_assoc (hdr _)). apply rd_field.
  rewrite app_length, le_enc_length. reflexivity. Qed.

Lemma i64_range : forall x, i64 x = true -> -9223372036854775808 <= x < 9223372036854775808.
Proof. unfold i64. intros x H. apply andb_prop in H. destruct H as [H1 H2]. apply Z.leb_le in H1. apply Z.ltb_lt in H2. lia. Qed.

Lemma take_pad_exact : forall n l, (n <= length l)%nat -> take_pad (Z.of_nat n) l = firstn n l.
Proof.
  intros n l H. unfold take_pad. rewrite Nat2Z.id, firstn_length_le by exact H. rewrite Nat.sub_diag. cbn. apply app_nil_r.
Qed.

(* ---- one step of the replay on an encoded record that survived whole *)
Definition rrstep (ccrc first : bool) (r : rec) (T : bytes) (c : nat) (pos fpos : Z) : rstep :=
  match r with
  | RSep crc len =>
      if len >? Z.of_nat c then RStop VCorrupt else
      if ccrc && negb (crc =? 0) && negb (crc32 (take_pad len (firstn (c - 12) T)) 0 =? crc) then RStop VCorrupt
      else RNext sizeof_WBSEP []
  | RSet v o l => if first then RStop VCorrupt else RNext sizeof_WBSET [ASet v o l]
  | RCopy o l n => if first then RStop VCorrupt else RNext sizeof_WBCOPY [ACopy o l n]
  | RWrite crc off p =>
      if first then RStop VCorrupt else
      if ccrc && negb (crc =? 0) && negb (crc32 p 0 =? crc) then RStop VCorrupt
      else RNext (sizeof_WBWRITE + Z.of_nat (length p)) [AWrite off p]
  | RResize _ n => if first then RStop VCorrupt else RNext sizeof_WBRESIZE [AResize n]
  | RSavepoint _ => if first then RStop VCorrupt else if fpos =? pos then RStop VOk else RNext sizeof_WBSAVEPOINT []
  | RReset => if first then RStop VCorrupt else RNext sizeof_WBRESET []
  end.

Lemma replay_step_intact : forall ccrc first r T (c : nat) pos fpos,
  rec_range r = true -> (length (enc_rec r) <= c)%nat ->
  replay_step ccrc first (Z.of_nat c) pos (firstn c (enc_rec r ++ T)) fpos = rrstep ccrc first r T c pos fpos.
Proof.
  intros ccrc first r T c pos fpos Hr Hc.
  assert (Hc1 : (1 <= c)%nat) by (pose proof (enc_rec_length r); pose proof (rec_size_pos r); lia).
  pose proof (enc_rec_length r) as Hlen.
  unfold replay_step. rewrite (nth0_cut r T c Hc1).
  destruct r as [crc len|val off len|off len noff|crc off p|os ns|ts|]; cbn [rrstep rec_size] in *; destruct first; wop;
    cbn [Z.eqb Pos.eqb negb andb]; try reflexivity.
  1,2: (* SEP *)
    destruct (Z.ltb_spec (Z.of_nat c) sizeof_WBSEP); [facts; lia|];
    rewrite !rd_firstn by (facts; cbn; lia); rewrite rd_sep_len, rd_sep_crc;
    cbn [rec_range] in Hr; apply andb_prop in Hr; destruct Hr as [Hcr Hl];
    rewrite !u32_id by (apply u32_range; assumption);
    rewrite skipn_firstn_app by (facts; lia); reflexivity.
  - (* SET *)
    destruct (Z.ltb_spec (Z.of_nat c) sizeof_WBSET); [facts; lia|].
    unfold rd_off. rewrite !rd_firstn by (facts; cbn; lia). rewrite rd_set_val, rd_set_off, rd_set_len.
    cbn [rec_range] in Hr. apply andb_prop in Hr. destruct Hr as [Hr H3]. apply andb_prop in Hr. destruct Hr as [H1 H2].
    rewrite u32_id by (apply u32_range; assumption). rewrite !sw64_id by (apply i64_range; assumption). reflexivity.
  - (* COPY *)
    destruct (Z.ltb_spec (Z.of_nat c) sizeof_WBCOPY); [facts; lia|].
    unfold rd_off. rewrite !rd_firstn by (facts; cbn; lia). rewrite rd_copy_off, rd_copy_len, rd_copy_noff.
    cbn [rec_range] in Hr. apply andb_prop in Hr. destruct Hr as [Hr H3]. apply andb_prop in Hr. destruct Hr as [H1 H2].
    rewrite !sw64_id by (apply i64_range; assumption). reflexivity.
  - (* WRITE *)
    destruct (Z.ltb_spec (Z.of_nat c) sizeof_WBWRITE); [facts; lia|].
    unfold rd_off. rewrite !rd_firstn by (facts; cbn; lia). rewrite rd_write_len, rd_write_crc, rd_write_off.
    cbn [rec_range] in Hr. apply andb_prop in Hr. destruct Hr as [Hr H4]. apply andb_prop in Hr. destruct Hr as [Hr H3].
    apply andb_prop in Hr. destruct Hr as [H1 H2].
    rewrite !u32_id by (apply u32_range; assumption). rewrite sw64_id by (apply i64_range; assumption).
    destruct (Z.ltb_spec (Z.of_nat c) (Z.of_nat (length p))); [facts; lia|].
    (* payload *)
    assert (Hd : take_pad (Z.of_nat (length p)) (skipn (Z.to_nat sizeof_WBWRITE) (firstn c (enc_rec (RWrite crc off p) ++ T))) = p).
    { cbn [enc_rec]. rewrite !app_assoc. rewrite <- (app_assoc _ p T).
      rewrite skipn_firstn_app by (rewrite !app_length, !le_enc_length; reflexivity).
      rewrite take_pad_exact.
      - rewrite firstn_firstn. replace (Init.Nat.min (length p) (c - Z.to_nat sizeof_WBWRITE)) with (length p) by (facts; lia).
        apply firstn_app_exact. reflexivity.
      - rewrite firstn_length, app_length. facts. lia. }
    rewrite Hd. reflexivity.
  - (* RESIZE *)
    destruct (Z.ltb_spec (Z.of_nat c) sizeof_WBRESIZE); [facts; lia|].
    unfold rd_off. rewrite !rd_firstn by (facts; cbn; lia). rewrite rd_resize_nsize.
    cbn [rec_range] in Hr. apply andb_prop in Hr. destruct Hr as [H1 H2].
    rewrite !sw64_id by (apply i64_range; assumption). reflexivity.
Qed.

(* a savepoint record needs only its first byte *)
Lemma replay_step_sp : forall ccrc ts T (c : nat) pos fpos, (1 <= c)%nat ->
  replay_step ccrc false (Z.of_nat c) pos (firstn c (enc_rec (RSavepoint ts) ++ T)) fpos
  = if fpos =? pos then RStop VOk else RNext sizeof_WBSAVEPOINT [].
Proof.
  intros. unfold replay_step. rewrite (nth0_cut _ T c H). wop. cbn [Z.eqb Pos.eqb negb andb]. reflexivity.
Qed.

(* ---- the loop *)
Lemma replay_loop_done : forall fuel ccrc first fsz pos l fpos,
  fsz <= pos -> replay_loop fuel ccrc first fsz pos l fpos = (VOk, []).
Proof.
  intros fuel ccrc first fsz pos l fpos H. destruct fuel; cbn [replay_loop]; [reflexivity|].
  destruct (Z.ltb_spec pos fsz); [lia|]. reflexivity.
Qed.

Lemma first_sp_le : forall rs pos f, In f (sp_offsets rs pos) -> exists q, first_sp rs pos = Some q /\ q <= f.
Proof.
  induction rs as [|r rs IH]; intros pos f H; cbn [sp_offsets] in H; [contradiction|]. cbn [first_sp].
  pose proof (rec_size_pos r). destruct (is_sp r).
  - exists pos. split; [reflexivity|]. apply in_app_or in H. destruct H as [[H|[]]|H]; [lia|]. apply sp_offsets_ge in H. lia.
  - cbn [app] in H. apply IH. exact H.
Qed.

Lemma replay_loop_prefix : forall rs ccrc fuel first pos (c : nat) fpos,
  forallb rec_range rs = true -> sep_ok rs pos = true -> (ccrc = true -> crc_ok rs = true) ->
  (first = true -> head_sep rs = true) ->
  In fpos (sp_offsets rs pos) -> fpos < pos + Z.of_nat c ->
  (ccrc = true -> fpos + sizeof_WBSAVEPOINT <= pos + Z.of_nat c) ->
  (c <= length (encode rs))%nat -> (c < fuel)%nat ->
  replay_loop fuel ccrc first (pos + Z.of_nat c) pos (firstn c (encode rs)) fpos = (VOk, ops_before rs pos fpos).
Proof.
  induction rs as [|r rs IH]; intros ccrc fuel first pos c fpos Hr Hs Hcrc Hf Hin Hlt Hsp Hc Hfu; [contradiction|].
  destruct fuel as [|f]; [lia|]. rewrite encode_cons in *. cbn [replay_loop ops_before].
  pose proof (sp_offsets_ge _ _ _ Hin) as Hge. pose proof (rec_size_pos r) as Hp.
  destruct (Z.ltb_spec pos (pos + Z.of_nat c)); [|lia]. cbn [negb].
  replace (pos + Z.of_nat c - pos) with (Z.of_nat c) by ring.
  cbn [forallb] in Hr. apply andb_prop in Hr. destruct Hr as [Hr1 Hr2].
  cbn [sep_ok] in Hs. apply andb_prop in Hs. destruct Hs as [Hs1 Hs2].
  cbn [sp_offsets] in Hin. apply in_app_or in Hin.
  destruct (Z.eq_dec pos fpos) as [Heq|Hne].
  - (* the recovery point itself *)
    subst fpos. destruct Hin as [Hin|Hin]; [|apply sp_offsets_ge in Hin; lia].
    destruct r; cbn [is_sp] in Hin; try contradiction.
    destruct first; [specialize (Hf eq_refl); discriminate|].
    rewrite replay_step_sp by lia. rewrite Z.eqb_refl. rewrite Z.ltb_irrefl. reflexivity.
  - destruct Hin as [Hin|Hin]; [destruct (is_sp r); cbn in Hin; [destruct Hin as [Hin|[]]; lia | contradiction]|].
    pose proof (sp_offsets_ge _ _ _ Hin) as Hge2.
    assert (Hk : length (enc_rec r) = Z.to_nat (rec_size r)) by (rewrite <- enc_rec_length; lia).
    assert (Hfit : (length (enc_rec r) <= c)%nat) by lia.
    rewrite replay_step_intact by assumption.
    destruct (Z.ltb_spec pos fpos); [|lia].
    assert (Hrec : forall adv op, adv = rec_size r -> op = op_of r ->
      (let (v, ops) := replay_loop f ccrc false (pos + Z.of_nat c) (pos + adv)
           (skipn (Z.to_nat adv) (firstn c (enc_rec r ++ encode rs))) fpos in (v, op ++ ops))
      = (VOk, op_of r ++ ops_before rs (pos + rec_size r) fpos)).
    { intros adv op -> ->. rewrite skipn_firstn_app by exact Hk.
      replace (pos + Z.of_nat c) with ((pos + rec_size r) + Z.of_nat (c - Z.to_nat (rec_size r))) by lia.
      assert (Hcrc2 : ccrc = true -> crc_ok rs = true).
      { intros Hc1. specialize (Hcrc Hc1). cbn [crc_ok] in Hcrc. apply andb_prop in Hcrc. tauto. }
      assert (Hsp2 : ccrc = true -> fpos + sizeof_WBSAVEPOINT <= pos + rec_size r + Z.of_nat (c - Z.to_nat (rec_size r))).
      { intros Hc1. specialize (Hsp Hc1). lia. }
      assert (Hc2 : (c - Z.to_nat (rec_size r) <= length (encode rs))%nat) by (rewrite app_length in Hc; lia).
      rewrite (IH ccrc f false (pos + rec_size r) (c - Z.to_nat (rec_size r))%nat fpos Hr2 Hs2 Hcrc2); auto; try lia; intros; discriminate. }
    destruct r as [crc len|val off len|off len noff|crc off p|os ns|ts|]; cbn [rrstep op_of] in *.
    + (* SEP *)
      destruct (first_sp_le _ _ _ Hin) as [q [Hq1 Hq2]]. cbn [rec_size] in *. rewrite Hq1 in Hs1. apply Z.leb_le in Hs1.
      destruct (Z.gtb_spec len (Z.of_nat c)); [lia|].
      assert (Hck : (ccrc && negb (crc =? 0) && negb (crc32 (take_pad len (firstn (c - 12) (encode rs))) 0 =? crc)) = false).
      { destruct ccrc; [|reflexivity]. specialize (Hcrc eq_refl). specialize (Hsp eq_refl).
        cbn [crc_ok] in Hcrc. apply andb_prop in Hcrc. destruct Hcrc as [Hcrc _].
        cbn [rec_range] in Hr1. apply andb_prop in Hr1. destruct Hr1 as [_ Hl]. apply u32_range in Hl.
        apply orb_prop in Hcrc. destruct Hcrc as [Hz|Hz]; [rewrite Hz; reflexivity|].
        replace len with (Z.of_nat (Z.to_nat len)) at 1 by lia.
        rewrite take_pad_exact by (rewrite firstn_length, app_length in *; facts; lia).
        rewrite firstn_firstn. replace (Init.Nat.min (Z.to_nat len) (c - 12)) with (Z.to_nat len) by (facts; lia).
        rewrite Hz. cbn [negb andb]. apply andb_false_r. }
      rewrite Hck. apply Hrec; reflexivity.
    + destruct first; [specialize (Hf eq_refl); discriminate|]. apply Hrec; reflexivity.
    + destruct first; [specialize (Hf eq_refl); discriminate|]. apply Hrec; reflexivity.
    + (* WRITE *)
      destruct first; [specialize (Hf eq_refl); discriminate|].
      assert (Hck : (ccrc && negb (crc =? 0) && negb (crc32 p 0 =? crc)) = false).
      { destruct ccrc; [|reflexivity]. specialize (Hcrc eq_refl). cbn [crc_ok] in Hcrc. apply andb_prop in Hcrc.
        destruct Hcrc as [Hcrc _]. apply orb_prop in Hcrc. destruct Hcrc as [Hz|Hz]; rewrite Hz; [reflexivity|].
        cbn [negb andb]. apply andb_false_r. }
      rewrite Hck. apply Hrec; reflexivity.
    + destruct first; [specialize (Hf eq_refl); discriminate|]. apply Hrec; reflexivity.
    + destruct first; [specialize (Hf eq_refl); discriminate|].
      destruct (Z.eqb_spec fpos pos); [lia|]. apply Hrec; reflexivity.
    + destruct first; [specialize (Hf eq_refl); discriminate|]. apply Hrec; reflexivity.
Qed.

(* ---- the theorems *)
Lemma ops_before_nil : forall rs pos fpos, fpos <= pos -> ops_before rs pos fpos = [].
Proof. intros rs pos fpos H. destruct rs; cbn [ops_before]; [reflexivity|]. destruct (Z.ltb_spec pos fpos); [lia|reflexivity]. Qed.

(* replay_cut: recovery of a log cut to n bytes applies exactly the records before the last visible savepoint
   and succeeds.  With checksums on, the pinned scanner (spchk = false) is excluded: see cut_savepoint_crc_refuted. *)
Theorem replay_cut : forall spchk ccrc rs (n : nat),
  wf_log rs = true -> no_reset rs = true -> (ccrc = true -> crc_ok rs = true) ->
  (ccrc = false \/ spchk = true) -> (n <= length (encode rs))%nat ->
  replay_ops_with spchk ccrc 1 0 (firstn n (encode rs)) = (VOk, ops_before rs 0 (last_sp spchk rs (Z.of_nat n))).
Proof.
  intros spchk ccrc rs n Hwf Hnr Hcrc Hmode Hn. destruct (wf_log_parts rs Hwf) as [H1 [H2 H3]].
  unfold replay_ops_with. rewrite firstn_length_le by exact Hn.
  destruct (Z.eqb_spec (Z.of_nat n) 0) as [E|E].
  { rewrite E. unfold last_sp. rewrite last_sp_from_done by lia. rewrite ops_before_nil by lia. reflexivity. }
  cbn [Z.eqb negb].
  pose proof (scan_cut spchk rs n Hwf Hn) as Hfst.
  pose proof (scan_with_enc spchk rs n H2 Hn) as Hsc.
  destruct (scan_with spchk (firstn n (encode rs))) as [fpos rpos] eqn:Es. cbn [fst] in Hfst.
  assert (Hrp : rpos = 0).
  { pose proof (rscan_snd_noreset rs spchk true 0 (Z.of_nat n) 0 0 Hnr) as Hx. rewrite <- Hsc in Hx. exact Hx. }
  subst rpos. rewrite Hfst.
  destruct (recovery_point_is_savepoint spchk rs (Z.of_nat n)) as [E0|[Hin [Hv Hl]]].
  { rewrite E0. cbn [Z.eqb]. rewrite ops_before_nil by lia. reflexivity. }
  pose proof (sp_offsets_pos rs _ H1 Hin) as Hpos.
  destruct (Z.eqb_spec (last_sp spchk rs (Z.of_nat n)) 0); [lia|].
  cbn [Z.gtb Z.compare andb].
  change (Z.of_nat n) with (0 + Z.of_nat n) at 1.
  apply replay_loop_prefix; auto; try lia.
  intros Hc. destruct Hmode as [Hm|Hm]; [congruence|]. subst spchk. unfold sp_visible in Hv. apply Z.leb_le in Hv. lia.
Qed.

(* the state after recovery is the state at that savepoint *)
Theorem replay_cut_is_savepoint_state : forall spchk ccrc rs (n : nat) main m,
  wf_log rs = true -> no_reset rs = true -> (ccrc = true -> crc_ok rs = true) ->
  (ccrc = false \/ spchk = true) -> (n <= length (encode rs))%nat ->
  state_at rs main (last_sp spchk rs (Z.of_nat n)) = Some m ->
  recover_with spchk ccrc 1 0 (firstn n (encode rs)) main = (VOk, m, ops_before rs 0 (last_sp spchk rs (Z.of_nat n))).
Proof.
  intros spchk ccrc rs n main m Hwf Hnr Hcrc Hmode Hn Hst. unfold recover_with.
  rewrite replay_cut by assumption. unfold state_at in Hst. rewrite Hst. reflexivity.
Qed.

(* no_half_write: every operation the recovery applies comes from a record that lies wholly before the recovery
   point - in particular wholly inside the surviving bytes; a WRITE whose payload is cut is never applied *)
Lemma ops_before_origin : forall rs pos fpos op,
  In fpos (sp_offsets rs pos) -> In op (ops_before rs pos fpos) ->
  exists q r, In (q, r) (offsets rs pos) /\ op_of r = [op] /\ q + rec_size r <= fpos.
Proof.
  induction rs as [|r rs IH]; intros pos fpos op Hin Hop; [contradiction|].
  cbn [ops_before] in Hop. destruct (Z.ltb_spec pos fpos) as [Hlt|]; [|contradiction].
  cbn [sp_offsets] in Hin. apply in_app_or in Hin.
  assert (Hin2 : In fpos (sp_offsets rs (pos + rec_size r))).
  { destruct Hin as [Hin|Hin]; [|exact Hin]. destruct (is_sp r); cbn in Hin; [destruct Hin as [Hin|[]]; lia|contradiction]. }
  pose proof (sp_offsets_ge _ _ _ Hin2) as Hge.
  apply in_app_or in Hop. destruct Hop as [Hop|Hop].
  - exists pos, r. split; [left; reflexivity|]. split; [|lia].
    destruct r; cbn [op_of] in *; try contradiction; destruct Hop as [Hop|[]]; subst; reflexivity.
  - destruct (IH _ _ _ Hin2 Hop) as [q [r' [Ha [Hb Hc]]]]. exists q, r'. split; [right; exact Ha|]. split; assumption.
Qed.

Theorem no_half_write : forall spchk ccrc rs (n : nat) op,
  wf_log rs = true -> no_reset rs = true -> (ccrc = true -> crc_ok rs = true) ->
  (ccrc = false \/ spchk = true) -> (n <= length (encode rs))%nat ->
  In op (snd (replay_ops_with spchk ccrc 1 0 (firstn n (encode rs)))) ->
  exists q r, In (q, r) (offsets rs 0) /\ op_of r = [op] /\ q + rec_size r <= last_sp spchk rs (Z.of_nat n) < Z.of_nat n.
Proof.
  intros spchk ccrc rs n op Hwf Hnr Hcrc Hmode Hn Hop. rewrite replay_cut in Hop by assumption. cbn [snd] in Hop.
  destruct (recovery_point_is_savepoint spchk rs (Z.of_nat n)) as [E0|[Hin [Hv Hl]]].
  - rewrite E0 in Hop. rewrite ops_before_nil in Hop by lia. contradiction.
  - destruct (ops_before_origin _ _ _ _ Hin Hop) as [q [r [Ha [Hb Hc]]]]. exists q, r. repeat split; auto; lia.
Qed.

(* The full statement is false of the pinned scanner with checksums on: a log cut inside a savepoint record
   is rejected as corrupted (the segment checksum is computed over bytes past the end of the file). *)
Definition refute_log : list rec := [RSep 3445769930 12; RSavepoint 72623859790382856].
Theorem cut_savepoint_crc_refuted :
  wf_log refute_log = true /\ crc_ok refute_log = true /\ no_reset refute_log = true /\
  fst (replay_ops_with false true 1 0 (firstn 17 (encode refute_log))) = VCorrupt.
Proof. vm_compute. repeat split; reflexivity. Qed.

(* the one option of the recovering process that the recovery path reads - check_crc_on_checkpoint - makes no
   difference on a log whose checksums are right (written with checksums on, off, or a mixture: crc_ok accepts a
   stored 0), whatever the cut *)
Theorem recover_crc_option_independent : forall spchk rs (n : nat) main,
  wf_log rs = true -> no_reset rs = true -> crc_ok rs = true -> spchk = true -> (n <= length (encode rs))%nat ->
  recover_with spchk true 1 0 (firstn n (encode rs)) main = recover_with spchk false 1 0 (firstn n (encode rs)) main.
Proof.
  intros spchk rs n main Hwf Hnr Hcrc Hsp Hn. unfold recover_with.
  rewrite (replay_cut spchk true rs n Hwf Hnr (fun _ => Hcrc) (or_intror Hsp) Hn).
  rewrite (replay_cut spchk false rs n Hwf Hnr (fun H => False_ind _ (Bool.diff_false_true H)) (or_introl eq_refl) Hn).
  reflexivity.
Qed.
