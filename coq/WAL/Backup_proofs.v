(* Proofs for C08: the image written by the backup splits back into the copied main file and the copied log,
   and opening it yields the main-file state at the last savepoint of the copied log (recover_mode 2, reset
   marks ignored). *)
Require Import ZArith List Bool Lia.
Require Import IW.Lib.CInt IW.Gen.Facts IW.WAL.Rec IW.WAL.Rec_proofs IW.WAL.Scan IW.WAL.Scan_proofs
  IW.WAL.Replay IW.WAL.Replay_proofs IW.WAL.Backup.
Import ListNotations.
Local Open Scope Z_scope.

Lemma rd_app_l : forall n off a b, (Z.to_nat off + n <= length a)%nat -> rd n off (a ++ b) = rd n off a.
Proof.
  intros n off a b H. rewrite <- (rd_firstn n off (length a) (a ++ b)) by exact H.
  rewrite firstn_app_exact by reflexivity. reflexivity.
Qed.

(* what the opener requires of the copied parts *)
Definition image_parts_ok (m w : bytes) : Prop :=
  WAL_PAGE_SIZE <= lenB m /\ Z.land (lenB m) (WAL_PAGE_SIZE - 1) = 0 /\ lenB m < 2 ^ 64 /\
  rd 4 0 m = WAL_IWFSM_MAGICK /\ rd 4 IWFSM_CUSTOM_HDR_DATA_OFFSET m = IWKV_MAGIC /\
  (w = [] \/ (sizeof_WBSEP <= lenB w /\ nth 0 w 0 = WOP_SEP)).

Theorem split_mk_image : forall m w, image_parts_ok m w -> split_image (mk_image m w) = Some (m, w).
Proof.
  intros m w (Hsz & Hal & Hlt & Hm1 & Hm2 & Hw). unfold split_image, mk_image.
  set (img := m ++ w ++ le_enc 8 (lenB m) ++ le_enc 4 IWKV_BACKUP_MAGIC).
  assert (Hlen : lenB img = lenB m + lenB w + 12).
  { unfold img, lenB. rewrite !app_length, !le_enc_length. lia. }
  unfold WAL_PAGE_SIZE in *.
  assert (Hnn : 0 <= lenB w) by (unfold lenB; lia).
  destruct (Z.ltb_spec (lenB img) 4096); [lia|].
  assert (E1 : rd 4 0 img = WAL_IWFSM_MAGICK).
  { unfold img. rewrite rd_app_l; [exact Hm1|]. unfold lenB in Hsz. cbn. lia. }
  rewrite E1, Z.eqb_refl. cbn [negb].
  assert (E2 : rd 4 IWFSM_CUSTOM_HDR_DATA_OFFSET img = IWKV_MAGIC).
  { unfold img. rewrite rd_app_l; [exact Hm2|]. unfold lenB in Hsz. unfold IWFSM_CUSTOM_HDR_DATA_OFFSET. cbn. lia. }
  rewrite E2, Z.eqb_refl. cbn [negb].
  assert (E3 : rd 4 (lenB img - 4) img = IWKV_BACKUP_MAGIC).
  { unfold img at 2. rewrite !app_assoc. rewrite <- (app_nil_r (le_enc 4 IWKV_BACKUP_MAGIC)).
    rewrite rd_field.
    - reflexivity.
    - rewrite Hlen. unfold lenB. rewrite !app_length, le_enc_length. lia. }
  rewrite E3, Z.eqb_refl. cbn [negb].
  assert (E4 : rd 8 (lenB img - 12) img = lenB m).
  { unfold img at 2. rewrite (app_assoc m w). rewrite rd_field.
    - change (256 ^ Z.of_nat 8) with (2 ^ 64). apply Z.mod_small. unfold lenB in *. lia.
    - rewrite Hlen. unfold lenB. rewrite app_length. lia. }
  rewrite E4. rewrite Hal. cbn [Z.eqb negb orb].
  replace (Z.to_nat (lenB m)) with (length m) by (unfold lenB; lia).
  replace (Z.to_nat (lenB img - 12 - lenB m)) with (length w) by (rewrite Hlen; unfold lenB; lia).
  assert (Hparts : firstn (length m) img = m /\ firstn (length w) (skipn (length m) img) = w).
  { unfold img. split; [apply firstn_app_exact; reflexivity|].
    rewrite skipn_app_exact by reflexivity. apply firstn_app_exact. reflexivity. }
  destruct Hparts as [Hp1 Hp2]. rewrite Hp1, Hp2.
  destruct Hw as [Hw|[Hw1 Hw2]].
  - subst w. change (lenB []) with 0 in *. replace (lenB img - 12) with (lenB m) by lia.
    rewrite Z.eqb_refl. cbn [negb andb orb]. reflexivity.
  - unfold sizeof_WBSEP in *. destruct (Z.eqb_spec (lenB m) (lenB img - 12)); [lia|]. cbn [negb andb].
    destruct (Z.gtb_spec (lenB m) (lenB img - 12 - 12)); [lia|]. cbn [orb].
    assert (Hn : nth (length m) img 0 = WOP_SEP).
    { unfold img. rewrite app_nth2 by lia. rewrite Nat.sub_diag. destruct w as [|x w']; [cbn in Hw1; lia|]. exact Hw2. }
    rewrite Hn, Z.eqb_refl. reflexivity.
Qed.

(* recover_mode 2 ignores reset marks: the cut theorem holds without `no_reset` *)
Theorem replay_cut_mode2 : forall spchk ccrc rs (n : nat),
  wf_log rs = true -> (ccrc = true -> crc_ok rs = true) ->
  (ccrc = false \/ spchk = true) -> (n <= length (encode rs))%nat ->
  replay_ops_with spchk ccrc 2 0 (firstn n (encode rs)) = (VOk, ops_before rs 0 (last_sp spchk rs (Z.of_nat n))).
Proof.
  intros spchk ccrc rs n Hwf Hcrc Hmode Hn. destruct (wf_log_parts rs Hwf) as [H1 [H2 H3]].
  unfold replay_ops_with. rewrite firstn_length_le by exact Hn.
  destruct (Z.eqb_spec (Z.of_nat n) 0) as [E|E].
  { rewrite E. unfold last_sp. rewrite last_sp_from_done by lia. rewrite ops_before_nil by lia. reflexivity. }
  cbn [Z.eqb negb].
  pose proof (scan_cut spchk rs n Hwf Hn) as Hfst.
  destruct (scan_with spchk (firstn n (encode rs))) as [fpos rpos] eqn:Es. cbn [fst] in Hfst. rewrite Hfst.
  destruct (recovery_point_is_savepoint spchk rs (Z.of_nat n)) as [E0|[Hin [Hv Hl]]].
  { rewrite E0. cbn [Z.eqb]. rewrite ops_before_nil by lia. reflexivity. }
  pose proof (sp_offsets_pos rs _ H1 Hin) as Hpos.
  destruct (Z.eqb_spec (last_sp spchk rs (Z.of_nat n)) 0); [lia|].
  rewrite andb_false_r.
  change (Z.of_nat n) with (0 + Z.of_nat n) at 1.
  apply replay_loop_prefix; auto; try lia.
  intros Hc. destruct Hmode as [Hm|Hm]; [congruence|]. subst spchk. unfold sp_visible in Hv. apply Z.leb_le in Hv. lia.
Qed.

(* backup_image_is_savepoint_state: opening an image made of a copied main file and a copied (possibly cut) log
   yields the main-file state at the last visible savepoint of that log *)
Theorem open_image_is_savepoint_state : forall ccrc rs (n : nat) main m,
  wf_log rs = true -> (ccrc = true -> crc_ok rs = true) -> (ccrc = false \/ sp_checks = true) ->
  (n <= length (encode rs))%nat ->
  image_parts_ok main (firstn n (encode rs)) ->
  state_at rs main (last_sp sp_checks rs (Z.of_nat n)) = Some m ->
  open_image ccrc (mk_image main (firstn n (encode rs))) = (VOk, m, ops_before rs 0 (last_sp sp_checks rs (Z.of_nat n))).
Proof.
  intros ccrc rs n main m Hwf Hcrc Hmode Hn Hparts Hst. unfold open_image. rewrite split_mk_image by exact Hparts.
  unfold recover, recover_with. rewrite replay_cut_mode2 by assumption. unfold state_at in Hst. rewrite Hst. reflexivity.
Qed.

(* ---- the stage model *)
Require Import IW.WAL.Proto.

(* whatever the writers do, the result of backup_run is an image in the sense of mk_image: the main file as it
   was after the stage-2 checkpoint, followed by the log as it is after the stage-5 savepoint *)
Theorem backup_run_is_image : forall c s0 ts2 ts5 evM evA,
  exists main log live, backup_run c s0 ts2 ts5 evM evA = (mk_image main log, live) /\
    main = p_disk (fst (checkpoint c (set_stage s0 BKP_WAL_CLEANUP) false ts2)) /\ log = p_log live /\ p_stage live = 0.
Proof.
  intros c s0 ts2 ts5 evM evA. unfold backup_run.
  destruct (checkpoint c (set_stage s0 BKP_WAL_CLEANUP) false ts2) as [s1 e1]. cbn [fst].
  destruct (run c (set_stage s1 BKP_MAIN_COPY) evM) as [s2 e2].
  destruct (flush_wl c (set_stage s2 BKP_WAL_COPY1) false) as [s3 e3].
  destruct (run c s3 evA) as [s4 e4].
  destruct (savepoint c (set_stage s4 BKP_WAL_COPY2) ts5 true) as [s5 e5].
  exists (p_disk s1), (p_log s5), (set_stage s5 0). repeat split; reflexivity.
Qed.

(* A checkpoint made by a writer while the backup is in stage WAL_COPY1 leaves a reset mark in the image's log.
   The records before the mark were applied to the LIVE main file only - the image's main part is older - so
   the image must be replayed from the start of its log (recover_mode 2), not from the mark (recover_mode 1):
   concrete run of the stage model in which the two differ. *)
Definition rm_main : bytes := le_enc 4 WAL_IWFSM_MAGICK ++ repeat 0 73 ++ le_enc 4 IWKV_MAGIC ++ repeat 0 4015.
Definition rm_s0 : pstate := mkP [] [] rm_main 0 0 false.
Definition rm_cfg : pcfg := mkC 4084 false.
Definition rm_evA : list event := [VWrite 100 [1]; VCheckpoint 7; VWrite 101 [2]].

(* (verdict, byte 100, byte 101) of the image opened in mode 2, of the same parts replayed in mode 1, and bytes
   100/101 of the live main file with "a reset mark is pending" *)
Definition rm_summary : option ((verdict * Z * Z) * (verdict * Z * Z) * (Z * Z * bool)) :=
  let (img, live) := backup_run rm_cfg rm_s0 5 9 [] rm_evA in
  match split_image img with
  | Some (main, log) =>
    let '(v2, m2, _) := recover false 2 0 log main in
    let '(v1, m1, _) := recover false 1 0 log main in
    Some ((v2, nth 100 m2 0, nth 101 m2 0), (v1, nth 100 m1 0, nth 101 m1 0),
          (nth 100 (p_disk live) 0, nth 101 (p_disk live) 0, 0 <? p_rfoff live))
  | None => None
  end.

Theorem image_replay_from_mark_refuted :
  rm_summary = Some ((VOk, 1, 2), (VOk, 0, 2), (1, 0, true)).
Proof. vm_compute. reflexivity. Qed.

(* a backup is refused exactly while another one is in any of its stages, and an accepted one changes the stage only *)
Theorem backup_refused_while_running : forall s,
  (p_stage s <> 0 -> backup_start s = None) /\
  (p_stage s = 0 -> backup_start s = Some (set_stage s BKP_STARTED)) /\
  (forall st, In st [BKP_STARTED; BKP_WAL_CLEANUP; BKP_MAIN_COPY; BKP_WAL_COPY1; BKP_WAL_COPY2] -> backup_start (set_stage s st) = None).
Proof.
  intros s. unfold backup_start. repeat split.
  - intros H. destruct (Z.eqb_spec (p_stage s) 0); [contradiction | reflexivity].
  - intros H. rewrite H. reflexivity.
  - intros st Hin. cbn in Hin. destruct Hin as [H|[H|[H|[H|[H|[]]]]]]; subst st; reflexivity.
Qed.

(* a backup that fails in any stage returns with bkp_stage = 0 and no lock held: the next backup is accepted *)
Theorem failed_backup_releases : forall c s0 ts2 ts5 evM evA k,
  let (s, held) := backup_run_fail c s0 ts2 ts5 evM evA k in
  p_stage s = 0 /\ held = false /\ backup_start s <> None.
Proof.
  intros c s0 ts2 ts5 evM evA k. unfold backup_run_fail.
  destruct (checkpoint c (set_stage s0 BKP_WAL_CLEANUP) false ts2) as [s1 e1].
  destruct (run c (set_stage s1 BKP_MAIN_COPY) evM) as [s2 e2].
  destruct (k <=? BKP_MAIN_COPY); [repeat split; unfold backup_start; cbn; discriminate|].
  destruct (flush_wl c (set_stage s2 BKP_WAL_COPY1) false) as [s3 e3].
  destruct (run c s3 evA) as [s4 e4].
  destruct (k <=? BKP_WAL_COPY1); [repeat split; unfold backup_start; cbn; discriminate|].
  destruct (savepoint c (set_stage s4 BKP_WAL_COPY2) ts5 true) as [s5 e5].
  repeat split; unfold backup_start; cbn; discriminate.
Qed.
