(* _rollforward_exl and _recover_wl (src/kv/iwal.c).  The control flow of the replay loop does not depend on
   the contents of the main file, so the model is split in two: [replay_loop] decodes the log into the list of
   store operations the C loop performs (with its verdict), [apply_ops] performs them on the main file seen
   as a flat byte array.  [recover] composes them the way _rollforward_exl does in its three modes
   (recover_mode 1 = open, 2 = open of an online-backup image, 0 = checkpoint of a live store). *)
Require Import ZArith List Bool Lia.
Require Import IW.Lib.CInt IW.Gen.Facts IW.WAL.Rec IW.WAL.Scan.
Import ListNotations.
Local Open Scope Z_scope.

Inductive verdict : Type :=
| VOk         (* rc = 0: main file synced, log truncated (or reset mark appended) *)
| VCorrupt    (* IWKV_ERROR_CORRUPTED_WAL_FILE: open fails, the log is kept *)
| VFault.     (* a store outside the mapped main file: undefined behaviour in C (SIGSEGV/SIGBUS) *)

Inductive aop : Type :=
| ASet (val off len : Z)      (* memset(mm + off, val, len) *)
| ACopy (off len noff : Z)    (* memmove(mm + noff, mm + off, len) *)
| AWrite (off : Z) (data : bytes)
| AResize (nsize : Z).        (* extf->truncate_unsafe(extf, nsize) *)

(* n bytes starting at l; bytes past the end of the file read as 0 (tail of the last mapped page) *)
Definition take_pad (n : Z) (l : bytes) : bytes :=
  let t := firstn (Z.to_nat n) l in t ++ repeat 0 (Z.to_nat n - length t).

(* one iteration of the switch of the replay loop *)
Inductive rstep : Type := RStop (v : verdict) | RNext (adv : Z) (op : list aop).

Definition replay_step (ccrc first : bool) (avail pos : Z) (l : bytes) (fpos : Z) : rstep :=
  let opid := nth 0 l 0 in
  if first && negb (opid =? WOP_SEP) then RStop VCorrupt else
  if opid =? WOP_SEP then
    if avail <? sizeof_WBSEP then RStop VCorrupt else
    let len := rd 4 offsetof_WBSEP_len l in
    let crc := rd 4 offsetof_WBSEP_crc l in
    if len >? avail then RStop VCorrupt else
    if ccrc && negb (crc =? 0) && negb (crc32 (take_pad len (skipn (Z.to_nat sizeof_WBSEP) l)) 0 =? crc)
    then RStop VCorrupt else RNext sizeof_WBSEP []
  else if opid =? WOP_SET then
    if avail <? sizeof_WBSET then RStop VCorrupt else
    RNext sizeof_WBSET [ASet (rd 4 offsetof_WBSET_val l) (rd_off offsetof_WBSET_off l) (rd_off offsetof_WBSET_len l)]
  else if opid =? WOP_COPY then
    if avail <? sizeof_WBCOPY then RStop VCorrupt else
    RNext sizeof_WBCOPY [ACopy (rd_off offsetof_WBCOPY_off l) (rd_off offsetof_WBCOPY_len l) (rd_off offsetof_WBCOPY_noff l)]
  else if opid =? WOP_WRITE then
    if avail <? sizeof_WBWRITE then RStop VCorrupt else
    let len := rd 4 offsetof_WBWRITE_len l in
    let crc := rd 4 offsetof_WBWRITE_crc l in
    if avail <? len then RStop VCorrupt else
    let data := take_pad len (skipn (Z.to_nat sizeof_WBWRITE) l) in
    if ccrc && negb (crc =? 0) && negb (crc32 data 0 =? crc) then RStop VCorrupt else
    RNext (sizeof_WBWRITE + len) [AWrite (rd_off offsetof_WBWRITE_off l) data]
  else if opid =? WOP_RESIZE then
    if avail <? sizeof_WBRESIZE then RStop VCorrupt else
    RNext sizeof_WBRESIZE [AResize (rd_off offsetof_WBRESIZE_nsize l)]
  else if opid =? WOP_SAVEPOINT then
    if fpos =? pos then RStop VOk else RNext sizeof_WBSAVEPOINT []
  else if opid =? WOP_RESET then RNext sizeof_WBRESET []
  else RStop VCorrupt.

Fixpoint replay_loop (fuel : nat) (ccrc first : bool) (fsz pos : Z) (l : bytes) (fpos : Z) : verdict * list aop :=
  match fuel with
  | O => (VOk, [])
  | S f =>
    if negb (pos <? fsz) then (VOk, []) else
    match replay_step ccrc first (fsz - pos) pos l fpos with
    | RStop v => (v, [])
    | RNext adv op =>
      let (v, ops) := replay_loop f ccrc false fsz (pos + adv) (skipn (Z.to_nat adv) l) fpos in
      (v, op ++ ops)
    end
  end.

Definition fpos_rebased : bool := WAL_REPLAY_REBASES_FPOS =? 1.
(* Does a replay that restarts at a reset mark (recover_mode 1, checksum checking on) first walk the log in front of the
   mark - framing and checksums, nothing applied?  The pinned source does not (a mark planted inside a damaged segment
   is trusted: C05_reset_mark_bypass_refuted); fixes/wal-reset-prefix-verified.diff adds `_segments_intact`, which is
   the replay loop itself without the stores and without a recovery point.  Regenerated fact (probe_wal.c). *)
Definition reset_prefix_verified : bool := WAL_REPLAY_VERIFIES_RESET_PREFIX =? 1.
Definition vok (v : verdict) : bool := match v with VOk => true | _ => false end.

(* the operations the replay performs for a log, per mode; rfoff = wal->rollforward_offset (mode 0 only) *)
Definition replay_ops_with (spchk ccrc : bool) (mode rfoff : Z) (wal : bytes) : verdict * list aop :=
  let fsz := Z.of_nat (length wal) in
  if fsz =? 0 then (VOk, []) else
  if negb (mode =? 0) then
    let (fpos, rpos) := scan_with spchk wal in
    if fpos =? 0 then (VOk, []) else
    if (rpos >? 0) && (mode =? 1) then
      if fpos <? rpos then (VOk, []) else
      (* wmm += rpos - sizeof(WBSEP); fsz -= ...;  the pinned C code does NOT rebase fpos, so the loop never
         meets `fpos == rp - wmm` and runs to the end of the file; fixes/wal-reset-rebase.diff adds
         `fpos -= rpos`.  fpos_rebased is the regenerated fact saying which of the two the current tree does. *)
      let r := rpos - sizeof_WBSEP in
      if ccrc && reset_prefix_verified && negb (vok (fst (replay_loop (S (length wal)) ccrc true r 0 wal (-1)))) then (VCorrupt, []) else
      replay_loop (S (length wal)) ccrc true (fsz - r) 0 (skipn (Z.to_nat r) wal) (if fpos_rebased then fpos - r else fpos)
    else replay_loop (S (length wal)) ccrc true fsz 0 wal fpos
  else if rfoff >? 0 then
    if rfoff >=? fsz then (VCorrupt, []) else
    replay_loop (S (length wal)) ccrc true (fsz - rfoff) 0 (skipn (Z.to_nat rfoff) wal) 0
  else replay_loop (S (length wal)) ccrc true fsz 0 wal 0.
Definition replay_ops (ccrc : bool) (mode rfoff : Z) (wal : bytes) : verdict * list aop :=
  replay_ops_with sp_checks ccrc mode rfoff wal.

(* stores into the main file; None = outside the file.  All are single passes, structural on the file with
   Z counters (offsets and lengths decoded from a damaged log can be any 64-bit value). *)
Fixpoint overwrite (m data : bytes) {struct data} : option bytes :=      (* replace the first |data| bytes of m *)
  match data with
  | [] => Some m
  | d :: ds => match m with [] => None | _ :: t => option_map (cons d) (overwrite t ds) end
  end.
Fixpoint splice_at (m : bytes) (off : Z) (data : bytes) {struct m} : option bytes :=
  if off <=? 0 then overwrite m data else
  match m with [] => None | x :: t => option_map (cons x) (splice_at t (off - 1) data) end.
Definition splice (m : bytes) (off : Z) (data : bytes) : option bytes :=
  if off <? 0 then None else splice_at m off data.

(* memset(m + off, v, len) *)
Fixpoint fill_at (m : bytes) (off len v : Z) : option bytes :=
  match m with
  | [] => if (off <=? 0) && (len <=? 0) then Some [] else None
  | x :: t =>
    if 0 <? off then option_map (cons x) (fill_at t (off - 1) len v)
    else if 0 <? len then option_map (cons v) (fill_at t 0 (len - 1) v)
    else Some m
  end.
(* the len bytes at offset off *)
Fixpoint slice_at (m : bytes) (off len : Z) : option bytes :=
  match m with
  | [] => if (off <=? 0) && (len <=? 0) then Some [] else None
  | x :: t =>
    if 0 <? off then slice_at t (off - 1) len
    else if 0 <? len then option_map (cons x) (slice_at t 0 (len - 1))
    else Some []
  end.
(* ftruncate to n bytes: cut, or extend with zeros *)
Fixpoint resize_nat (n : nat) (m : bytes) : bytes :=
  match n with
  | O => []
  | S k => match m with [] => 0 :: resize_nat k [] | x :: t => x :: resize_nat k t end
  end.

Definition apply_op (m : bytes) (op : aop) : option bytes :=
  match op with
  | ASet val off len =>
      if (len <? 0) || (off <? 0) then None else fill_at m off len (val mod 256)
  | ACopy off len noff =>
      if (len <? 0) || (off <? 0) then None else
      match slice_at m off len with
      | Some src => splice m noff src
      | None => None
      end
  | AWrite off data => splice m off data
  | AResize nsize =>
      (* model limit: 16 MB (IWFS_ERROR_MAXOFF / ENOSPC of absurd sizes in a damaged log are not modelled) *)
      if (nsize <? 0) || (16777216 <? nsize) then None else
      Some (resize_nat (Z.to_nat (IW_ROUNDUP nsize WAL_PAGE_SIZE)) m)
  end.

Fixpoint apply_ops (m : bytes) (ops : list aop) : option bytes :=
  match ops with
  | [] => Some m
  | op :: r => match apply_op m op with Some m' => apply_ops m' r | None => None end
  end.

(* _recover_wl / one checkpoint replay: verdict, resulting main file (as the kernel sees it), operations *)
Definition recover_with (spchk ccrc : bool) (mode rfoff : Z) (wal main : bytes) : verdict * bytes * list aop :=
  let (v, ops) := replay_ops_with spchk ccrc mode rfoff wal in
  match apply_ops main ops with
  | Some m => (v, m, ops)
  | None => (VFault, main, ops)
  end.
Definition recover (ccrc : bool) (mode rfoff : Z) (wal main : bytes) : verdict * bytes * list aop :=
  recover_with sp_checks ccrc mode rfoff wal main.

(* ---- record-level vocabulary of the theorems *)
Definition op_of (r : rec) : list aop :=
  match r with
  | RSet v o l => [ASet v o l]
  | RCopy o l n => [ACopy o l n]
  | RWrite _ off p => [AWrite off p]
  | RResize _ n => [AResize n]
  | _ => []
  end.
(* the store operations of the records that start before offset fpos (rs starting at pos) *)
Fixpoint ops_before (rs : list rec) (pos fpos : Z) : list aop :=
  match rs with
  | [] => []
  | r :: t => if pos <? fpos then op_of r ++ ops_before t (pos + rec_size r) fpos else []
  end.
(* records with their offsets *)
Fixpoint offsets (rs : list rec) (pos : Z) : list (Z * rec) :=
  match rs with
  | [] => []
  | r :: t => (pos, r) :: offsets t (pos + rec_size r)
  end.
(* the state of the main file at the savepoint at offset q of the log rs: everything logged before it applied *)
Definition state_at (rs : list rec) (main : bytes) (q : Z) : option bytes := apply_ops main (ops_before rs 0 q).

(* what the check compares per applied record: opcode, destination offset, length *)
Definition aop_sig (op : aop) : Z * Z * Z :=
  match op with
  | ASet _ off len => (WOP_SET, off, len)
  | ACopy _ len noff => (WOP_COPY, noff, len)
  | AWrite off d => (WOP_WRITE, off, Z.of_nat (length d))
  | AResize n => (WOP_RESIZE, n, 0)
  end.
