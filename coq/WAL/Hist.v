(* Histories of operations, syncs and checkpoints over Proto.run (C04, C08): vocabulary of the theorems
   recover_is_prefix (Hist_proofs) and backup_image_is_snapshot (Snapshot_proofs).  Definitions only.
   An operation is the list of listener calls it makes (_onwrite/_onset/_oncopy/_onresize/_onsynced); savepoints
   and checkpoints are items of their own: they happen between operations (that is what the store's exclusive
   lock gives; the lock skeleton of the calls is observed by checks/C07, C08). *)
Require Import ZArith List Bool Lia.
Require Import IW.Lib.CInt IW.Gen.Facts IW.WAL.Rec IW.WAL.Scan IW.WAL.Replay IW.WAL.Proto.
Import ListNotations.
Local Open Scope Z_scope.

Inductive hitem : Type :=
| HOp (evs : list event)           (* one operation (put, del, cursor set, db creation body ...) *)
| HSync (ts : Z) (sync : bool)     (* iwkv_sync / end of db creation: _savepoint_exl *)
| HCkpt (ts : Z).                  (* forced checkpoint, checkpoint thread, iwkv_close: _checkpoint_exl(no_fixpoint = false) *)

Definition item_events (it : hitem) : list event :=
  match it with HOp evs => evs | HSync ts sy => [VSavepoint ts sy] | HCkpt ts => [VCheckpoint ts] end.
Definition flat (h : list hitem) : list event := flat_map item_events h.

(* the abstract store: the main file as the operations see it (their private mapping), one store per listener call *)
Definition ev_ops (e : event) : list aop :=
  match e with
  | VWrite off d => [AWrite off d]
  | VSet off val len => [ASet val off len]
  | VCopy off len noff => [ACopy off len noff]
  | VResize _ n => [AResize n]
  | _ => []
  end.
Definition evs_ops (evs : list event) : list aop := flat_map ev_ops evs.
Definition hist_ops (h : list hitem) : list aop := evs_ops (flat h).
(* the state after the first k items of h *)
Definition state_after (D0 : bytes) (h : list hitem) (k : nat) : option bytes := apply_ops D0 (hist_ops (firstn k h)).

(* ---- the hypotheses of recover_is_prefix, all decidable *)
Definition is_listener (e : event) : bool := match e with VSavepoint _ _ | VCheckpoint _ => false | _ => true end.
Definition is_growth (e : event) : bool := match e with VResize _ _ => true | _ => false end.
Definition is_copy (e : event) : bool := match e with VCopy _ _ _ => true | _ => false end.
(* operations consist of listener calls only *)
Definition hist_shape (h : list hitem) : bool :=
  forallb (fun it => match it with HOp evs => forallb is_listener evs | _ => true end) h.
(* "no file growth inside an operation": no operation makes an _onresize call (known finding C04-growth-checkpoint) *)
Definition no_growth_in_ops (h : list hitem) : bool :=
  forallb (fun it => match it with HOp evs => forallb (fun e => negb (is_growth e)) evs | _ => true end) h.
(* no _oncopy call: a COPY record is not idempotent under redo (iwkv/iwfsm never log one; C04_copy_redo_refuted) *)
Definition no_copy_in_ops (h : list hitem) : bool :=
  forallb (fun it => match it with HOp evs => forallb (fun e => negb (is_copy e)) evs | _ => true end) h.
(* the C types of the arguments: off_t offsets, uint32 lengths of a single write, bytes, uint64 timestamps *)
Definition byte (b : Z) : bool := (0 <=? b) && (b <? 256).
Definition ev_range (e : event) : bool :=
  match e with
  | VWrite off d => i64 off && u32 (lenZ d) && forallb byte d
  | VSet off val len => u32 val && i64 off && i64 len
  | VCopy off len noff => i64 off && i64 len && i64 noff
  | VResize o n => i64 o && i64 n
  | VSynced => true
  | VSavepoint ts _ => (0 <=? ts) && (ts <? 18446744073709551616)
  | VCheckpoint ts => (0 <=? ts) && (ts <? 18446744073709551616)
  end.
Definition hist_range (h : list hitem) : bool := forallb ev_range (flat h).
(* the log buffer: WBSEP.len is a uint32, so a buffer of 4 GiB or more would wrap the length of a full segment *)
Definition cfg_ok (c : pcfg) : bool := (0 <=? c_bufsz c) && (c_bufsz c <? 4294967296 - 28).

(* the four predicates in one, per item (hist_ok h = hist_shape && no_growth_in_ops && no_copy_in_ops && hist_range:
   Hist_proofs.hist_ok_of_parts) *)
Definition item_ok (it : hitem) : bool :=
  match it with
  | HOp evs => forallb is_listener evs && forallb (fun e => negb (is_growth e)) evs &&
               forallb (fun e => negb (is_copy e)) evs && forallb ev_range evs
  | HSync ts _ => (0 <=? ts) && (ts <? 18446744073709551616)
  | HCkpt ts => (0 <=? ts) && (ts <? 18446744073709551616)
  end.
Definition hist_ok (h : list hitem) : bool := forallb item_ok h.
(* the same per event of a flat event list (writers during an online backup) *)
Definition ev_okb (e : event) : bool :=
  match e with
  | VWrite _ _ | VSet _ _ _ | VSynced | VSavepoint _ _ | VCheckpoint _ => ev_range e
  | VCopy _ _ _ | VResize _ _ => false
  end.

(* ---- what a crash point has seen *)
Definition is_syncitem (it : hitem) : bool := match it with HOp _ => false | _ => true end.
(* number of items up to and including the last sync / checkpoint item of h *)
Fixpoint sync_floor_aux (h : list hitem) (pos acc : nat) : nat :=
  match h with [] => acc | it :: t => sync_floor_aux t (S pos) (if is_syncitem it then S pos else acc) end.
Definition sync_floor (h : list hitem) : nat := sync_floor_aux h 0 0.
(* number of leading items of h all of whose effects lie among the first i effects of the run from s *)
Fixpoint done_items (c : pcfg) (s : pstate) (h : list hitem) (i : nat) : nat :=
  match h with
  | [] => O
  | it :: t =>
    let (s1, e) := run c s (item_events it) in
    if (length e <=? i)%nat then S (done_items c s1 t (i - length e)) else O
  end.

(* a freshly opened store: empty log, empty buffer, no backup running *)
Definition fresh (D0 : bytes) : pstate := mkP [] [] D0 0 0 false.
