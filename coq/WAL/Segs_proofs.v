(* The log written by Proto's _flush_wl/_write_wl, seen as a list of segments (segment header + the records that
   were in the buffer, plus - large-payload bypass - a WRITE record whose payload went to the file directly).
   Proved here, for use by Hist_proofs (C04) and Snapshot_proofs (C08):
     - every such log is wf_log / crc_ok and every segment header covers only bytes that exist (segs_wf);
     - _flush_wl / _write_wl on the byte level are the segment-level operations (flush_sim, write_sim);
     - a mode-0 replay (checkpoint of a live store) of an intact log applies every record and ends with rc 0
       (replay_loop_all);
     - how the recovery point moves when records are appended (last_full, last_sp_from_app). *)
Require Import ZArith List Bool Lia.
Require Import IW.Lib.CInt IW.Gen.Facts IW.WAL.Rec IW.WAL.Rec_proofs IW.WAL.Scan IW.WAL.Scan_proofs
  IW.WAL.Replay IW.WAL.Replay_proofs IW.WAL.Proto IW.WAL.Proto_proofs.
Import ListNotations.
Local Open Scope Z_scope.

(* ---- sizes (Scan.size) *)

Lemma size_app : forall a b, size (a ++ b) = size a + size b.
Proof. induction a as [|r a IH]; intros b; cbn [size app]; [reflexivity | rewrite IH; ring]. Qed.
Lemma size_nonneg : forall a, 0 <= size a.
Proof. induction a as [|r a IH]; cbn [size]; [lia | pose proof (rec_size_pos r); lia]. Qed.
Lemma encode_app : forall a b, encode (a ++ b) = encode a ++ encode b.
Proof. intros. unfold encode. apply flat_map_app. Qed.
Lemma size_encode : forall a, Z.of_nat (length (encode a)) = size a.
Proof.
  induction a as [|r a IH]; [reflexivity|]. rewrite encode_cons, app_length, Nat2Z.inj_add, IH, enc_rec_length. reflexivity.
Qed.
Lemma lenZ_encode : forall a, lenZ (encode a) = size a.
Proof. exact size_encode. Qed.
Lemma size_pos : forall a, a <> [] -> 0 < size a.
Proof. intros [|r a] H; [congruence|]. cbn [size]. pose proof (rec_size_pos r). pose proof (size_nonneg a). lia. Qed.
Lemma encode_nil : forall a, encode a = [] -> a = [].
Proof.
  intros [|r a] H; [reflexivity|]. exfalso. apply (f_equal (@length Z)) in H. apply (f_equal Z.of_nat) in H.
  rewrite size_encode in H. cbn [length] in H. pose proof (size_pos (r :: a)). assert (r :: a <> []) by discriminate. lia.
Qed.

(* ---- record classes *)
Definition nosp (rs : list rec) : bool := forallb (fun r => negb (is_sp r)) rs.
Definition nosep (rs : list rec) : bool := forallb (fun r => negb (is_sep r)) rs.
Definition wcrc1 (r : rec) : bool := match r with RWrite crc _ p => (crc =? 0) || (crc32 p 0 =? crc) | _ => true end.
Definition bops (rs : list rec) : list aop := flat_map op_of rs.

Lemma bops_app : forall a b, bops (a ++ b) = bops a ++ bops b.
Proof. intros. unfold bops. apply flat_map_app. Qed.

(* ---- first_sp / sep_ok / crc_ok over concatenations *)
Lemma first_sp_ge : forall rs pos q, first_sp rs pos = Some q -> pos <= q.
Proof.
  induction rs as [|r rs IH]; intros pos q H; cbn [first_sp] in H; [discriminate|].
  destruct (is_sp r); [inversion H; lia|]. apply IH in H. pose proof (rec_size_pos r). lia.
Qed.
Lemma first_sp_app : forall a x pos,
  first_sp (a ++ x) pos = match first_sp a pos with Some q => Some q | None => first_sp x (pos + size a) end.
Proof.
  induction a as [|r a IH]; intros x pos; cbn [first_sp app size]; [rewrite Z.add_0_r; reflexivity|].
  destruct (is_sp r); [reflexivity|]. rewrite IH. rewrite Z.add_assoc. reflexivity.
Qed.
Lemma first_sp_nosp : forall a pos, nosp a = true -> first_sp a pos = None.
Proof.
  induction a as [|r a IH]; intros pos H; [reflexivity|]. cbn [nosp forallb] in H. apply andb_prop in H. destruct H as [H1 H2].
  cbn [first_sp]. destruct (is_sp r); [discriminate|]. apply IH. exact H2.
Qed.
Lemma first_sp_shift : forall a pos d, first_sp a (pos + d) = option_map (Z.add d) (first_sp a pos).
Proof.
  induction a as [|r a IH]; intros pos d; cbn [first_sp]; [reflexivity|].
  destruct (is_sp r); [cbn; f_equal; ring|]. replace (pos + d + rec_size r) with (pos + rec_size r + d) by ring. apply IH.
Qed.

Lemma sep_ok_nosep_app : forall a x pos, nosep a = true -> sep_ok (a ++ x) pos = sep_ok x (pos + size a).
Proof.
  induction a as [|r a IH]; intros x pos H; cbn [app size]; [rewrite Z.add_0_r; reflexivity|].
  cbn [nosep forallb] in H. apply andb_prop in H. destruct H as [H1 H2]. cbn [sep_ok].
  rewrite IH by exact H2. rewrite Z.add_assoc. destruct r; try reflexivity. discriminate.
Qed.
Lemma crc_ok_nosep_app : forall a x, nosep a = true -> crc_ok (a ++ x) = forallb wcrc1 a && crc_ok x.
Proof.
  induction a as [|r a IH]; intros x H; [reflexivity|]. cbn [nosep forallb] in H. apply andb_prop in H. destruct H as [H1 H2].
  cbn [app crc_ok forallb]. rewrite IH by exact H2. destruct r; cbn [wcrc1]; try reflexivity; try discriminate.
  rewrite andb_assoc. reflexivity.
Qed.

(* ---- segments *)
Record seg : Type := mkSeg { g_crc : Z; g_len : Z; g_body : list rec }.
Definition seg_recs (g : seg) : list rec := RSep (g_crc g) (g_len g) :: g_body g.
Definition segs_recs (gs : list seg) : list rec := flat_map seg_recs gs.

Lemma segs_recs_app : forall a b, segs_recs (a ++ b) = segs_recs a ++ segs_recs b.
Proof. intros. unfold segs_recs. apply flat_map_app. Qed.

(* records the protocol puts into the buffer: in range, no segment header, WRITE checksum 0 or right *)
Definition rec_good (r : rec) : bool := rec_range r && negb (is_sep r) && wcrc1 r.
(* a savepoint can only be the last record of a segment, and such a segment's header covers all of it *)
Definition body_shape (body : list rec) (len : Z) : bool :=
  match first_sp body 0 with Some q => (q + sizeof_WBSAVEPOINT =? size body) && (len =? size body) | None => true end.
Definition seg_good (g : seg) : bool :=
  forallb rec_good (g_body g) && u32 (g_crc g) && u32 (g_len g) && (g_len g <=? size (g_body g)) &&
  body_shape (g_body g) (g_len g) &&
  ((g_crc g =? 0) || (crc32 (firstn (Z.to_nat (g_len g)) (encode (g_body g))) 0 =? g_crc g)).

Lemma rec_good_parts : forall b, forallb rec_good b = true ->
  forallb rec_range b = true /\ nosep b = true /\ forallb wcrc1 b = true.
Proof.
  induction b as [|r b IH]; intros H; [repeat split; reflexivity|]. cbn [forallb] in H. apply andb_prop in H. destruct H as [H1 H2].
  unfold rec_good in H1. apply andb_prop in H1. destruct H1 as [H1 H13]. apply andb_prop in H1. destruct H1 as [H11 H12].
  destruct (IH H2) as [A [B C]]. cbn [forallb nosep]. rewrite H11, H12, H13. cbn [andb]. repeat split; assumption.
Qed.

(* Scan.sep_fit: every segment header covers only bytes that are in the file *)
Lemma sep_fit_nosep_app : forall a x pos total, nosep a = true -> sep_fit (a ++ x) pos total = sep_fit x (pos + size a) total.
Proof.
  induction a as [|r a IH]; intros x pos total H; cbn [app size]; [rewrite Z.add_0_r; reflexivity|].
  cbn [nosep forallb] in H. apply andb_prop in H. destruct H as [H1 H2]. cbn [sep_fit].
  rewrite IH by exact H2. rewrite Z.add_assoc. destruct r; try reflexivity. discriminate.
Qed.
Lemma sep_fit_mono : forall rs pos t1 t2, t1 <= t2 -> sep_fit rs pos t1 = true -> sep_fit rs pos t2 = true.
Proof.
  induction rs as [|r rs IH]; intros pos t1 t2 Ht H; [reflexivity|]. cbn [sep_fit] in *. apply andb_prop in H. destruct H as [H1 H2].
  rewrite (IH _ _ _ Ht H2), andb_true_r. destruct r; try reflexivity. apply Z.leb_le in H1. apply Z.leb_le. lia.
Qed.

Lemma firstn_app_le : forall (A : Type) (a b : list A) n, (n <= length a)%nat -> firstn n (a ++ b) = firstn n a.
Proof. intros A a b n H. rewrite firstn_app. replace (n - length a)%nat with 0%nat by lia. cbn. apply app_nil_r. Qed.

Theorem segs_wf : forall gs pos, forallb seg_good gs = true ->
  forallb rec_range (segs_recs gs) = true /\ sep_ok (segs_recs gs) pos = true /\ crc_ok (segs_recs gs) = true /\
  sep_fit (segs_recs gs) pos (pos + size (segs_recs gs)) = true /\ head_sep (segs_recs gs) = true.
Proof.
  induction gs as [|g gs IH]; intros pos H; [repeat split; reflexivity|].
  cbn [forallb] in H. apply andb_prop in H. destruct H as [Hg Hgs].
  unfold seg_good in Hg. apply andb_prop in Hg. destruct Hg as [Hg G]. apply andb_prop in Hg. destruct Hg as [Hg G1].
  apply andb_prop in Hg. destruct Hg as [Hg G2]. apply andb_prop in Hg. destruct Hg as [Hg G3].
  apply andb_prop in Hg. destruct Hg as [Hg G4].
  destruct (rec_good_parts _ Hg) as [Hr [Hns Hw]].
  destruct (IH (pos + sizeof_WBSEP + size (g_body g)) Hgs) as [I1 [I2 [I3 [I4 I5]]]].
  change (segs_recs (g :: gs)) with (RSep (g_crc g) (g_len g) :: (g_body g ++ segs_recs gs)).
  apply Z.leb_le in G2. pose proof (u32_range _ G3) as Hlen.
  assert (Hfit : (Z.to_nat (g_len g) <= length (encode (g_body g)))%nat).
  { pose proof (size_encode (g_body g)). lia. }
  repeat split.
  - cbn [forallb rec_range]. rewrite G4, G3. cbn [andb]. rewrite forallb_app, Hr, I1. reflexivity.
  - cbn [sep_ok rec_size]. rewrite sep_ok_nosep_app by exact Hns. rewrite I2, andb_true_r.
    rewrite first_sp_app. unfold body_shape in G1.
    replace (first_sp (g_body g) (pos + sizeof_WBSEP)) with (option_map (Z.add (pos + sizeof_WBSEP)) (first_sp (g_body g) 0))
      by (rewrite <- first_sp_shift; f_equal; ring).
    destruct (first_sp (g_body g) 0) as [q|] eqn:Eq; cbn [option_map].
    + apply andb_prop in G1. destruct G1 as [Ga Gb]. apply Z.eqb_eq in Ga. apply Z.eqb_eq in Gb. apply Z.leb_le.
      unfold sizeof_WBSEP, sizeof_WBSAVEPOINT in *. lia.
    + destruct (first_sp (segs_recs gs) (pos + sizeof_WBSEP + size (g_body g))) as [q|] eqn:Eq2; [|reflexivity].
      apply first_sp_ge in Eq2. apply Z.leb_le. unfold sizeof_WBSEP in *. lia.
  - cbn [crc_ok]. rewrite crc_ok_nosep_app by exact Hns. rewrite Hw, I3. cbn [andb]. rewrite andb_true_r.
    rewrite encode_app, firstn_app_le by exact Hfit. exact G.
  - cbn [sep_fit rec_size size]. rewrite sep_fit_nosep_app by exact Hns. rewrite size_app.
    replace (pos + (sizeof_WBSEP + (size (g_body g) + size (segs_recs gs))))
      with (pos + sizeof_WBSEP + size (g_body g) + size (segs_recs gs)) by ring.
    rewrite I4, andb_true_r. apply Z.leb_le. pose proof (size_nonneg (segs_recs gs)). lia.
Qed.

Lemma segs_wf_log : forall gs, forallb seg_good gs = true -> wf_log (segs_recs gs) = true /\ crc_ok (segs_recs gs) = true.
Proof.
  intros gs H. destruct (segs_wf gs 0 H) as [A [B [C [D E]]]]. split; [|exact C].
  unfold wf_log. fold (head_sep (segs_recs gs)). rewrite E, A, B. reflexivity.
Qed.

(* ---- iwu_crc32 stays inside uint32 *)
Lemma table_u32 : forallb u32 iwu_crc32_table = true.
Proof. vm_compute. reflexivity. Qed.
Lemma lxor_u32 : forall a b, 0 <= a < 4294967296 -> 0 <= b < 4294967296 -> 0 <= Z.lxor a b < 4294967296.
Proof.
  intros a b Ha Hb. split; [apply Z.lxor_nonneg; lia|].
  destruct (Z.eq_dec (Z.lxor a b) 0) as [E|E]; [lia|].
  assert (Hp : 0 < Z.lxor a b) by (assert (0 <= Z.lxor a b) by (apply Z.lxor_nonneg; lia); lia).
  change 4294967296 with (2 ^ 32). apply Z.log2_lt_pow2; [exact Hp|].
  pose proof (Z.log2_lxor a b ltac:(lia) ltac:(lia)) as Hl.
  assert (Z.log2 a < 32).
  { destruct (Z.eq_dec a 0) as [->|]; [cbn; lia|]. apply Z.log2_lt_pow2; [lia|]. change (2 ^ 32) with 4294967296. lia. }
  assert (Z.log2 b < 32).
  { destruct (Z.eq_dec b 0) as [->|]; [cbn; lia|]. apply Z.log2_lt_pow2; [lia|]. change (2 ^ 32) with 4294967296. lia. }
  lia.
Qed.
Lemma crc32_step_u32 : forall crc b, 0 <= crc32_step crc b < 4294967296.
Proof.
  intros crc b. unfold crc32_step. apply lxor_u32.
  - change 4294967295 with (Z.ones 32). rewrite Z.land_ones by lia. change (2 ^ 32) with 4294967296. apply Z.mod_pos_bound. lia.
  - set (i := Z.to_nat _). destruct (nth_in_or_default i iwu_crc32_table 0) as [Hin|Hd]; [|rewrite Hd; lia].
    pose proof table_u32 as Ht. rewrite forallb_forall in Ht. apply u32_range. apply Ht. exact Hin.
Qed.
Lemma crc32_u32 : forall buf init, 0 <= init < 4294967296 -> u32 (crc32 buf init) = true.
Proof.
  unfold crc32. induction buf as [|b buf IH]; intros init Hi; cbn [fold_left].
  - unfold u32. apply andb_true_intro. split; [apply Z.leb_le | apply Z.ltb_lt]; lia.
  - apply IH. apply crc32_step_u32.
Qed.

(* ---- the recovery point of an intact log, and how it moves under appends *)
Fixpoint last_full (rs : list rec) (pos f : Z) : Z :=
  match rs with [] => f | r :: t => last_full t (pos + rec_size r) (if is_sp r then pos else f) end.

Lemma last_sp_from_app : forall spchk a x pos n f,
  last_sp_from spchk (a ++ x) pos n f = last_sp_from spchk x (pos + size a) n (last_sp_from spchk a pos n f).
Proof.
  induction a as [|r a IH]; intros x pos n f; cbn [app size last_sp_from]; [rewrite Z.add_0_r; reflexivity|].
  destruct (Z.ltb_spec pos n).
  - rewrite IH. rewrite Z.add_assoc. reflexivity.
  - rewrite last_sp_from_done; [reflexivity|]. pose proof (rec_size_pos r). pose proof (size_nonneg a). lia.
Qed.
Lemma last_sp_from_nosp : forall spchk a pos n f, nosp a = true -> last_sp_from spchk a pos n f = f.
Proof.
  induction a as [|r a IH]; intros pos n f H; [reflexivity|]. cbn [nosp forallb] in H. apply andb_prop in H. destruct H as [H1 H2].
  cbn [last_sp_from]. destruct (pos <? n); [|reflexivity]. destruct (is_sp r); [discriminate|]. cbn [andb]. apply IH. exact H2.
Qed.
Lemma last_sp_from_full : forall spchk a pos n f, pos + size a <= n -> last_sp_from spchk a pos n f = last_full a pos f.
Proof.
  induction a as [|r a IH]; intros pos n f H; [reflexivity|]. cbn [size] in H. cbn [last_sp_from last_full].
  pose proof (rec_size_pos r). pose proof (size_nonneg a).
  destruct (Z.ltb_spec pos n); [|lia].
  rewrite IH by lia. f_equal. destruct r; cbn [is_sp andb]; try reflexivity.
  unfold sp_visible. cbn [rec_size] in *. destruct spchk; [destruct (Z.leb_spec (pos + sizeof_WBSAVEPOINT) n) | destruct (Z.ltb_spec pos n)]; try reflexivity; lia.
Qed.
Lemma last_full_app : forall a x pos f, last_full (a ++ x) pos f = last_full x (pos + size a) (last_full a pos f).
Proof.
  induction a as [|r a IH]; intros x pos f; cbn [app size last_full]; [rewrite Z.add_0_r; reflexivity|].
  rewrite IH, Z.add_assoc. reflexivity.
Qed.
Lemma last_full_nosp : forall a pos f, nosp a = true -> last_full a pos f = f.
Proof.
  induction a as [|r a IH]; intros pos f H; [reflexivity|]. cbn [nosp forallb] in H. apply andb_prop in H. destruct H as [H1 H2].
  cbn [last_full]. destruct (is_sp r); [discriminate|]. apply IH. exact H2.
Qed.
Lemma last_full_bound : forall a pos f, f <= pos -> f <= last_full a pos f <= Z.max f (pos + size a).
Proof.
  induction a as [|r a IH]; intros pos f H; cbn [last_full size]; [lia|].
  pose proof (rec_size_pos r). pose proof (size_nonneg a).
  destruct (is_sp r).
  - specialize (IH (pos + rec_size r) pos ltac:(lia)). lia.
  - specialize (IH (pos + rec_size r) f ltac:(lia)). lia.
Qed.

(* ---- ops_before over concatenations *)
Lemma ops_before_app_le : forall a x pos q, q <= pos + size a -> ops_before (a ++ x) pos q = ops_before a pos q.
Proof.
  induction a as [|r a IH]; intros x pos q H; cbn [app size] in *.
  - rewrite !ops_before_nil by lia. reflexivity.
  - cbn [ops_before]. destruct (pos <? q); [|reflexivity]. rewrite IH by lia. reflexivity.
Qed.
Lemma ops_before_all : forall a pos q, pos + size a <= q -> ops_before a pos q = bops a.
Proof.
  induction a as [|r a IH]; intros pos q H; [reflexivity|]. cbn [size] in H. cbn [ops_before].
  pose proof (rec_size_pos r). pose proof (size_nonneg a). destruct (Z.ltb_spec pos q); [|lia].
  rewrite IH by lia. reflexivity.
Qed.
Lemma ops_before_exact : forall a x pos, ops_before (a ++ x) pos (pos + size a) = bops a.
Proof. intros. rewrite ops_before_app_le by lia. apply ops_before_all. lia. Qed.
Lemma ops_before_le_bops : forall a pos q, exists k, ops_before a pos q = firstn k (bops a).
Proof.
  induction a as [|r a IH]; intros pos q; [exists 0%nat; reflexivity|]. cbn [ops_before].
  destruct (pos <? q); [|exists 0%nat; reflexivity].
  destruct (IH (pos + rec_size r) q) as [k Hk]. exists (length (op_of r) + k)%nat.
  change (bops (r :: a)) with (op_of r ++ bops a). rewrite firstn_app_2, Hk. reflexivity.
Qed.

(* ---- a replay that runs to the end of an intact log (mode 0 = checkpoint of a live store) applies every
   record and ends with rc 0 *)
Lemma replay_loop_all : forall rs ccrc fuel first pos fpos,
  forallb rec_range rs = true -> sep_fit rs pos (pos + size rs) = true -> (ccrc = true -> crc_ok rs = true) ->
  (first = true -> head_sep rs = true) -> fpos <= pos -> (first = false -> fpos < pos) ->
  (length (encode rs) < fuel)%nat ->
  replay_loop fuel ccrc first (pos + size rs) pos (encode rs) fpos = (VOk, bops rs).
Proof.
  induction rs as [|r rs IH]; intros ccrc fuel first pos fpos Hr Hs Hcrc Hf Hle Hlt Hfu.
  - cbn [size encode flat_map]. apply replay_loop_done. lia.
  - destruct fuel as [|f]; [lia|]. rewrite encode_cons in *. cbn [replay_loop size] in *.
    pose proof (rec_size_pos r) as Hp. pose proof (size_nonneg rs) as Hn.
    destruct (Z.ltb_spec pos (pos + (rec_size r + size rs))); [|lia]. cbn [negb].
    cbn [forallb] in Hr. apply andb_prop in Hr. destruct Hr as [Hr1 Hr2].
    cbn [sep_fit] in Hs. apply andb_prop in Hs. destruct Hs as [Hs1 Hs2].
    set (c := length (enc_rec r ++ encode rs)).
    assert (Hc : Z.of_nat c = rec_size r + size rs).
    { unfold c. rewrite app_length, Nat2Z.inj_add, enc_rec_length, size_encode. reflexivity. }
    replace (pos + (rec_size r + size rs) - pos) with (Z.of_nat c) by lia.
    rewrite <- (firstn_all (enc_rec r ++ encode rs)) at 1. fold c.
    assert (Hfit : (length (enc_rec r) <= c)%nat) by (unfold c; rewrite app_length; lia).
    rewrite replay_step_intact by assumption.
    assert (Hk : length (enc_rec r) = Z.to_nat (rec_size r)) by (rewrite <- enc_rec_length; lia).
    assert (Hrec : forall adv op, adv = rec_size r -> op = op_of r ->
      (let (v, ops) := replay_loop f ccrc false (pos + (rec_size r + size rs)) (pos + adv)
           (skipn (Z.to_nat adv) (enc_rec r ++ encode rs)) fpos in (v, op ++ ops))
      = (VOk, bops (r :: rs))).
    { intros adv op -> ->. rewrite skipn_app_exact by exact Hk.
      replace (pos + (rec_size r + size rs)) with (pos + rec_size r + size rs) by ring.
      rewrite IH; [reflexivity | exact Hr2 | | | intros; discriminate | lia | intros; lia | ].
      - replace (pos + rec_size r + size rs) with (pos + (rec_size r + size rs)) by ring. exact Hs2.
      - intros Hc1. specialize (Hcrc Hc1). cbn [crc_ok] in Hcrc. apply andb_prop in Hcrc. tauto.
      - rewrite app_length in Hfu. lia. }
    destruct r as [crc len|val off len|off len noff|crc off p|os ns|ts|]; cbn [rrstep op_of] in *.
    + (* SEP *)
      apply Z.leb_le in Hs1. cbn [rec_size] in *.
      destruct (Z.gtb_spec len (Z.of_nat c)); [unfold sizeof_WBSEP in *; lia|].
      assert (Hck : (ccrc && negb (crc =? 0) && negb (crc32 (take_pad len (firstn (c - 12) (encode rs))) 0 =? crc)) = false).
      { destruct ccrc; [|reflexivity]. specialize (Hcrc eq_refl).
        cbn [crc_ok] in Hcrc. apply andb_prop in Hcrc. destruct Hcrc as [Hcrc _].
        cbn [rec_range] in Hr1. apply andb_prop in Hr1. destruct Hr1 as [_ Hl]. apply u32_range in Hl.
        apply orb_prop in Hcrc. destruct Hcrc as [Hz|Hz]; [rewrite Hz; reflexivity|].
        assert (Hall : firstn (c - 12) (encode rs) = encode rs).
        { apply firstn_all2. pose proof (size_encode rs). unfold sizeof_WBSEP in *. lia. }
        rewrite Hall. replace len with (Z.of_nat (Z.to_nat len)) at 1 by lia.
        rewrite take_pad_exact by (pose proof (size_encode rs); unfold sizeof_WBSEP in *; lia).
        rewrite Hz. cbn [negb andb]. apply andb_false_r. }
      rewrite Hck. apply Hrec; reflexivity.
    + destruct first; [specialize (Hf eq_refl); discriminate|]. apply Hrec; reflexivity.
    + destruct first; [specialize (Hf eq_refl); discriminate|]. apply Hrec; reflexivity.
    + destruct first; [specialize (Hf eq_refl); discriminate|].
      assert (Hck : (ccrc && negb (crc =? 0) && negb (crc32 p 0 =? crc)) = false).
      { destruct ccrc; [|reflexivity]. specialize (Hcrc eq_refl). cbn [crc_ok] in Hcrc. apply andb_prop in Hcrc.
        destruct Hcrc as [Hcrc _]. apply orb_prop in Hcrc. destruct Hcrc as [Hz|Hz]; rewrite Hz; [reflexivity|].
        cbn [negb andb]. apply andb_false_r. }
      rewrite Hck. apply Hrec; reflexivity.
    + destruct first; [specialize (Hf eq_refl); discriminate|]. apply Hrec; reflexivity.
    + destruct first; [specialize (Hf eq_refl); discriminate|]. specialize (Hlt eq_refl).
      destruct (Z.eqb_spec fpos pos); [lia|]. apply Hrec; reflexivity.
    + destruct first; [specialize (Hf eq_refl); discriminate|]. apply Hrec; reflexivity.
Qed.

(* the whole log, mode 0 without a pending reset mark *)
Theorem replay_mode0_all : forall gs ccrc, forallb seg_good gs = true ->
  replay_ops ccrc 0 0 (encode (segs_recs gs)) = (VOk, bops (segs_recs gs)).
Proof.
  intros gs ccrc H. destruct (segs_wf gs 0 H) as [A [B [C [D E]]]].
  unfold replay_ops, replay_ops_with. set (rs := segs_recs gs) in *.
  destruct (Z.eqb_spec (Z.of_nat (length (encode rs))) 0) as [E0|E0].
  - assert (rs = []) by (apply encode_nil; destruct (encode rs); [reflexivity | cbn in E0; lia]). rewrite H0. reflexivity.
  - cbn [Z.eqb negb Z.gtb Z.compare]. rewrite size_encode.
    change (size rs) with (0 + size rs) at 1. apply replay_loop_all; auto; try lia.
Qed.

(* ---- byte level = segment level: _flush_wl and _write_wl *)
Definition Rep (s : pstate) (gs : list seg) (B : list rec) : Prop :=
  p_log s = encode (segs_recs gs) /\ p_buf s = encode B.
Definition same_rest (s s' : pstate) : Prop :=
  p_disk s' = p_disk s /\ p_rfoff s' = p_rfoff s /\ p_stage s' = p_stage s /\ p_fatal s' = p_fatal s.
Definition mk (c : pcfg) (B : list rec) (len : Z) : seg :=
  mkSeg (if c_ccrc c then crc32 (firstn (Z.to_nat len) (encode B)) 0 else 0) len B.

Definition appended (es : list effect) : bytes :=
  flat_map (fun e => match e with ELogAppend bs => bs | _ => [] end) es.
Definition log_only (es : list effect) : bool :=
  forallb (fun e => match e with ELogAppend _ | ELogFsync => true | _ => false end) es.

Lemma appended_app : forall a b, appended (a ++ b) = appended a ++ appended b.
Proof. intros. unfold appended. apply flat_map_app. Qed.
Lemma log_only_app : forall a b, log_only (a ++ b) = log_only a && log_only b.
Proof. intros. unfold log_only. apply forallb_app. Qed.
Lemma after_effects_app : forall a b log D,
  after_effects log D (a ++ b) = let (l1, d1) := after_effects log D a in after_effects l1 d1 b.
Proof. intros. unfold after_effects. rewrite fold_left_app. destruct (fold_left apply_effect a (log, D)). reflexivity. Qed.
Lemma after_log_only : forall es log D, log_only es = true -> after_effects log D es = (log ++ appended es, D).
Proof.
  unfold after_effects. induction es as [|e es IH]; intros log D H; cbn [fold_left appended flat_map].
  - rewrite app_nil_r. reflexivity.
  - cbn [log_only forallb] in H. apply andb_prop in H. destruct H as [H1 H2].
    destruct e; try discriminate; cbn [apply_effect]; rewrite IH by exact H2; fold (appended es); [rewrite app_assoc|]; reflexivity.
Qed.
Lemma log_only_firstn : forall es j, log_only es = true -> log_only (firstn j es) = true.
Proof.
  induction es as [|e es IH]; intros [|j] H; try reflexivity. cbn [log_only forallb firstn] in *.
  apply andb_prop in H. destruct H as [H1 H2]. rewrite H1. apply IH. exact H2.
Qed.
Lemma appended_firstn : forall es j, exists n, appended (firstn j es) = firstn n (appended es).
Proof.
  induction es as [|e es IH]; intros j; [exists 0%nat; rewrite firstn_nil; reflexivity|].
  destruct j as [|j]; [exists 0%nat; reflexivity|]. destruct (IH j) as [n Hn].
  cbn [firstn]. set (eb := match e with ELogAppend bs => bs | _ => [] end).
  change (appended (e :: firstn j es)) with (eb ++ appended (firstn j es)).
  change (appended (e :: es)) with (eb ++ appended es).
  exists (length eb + n)%nat. rewrite firstn_app_2, Hn. reflexivity.
Qed.

Lemma flush_wl_nil : forall c s sync, p_buf s = [] -> flush_wl c s sync = (s, if sync then [ELogFsync] else []).
Proof. intros c s sync H. unfold flush_wl. rewrite H. reflexivity. Qed.
Lemma flush_wl_cons : forall c s sync, p_buf s <> [] ->
  flush_wl c s sync =
  (mkP [] (p_log s ++ enc_rec (RSep (if c_ccrc c then crc32 (p_buf s) 0 else 0) (lenZ (p_buf s))) ++ p_buf s)
       (p_disk s) (p_rfoff s) (p_stage s) (p_fatal s),
   [ELogAppend (enc_rec (RSep (if c_ccrc c then crc32 (p_buf s) 0 else 0) (lenZ (p_buf s))) ++ p_buf s)]
   ++ (if sync then [ELogFsync] else [])).
Proof. intros c s sync H. unfold flush_wl. destruct (p_buf s) as [|b t] eqn:E; [congruence|]. reflexivity. Qed.

Lemma encode_seg : forall gs g, encode (segs_recs (gs ++ [g])) =
  encode (segs_recs gs) ++ enc_rec (RSep (g_crc g) (g_len g)) ++ encode (g_body g).
Proof.
  intros. rewrite segs_recs_app, encode_app. f_equal. unfold segs_recs. cbn [flat_map]. rewrite app_nil_r.
  unfold seg_recs. rewrite encode_cons. reflexivity.
Qed.
Lemma fsync_tail_log_only : forall sync : bool, log_only (if sync then [ELogFsync] else []) = true.
Proof. destruct sync; reflexivity. Qed.
Lemma fsync_tail_appended : forall sync : bool, appended (if sync then [ELogFsync] else []) = [].
Proof. destruct sync; reflexivity. Qed.

Lemma flush_sim : forall c s gs B sync s' es, Rep s gs B -> flush_wl c s sync = (s', es) ->
  exists gs', Rep s' (gs ++ gs') [] /\ same_rest s s' /\ log_only es = true /\ p_log s' = p_log s ++ appended es /\
    ((B = [] /\ gs' = []) \/ (B <> [] /\ gs' = [mk c B (size B)])).
Proof.
  intros c s gs B sync s' es [HL HB] Hf. destruct B as [|r0 B0].
  - cbn in HB. rewrite flush_wl_nil in Hf by exact HB. inversion Hf; subst s' es. exists []. rewrite app_nil_r.
    repeat split; auto; [apply fsync_tail_log_only | rewrite fsync_tail_appended, app_nil_r; reflexivity].
  - set (B := r0 :: B0) in *. assert (Hne : p_buf s <> []).
    { rewrite HB. intros E. apply encode_nil in E. discriminate. }
    rewrite flush_wl_cons in Hf by exact Hne. inversion Hf; subst s' es. clear Hf.
    exists [mk c B (size B)].
    assert (Hfull : firstn (Z.to_nat (size B)) (encode B) = encode B).
    { apply firstn_all2. pose proof (size_encode B). lia. }
    split.
    { unfold Rep. cbn [p_log p_buf]. split; [|reflexivity].
      rewrite encode_seg. unfold mk. cbn [g_crc g_len g_body]. rewrite Hfull, HL, HB, lenZ_encode. reflexivity. }
    split. { unfold same_rest. cbn [p_disk p_rfoff p_stage p_fatal]. auto. }
    split. { destruct sync; reflexivity. }
    split. { cbn [p_log]. destruct sync; cbn [app appended flat_map]; rewrite ?app_nil_r; reflexivity. }
    right. split; [discriminate | reflexivity].
Qed.

Lemma lenZ_app : forall a b, lenZ (a ++ b) = lenZ a + lenZ b.
Proof. intros. unfold lenZ. rewrite app_length. lia. Qed.

Lemma write_sim : forall c s gs B r h d s' es, Rep s gs B -> enc_rec r = h ++ d -> h <> [] ->
  write_wl c s h d = (s', es) ->
  exists gs1 B1 gs' B',
    ((gs1 = [] /\ B1 = B) \/ (B <> [] /\ gs1 = [mk c B (size B)] /\ B1 = [])) /\
    ((gs' = gs1 /\ B' = B1 ++ [r] /\ size B' <= c_bufsz c) \/
     (gs' = gs1 ++ [mk c (B1 ++ [r]) (size B1 + lenZ h)] /\ B' = [])) /\
    Rep s' (gs ++ gs') B' /\ same_rest s s' /\ log_only es = true /\ p_log s' = p_log s ++ appended es.
Proof.
  intros c s gs B r h d s' es [HL HB] Henc Hh Hw.
  assert (S1 : exists s1 e1 gs1 B1,
     (if c_bufsz c - lenZ (p_buf s) <? lenZ h then flush_wl c s false else (s, [])) = (s1, e1) /\
     ((gs1 = [] /\ B1 = B) \/ (B <> [] /\ gs1 = [mk c B (size B)] /\ B1 = [])) /\
     Rep s1 (gs ++ gs1) B1 /\ same_rest s s1 /\ log_only e1 = true /\ p_log s1 = p_log s ++ appended e1).
  { destruct (c_bufsz c - lenZ (p_buf s) <? lenZ h).
    - destruct (flush_wl c s false) as [s1 e1] eqn:E.
      destruct (flush_sim c s gs B false s1 e1 (conj HL HB) E) as [gs1 [R1 [SR [LO [PL Hc]]]]].
      exists s1, e1, gs1, []. split; [reflexivity|]. split; [|split; [exact R1|]; split; [exact SR|]; split; [exact LO | exact PL]].
      destruct Hc as [[-> ->]|[Hne ->]]; [left; split; reflexivity | right; repeat split; auto].
    - exists s, [], [], B. rewrite app_nil_r. unfold same_rest. repeat split; auto. cbn. rewrite app_nil_r. reflexivity. }
  destruct S1 as [s1 [e1 [gs1 [B1 [E1 [C1 [[HL1 HB1] [SR1 [LO1 PL1]]]]]]]]]. unfold write_wl in Hw. rewrite E1 in Hw. cbv iota beta in Hw.
  cbn [p_buf p_log p_disk p_rfoff p_stage p_fatal] in Hw.
  destruct SR1 as [Sd [Sr [Ss Sf]]].
  assert (Hrs : rec_size r = lenZ h + lenZ d).
  { rewrite <- enc_rec_length, Henc. unfold lenZ. rewrite app_length. lia. }
  destruct (c_bufsz c - lenZ (p_buf s1 ++ h) <? lenZ d) eqn:E2.
  - (* the payload does not fit: flush header and all, write the payload to the file *)
    match type of Hw with context [flush_wl c ?s2 false] =>
      rewrite (flush_wl_cons c s2 false) in Hw
        by (cbn [p_buf]; intros Hx; apply app_eq_nil in Hx; destruct Hx; contradiction) end.
    cbv iota beta in Hw. cbn [p_buf p_log p_disk p_rfoff p_stage p_fatal] in Hw.
    apply pair_equal_spec in Hw. destruct Hw as [Hs' Hes]. subst s' es.
    exists gs1, B1, (gs1 ++ [mk c (B1 ++ [r]) (size B1 + lenZ h)]), [].
    split; [exact C1|]. split; [right; split; reflexivity|].
    assert (Hpre : firstn (Z.to_nat (size B1 + lenZ h)) (encode (B1 ++ [r])) = encode B1 ++ h).
    { rewrite encode_app. cbn [encode flat_map]. rewrite app_nil_r, Henc, app_assoc. apply firstn_app_exact.
      rewrite app_length. pose proof (size_encode B1). unfold lenZ. lia. }
    split.
    { unfold Rep. cbn [p_buf p_log]. split; [|reflexivity].
      rewrite (app_assoc gs gs1), encode_seg. unfold mk. cbn [g_crc g_len g_body]. rewrite Hpre.
      rewrite HL1, HB1, lenZ_app, lenZ_encode. rewrite encode_app. cbn [encode flat_map]. rewrite app_nil_r, Henc.
      rewrite <- !app_assoc. reflexivity. }
    split. { unfold same_rest. cbn [p_disk p_rfoff p_stage p_fatal]. auto. }
    split. { rewrite !log_only_app, LO1. reflexivity. }
    cbn [p_log]. rewrite PL1. rewrite !appended_app. cbn [appended flat_map]. rewrite !app_nil_r. rewrite <- !app_assoc. reflexivity.
  - apply pair_equal_spec in Hw. destruct Hw as [Hs' Hes]. subst s' es.
    exists gs1, B1, gs1, (B1 ++ [r]).
    split; [exact C1|]. split.
    { left. repeat split. apply Z.ltb_ge in E2. rewrite size_app. cbn [size]. rewrite lenZ_app, HB1, lenZ_encode in E2. lia. }
    split.
    { unfold Rep. cbn [p_buf p_log]. split; [exact HL1|].
      rewrite encode_app. cbn [encode flat_map]. rewrite app_nil_r, Henc, HB1, <- app_assoc. reflexivity. }
    split. { unfold same_rest. cbn [p_disk p_rfoff p_stage p_fatal]. auto. }
    split; [exact LO1 | exact PL1].
Qed.

(* ---- segments made by the protocol are good *)
Lemma mk_good : forall c B len, forallb rec_good B = true -> 0 <= len <= size B -> len < 4294967296 ->
  body_shape B len = true -> seg_good (mk c B len) = true.
Proof.
  intros c B len HB Hl Hu Hs. unfold seg_good, mk. cbn [g_crc g_len g_body]. rewrite HB, Hs. cbn [andb].
  assert (U : u32 len = true) by (unfold u32; apply andb_true_intro; split; [apply Z.leb_le | apply Z.ltb_lt]; lia).
  rewrite U. assert (L : (len <=? size B) = true) by (apply Z.leb_le; lia). rewrite L.
  destruct (c_ccrc c).
  - rewrite crc32_u32 by lia. rewrite Z.eqb_refl, orb_true_r. reflexivity.
  - reflexivity.
Qed.
Lemma body_shape_nosp : forall B len, nosp B = true -> body_shape B len = true.
Proof. intros B len H. unfold body_shape. rewrite first_sp_nosp by exact H. reflexivity. Qed.
Lemma body_shape_sp_last : forall B ts, nosp B = true ->
  body_shape (B ++ [RSavepoint ts]) (size (B ++ [RSavepoint ts])) = true.
Proof.
  intros B ts H. unfold body_shape. rewrite first_sp_app, first_sp_nosp by exact H. cbn [first_sp is_sp].
  rewrite size_app. cbn [size rec_size]. apply andb_true_intro. split; apply Z.eqb_eq; ring.
Qed.
Lemma nosp_app : forall a b, nosp (a ++ b) = nosp a && nosp b.
Proof. intros. unfold nosp. apply forallb_app. Qed.
Lemma no_reset_app : forall a b, no_reset (a ++ b) = no_reset a && no_reset b.
Proof. intros. unfold no_reset. apply forallb_app. Qed.

(* ---- "one header-only record, then flush" on the segment level (_savepoint_exl; the reset mark of a checkpoint made
   during an online backup): whatever was pending is flushed, the record is the last record of the last segment *)
Lemma write_flush_sim : forall c s gs B r sync s1 e1 s' e2, Rep s gs B ->
  write_wl c s (enc_rec r) [] = (s1, e1) -> flush_wl c s1 sync = (s', e2) ->
  exists gs1 B1,
    ((gs1 = [] /\ B1 = B) \/ (B <> [] /\ gs1 = [mk c B (size B)] /\ B1 = [])) /\
    Rep s' (gs ++ gs1 ++ [mk c (B1 ++ [r]) (size (B1 ++ [r]))]) [] /\
    same_rest s s' /\ log_only (e1 ++ e2) = true /\ p_log s' = p_log s ++ appended (e1 ++ e2).
Proof.
  intros c s gs B r sync s1 e1 s2 e2 HR Ew Ef.
  assert (Henc : enc_rec r = enc_rec r ++ []) by (rewrite app_nil_r; reflexivity).
  assert (Hne : enc_rec r <> []).
  { intros E. apply (f_equal (@length Z)) in E. apply (f_equal Z.of_nat) in E. rewrite enc_rec_length in E.
    pose proof (rec_size_pos r). cbn in E. lia. }
  destruct (write_sim c s gs B r _ [] s1 e1 HR Henc Hne Ew) as [gs1 [B1 [gs' [B' [C1 [C2 [R1 [SR1 [LO1 PL1]]]]]]]]].
  exists gs1, B1. split; [exact C1|].
  assert (Hsz : size B1 + lenZ (enc_rec r) = size (B1 ++ [r])).
  { rewrite size_app. cbn [size]. rewrite Z.add_0_r. f_equal. apply enc_rec_length. }
  destruct C2 as [[-> [-> Hfit]]|[-> ->]].
  - destruct (flush_sim c s1 (gs ++ gs1) (B1 ++ [r]) sync s2 e2 R1 Ef) as [gs2 [R2 [SR2 [LO2 [PL2 Hc]]]]].
    destruct Hc as [[Hnil _]|[_ ->]]; [destruct B1; discriminate|].
    split; [rewrite <- app_assoc in R2; exact R2|].
    split. { destruct SR1 as [A1 [A2 [A3 A4]]]. destruct SR2 as [B1' [B2 [B3 B4]]]. unfold same_rest. repeat split; congruence. }
    split. { rewrite log_only_app, LO1, LO2. reflexivity. }
    rewrite PL2, PL1, appended_app, app_assoc. reflexivity.
  - destruct (flush_sim c s1 _ [] sync s2 e2 R1 Ef) as [gs2 [R2 [SR2 [LO2 [PL2 Hc]]]]].
    destruct Hc as [[_ ->]|[Hx _]]; [|congruence]. rewrite app_nil_r in R2. rewrite Hsz in R2.
    split; [exact R2|].
    split. { destruct SR1 as [A1 [A2 [A3 A4]]]. destruct SR2 as [B1' [B2 [B3 B4]]]. unfold same_rest. repeat split; congruence. }
    split. { rewrite log_only_app, LO1, LO2. reflexivity. }
    rewrite PL2, PL1, appended_app, app_assoc. reflexivity.
Qed.

Lemma savepoint_sim : forall c s gs B ts sync s' es, Rep s gs B -> savepoint c s ts sync = (s', es) ->
  exists gs1 B1,
    ((gs1 = [] /\ B1 = B) \/ (B <> [] /\ gs1 = [mk c B (size B)] /\ B1 = [])) /\
    Rep s' (gs ++ gs1 ++ [mk c (B1 ++ [RSavepoint ts]) (size (B1 ++ [RSavepoint ts]))]) [] /\
    same_rest s s' /\ log_only es = true /\ p_log s' = p_log s ++ appended es.
Proof.
  intros c s gs B ts sync s' es HR Hs. unfold savepoint in Hs.
  destruct (write_wl c s (enc_rec (RSavepoint ts)) []) as [s1 e1] eqn:Ew.
  destruct (flush_wl c s1 sync) as [s2 e2] eqn:Ef. apply pair_equal_spec in Hs. destruct Hs as [<- <-].
  exact (write_flush_sim c s gs B (RSavepoint ts) sync s1 e1 s2 e2 HR Ew Ef).
Qed.
