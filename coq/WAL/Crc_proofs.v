(* iwu_crc32 (MSB-first table CRC, Rec.crc32) detects EVERY change of a single byte, whatever the mask, wherever it is:
   no collision is possible for the single-bit / single-byte corruptions of C05 (C05_single_byte_flip_never_collides).
   Two facts about the table, both checked by computation over its 256 entries, carry the proof: the entries are
   pairwise different, and so are their low bytes - the update c -> (c << 8) ^ table[(c >> 24) ^ b] is then injective in c. *)
Require Import ZArith List Bool Lia.
Require Import IW.Lib.CInt IW.Gen.Facts IW.WAL.Rec IW.WAL.Rec_proofs IW.WAL.Scan IW.WAL.Scan_proofs IW.WAL.Replay IW.WAL.Replay_proofs
  IW.WAL.Proto IW.WAL.Segs_proofs IW.WAL.Flip_proofs.
Import ListNotations.
Local Open Scope Z_scope.

Definition tab (i : nat) : Z := nth i iwu_crc32_table 0.
Definition lows : list Z := map (fun t => Z.land t 255) iwu_crc32_table.
Fixpoint nodupb (l : list Z) : bool := match l with [] => true | x :: t => negb (existsb (Z.eqb x) t) && nodupb t end.
Lemma nodupb_NoDup : forall l, nodupb l = true -> NoDup l.
Proof.
  induction l as [|x t IH]; intros H; [constructor|]. cbn [nodupb] in H. apply andb_prop in H. destruct H as [H1 H2].
  constructor; [|apply IH; exact H2]. intros Hin. apply negb_true_iff in H1.
  assert (existsb (Z.eqb x) t = true) by (apply existsb_exists; exists x; split; [exact Hin | apply Z.eqb_refl]). congruence.
Qed.
Lemma lows_nodup : nodupb lows = true /\ length iwu_crc32_table = 256%nat.
Proof. vm_compute. split; reflexivity. Qed.

Lemma low_byte_inj : forall i j, (i < 256)%nat -> (j < 256)%nat -> Z.land (tab i) 255 = Z.land (tab j) 255 -> i = j.
Proof.
  intros i j Hi Hj H. destruct lows_nodup as [Hn Hl]. apply nodupb_NoDup in Hn.
  assert (Hlen : length lows = 256%nat) by (unfold lows; rewrite map_length; exact Hl).
  apply (proj1 (NoDup_nth lows 0) Hn i j); try lia.
  assert (Hnth : forall k, nth k lows 0 = Z.land (tab k) 255).
  { intros k. unfold lows, tab. exact (map_nth (fun t => Z.land t 255) iwu_crc32_table 0 k). }
  rewrite !Hnth. exact H.
Qed.

(* the two halves of one update *)
Definition shl8 (c : Z) : Z := Z.land (Z.shiftl c 8) 4294967295.
Definition idx (c b : Z) : nat := Z.to_nat (Z.land (Z.lxor (Z.shiftr c 24) b) 255).
Lemma step_split : forall c b, crc32_step c b = Z.lxor (shl8 c) (tab (idx c b)).
Proof. reflexivity. Qed.

Lemma shl8_eq : forall c, 0 <= c < 4294967296 -> shl8 c = (c mod 16777216) * 256.
Proof.
  intros c H. unfold shl8. change 4294967295 with (Z.ones 32). rewrite Z.land_ones by lia. rewrite Z.shiftl_mul_pow2 by lia.
  change (2 ^ 8) with 256. change (2 ^ 32) with 4294967296.
  Ltac Zify.zify_post_hook ::= Z.div_mod_to_equations. lia.
Qed.
Lemma shl8_low : forall c, 0 <= c < 4294967296 -> Z.land (shl8 c) 255 = 0.
Proof.
  intros c H. rewrite shl8_eq by exact H. change 255 with (Z.ones 8). rewrite Z.land_ones by lia. change (2 ^ 8) with 256.
  apply Z.mod_mul. lia.
Qed.
Lemma idx_lt : forall c b, (idx c b < 256)%nat.
Proof.
  intros. unfold idx. change 255 with (Z.ones 8). rewrite Z.land_ones by lia. change (2 ^ 8) with 256.
  pose proof (Z.mod_pos_bound (Z.lxor (Z.shiftr c 24) b) 256 ltac:(lia)). lia.
Qed.
Lemma top_lt : forall c, 0 <= c < 4294967296 -> 0 <= Z.shiftr c 24 < 256.
Proof. intros c H. rewrite Z.shiftr_div_pow2 by lia. change (2 ^ 24) with 16777216. Ltac Zify.zify_post_hook ::= Z.div_mod_to_equations. lia. Qed.
Lemma land255_id : forall h, 0 <= h < 256 -> Z.land h 255 = h.
Proof. intros h H. change 255 with (Z.ones 8). rewrite Z.land_ones by lia. change (2 ^ 8) with 256. apply Z.mod_small. lia. Qed.

Lemma land_lxor_distr_l : forall a b c, Z.land (Z.lxor a b) c = Z.lxor (Z.land a c) (Z.land b c).
Proof.
  intros. apply Z.bits_inj'. intros n Hn. rewrite Z.land_spec, !Z.lxor_spec, !Z.land_spec.
  destruct (Z.testbit a n), (Z.testbit b n), (Z.testbit c n); reflexivity.
Qed.

Lemma lxor_cancel_r : forall a b k, Z.lxor a k = Z.lxor b k -> a = b.
Proof.
  intros a b k H. apply (f_equal (fun x => Z.lxor x k)) in H. rewrite !Z.lxor_assoc, Z.lxor_nilpotent, !Z.lxor_0_r in H. exact H.
Qed.
Lemma lxor_cancel_l : forall a b k, Z.lxor k a = Z.lxor k b -> a = b.
Proof. intros a b k H. rewrite (Z.lxor_comm k a), (Z.lxor_comm k b) in H. eapply lxor_cancel_r; eauto. Qed.

(* the index determines the top byte, given the data byte *)
Lemma idx_inj_c : forall c1 c2 b, 0 <= c1 < 4294967296 -> 0 <= c2 < 4294967296 -> idx c1 b = idx c2 b ->
  Z.shiftr c1 24 = Z.shiftr c2 24.
Proof.
  intros c1 c2 b H1 H2 H. unfold idx in H. apply Z2Nat.inj in H; [| apply Z.land_nonneg; right; lia | apply Z.land_nonneg; right; lia].
  rewrite !land_lxor_distr_l in H. rewrite (land255_id (Z.shiftr c1 24)), (land255_id (Z.shiftr c2 24)) in H by (apply top_lt; assumption).
  exact (lxor_cancel_r _ _ _ H).
Qed.
Lemma idx_inj_b : forall c b1 b2, 0 <= b1 < 256 -> 0 <= b2 < 256 -> idx c b1 = idx c b2 -> b1 = b2.
Proof.
  intros c b1 b2 H1 H2 H. unfold idx in H. apply Z2Nat.inj in H; [| apply Z.land_nonneg; right; lia | apply Z.land_nonneg; right; lia].
  rewrite !land_lxor_distr_l in H. apply lxor_cancel_l in H. rewrite !land255_id in H by assumption. exact H.
Qed.

Lemma step_low : forall c b, 0 <= c < 4294967296 -> Z.land (crc32_step c b) 255 = Z.land (tab (idx c b)) 255.
Proof. intros c b H. rewrite step_split, land_lxor_distr_l, shl8_low by exact H. apply Z.lxor_0_l. Qed.

(* one update is injective in the state ... *)
Lemma step_inj : forall c1 c2 b, 0 <= c1 < 4294967296 -> 0 <= c2 < 4294967296 -> crc32_step c1 b = crc32_step c2 b -> c1 = c2.
Proof.
  intros c1 c2 b H1 H2 H.
  assert (Hi : idx c1 b = idx c2 b).
  { apply low_byte_inj; try apply idx_lt. rewrite <- !step_low by assumption. rewrite H. reflexivity. }
  pose proof (idx_inj_c c1 c2 b H1 H2 Hi) as Htop.
  rewrite !step_split, Hi in H. apply lxor_cancel_r in H. rewrite !shl8_eq in H by assumption.
  rewrite !Z.shiftr_div_pow2 in Htop by lia. change (2 ^ 24) with 16777216 in Htop.
  Ltac Zify.zify_post_hook ::= Z.div_mod_to_equations. lia.
Qed.
(* ... and in the data byte *)
Lemma step_inj_b : forall c b1 b2, 0 <= c < 4294967296 -> 0 <= b1 < 256 -> 0 <= b2 < 256 -> crc32_step c b1 = crc32_step c b2 -> b1 = b2.
Proof.
  intros c b1 b2 Hc H1 H2 H. apply (idx_inj_b c); try assumption.
  apply low_byte_inj; try apply idx_lt. rewrite <- !step_low by assumption. rewrite H. reflexivity.
Qed.

Lemma crc32_range : forall buf init, 0 <= init < 4294967296 -> 0 <= crc32 buf init < 4294967296.
Proof. intros buf init H. apply u32_range. apply crc32_u32. exact H. Qed.

Lemma crc32_inj_init : forall post c1 c2, 0 <= c1 < 4294967296 -> 0 <= c2 < 4294967296 -> crc32 post c1 = crc32 post c2 -> c1 = c2.
Proof.
  unfold crc32. induction post as [|b post IH]; intros c1 c2 H1 H2 H; cbn [fold_left] in H; [exact H|].
  apply IH in H; try apply crc32_step_u32. eapply step_inj; eauto.
Qed.

(* a change of one byte always changes the checksum *)
Theorem single_byte_changes_crc : forall pre b b' post init,
  0 <= init < 4294967296 -> 0 <= b < 256 -> 0 <= b' < 256 -> b <> b' ->
  crc32 (pre ++ b :: post) init <> crc32 (pre ++ b' :: post) init.
Proof.
  intros pre b b' post init Hi Hb Hb' Hne H. unfold crc32 in H. rewrite !fold_left_app in H. cbn [fold_left] in H.
  fold (crc32 pre init) in H. set (s := crc32 pre init) in *.
  assert (Hs : 0 <= s < 4294967296) by (apply crc32_range; exact Hi).
  fold (crc32 post (crc32_step s b)) in H. fold (crc32 post (crc32_step s b')) in H.
  apply crc32_inj_init in H; try apply crc32_step_u32.
  apply Hne. eapply step_inj_b; eauto.
Qed.

(* hence: ONE changed byte (any mask, i.e. every single-bit flip too) anywhere in the bytes a segment header covers, stored
   checksum = the computed one and not 0, no reset mark for the scanner: never a collision - the replay reports the
   corruption or stops at a genuine savepoint in front of the damaged segment *)
Theorem single_byte_flip_detected : forall Rpre crc len Rrest pre b b' post,
  let R := Rpre ++ RSep crc len :: Rrest in
  wf_log R = true -> crc_ok R = true -> sep_fit Rpre 0 (size Rpre) = true -> len <= size Rrest ->
  firstn (Z.to_nat len) (encode Rrest) = pre ++ b :: post ->        (* the bytes the header covers, b = the byte that changes *)
  crc = crc32 (pre ++ b :: post) 0 -> crc <> 0 -> 0 <= b < 256 -> 0 <= b' < 256 -> b <> b' -> 0 <= len ->
  let L' := damaged (encode R) (size Rpre + sizeof_WBSEP) (pre ++ b' :: post) in
  snd (scan L') = 0 ->
  let f := fst (scan L') in
  replay_ops true 1 0 L' =
    if f =? 0 then (VOk, []) else
    if existsb (Z.eqb f) (sp_offsets Rpre 0) then (VOk, ops_before R 0 f) else (VCorrupt, bops Rpre).
Proof.
  intros Rpre crc len Rrest pre b b' post R Hwf Hcrc Hfit Hlen Hcov Hc Hc0 Hb Hb' Hne Hl0 L' Hrp f.
  assert (HX : lenZ (pre ++ b' :: post) = len).
  { assert (E : length (pre ++ b' :: post) = length (pre ++ b :: post)) by (rewrite !app_length; reflexivity).
    unfold lenZ. rewrite E, <- Hcov, firstn_length_le; [lia|]. pose proof (size_encode Rrest). lia. }
  apply (flip_in_segment Rpre crc len Rrest (pre ++ b' :: post) Hwf Hcrc Hfit Hlen HX Hrp Hc0).
  rewrite Hc. apply single_byte_changes_crc; auto; lia.
Qed.
