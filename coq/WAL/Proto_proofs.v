(* Proofs for C04: redoing a log of overwrite records over a main file to which a prefix of them has already
   been applied gives the same file (crash inside a checkpoint replay or inside recovery is harmless), and
   the refutation for growth in mid-operation. *)
Require Import ZArith List Bool Lia.
Require Import IW.Lib.CInt IW.Gen.Facts IW.WAL.Rec IW.WAL.Rec_proofs IW.WAL.Scan IW.WAL.Scan_proofs
  IW.WAL.Replay IW.WAL.Replay_proofs IW.WAL.Proto.
Import ListNotations.
Local Open Scope Z_scope.

(* ---- pointwise description of the store primitives *)
Lemma overwrite_spec : forall data m r, overwrite m data = Some r ->
  length r = length m /\
  forall i, nth i r 0 = if (i <? length data)%nat then nth i data 0 else nth i m 0.
Proof.
  induction data as [|d ds IH]; intros m r H; cbn [overwrite] in H.
  - inversion H; subst. split; [reflexivity|]. intros i. reflexivity.
  - destruct m as [|x t]; [discriminate|]. destruct (overwrite t ds) as [r'|] eqn:E; [|discriminate].
    cbn in H. inversion H; subst. destruct (IH _ _ E) as [Hl Hn]. split; [cbn; lia|].
    intros [|i]; [reflexivity|]. cbn [nth length]. rewrite Hn. change (S i <? S (length ds))%nat with (i <? length ds)%nat. reflexivity.
Qed.

Lemma overwrite_none : forall data m, overwrite m data = None <-> (length m < length data)%nat.
Proof.
  induction data as [|d ds IH]; intros m; cbn [overwrite].
  - split; [discriminate | cbn; lia].
  - destruct m as [|x t]; [split; [cbn; lia | reflexivity]|].
    destruct (overwrite t ds) eqn:E; cbn; split; intros H; try discriminate; try reflexivity.
    + assert (overwrite t ds = None) by (apply IH; lia). congruence.
    + apply IH in E. lia.
Qed.

Definition inr (off len : Z) (i : nat) : bool := (off <=? Z.of_nat i) && (Z.of_nat i <? off + len).

Lemma splice_at_spec : forall m off d r, 0 <= off -> splice_at m off d = Some r ->
  length r = length m /\
  forall i, nth i r 0 = if inr off (Z.of_nat (length d)) i then nth (i - Z.to_nat off) d 0 else nth i m 0.
Proof.
  induction m as [|x t IH]; intros off d r Hoff H.
  - cbn [splice_at] in H. destruct (Z.leb_spec off 0); [|discriminate].
    assert (off = 0) by lia. subst off. destruct (overwrite_spec _ _ _ H) as [Hl Hn]. split; [exact Hl|].
    intros i. rewrite Hn. unfold inr. cbn [Z.to_nat]. rewrite Nat.sub_0_r.
    destruct (Nat.ltb_spec i (length d)); destruct (Z.leb_spec 0 (Z.of_nat i)); destruct (Z.ltb_spec (Z.of_nat i) (0 + Z.of_nat (length d))); try lia; reflexivity.
  - cbn [splice_at] in H. destruct (Z.leb_spec off 0).
    + assert (off = 0) by lia. subst off. destruct (overwrite_spec _ _ _ H) as [Hl Hn]. split; [exact Hl|].
      intros i. rewrite Hn. unfold inr. cbn [Z.to_nat]. rewrite Nat.sub_0_r.
      destruct (Nat.ltb_spec i (length d)); destruct (Z.leb_spec 0 (Z.of_nat i)); destruct (Z.ltb_spec (Z.of_nat i) (0 + Z.of_nat (length d))); try lia; reflexivity.
    + destruct (splice_at t (off - 1) d) as [r'|] eqn:E; [|discriminate]. cbn in H. inversion H; subst.
      assert (Ho1 : 0 <= off - 1) by lia. destruct (IH _ _ _ Ho1 E) as [Hl Hn]. split; [cbn; lia|].
      intros [|i].
      * unfold inr. destruct (Z.leb_spec off (Z.of_nat 0)); [lia|]. reflexivity.
      * cbn [nth]. rewrite Hn. unfold inr.
        replace (S i - Z.to_nat off)%nat with (i - Z.to_nat (off - 1))%nat by lia.
        destruct (Z.leb_spec (off - 1) (Z.of_nat i)); destruct (Z.leb_spec off (Z.of_nat (S i))); try lia;
        destruct (Z.ltb_spec (Z.of_nat i) (off - 1 + Z.of_nat (length d)));
        destruct (Z.ltb_spec (Z.of_nat (S i)) (off + Z.of_nat (length d))); try lia; reflexivity.
Qed.

Lemma splice_at_none : forall m off d, 0 <= off ->
  (splice_at m off d = None <-> Z.of_nat (length m) < off + Z.of_nat (length d)).
Proof.
  induction m as [|x t IH]; intros off d Hoff; cbn [splice_at].
  - destruct (Z.leb_spec off 0).
    + rewrite overwrite_none. cbn [length]. lia.
    + split; [cbn; lia | reflexivity].
  - destruct (Z.leb_spec off 0).
    + rewrite overwrite_none. lia.
    + destruct (splice_at t (off - 1) d) eqn:E; cbn; split; intros Hx; try discriminate; try reflexivity.
      * assert (splice_at t (off - 1) d = None) by (apply IH; cbn [length] in Hx; lia). congruence.
      * apply IH in E; [|lia]. cbn [length]. lia.
Qed.

Lemma fill_is_splice : forall m off len v, 0 <= off -> 0 <= len ->
  fill_at m off len v = splice_at m off (repeat v (Z.to_nat len)).
Proof.
  induction m as [|x t IH]; intros off len v Ho Hl; cbn [fill_at splice_at].
  - destruct (Z.leb_spec off 0); cbn [andb]; [|reflexivity].
    destruct (Z.leb_spec len 0).
    + assert (len = 0) by lia. subst. reflexivity.
    + replace (Z.to_nat len) with (S (Z.to_nat (len - 1))) by lia. reflexivity.
  - destruct (Z.ltb_spec 0 off); destruct (Z.leb_spec off 0); try lia.
    + rewrite IH by lia. reflexivity.
    + assert (off = 0) by lia. subst off. destruct (Z.ltb_spec 0 len).
      * replace (Z.to_nat len) with (S (Z.to_nat (len - 1))) by lia. cbn [repeat overwrite].
        rewrite IH by lia. cbn [splice_at]. destruct t; reflexivity.
      * assert (len = 0) by lia. subst. reflexivity.
Qed.

(* ---- overwrite operations: SET and WRITE *)
Definition ow (op : aop) : bool := match op with ASet _ _ _ | AWrite _ _ => true | _ => false end.
Definition ow_off (op : aop) : Z := match op with ASet _ o _ => o | AWrite o _ => o | _ => 0 end.
Definition ow_data (op : aop) : bytes :=
  match op with ASet v _ l => repeat (v mod 256) (Z.to_nat l) | AWrite _ d => d | _ => [] end.
Definition ow_valid (op : aop) : bool :=
  match op with ASet _ o l => (0 <=? o) && (0 <=? l) | AWrite o _ => 0 <=? o | _ => false end.

Lemma apply_ow : forall m op, ow op = true ->
  apply_op m op = if ow_valid op then splice_at m (ow_off op) (ow_data op) else None.
Proof.
  intros m op H. destruct op as [v o l|? ? ?|o d|?]; try discriminate; cbn [apply_op ow_valid ow_off ow_data].
  - destruct (Z.ltb_spec l 0); destruct (Z.ltb_spec o 0); destruct (Z.leb_spec 0 o); destruct (Z.leb_spec 0 l); try lia; cbn [orb andb]; try reflexivity.
    apply fill_is_splice; lia.
  - unfold splice. destruct (Z.ltb_spec o 0); destruct (Z.leb_spec 0 o); try lia; reflexivity.
Qed.

(* two files of equal length that differ at most inside the range written by w *)
Definition eqout (w : aop) (m1 m2 : bytes) : Prop :=
  length m1 = length m2 /\
  forall i, inr (ow_off w) (Z.of_nat (length (ow_data w))) i = false -> nth i m1 0 = nth i m2 0.

Lemma nth_eq_ext : forall (l1 l2 : bytes), length l1 = length l2 -> (forall i, nth i l1 0 = nth i l2 0) -> l1 = l2.
Proof.
  induction l1 as [|a l1 IH]; intros [|b l2] Hl Hn; try discriminate; [reflexivity|].
  f_equal; [exact (Hn 0%nat)|]. apply IH; [cbn in Hl; lia|]. intros i. exact (Hn (S i)).
Qed.

Lemma step_eqout : forall w a m1 m2 r1, ow a = true -> eqout w m1 m2 -> apply_op m1 a = Some r1 ->
  exists r2, apply_op m2 a = Some r2 /\ eqout w r1 r2.
Proof.
  intros w a m1 m2 r1 Ha [Hl Hn] H1. rewrite apply_ow in * by exact Ha.
  destruct (ow_valid a) eqn:Ev; [|discriminate].
  assert (Hoff : 0 <= ow_off a).
  { destruct a; try discriminate; cbn in *; [apply andb_prop in Ev; destruct Ev as [Ev _]|]; apply Z.leb_le in Ev; exact Ev. }
  destruct (splice_at m2 (ow_off a) (ow_data a)) as [r2|] eqn:E2.
  - exists r2. split; [reflexivity|].
    destruct (splice_at_spec _ _ _ _ Hoff H1) as [L1 N1]. destruct (splice_at_spec _ _ _ _ Hoff E2) as [L2 N2].
    split; [lia|]. intros i Hi. rewrite N1, N2. destruct (inr (ow_off a) _ i); [reflexivity|]. apply Hn. exact Hi.
  - apply splice_at_none in E2; [|exact Hoff].
    assert (splice_at m1 (ow_off a) (ow_data a) = None) by (apply splice_at_none; [exact Hoff|lia]). congruence.
Qed.

Lemma close_eqout : forall w m1 m2 r1, ow w = true -> eqout w m1 m2 -> apply_op m1 w = Some r1 -> apply_op m2 w = Some r1.
Proof.
  intros w m1 m2 r1 Hw He H1. destruct (step_eqout w w m1 m2 r1 Hw He H1) as [r2 [H2 [Hl Hn]]].
  rewrite H2. f_equal. symmetry. apply nth_eq_ext; [exact Hl|]. intros i.
  destruct (inr (ow_off w) (Z.of_nat (length (ow_data w))) i) eqn:Ei; [|apply Hn; exact Ei].
  rewrite apply_ow in * by exact Hw. destruct (ow_valid w) eqn:Ev; [|discriminate].
  assert (Hoff : 0 <= ow_off w).
  { destruct w; try discriminate; cbn in *; [apply andb_prop in Ev; destruct Ev as [Ev _]|]; apply Z.leb_le in Ev; exact Ev. }
  destruct (splice_at_spec _ _ _ _ Hoff H1) as [_ N1]. destruct (splice_at_spec _ _ _ _ Hoff H2) as [_ N2].
  rewrite N1, N2, Ei. reflexivity.
Qed.

Lemma apply_eqout : forall w m r, ow w = true -> apply_op m w = Some r -> eqout w r m.
Proof.
  intros w m r Hw H. rewrite apply_ow in H by exact Hw. destruct (ow_valid w) eqn:Ev; [|discriminate].
  assert (Hoff : 0 <= ow_off w).
  { destruct w; try discriminate; cbn in *; [apply andb_prop in Ev; destruct Ev as [Ev _]|]; apply Z.leb_le in Ev; exact Ev. }
  destruct (splice_at_spec _ _ _ _ Hoff H) as [L N]. split; [exact L|]. intros i Hi. rewrite N, Hi. reflexivity.
Qed.

Lemma apply_none_len : forall a m1 m2, ow a = true -> length m1 = length m2 -> apply_op m1 a = None -> apply_op m2 a = None.
Proof.
  intros a m1 m2 Ha Hl H. rewrite apply_ow in * by exact Ha. destruct (ow_valid a) eqn:Ev; [|reflexivity].
  assert (Hoff : 0 <= ow_off a).
  { destruct a; try discriminate; cbn in *; [apply andb_prop in Ev; destruct Ev as [Ev _]|]; apply Z.leb_le in Ev; exact Ev. }
  apply splice_at_none; [exact Hoff|]. apply splice_at_none in H; [|exact Hoff]. lia.
Qed.

(* a later complete redo absorbs an earlier application of any of its operations *)
Lemma absorb_gen : forall w ops m1 m2, ow w = true -> forallb ow ops = true -> In w ops -> eqout w m1 m2 ->
  apply_ops m1 ops = apply_ops m2 ops.
Proof.
  intros w ops. induction ops as [|a rest IH]; intros m1 m2 Hw Hall Hin He; [contradiction|].
  cbn [forallb] in Hall. apply andb_prop in Hall. destruct Hall as [Ha Hrest]. cbn [apply_ops].
  destruct Hin as [Heq|Hin].
  - subst a. destruct (apply_op m1 w) as [r1|] eqn:E1.
    + rewrite (close_eqout w m1 m2 r1 Hw He E1). reflexivity.
    + rewrite (apply_none_len w m1 m2 Hw (proj1 He) E1). reflexivity.
  - destruct (apply_op m1 a) as [r1|] eqn:E1.
    + destruct (step_eqout w a m1 m2 r1 Ha He E1) as [r2 [E2 He2]]. rewrite E2. apply IH; assumption.
    + rewrite (apply_none_len a m1 m2 Ha (proj1 He) E1). reflexivity.
Qed.

Lemma apply_ops_app : forall a b m, apply_ops m (a ++ b) = match apply_ops m a with Some m' => apply_ops m' b | None => None end.
Proof. induction a as [|x a IH]; intros b m; cbn [apply_ops app]; [reflexivity|]. destruct (apply_op m x); [apply IH|reflexivity]. Qed.

(* redo_idempotent: a complete redo over a file to which any prefix of the same operations was already
   applied gives the result of a redo over the original file *)
Theorem redo_idempotent : forall ops D (j : nat) Dj,
  forallb ow ops = true -> apply_ops D (firstn j ops) = Some Dj -> apply_ops Dj ops = apply_ops D ops.
Proof.
  intros ops D j. induction j as [|j IH]; intros Dj Hall Hj.
  - cbn in Hj. inversion Hj. reflexivity.
  - destruct (le_lt_dec (length ops) j) as [Hge|Hlt].
    + rewrite firstn_all2 in Hj by lia. apply IH; [exact Hall|]. rewrite firstn_all2 by lia. exact Hj.
    + destruct (nth_error ops j) as [w|] eqn:Ew; [|apply nth_error_None in Ew; lia].
      assert (Hsplit : firstn (S j) ops = firstn j ops ++ [w]).
      { clear -Ew. revert j Ew. induction ops as [|a ops IHo]; intros [|j] Ew; cbn in *; try discriminate.
        - inversion Ew. reflexivity.
        - rewrite (IHo j Ew). reflexivity. }
      rewrite Hsplit, apply_ops_app in Hj. destruct (apply_ops D (firstn j ops)) as [Dp|] eqn:Ep; [|discriminate].
      cbn [apply_ops] in Hj. destruct (apply_op Dp w) as [Dw|] eqn:Ea; [|discriminate]. inversion Hj; subst Dw.
      rewrite <- (IH Dp Hall eq_refl).
      assert (Hin : In w ops) by (eapply nth_error_In; eauto).
      assert (Hw : ow w = true) by (rewrite forallb_forall in Hall; apply Hall; exact Hin).
      apply (absorb_gen w); auto. apply apply_eqout; assumption.
Qed.

(* ---- recovery over a partially redone main file (crash inside a checkpoint's replay or inside recovery) *)
Theorem recover_after_partial_redo : forall spchk ccrc rs (n : nat) D m (j : nat) Dj,
  wf_log rs = true -> no_reset rs = true -> (ccrc = true -> crc_ok rs = true) ->
  (ccrc = false \/ spchk = true) -> (n <= length (encode rs))%nat ->
  forallb ow (ops_before rs 0 (last_sp spchk rs (Z.of_nat n))) = true ->
  state_at rs D (last_sp spchk rs (Z.of_nat n)) = Some m ->
  apply_ops D (firstn j (ops_before rs 0 (last_sp spchk rs (Z.of_nat n)))) = Some Dj ->
  recover_with spchk ccrc 1 0 (firstn n (encode rs)) Dj = (VOk, m, ops_before rs 0 (last_sp spchk rs (Z.of_nat n))).
Proof.
  intros spchk ccrc rs n D m j Dj Hwf Hnr Hcrc Hmode Hn How Hst Hj. unfold recover_with.
  rewrite replay_cut by assumption. rewrite (redo_idempotent _ D j Dj How Hj). unfold state_at in Hst. rewrite Hst. reflexivity.
Qed.

(* ---- effects of a replay of overwrite records = their application one by one *)
Lemma replay_effects_ow : forall ops cur, forallb ow ops = true -> replay_effects cur ops = map EMainStore ops.
Proof.
  induction ops as [|a ops IH]; intros cur H; [reflexivity|]. cbn [forallb] in H. apply andb_prop in H. destruct H as [Ha Hr].
  destruct a; try discriminate; cbn [replay_effects map]; rewrite IH by exact Hr; reflexivity.
Qed.

Lemma after_store_effects : forall ops log D (t : nat) Dt,
  apply_ops D (firstn t ops) = Some Dt -> after_effects log D (firstn t (map EMainStore ops)) = (log, Dt).
Proof.
  unfold after_effects. induction ops as [|a ops IH]; intros log D t Dt H.
  - rewrite firstn_nil in *. cbn in *. inversion H. reflexivity.
  - destruct t as [|t]; cbn [firstn map fold_left apply_effect] in *; [inversion H; reflexivity|].
    cbn [apply_ops] in H. destruct (apply_op D a) as [D1|] eqn:E; [|discriminate]. apply IH. exact H.
Qed.

(* ---- growth in mid-operation: the full statement is false of the faithful model.
   Operation 1 writes byte 0 and is synced.  Operation 2 writes byte 1, then needs a larger file (_onresize:
   RESIZE record + _checkpoint_exl(no_fixpoint): the log - including operation 2's first write - is applied to
   the main file and truncated), then writes byte 2, which stays in the process buffer.  A kill at that point
   recovers a file that holds operation 2's first write but not its second. *)
Definition gt_cfg : pcfg := mkC 4084 false.
Definition gt_s0 : pstate := mkP [] [] (repeat 0 4096%nat) 0 0 false.
Definition gt_op1 : list event := [VWrite 0 [1]].
Definition gt_op2 : list event := [VWrite 1 [2]; VResize 4096 8192; VWrite 2 [3]].
Definition gt_events : list event := gt_op1 ++ [VSavepoint 5 true] ++ gt_op2.
(* the states after 0, 1 and 2 operations (what the property allows) *)
Definition gt_state0 : bytes := repeat 0 4096%nat.
Definition gt_state1 : bytes := 1 :: repeat 0 4095%nat.
Definition gt_state2 : bytes := 1 :: 2 :: 3 :: repeat 0 8189%nat.

Theorem growth_tears_refuted :
  let (s, fx) := run gt_cfg gt_s0 gt_events in
  let (log, disk) := after_effects (p_log gt_s0) (p_disk gt_s0) fx in
  exists m, recover false 1 0 log disk = (VOk, m, []) /\
            m <> gt_state0 /\ m <> gt_state1 /\ m <> gt_state2 /\ nth 1 m 0 = 2 /\ nth 2 m 0 = 0.
Proof.
  vm_compute. eexists. split; [reflexivity|].
  repeat split; try reflexivity; intro H.
  - apply (f_equal (fun l => nth 1 l 0)) in H. vm_compute in H. discriminate.
  - apply (f_equal (fun l => nth 1 l 0)) in H. vm_compute in H. discriminate.
  - apply (f_equal (fun l => nth 2 l 0)) in H. vm_compute in H. discriminate.
Qed.

(* ---- crash inside recovery itself: every prefix of the recovery's own effects leaves files from which a new
   recovery reaches the same state *)
Lemma apply_ops_prefix_some : forall ops D m (i : nat), apply_ops D ops = Some m -> exists Di, apply_ops D (firstn i ops) = Some Di.
Proof.
  induction ops as [|a ops IH]; intros D m i H.
  - rewrite firstn_nil. exists D. reflexivity.
  - destruct i as [|i]; [exists D; reflexivity|]. cbn [firstn apply_ops] in *.
    destruct (apply_op D a) as [D1|]; [|discriminate]. eapply IH. exact H.
Qed.

Lemma recover_empty : forall spchk ccrc D, recover_with spchk ccrc 1 0 [] D = (VOk, D, []).
Proof. reflexivity. Qed.

Theorem crash_in_recovery : forall spchk ccrc rs (n : nat) D m (i : nat),
  wf_log rs = true -> no_reset rs = true -> (ccrc = true -> crc_ok rs = true) ->
  (ccrc = false \/ spchk = true) -> (n <= length (encode rs))%nat ->
  forallb ow (ops_before rs 0 (last_sp spchk rs (Z.of_nat n))) = true ->
  state_at rs D (last_sp spchk rs (Z.of_nat n)) = Some m ->
  let L := firstn n (encode rs) in
  let fx := match replay_ops_with spchk ccrc 1 0 L with
            | (VOk, ops) => replay_effects (lenZ D) ops ++ (if lenZ L =? 0 then [] else [EMsync; ELogTruncate; ELogFsync])
            | (_, ops) => replay_effects (lenZ D) ops end in
  let (log_i, disk_i) := after_effects L D (firstn i fx) in
  exists ops', recover_with spchk ccrc 1 0 log_i disk_i = (VOk, m, ops').
Proof.
  intros spchk ccrc rs n D m i Hwf Hnr Hcrc Hmode Hn How Hst L fx.
  set (ops := ops_before rs 0 (last_sp spchk rs (Z.of_nat n))) in *.
  assert (Hrep : replay_ops_with spchk ccrc 1 0 L = (VOk, ops)) by (apply replay_cut; assumption).
  unfold fx. rewrite Hrep. rewrite replay_effects_ow by exact How.
  unfold state_at in Hst. fold ops in Hst.
  destruct (le_lt_dec i (length ops)) as [Hle|Hgt].
  - (* inside the stores *)
    rewrite firstn_app. rewrite map_length. replace (i - length ops)%nat with 0%nat by lia. rewrite firstn_O, app_nil_r.
    destruct (apply_ops_prefix_some ops D m i Hst) as [Di HDi].
    rewrite (after_store_effects ops L D i Di HDi).
    exists ops. apply (recover_after_partial_redo spchk ccrc rs n D m i Di); assumption.
  - (* all stores done *)
    rewrite firstn_app. rewrite firstn_all2 by (rewrite map_length; lia). rewrite map_length.
    assert (Hall : after_effects L D (map EMainStore ops) = (L, m)).
    { pose proof (after_store_effects ops L D (length ops) m) as Hx. rewrite !firstn_all2 in Hx by (try rewrite map_length; lia). apply Hx. exact Hst. }
    unfold after_effects in *. rewrite fold_left_app. rewrite Hall.
    destruct (Z.eqb_spec (lenZ L) 0) as [E0|E0].
    + (* empty log: nothing else happens *)
      rewrite firstn_nil. cbn [fold_left]. exists ops.
      assert (Hm : apply_ops D (firstn (length ops) ops) = Some m) by (rewrite firstn_all; exact Hst).
      apply (recover_after_partial_redo spchk ccrc rs n D m (length ops) m); assumption.
    + destruct (i - length ops)%nat as [|[|k]] eqn:Ek; [lia| |].
      * (* after msync *)
        cbn [firstn fold_left apply_effect]. exists ops.
        apply (recover_after_partial_redo spchk ccrc rs n D m (length ops) m); try assumption.
        rewrite firstn_all. exact Hst.
      * (* after the truncation: the log is empty, the file is complete *)
        destruct k; cbn [firstn]; rewrite ?firstn_nil; cbn [fold_left apply_effect]; exists []; apply recover_empty.
Qed.

Lemma recovery_effects_eq : forall ccrc L D,
  recovery_effects ccrc L D =
  match replay_ops_with sp_checks ccrc 1 0 L with
  | (VOk, ops) => replay_effects (lenZ D) ops ++ (if lenZ L =? 0 then [] else [EMsync; ELogTruncate; ELogFsync])
  | (_, ops) => replay_effects (lenZ D) ops
  end.
Proof.
  intros ccrc L D. unfold recovery_effects, replay_ops.
  destruct (Z.eqb_spec (lenZ L) 0) as [E|E].
  - unfold replay_ops_with. unfold lenZ in E. rewrite E. reflexivity.
  - destruct (replay_ops_with sp_checks ccrc 1 0 L) as [[| |] ops]; try reflexivity; apply app_nil_r.
Qed.

(* the same, stated with Proto.recovery_effects for the scanner of the current tree *)
Theorem crash_in_recovery_current : forall ccrc rs (n : nat) D m (i : nat),
  wf_log rs = true -> no_reset rs = true -> (ccrc = true -> crc_ok rs = true) ->
  (ccrc = false \/ sp_checks = true) -> (n <= length (encode rs))%nat ->
  forallb ow (ops_before rs 0 (last_sp sp_checks rs (Z.of_nat n))) = true ->
  state_at rs D (last_sp sp_checks rs (Z.of_nat n)) = Some m ->
  let L := firstn n (encode rs) in
  let (log_i, disk_i) := after_effects L D (firstn i (recovery_effects ccrc L D)) in
  exists ops', recover ccrc 1 0 log_i disk_i = (VOk, m, ops').
Proof.
  intros ccrc rs n D m i H1 H2 H3 H4 H5 H6 H7 L. rewrite recovery_effects_eq.
  exact (crash_in_recovery sp_checks ccrc rs n D m i H1 H2 H3 H4 H5 H6 H7).
Qed.

(* a recovery that ends with rc = 0 leaves an empty log behind - also when it found no savepoint and applied
   nothing (otherwise the discarded records would be replayed by a later open, behind a later savepoint) *)
Theorem recovery_truncates_log : forall ccrc L D ops,
  L <> [] -> replay_ops ccrc 1 0 L = (VOk, ops) ->
  fst (after_effects L D (recovery_effects ccrc L D)) = [].
Proof.
  intros ccrc L D ops HL Hrep. unfold recovery_effects.
  destruct (Z.eqb_spec (lenZ L) 0) as [E|E].
  { unfold lenZ in E. destruct L; [congruence | cbn in E; lia]. }
  rewrite Hrep. unfold after_effects. rewrite fold_left_app.
  match goal with |- fst (fold_left _ _ ?x) = _ => destruct x as [l d] end. reflexivity.
Qed.

(* ---- the checkpoint must write its savepoint BEFORE it applies the log (closing checkpoint of iwkv_close,
   forced checkpoint, checkpoint thread): C04_recover_is_prefix_partial covers a kill between "log applied" and
   "log truncated" only because the records applied are exactly the records before the last savepoint.  Without
   the savepoint (no_fixpoint = true) the records logged after the last iwkv_sync are applied but not redone:
   op 1 writes byte 0 := 1 and is synced; op 2 rewrites byte 0 := 2; op 3 writes byte 1 := 3; then the checkpoint.
   Kill before the log truncation, recover:  with savepoint -> (2,3) = state after 3 operations;
   without -> (1,3): byte 0 from op 1, byte 1 from op 3 - no prefix state. *)
Definition cs_cfg : pcfg := mkC 4084 false.
Definition cs_s0 : pstate := mkP [] [] (repeat 0 4096%nat) 0 0 false.
Definition cs_events : list event := [VWrite 0 [1]; VSavepoint 5 true; VWrite 0 [2]; VWrite 1 [3]].
Definition cs_crash (no_fixpoint : bool) : verdict * Z * Z :=
  let (s1, fx1) := run cs_cfg cs_s0 cs_events in
  let (s2, fx2) := checkpoint cs_cfg s1 no_fixpoint 9 in
  (* every effect of the checkpoint except the log truncation and its fsync *)
  let (log, disk) := after_effects (p_log cs_s0) (p_disk cs_s0) (fx1 ++ firstn (length fx2 - 2) fx2) in
  let '(v, m, _) := recover false 1 0 log disk in (v, nth 0 m 0, nth 1 m 0).

Theorem apply_before_savepoint_refuted :
  cs_crash false = (VOk, 2, 3) /\ cs_crash true = (VOk, 1, 3).
Proof. vm_compute. split; reflexivity. Qed.

(* recovery does not depend on the options of the recovering process: two processes with any two configurations
   (log-buffer size, checksum checking) recover the same cut of a protocol-shaped log to the same verdict, the same
   main file and the same applied records.  [recover_open] does not read c_bufsz at all; the checksum option is
   covered by recover_crc_option_independent. *)
Theorem recover_open_config_independent : forall c1 c2 rs (n : nat) main,
  sp_checks = true -> wf_log rs = true -> no_reset rs = true -> crc_ok rs = true -> (n <= length (encode rs))%nat ->
  recover_open c1 (firstn n (encode rs)) main = recover_open c2 (firstn n (encode rs)) main.
Proof.
  intros c1 c2 rs n main Hsp Hwf Hnr Hcrc Hn. unfold recover_open, recover.
  pose proof (recover_crc_option_independent sp_checks rs n main Hwf Hnr Hcrc Hsp Hn) as H.
  destruct (c_ccrc c1), (c_ccrc c2); congruence.
Qed.

(* ... and the recovered state is the savepoint state of C05_replay_cut_is_savepoint_state whatever these options are *)
Theorem recover_open_is_savepoint_state : forall c rs (n : nat) main m,
  sp_checks = true -> wf_log rs = true -> no_reset rs = true -> crc_ok rs = true -> (n <= length (encode rs))%nat ->
  state_at rs main (last_sp sp_checks rs (Z.of_nat n)) = Some m ->
  recover_open c (firstn n (encode rs)) main = (VOk, m, ops_before rs 0 (last_sp sp_checks rs (Z.of_nat n))).
Proof.
  intros c rs n main m Hsp Hwf Hnr Hcrc Hn Hst. unfold recover_open, recover.
  apply replay_cut_is_savepoint_state; auto.
Qed.
