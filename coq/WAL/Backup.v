(* Online backup image (iwal_online_backup / _iwkv_check_online_backup, src/kv/iwal.c, iwkv.c).
   The image is: the main file as copied in stage MAIN_COPY, then the log as copied in stages WAL_COPY1/2 (it
   ends with the savepoint written under the exclusive lock in stage 5), then the length of the main part
   (u64) and IWKV_BACKUP_MAGIC (u32).  Opening it splits the two parts again and replays the log over the main
   part in recover_mode 2 (reset marks are ignored: the log part starts at the stage-2 truncation). *)
Require Import ZArith List Bool Lia.
Require Import IW.Lib.CInt IW.Gen.Facts IW.WAL.Rec IW.WAL.Scan IW.WAL.Replay IW.WAL.Proto.
Import ListNotations.
Local Open Scope Z_scope.

Definition lenB (l : bytes) : Z := Z.of_nat (length l).

(* what iwal_online_backup writes, given what its copy loops read *)
Definition mk_image (main wal : bytes) : bytes :=
  main ++ wal ++ le_enc 8 (lenB main) ++ le_enc 4 IWKV_BACKUP_MAGIC.

(* _iwkv_check_online_backup: None = not an online-backup image (opened as an ordinary file) *)
Definition split_image (img : bytes) : option (bytes * bytes) :=
  let fsz := lenB img in
  if fsz <? WAL_PAGE_SIZE then None else
  if negb (rd 4 0 img =? WAL_IWFSM_MAGICK) then None else
  if negb (rd 4 IWFSM_CUSTOM_HDR_DATA_OFFSET img =? IWKV_MAGIC) then None else
  if negb (rd 4 (fsz - 4) img =? IWKV_BACKUP_MAGIC) then None else
  let pos := fsz - 12 in
  let waloff := rd 8 pos img in
  if (negb (waloff =? pos) && (waloff >? pos - sizeof_WBSEP)) || negb (Z.land waloff (WAL_PAGE_SIZE - 1) =? 0) then None else
  if negb (waloff =? pos) && negb (nth (Z.to_nat waloff) img 0 =? WOP_SEP) then None else
  Some (firstn (Z.to_nat waloff) img, firstn (Z.to_nat (pos - waloff)) (skipn (Z.to_nat waloff) img)).

(* iwkv_open of an image: unpack, then _recover_wl(recover_backup = true) *)
Definition open_image (ccrc : bool) (img : bytes) : verdict * bytes * list aop :=
  match split_image img with
  | Some (main, wal) => recover ccrc 2 0 wal main
  | None => (VOk, img, [])
  end.

(* ---- the five stages of iwal_online_backup over Proto's state, with writer activity at the two places where the
   backup thread holds no lock: evM while the main file is copied (stage MAIN_COPY: _checkpoint_exl is a no-op,
   the main file on disk does not change - file growth there is the known finding and is excluded), evA after the
   log buffer was flushed for WAL_COPY1 and before the exclusive lock of WAL_COPY2 (a checkpoint there applies the
   log to the live main file, keeps the log and appends SEP+RESET: Proto.rollforward_live).
   Result: the image, and the live state after the call (stage 0 again). *)
Definition set_stage (s : pstate) (st : Z) : pstate :=
  mkP (p_buf s) (p_log s) (p_disk s) (p_rfoff s) st (p_fatal s).

Definition backup_run (c : pcfg) (s0 : pstate) (ts2 ts5 : Z) (evM evA : list event) : bytes * pstate :=
  let (s1, _) := checkpoint c (set_stage s0 BKP_WAL_CLEANUP) false ts2 in   (* stage 2: checkpoint + truncation *)
  let main := p_disk s1 in                                                   (* stage 3: pread of the main file *)
  let (s2, _) := run c (set_stage s1 BKP_MAIN_COPY) evM in
  let (s3, _) := flush_wl c (set_stage s2 BKP_WAL_COPY1) false in            (* stage 4: flush, copy the log *)
  let (s4, _) := run c s3 evA in
  let (s5, _) := savepoint c (set_stage s4 BKP_WAL_COPY2) ts5 true in        (* stage 5: savepoint, copy the rest *)
  (mk_image main (p_log s5), set_stage s5 0).

(* entry of iwal_online_backup: under the wal mutex, `if (wal->bkp_stage) return IWKV_ERROR_BACKUP_IN_PROGRESS;`
   else bkp_stage = BKP_STARTED.  None = refused: nothing is touched (neither the state nor the target file). *)
Definition backup_start (s : pstate) : option pstate :=
  if p_stage s =? 0 then Some (set_stage s BKP_STARTED) else None.

(* error exits of iwal_online_backup: a failing read/write in stage k (3 = main copy, 4 = first log copy, 5 = second
   log copy / trailer) leaves through `finish:` (stages 3, 4: no lock held) or through `unlock:` (stage 5: the
   exclusive lock and the wal mutex are released first); both set bkp_stage = 0.  held = the locks the call still
   holds when it returns (must be none).  Work done by the stages before k stays done. *)
Definition backup_run_fail (c : pcfg) (s0 : pstate) (ts2 ts5 : Z) (evM evA : list event) (k : Z) : pstate * bool :=
  let (s1, _) := checkpoint c (set_stage s0 BKP_WAL_CLEANUP) false ts2 in
  let (s2, _) := run c (set_stage s1 BKP_MAIN_COPY) evM in
  if k <=? BKP_MAIN_COPY then (set_stage s2 0, false) else
  let (s3, _) := flush_wl c (set_stage s2 BKP_WAL_COPY1) false in
  let (s4, _) := run c s3 evA in
  if k <=? BKP_WAL_COPY1 then (set_stage s4 0, false) else
  let (s5, _) := savepoint c (set_stage s4 BKP_WAL_COPY2) ts5 true in
  (* held exclusively here: the error exit of this stage is `unlock:` - releases, then falls into `finish:` *)
  (set_stage s5 0, false).

(* the same call when stage 5 does NOT exclude the writers (the seeded change of round 4: BKP_WAL_COPY2 under the log
   mutex instead of the store's exclusive lock): an operation can be in flight across the closing savepoint.
   evA then ends in the middle of that operation and ev5 = the listener calls it makes after the savepoint, while
   the last loop copies whatever reaches the log file.  With ev5 = [] and evA ending at an operation boundary this is
   backup_run.  That the real call makes every write to the target from the closing savepoint on under the
   exclusive lock is observed by harness/h_bkpload.c (lock skeleton, `quiet`). *)
Definition backup_run_w5 (c : pcfg) (s0 : pstate) (ts2 ts5 : Z) (evM evA ev5 : list event) : bytes * pstate :=
  let (s1, _) := checkpoint c (set_stage s0 BKP_WAL_CLEANUP) false ts2 in
  let main := p_disk s1 in
  let (s2, _) := run c (set_stage s1 BKP_MAIN_COPY) evM in
  let (s3, _) := flush_wl c (set_stage s2 BKP_WAL_COPY1) false in
  let (s4, _) := run c s3 evA in
  let (s5, _) := savepoint c (set_stage s4 BKP_WAL_COPY2) ts5 true in
  let (s6, _) := run c s5 ev5 in
  (mk_image main (p_log s6), set_stage s6 0).
