(* Online backup image (iwal_online_backup / _iwkv_check_online_backup, src/kv/iwal.c, iwkv.c).
   The image is: the main file as copied in stage MAIN_COPY, then the log as copied in stages WAL_COPY1/2 (it
   ends with the savepoint written under the exclusive lock in stage 5), then the length of the main part
   (u64) and IWKV_BACKUP_MAGIC (u32).  Opening it splits the two parts again and replays the log over the main
   part in recover_mode 2 (reset marks are ignored: the log part starts at the stage-2 truncation). *)
Require Import ZArith List Bool Lia.
Require Import IW.Lib.CInt IW.Gen.Facts IW.WAL.Rec IW.WAL.Scan IW.WAL.Replay.
Import ListNotations.
Local Open Scope Z_scope.

Definition lenB (l : bytes) : Z := Z.of_nat (length l).

(* what iwal_online_backup writes, given what its copy loops read *)
Definition mk_image (main wal : bytes) : bytes :=
  main ++ wal ++ le_enc 8 (lenB main) ++ le_enc 4 IWKV_BACKUP_MAGIC.

(* _iwkv_check_online_backup: None = not an online-backup image (opened as an ordinary file) *)
Definition split_image (img : bytes) : option (bytes * bytes) :=
  let fsz := lenB img in
  if fsz <? WAL_PAGE_SIZE then None else
  if negb (rd 4 0 img =? WAL_IWFSM_MAGICK) then None else
  if negb (rd 4 IWFSM_CUSTOM_HDR_DATA_OFFSET img =? IWKV_MAGIC) then None else
  if negb (rd 4 (fsz - 4) img =? IWKV_BACKUP_MAGIC) then None else
  let pos := fsz - 12 in
  let waloff := rd 8 pos img in
  if (negb (waloff =? pos) && (waloff >? pos - sizeof_WBSEP)) || negb (Z.land waloff (WAL_PAGE_SIZE - 1) =? 0) then None else
  if negb (waloff =? pos) && negb (nth (Z.to_nat waloff) img 0 =? WOP_SEP) then None else
  Some (firstn (Z.to_nat waloff) img, firstn (Z.to_nat (pos - waloff)) (skipn (Z.to_nat waloff) img)).

(* iwkv_open of an image: unpack, then _recover_wl(recover_backup = true) *)
Definition open_image (ccrc : bool) (img : bytes) : verdict * bytes * list aop :=
  match split_image img with
  | Some (main, wal) => recover ccrc 2 0 wal main
  | None => (VOk, img, [])
  end.
