(* C04, recover_is_prefix over Proto.run: for every history of operations, syncs and checkpoints without file growth
   (and without COPY records) inside an operation, a kill between any two effects of the run is recovered by the next
   open to the state after a prefix of the items - the prefix ending at the last completed sync/checkpoint, or,
   when the kill falls inside a sync/checkpoint whose savepoint record already reached the file, the prefix ending
   with that item.
   Structure: an invariant over Proto's state (einv: the log is a list of good segments, disk + log + buffer hold
   the current abstract state, disk + log up to its last savepoint hold the state at the last sync), one lemma per
   kind of event (listener call, savepoint, checkpoint) giving the new invariant and the crash points inside the
   event, and the induction over the history. *)
Require Import ZArith List Bool Lia.
Require Import IW.Lib.CInt IW.Gen.Facts IW.WAL.Rec IW.WAL.Rec_proofs IW.WAL.Scan IW.WAL.Scan_proofs
  IW.WAL.Replay IW.WAL.Replay_proofs IW.WAL.Proto IW.WAL.Proto_proofs IW.WAL.Segs_proofs IW.WAL.Hist.
Import ListNotations.
Local Open Scope Z_scope.

Definition buf_good (c : pcfg) (B : list rec) : Prop :=
  forallb rec_good B = true /\ nosp B = true /\ size B <= c_bufsz c.

Record einv (c : pcfg) (s : pstate) (gs : list seg) (B : list rec) (Dcur Dfloor : bytes) : Prop := mkEinv {
  ei_rep : Rep s gs B;
  ei_rf : p_rfoff s = 0;
  ei_st : p_stage s = 0 \/ p_stage s = BKP_WAL_CLEANUP;
  ei_gs : forallb seg_good gs = true;
  ei_B : buf_good c B;
  ei_nr : no_reset (segs_recs gs ++ B) = true;
  ei_ow : forallb ow (bops (segs_recs gs ++ B)) = true;
  ei_cur : apply_ops (p_disk s) (bops (segs_recs gs ++ B)) = Some Dcur;
  ei_floor : state_at (segs_recs gs) (p_disk s) (last_full (segs_recs gs) 0 0) = Some Dfloor }.

(* every crash point inside the effect list es issued from state s is recovered to a state in P *)
Definition crash_ok (ccrc : bool) (s : pstate) (es : list effect) (P : bytes -> Prop) : Prop :=
  forall j, exists M ops',
    (let (log, disk) := after_effects (p_log s) (p_disk s) (firstn j es) in recover ccrc 1 0 log disk) = (VOk, M, ops') /\ P M.

Lemma appended_firstn_le : forall es j, exists n, (n <= length (appended es))%nat /\ appended (firstn j es) = firstn n (appended es).
Proof.
  induction es as [|e es IH]; intros j; [exists 0%nat; rewrite firstn_nil; split; [cbn; lia | reflexivity]|].
  destruct j as [|j]; [exists 0%nat; split; [lia | reflexivity]|]. destruct (IH j) as [n [Hl Hn]].
  cbn [firstn]. set (eb := match e with ELogAppend bs => bs | _ => [] end).
  change (appended (e :: firstn j es)) with (eb ++ appended (firstn j es)).
  change (appended (e :: es)) with (eb ++ appended es).
  exists (length eb + n)%nat. rewrite firstn_app_2, Hn, app_length. split; [lia | reflexivity].
Qed.

(* crash points of a list of log appends / fsyncs: the surviving log is a cut of the final log, not shorter than
   the log before *)
Lemma crash_append_only : forall ccrc s es R' (P : bytes -> Prop),
  sp_checks = true -> log_only es = true -> p_log s ++ appended es = encode R' ->
  wf_log R' = true -> crc_ok R' = true -> no_reset R' = true ->
  (forall n : nat, lenZ (p_log s) <= Z.of_nat n <= size R' ->
     exists M, state_at R' (p_disk s) (last_sp sp_checks R' (Z.of_nat n)) = Some M /\ P M) ->
  crash_ok ccrc s es P.
Proof.
  intros ccrc s es R' P Hsp Hlo Hlog Hwf Hcrc Hnr Hst j.
  rewrite after_log_only by (apply log_only_firstn; exact Hlo).
  destruct (appended_firstn_le es j) as [n0 [Hn0 Hap]]. rewrite Hap.
  rewrite <- firstn_app_2, Hlog.
  set (n := (length (p_log s) + n0)%nat).
  assert (Hn : (n <= length (encode R'))%nat) by (rewrite <- Hlog, app_length; unfold n; lia).
  destruct (Hst n) as [M [HM HP]].
  { unfold lenZ, n. pose proof (size_encode R'). lia. }
  exists M, (ops_before R' 0 (last_sp sp_checks R' (Z.of_nat n))). split; [|exact HP].
  apply (replay_cut_is_savepoint_state sp_checks ccrc R' n (p_disk s) M Hwf Hnr (fun _ => Hcrc) (or_intror Hsp) Hn HM).
Qed.

Lemma coherent_log_only : forall s s' es, log_only es = true -> p_log s' = p_log s ++ appended es -> p_disk s' = p_disk s ->
  after_effects (p_log s) (p_disk s) es = (p_log s', p_disk s').
Proof. intros s s' es H1 H2 H3. rewrite after_log_only by exact H1. rewrite H2, H3. reflexivity. Qed.

Lemma forallb_seg_app : forall a b, forallb seg_good (a ++ b) = forallb seg_good a && forallb seg_good b.
Proof. intros. apply forallb_app. Qed.

(* ---- new records without a savepoint (listener calls) *)
Lemma extend_nosp : forall c ccrc s s' es gs B gs' B' Dcur Dfloor Dcur' opse,
  sp_checks = true ->
  einv c s gs B Dcur Dfloor -> Rep s' (gs ++ gs') B' -> same_rest s s' -> log_only es = true ->
  p_log s' = p_log s ++ appended es ->
  forallb seg_good gs' = true -> buf_good c B' -> nosp (segs_recs gs') = true ->
  no_reset (segs_recs gs' ++ B') = true ->
  bops (segs_recs gs' ++ B') = bops B ++ opse -> forallb ow opse = true -> apply_ops Dcur opse = Some Dcur' ->
  einv c s' (gs ++ gs') B' Dcur' Dfloor /\ crash_ok ccrc s es (eq Dfloor) /\
  after_effects (p_log s) (p_disk s) es = (p_log s', p_disk s').
Proof.
  intros c ccrc s s' es gs B gs' B' Dcur Dfloor Dcur' opse Hsp I HR [Sd [Sr [Ss Sf]]] Hlo Hlog Hg HB' Hnsp Hnr Hops How Hap.
  destruct I as [IR Irf Ist Igs IB Inr Iow Icur Ifl].
  set (R := segs_recs gs) in *. set (X := segs_recs gs') in *.
  assert (HRX : segs_recs (gs ++ gs') = R ++ X) by apply segs_recs_app.
  assert (Hq : 0 <= last_full R 0 0 <= size R).
  { pose proof (last_full_bound R 0 0 ltac:(lia)). pose proof (size_nonneg R). lia. }
  rewrite no_reset_app in Inr. apply andb_prop in Inr. destruct Inr as [InrR InrB].
  rewrite bops_app in Iow, Icur. rewrite forallb_app in Iow. apply andb_prop in Iow. destruct Iow as [IowR IowB].
  assert (Hfl' : state_at (R ++ X) (p_disk s) (last_full R 0 0) = Some Dfloor).
  { unfold state_at in *. rewrite ops_before_app_le by lia. exact Ifl. }
  split; [|split].
  - constructor.
    + exact HR.
    + congruence.
    + rewrite Ss. exact Ist.
    + rewrite forallb_seg_app, Igs, Hg. reflexivity.
    + exact HB'.
    + rewrite HRX, <- app_assoc, no_reset_app, InrR. exact Hnr.
    + rewrite HRX, <- app_assoc, bops_app, Hops, !forallb_app, IowR, IowB, How. reflexivity.
    + rewrite Sd, HRX, <- app_assoc, bops_app, Hops, app_assoc, apply_ops_app, Icur. exact Hap.
    + rewrite Sd, HRX, last_full_app, Z.add_0_l. fold X. rewrite last_full_nosp by exact Hnsp. exact Hfl'.
  - destruct (segs_wf_log (gs ++ gs')) as [Hwf Hcrc]; [rewrite forallb_seg_app, Igs, Hg; reflexivity|].
    apply (crash_append_only ccrc s es (segs_recs (gs ++ gs')) (eq Dfloor) Hsp Hlo); auto.
    + rewrite <- Hlog. apply HR.
    + rewrite HRX, no_reset_app, InrR. rewrite no_reset_app in Hnr. apply andb_prop in Hnr. tauto.
    + intros n Hn. exists Dfloor. split; [|reflexivity]. rewrite HRX.
      destruct IR as [IL _]. rewrite IL, lenZ_encode in Hn. fold R in Hn.
      unfold last_sp. rewrite last_sp_from_app, Z.add_0_l. rewrite (last_sp_from_nosp sp_checks X) by exact Hnsp.
      rewrite last_sp_from_full by lia. exact Hfl'.
  - apply coherent_log_only; assumption.
Qed.

(* ---- new records ending with a savepoint (iwkv_sync, checkpoint) *)
Lemma extend_sp : forall c ccrc s s' es gs B gs' X1 ts Dcur Dfloor,
  sp_checks = true ->
  einv c s gs B Dcur Dfloor -> Rep s' (gs ++ gs') [] -> same_rest s s' -> log_only es = true ->
  p_log s' = p_log s ++ appended es ->
  forallb seg_good gs' = true -> segs_recs gs' = X1 ++ [RSavepoint ts] -> nosp X1 = true -> no_reset X1 = true ->
  bops X1 = bops B -> 0 <= c_bufsz c ->
  einv c s' (gs ++ gs') [] Dcur Dcur /\ crash_ok ccrc s es (fun M => M = Dfloor \/ M = Dcur) /\
  after_effects (p_log s) (p_disk s) es = (p_log s', p_disk s') /\
  last_full (segs_recs (gs ++ gs')) 0 0 = size (segs_recs gs ++ X1).
Proof.
  intros c ccrc s s' es gs B gs' X1 ts Dcur Dfloor Hsp I HR [Sd [Sr [Ss Sf]]] Hlo Hlog Hg HX Hnsp HnrX Hops Hbz.
  destruct I as [IR Irf Ist Igs IB Inr Iow Icur Ifl].
  set (R := segs_recs gs) in *.
  assert (HRX : segs_recs (gs ++ gs') = (R ++ X1) ++ [RSavepoint ts]) by (rewrite segs_recs_app, HX, app_assoc; reflexivity).
  assert (Hq : 0 <= last_full R 0 0 <= size R).
  { pose proof (last_full_bound R 0 0 ltac:(lia)). pose proof (size_nonneg R). lia. }
  rewrite no_reset_app in Inr. apply andb_prop in Inr. destruct Inr as [InrR InrB].
  rewrite bops_app in Iow, Icur. rewrite forallb_app in Iow. apply andb_prop in Iow. destruct Iow as [IowR IowB].
  set (qn := size (R ++ X1)).
  assert (Hsz : size ((R ++ X1) ++ [RSavepoint ts]) = qn + sizeof_WBSAVEPOINT).
  { rewrite size_app. cbn [size rec_size]. fold qn. ring. }
  assert (HqnR : size R <= qn) by (unfold qn; rewrite size_app; pose proof (size_nonneg X1); lia).
  assert (Hflo : state_at ((R ++ X1) ++ [RSavepoint ts]) (p_disk s) (last_full R 0 0) = Some Dfloor).
  { unfold state_at in *. rewrite <- app_assoc. rewrite ops_before_app_le by lia. exact Ifl. }
  assert (Hcur : state_at ((R ++ X1) ++ [RSavepoint ts]) (p_disk s) qn = Some Dcur).
  { unfold state_at, qn. change (size (R ++ X1)) with (0 + size (R ++ X1)). rewrite ops_before_exact.
    rewrite bops_app, Hops. exact Icur. }
  assert (Hlf : last_full ((R ++ X1) ++ [RSavepoint ts]) 0 0 = qn).
  { rewrite last_full_app. cbn [last_full is_sp]. reflexivity. }
  split; [|split; [|split]].
  - constructor.
    + exact HR.
    + congruence.
    + rewrite Ss. exact Ist.
    + rewrite forallb_seg_app, Igs, Hg. reflexivity.
    + split; [reflexivity|]. split; [reflexivity|]. cbn [size]. exact Hbz.
    + rewrite app_nil_r, HRX, !no_reset_app, InrR, HnrX. reflexivity.
    + rewrite app_nil_r, HRX, !bops_app, Hops, !forallb_app, IowR, IowB. reflexivity.
    + rewrite Sd, app_nil_r, HRX, !bops_app, Hops. cbn [bops flat_map op_of]. rewrite app_nil_r. exact Icur.
    + rewrite Sd, HRX, Hlf. exact Hcur.
  - destruct (segs_wf_log (gs ++ gs')) as [Hwf Hcrc]; [rewrite forallb_seg_app, Igs, Hg; reflexivity|].
    apply (crash_append_only ccrc s es (segs_recs (gs ++ gs')) _ Hsp Hlo); auto.
    + rewrite <- Hlog. apply HR.
    + rewrite HRX, !no_reset_app, InrR, HnrX. reflexivity.
    + intros n Hn. rewrite HRX. destruct IR as [IL _]. rewrite IL, lenZ_encode in Hn. fold R in Hn.
      unfold last_sp. rewrite last_sp_from_app, Z.add_0_l. fold qn.
      rewrite last_sp_from_app, Z.add_0_l. rewrite (last_sp_from_nosp sp_checks X1) by exact Hnsp.
      rewrite (last_sp_from_full sp_checks R) by lia.
      cbn [last_sp_from is_sp andb]. destruct (qn <? Z.of_nat n).
      * destruct (sp_visible sp_checks qn (Z.of_nat n)); [exists Dcur | exists Dfloor]; split; auto.
      * exists Dfloor. split; auto.
  - apply coherent_log_only; assumption.
  - rewrite HRX. exact Hlf.
Qed.

(* ---- one record through _write_wl *)
Lemma segs_recs_one : forall g, segs_recs [g] = RSep (g_crc g) (g_len g) :: g_body g.
Proof. intros. unfold segs_recs. cbn [flat_map]. rewrite app_nil_r. reflexivity. Qed.

Lemma cfg_ok_range : forall c, cfg_ok c = true -> 0 <= c_bufsz c < 4294967296 - 28.
Proof. intros c H. unfold cfg_ok in H. apply andb_prop in H. destruct H as [H1 H2]. apply Z.leb_le in H1. apply Z.ltb_lt in H2. lia. Qed.

Lemma rec_good_app1 : forall B r, forallb rec_good B = true -> rec_good r = true -> forallb rec_good (B ++ [r]) = true.
Proof. intros. rewrite forallb_app. cbn [forallb]. rewrite H, H0. reflexivity. Qed.

(* the part of write_sim's answer that does not depend on the record: what the first test of _write_wl leaves *)
Lemma first_flush_facts : forall c B gs1 B1, cfg_ok c = true -> buf_good c B -> no_reset B = true ->
  ((gs1 = [] /\ B1 = B) \/ (B <> [] /\ gs1 = [mk c B (size B)] /\ B1 = [])) ->
  forallb seg_good gs1 = true /\ nosp (segs_recs gs1) = true /\ no_reset (segs_recs gs1) = true /\
  bops (segs_recs gs1) ++ bops B1 = bops B /\ buf_good c B1 /\ no_reset B1 = true.
Proof.
  intros c B gs1 B1 Hc [HB1 [HB2 HB3]] Hnr Hcase. pose proof (cfg_ok_range c Hc) as Hr. pose proof (size_nonneg B).
  destruct Hcase as [[-> ->]|[Hne [-> ->]]].
  - repeat split; auto.
  - rewrite segs_recs_one. cbn [forallb]. rewrite mk_good; auto; try lia; [|apply body_shape_nosp; exact HB2].
    unfold mk. cbn [g_crc g_len g_body].
    split; [reflexivity|].
    split. { cbn [nosp forallb is_sp negb andb]. exact HB2. }
    split. { cbn [no_reset forallb is_reset negb andb]. exact Hnr. }
    split. { cbn [bops flat_map op_of app]. rewrite app_nil_r. reflexivity. }
    split; [|reflexivity]. split; [reflexivity|]. split; [reflexivity|]. cbn [size]. lia.
Qed.

Lemma write_step : forall c ccrc s r h d s' es gs B Dcur Dfloor Dcur',
  sp_checks = true -> cfg_ok c = true -> einv c s gs B Dcur Dfloor ->
  enc_rec r = h ++ d -> h <> [] -> lenZ h <= 28 -> rec_good r = true -> is_sp r = false -> is_reset r = false ->
  forallb ow (op_of r) = true -> apply_ops Dcur (op_of r) = Some Dcur' -> write_wl c s h d = (s', es) ->
  exists gs2 B2, einv c s' gs2 B2 Dcur' Dfloor /\ crash_ok ccrc s es (eq Dfloor) /\
    after_effects (p_log s) (p_disk s) es = (p_log s', p_disk s').
Proof.
  intros c ccrc s r h d s' es gs B Dcur Dfloor Dcur' Hsp Hc I Henc Hh Hh28 Hrg Hnsp Hnrs How Hap Hw.
  pose proof (cfg_ok_range c Hc) as Hr.
  destruct (write_sim c s gs B r h d s' es (ei_rep _ _ _ _ _ _ I) Henc Hh Hw) as [gs1 [B1 [gs' [B' [C1 [C2 [R' [SR [LO PL]]]]]]]]].
  pose proof (ei_B _ _ _ _ _ _ I) as IB. pose proof (ei_nr _ _ _ _ _ _ I) as Inr.
  rewrite no_reset_app in Inr. apply andb_prop in Inr. destruct Inr as [_ InrB].
  destruct (first_flush_facts c B gs1 B1 Hc IB InrB C1) as [F1 [F2 [F3 [F4 [[F5 [F6 F7]] F8]]]]].
  assert (Hrs : rec_size r = lenZ h + lenZ d).
  { rewrite <- enc_rec_length, Henc. unfold lenZ. rewrite app_length. lia. }
  assert (Hd0 : 0 <= lenZ d) by (unfold lenZ; lia). assert (Hh0 : 0 <= lenZ h) by (unfold lenZ; lia).
  pose proof (size_nonneg B1) as HB1n.
  assert (Hnspr : nosp (B1 ++ [r]) = true) by (rewrite nosp_app, F6; cbn [nosp forallb]; rewrite Hnsp; reflexivity).
  assert (Hnrr : no_reset (B1 ++ [r]) = true) by (rewrite no_reset_app, F8; cbn [no_reset forallb]; rewrite Hnrs; reflexivity).
  exists (gs ++ gs'), B'.
  destruct C2 as [[-> [-> Hfit]]|[-> ->]].
  - apply (extend_nosp c ccrc s s' es gs B gs1 (B1 ++ [r]) Dcur Dfloor Dcur' (op_of r)); auto.
    + split; [apply rec_good_app1; assumption|]. split; [exact Hnspr | exact Hfit].
    + rewrite no_reset_app, F3. exact Hnrr.
    + rewrite !bops_app. cbn [bops flat_map]. rewrite app_nil_r, app_assoc, F4. reflexivity.
  - apply (extend_nosp c ccrc s s' es gs B _ [] Dcur Dfloor Dcur' (op_of r)); auto.
    + rewrite forallb_app, F1. cbn [forallb]. rewrite andb_true_r. apply mk_good.
      * apply rec_good_app1; assumption.
      * rewrite size_app. cbn [size]. lia.
      * lia.
      * apply body_shape_nosp. exact Hnspr.
    + split; [reflexivity|]. split; [reflexivity|]. cbn [size]. lia.
    + rewrite segs_recs_app, segs_recs_one, nosp_app, F2. unfold mk. cbn [g_crc g_len g_body nosp forallb is_sp negb andb]. exact Hnspr.
    + rewrite app_nil_r, segs_recs_app, segs_recs_one, no_reset_app, F3. unfold mk.
      cbn [g_crc g_len g_body no_reset forallb is_reset negb andb]. exact Hnrr.
    + rewrite app_nil_r, segs_recs_app, segs_recs_one, !bops_app. unfold mk. cbn [g_crc g_len g_body].
      change (bops (RSep ?a ?b :: ?t)) with (bops t). rewrite bops_app. cbn [bops flat_map]. rewrite app_nil_r, app_assoc, F4. reflexivity.
Qed.

(* ---- a listener call *)
Lemma write_hdr_split : forall crc off data,
  enc_rec (RWrite crc off data) = write_hdr crc off (lenZ data) ++ data.
Proof. intros. cbn [enc_rec]. unfold write_hdr, lenZ. rewrite <- !app_assoc. reflexivity. Qed.

Lemma listener_step : forall c ccrc s e s' es gs B Dcur Dfloor Dcur',
  sp_checks = true -> cfg_ok c = true -> einv c s gs B Dcur Dfloor ->
  is_listener e = true -> is_growth e = false -> is_copy e = false -> ev_range e = true ->
  apply_ops Dcur (ev_ops e) = Some Dcur' -> step c s e = (s', es) ->
  exists gs2 B2, einv c s' gs2 B2 Dcur' Dfloor /\ crash_ok ccrc s es (eq Dfloor) /\
    after_effects (p_log s) (p_disk s) es = (p_log s', p_disk s').
Proof.
  intros c ccrc s e s' es gs B Dcur Dfloor Dcur' Hsp Hc I Hl Hg Hcp Hrg Hap Hst.
  destruct e as [off data|off val len|off len noff|os ns| |ts sy|ts]; try discriminate; cbn [step] in Hst.
  - (* _onwrite *)
    cbn [ev_range] in Hrg. apply andb_prop in Hrg. destruct Hrg as [Hrg R3]. apply andb_prop in Hrg. destruct Hrg as [R1 R2].
    set (crc := if c_ccrc c then crc32 data 0 else 0) in *.
    assert (E2 : write_hdr crc off (lenZ data) <> []) by discriminate.
    assert (E3 : lenZ (write_hdr crc off (lenZ data)) <= 28).
    { unfold write_hdr, lenZ. rewrite !app_length, !le_enc_length. cbn. lia. }
    assert (E4 : rec_good (RWrite crc off data) = true).
    { unfold rec_good. cbn [rec_range is_sep negb wcrc1]. unfold lenZ in R2. rewrite R1, R2. fold byte. rewrite R3.
      unfold crc. destruct (c_ccrc c); [rewrite crc32_u32 by lia; rewrite Z.eqb_refl, orb_true_r | ]; reflexivity. }
    exact (write_step c ccrc s (RWrite crc off data) _ data s' es gs B Dcur Dfloor Dcur' Hsp Hc I
             (write_hdr_split crc off data) E2 E3 E4 eq_refl eq_refl eq_refl Hap Hst).
  - (* _onset *)
    cbn [ev_range] in Hrg. apply andb_prop in Hrg. destruct Hrg as [Hrg R3]. apply andb_prop in Hrg. destruct Hrg as [R1 R2].
    assert (E1 : enc_rec (RSet val off len) = enc_rec (RSet val off len) ++ []) by (rewrite app_nil_r; reflexivity).
    assert (E2 : enc_rec (RSet val off len) <> []) by discriminate.
    assert (E3 : lenZ (enc_rec (RSet val off len)) <= 28) by (cbn; lia).
    assert (E4 : rec_good (RSet val off len) = true).
    { unfold rec_good. cbn [rec_range is_sep negb wcrc1]. rewrite R1, R2, R3. reflexivity. }
    exact (write_step c ccrc s (RSet val off len) _ [] s' es gs B Dcur Dfloor Dcur' Hsp Hc I E1 E2 E3 E4 eq_refl eq_refl eq_refl Hap Hst).
  - (* _onsynced: flush *)
    destruct (flush_sim c s gs B true s' es (ei_rep _ _ _ _ _ _ I) Hst) as [gs' [R' [SR [LO [PL Hcase]]]]].
    pose proof (ei_B _ _ _ _ _ _ I) as IB. pose proof (ei_nr _ _ _ _ _ _ I) as Inr.
    rewrite no_reset_app in Inr. apply andb_prop in Inr. destruct Inr as [_ InrB].
    assert (C1 : (gs' = [] /\ (if match B with [] => true | _ => false end then B else []) = B) \/
                 (B <> [] /\ gs' = [mk c B (size B)] /\ (if match B with [] => true | _ => false end then B else []) = [])).
    { destruct Hcase as [[-> ->]|[Hne ->]]; [left; split; reflexivity | right; destruct B; [congruence | repeat split; auto]]. }
    destruct (first_flush_facts c B gs' _ Hc IB InrB C1) as [F1 [F2 [F3 [F4 [F5 F8]]]]].
    cbn [ev_ops] in Hap. inversion Hap; subst Dcur'.
    exists (gs ++ gs'), [].
    assert (F4' : bops (segs_recs gs') = bops B).
    { destruct Hcase as [[-> ->]|[Hne ->]]; [reflexivity|]. rewrite segs_recs_one. reflexivity. }
    apply (extend_nosp c ccrc s s' es gs B gs' [] Dcur Dfloor Dcur []); auto.
    + split; [reflexivity|]. split; [reflexivity|]. cbn [size]. pose proof (cfg_ok_range c Hc). lia.
    + rewrite app_nil_r. exact F3.
    + rewrite !app_nil_r. exact F4'.
Qed.

(* ---- iwkv_sync / db creation: _savepoint_exl *)
Lemma sp_range_good : forall ts, (0 <=? ts) && (ts <? 18446744073709551616) = true -> rec_good (RSavepoint ts) = true.
Proof. intros ts H. unfold rec_good. cbn [rec_range is_sep negb wcrc1]. rewrite H. reflexivity. Qed.

(* what _savepoint_exl leaves, in the terms extend_sp wants *)
Lemma savepoint_parts : forall c B gs1 B1 ts, cfg_ok c = true -> buf_good c B -> no_reset B = true ->
  (0 <=? ts) && (ts <? 18446744073709551616) = true ->
  ((gs1 = [] /\ B1 = B) \/ (B <> [] /\ gs1 = [mk c B (size B)] /\ B1 = [])) ->
  let g := mk c (B1 ++ [RSavepoint ts]) (size (B1 ++ [RSavepoint ts])) in
  let X1 := segs_recs gs1 ++ RSep (g_crc g) (g_len g) :: B1 in
  forallb seg_good (gs1 ++ [g]) = true /\ segs_recs (gs1 ++ [g]) = X1 ++ [RSavepoint ts] /\
  nosp X1 = true /\ no_reset X1 = true /\ bops X1 = bops B.
Proof.
  intros c B gs1 B1 ts Hc IB Hnr Hts C1 g X1. pose proof (cfg_ok_range c Hc) as Hr.
  destruct (first_flush_facts c B gs1 B1 Hc IB Hnr C1) as [F1 [F2 [F3 [F4 [[F5 [F6 F7]] F8]]]]].
  pose proof (size_nonneg B1).
  split; [|split; [|split; [|split]]].
  - rewrite forallb_app, F1. cbn [forallb]. rewrite andb_true_r. unfold g. apply mk_good.
    + apply rec_good_app1; [exact F5 | apply sp_range_good; exact Hts].
    + pose proof (size_nonneg (B1 ++ [RSavepoint ts])). lia.
    + rewrite size_app. cbn [size rec_size]. unfold sizeof_WBSAVEPOINT. lia.
    + apply body_shape_sp_last. exact F6.
  - rewrite segs_recs_app, segs_recs_one. unfold X1, g, mk. cbn [g_crc g_len g_body]. rewrite <- app_assoc. reflexivity.
  - unfold X1. rewrite nosp_app, F2. cbn [nosp forallb is_sp negb andb]. exact F6.
  - unfold X1. rewrite no_reset_app, F3. cbn [no_reset forallb is_reset negb andb]. exact F8.
  - unfold X1. rewrite bops_app. change (bops (RSep ?a ?b :: ?t)) with (bops t). exact F4.
Qed.

Lemma sync_step : forall c ccrc s ts sy s' es gs B Dcur Dfloor,
  sp_checks = true -> cfg_ok c = true -> einv c s gs B Dcur Dfloor ->
  (0 <=? ts) && (ts <? 18446744073709551616) = true -> savepoint c s ts sy = (s', es) ->
  exists gs2, einv c s' gs2 [] Dcur Dcur /\ crash_ok ccrc s es (fun M => M = Dfloor \/ M = Dcur) /\
    after_effects (p_log s) (p_disk s) es = (p_log s', p_disk s') /\
    bops (segs_recs gs2) = bops (segs_recs gs ++ B) /\
    ops_before (segs_recs gs2) 0 (last_full (segs_recs gs2) 0 0) = bops (segs_recs gs2) /\ gs2 <> [].
Proof.
  intros c ccrc s ts sy s' es gs B Dcur Dfloor Hsp Hc I Hts Hs.
  destruct (savepoint_sim c s gs B ts sy s' es (ei_rep _ _ _ _ _ _ I) Hs) as [gs1 [B1 [C1 [R' [SR [LO PL]]]]]].
  pose proof (ei_B _ _ _ _ _ _ I) as IB. pose proof (ei_nr _ _ _ _ _ _ I) as Inr.
  rewrite no_reset_app in Inr. apply andb_prop in Inr. destruct Inr as [_ InrB].
  destruct (savepoint_parts c B gs1 B1 ts Hc IB InrB Hts C1) as [P1 [P2 [P3 [P4 P5]]]].
  set (g := mk c (B1 ++ [RSavepoint ts]) (size (B1 ++ [RSavepoint ts]))) in *.
  set (X1 := segs_recs gs1 ++ RSep (g_crc g) (g_len g) :: B1) in *.
  pose proof (cfg_ok_range c Hc) as Hr.
  destruct (extend_sp c ccrc s s' es gs B (gs1 ++ [g]) X1 ts Dcur Dfloor Hsp I R' SR LO PL P1 P2 P3 P4 P5 ltac:(lia))
    as [I' [CO [AE LF]]].
  exists (gs ++ gs1 ++ [g]). split; [exact I'|]. split; [exact CO|]. split; [exact AE|].
  assert (HRX : segs_recs (gs ++ gs1 ++ [g]) = (segs_recs gs ++ X1) ++ [RSavepoint ts]).
  { rewrite segs_recs_app, P2, app_assoc. reflexivity. }
  split; [|split].
  - rewrite HRX, !bops_app, P5. cbn [bops flat_map op_of]. rewrite app_nil_r. reflexivity.
  - rewrite LF, HRX. change (size (segs_recs gs ++ X1)) with (0 + size (segs_recs gs ++ X1)). rewrite ops_before_exact.
    rewrite (bops_app (segs_recs gs ++ X1) [RSavepoint ts]). change (bops [RSavepoint ts]) with (@nil aop).
    rewrite app_nil_r. reflexivity.
  - destruct gs; destruct gs1; discriminate.
Qed.

(* ---- _checkpoint_exl(no_fixpoint = false): savepoint, apply the whole log, truncate *)
Lemma checkpoint_eq : forall c s ts, p_stage s <> BKP_MAIN_COPY ->
  checkpoint c s false ts =
  (let (s2, e12) := savepoint c s ts true in let (s3, e3) := rollforward_live c s2 in (s3, e12 ++ e3)).
Proof.
  intros c s ts Hst. unfold checkpoint, savepoint. destruct (Z.eqb_spec (p_stage s) BKP_MAIN_COPY) as [E|_]; [contradiction|].
  destruct (write_wl c s (enc_rec (RSavepoint ts)) []) as [s1 e1]. destruct (flush_wl c s1 true) as [s2 e2].
  destruct (rollforward_live c s2) as [s3 e3]. rewrite app_assoc. reflexivity.
Qed.

Lemma firstn_app_case : forall (A : Type) (a b : list A) j,
  (j <= length a)%nat /\ firstn j (a ++ b) = firstn j a \/
  (length a < j)%nat /\ firstn j (a ++ b) = a ++ firstn (j - length a) b.
Proof.
  intros A a b j. destruct (le_lt_dec j (length a)) as [H|H].
  - left. split; [exact H|]. apply firstn_app_le. exact H.
  - right. split; [exact H|]. rewrite firstn_app, firstn_all2 by lia. reflexivity.
Qed.

(* the crash points of "apply every record of the intact log, msync, truncate" - the tail of a checkpoint *)
Lemma crash_in_apply : forall ccrc R D m (i : nat),
  sp_checks = true -> wf_log R = true -> no_reset R = true -> crc_ok R = true ->
  forallb ow (bops R) = true -> ops_before R 0 (last_full R 0 0) = bops R -> apply_ops D (bops R) = Some m -> 0 < size R ->
  exists ops', (let (lg, dk) := after_effects (encode R) D
                                  (firstn i (map EMainStore (bops R) ++ [EMsync; ELogTruncate; ELogFsync])) in
                recover ccrc 1 0 lg dk) = (VOk, m, ops').
Proof.
  intros ccrc R D m i Hsp Hwf Hnr Hcrc How Hob Hap Hpos.
  assert (Hn : (length (encode R) <= length (encode R))%nat) by lia.
  assert (Hlsp : last_sp sp_checks R (Z.of_nat (length (encode R))) = last_full R 0 0).
  { unfold last_sp. apply last_sp_from_full. rewrite size_encode. lia. }
  assert (Hrc : replay_ops_with sp_checks ccrc 1 0 (encode R) = (VOk, bops R)).
  { pose proof (replay_cut sp_checks ccrc R (length (encode R)) Hwf Hnr (fun _ => Hcrc) (or_intror Hsp) Hn) as H.
    rewrite firstn_all in H. rewrite H, Hlsp, Hob. reflexivity. }
  pose proof (crash_in_recovery sp_checks ccrc R (length (encode R)) D m i Hwf Hnr (fun _ => Hcrc) (or_intror Hsp) Hn) as CR.
  rewrite Hlsp, Hob in CR. unfold state_at in CR. rewrite Hob in CR. specialize (CR How Hap). cbv zeta in CR. rewrite firstn_all in CR.
  rewrite Hrc in CR. rewrite replay_effects_ow in CR by exact How. rewrite lenZ_encode in CR.
  destruct (Z.eqb_spec (size R) 0) as [E0|_]; [lia|].
  destruct (after_effects (encode R) D (firstn i (map EMainStore (bops R) ++ [EMsync; ELogTruncate; ELogFsync]))) as [lg dk].
  exact CR.
Qed.

Lemma ckpt_step : forall c ccrc s ts s' es gs B Dcur Dfloor,
  sp_checks = true -> cfg_ok c = true -> einv c s gs B Dcur Dfloor ->
  (0 <=? ts) && (ts <? 18446744073709551616) = true -> checkpoint c s false ts = (s', es) ->
  einv c s' [] [] Dcur Dcur /\ crash_ok ccrc s es (fun M => M = Dfloor \/ M = Dcur) /\
  after_effects (p_log s) (p_disk s) es = (p_log s', p_disk s').
Proof.
  intros c ccrc s ts s' es gs B Dcur Dfloor Hsp Hc I Hts Hck.
  rewrite checkpoint_eq in Hck by (destruct (ei_st _ _ _ _ _ _ I) as [E|E]; rewrite E; discriminate).
  destruct (savepoint c s ts true) as [s2 e12] eqn:Es.
  destruct (sync_step c ccrc s ts true s2 e12 gs B Dcur Dfloor Hsp Hc I Hts Es) as [gs2 [I2 [CO [AE [Hb [Hob Hne]]]]]].
  destruct I2 as [[IL IBf] Irf Ist Igs IB Inr Iow Icur Ifl]. rewrite app_nil_r in Inr, Iow, Icur.
  set (R2 := segs_recs gs2) in *.
  assert (Hlen : lenZ (p_log s2) = size R2) by (rewrite IL; apply lenZ_encode).
  assert (Hpos : 0 < size R2).
  { apply size_pos. unfold R2. destruct gs2 as [|g0 gs2']; [congruence|]. discriminate. }
  (* the replay of the live checkpoint *)
  unfold rollforward_live in Hck. rewrite Hlen in Hck. destruct (Z.eqb_spec (size R2) 0) as [E0|_]; [lia|].
  rewrite Irf, IL in Hck. unfold R2 in Hck. rewrite (replay_mode0_all gs2 (c_ccrc c) Igs) in Hck. fold R2 in Hck.
  rewrite <- IL in Hck. rewrite Icur in Hck.
  assert (Hstg : ((p_stage s2 =? 0) || (p_stage s2 =? BKP_WAL_CLEANUP)) = true) by (destruct Ist as [E|E]; rewrite E; reflexivity).
  rewrite Hstg in Hck.
  rewrite replay_effects_ow in Hck by exact Iow.
  apply pair_equal_spec in Hck. destruct Hck as [<- <-].
  destruct (segs_wf_log gs2 Igs) as [Hwf Hcrc].
  assert (Hall : after_effects (p_log s2) (p_disk s2) (map EMainStore (bops R2)) = (p_log s2, Dcur)).
  { pose proof (after_store_effects (bops R2) (p_log s2) (p_disk s2) (length (bops R2)) Dcur) as Hx.
    rewrite !firstn_all2 in Hx by (try rewrite map_length; lia). apply Hx. exact Icur. }
  split; [|split].
  - constructor; cbn [p_buf p_log p_disk p_rfoff p_stage p_fatal]; auto.
    + split; [reflexivity | exact IBf].
  - intros j. destruct (firstn_app_case _ e12 (map EMainStore (bops R2) ++ [EMsync; ELogTruncate; ELogFsync]) j) as [[Hj Hf]|[Hj Hf]]; rewrite Hf.
    + exact (CO j).
    + rewrite after_effects_app, AE, IL.
      destruct (crash_in_apply ccrc R2 (p_disk s2) Dcur (j - length e12) Hsp Hwf Inr Hcrc Iow Hob Icur Hpos) as [ops' CR].
      exists Dcur, ops'. split; [exact CR | right; reflexivity].
  - rewrite after_effects_app, AE, after_effects_app, Hall. reflexivity.
Qed.

(* ---- composition of crash points *)
Lemma crash_ok_app : forall ccrc s s1 e1 e2 (P : bytes -> Prop),
  crash_ok ccrc s e1 P -> after_effects (p_log s) (p_disk s) e1 = (p_log s1, p_disk s1) -> crash_ok ccrc s1 e2 P ->
  crash_ok ccrc s (e1 ++ e2) P.
Proof.
  intros ccrc s s1 e1 e2 P H1 AE H2 j. destruct (firstn_app_case _ e1 e2 j) as [[Hj Hf]|[Hj Hf]]; rewrite Hf.
  - exact (H1 j).
  - rewrite after_effects_app, AE. exact (H2 (j - length e1)%nat).
Qed.
Lemma crash_ok_weaken : forall ccrc s es (P Q : bytes -> Prop), (forall M, P M -> Q M) -> crash_ok ccrc s es P -> crash_ok ccrc s es Q.
Proof. intros ccrc s es P Q H C j. destruct (C j) as [M [ops' [H1 H2]]]. exists M, ops'. split; [exact H1 | apply H; exact H2]. Qed.

(* the open after a kill between two events: the state at the last sync *)
Lemma crash_ok_nil : forall c ccrc s gs B Dcur Dfloor, sp_checks = true -> einv c s gs B Dcur Dfloor -> crash_ok ccrc s [] (eq Dfloor).
Proof.
  intros c ccrc s gs B Dcur Dfloor Hsp I. destruct I as [IR Irf Ist Igs IB Inr Iow Icur Ifl].
  destruct (segs_wf_log gs Igs) as [Hwf Hcrc].
  rewrite no_reset_app in Inr. apply andb_prop in Inr. destruct Inr as [InrR _].
  apply (crash_append_only ccrc s [] (segs_recs gs) (eq Dfloor) Hsp eq_refl); auto.
  - cbn. rewrite app_nil_r. apply IR.
  - intros n Hn. destruct IR as [IL _]. rewrite IL, lenZ_encode in Hn. exists Dfloor. split; [|reflexivity].
    unfold last_sp. rewrite last_sp_from_full by lia. exact Ifl.
Qed.

Lemma run_cons : forall c s e t, run c s (e :: t) = let (s1, e1) := step c s e in let (s2, e2) := run c s1 t in (s2, e1 ++ e2).
Proof. reflexivity. Qed.
Lemma run_app : forall c a b s, run c s (a ++ b) = let (s1, e1) := run c s a in let (s2, e2) := run c s1 b in (s2, e1 ++ e2).
Proof.
  induction a as [|e a IH]; intros b s; cbn [app run].
  - destruct (run c s b). reflexivity.
  - destruct (step c s e) as [s1 e1]. rewrite IH. destruct (run c s1 a) as [s2 e2]. destruct (run c s2 b) as [s3 e3].
    rewrite app_assoc. reflexivity.
Qed.

Lemma evs_ops_app : forall a b, evs_ops (a ++ b) = evs_ops a ++ evs_ops b.
Proof. intros. unfold evs_ops. apply flat_map_app. Qed.
Lemma flat_app : forall a b, flat (a ++ b) = flat a ++ flat b.
Proof. intros. unfold flat. apply flat_map_app. Qed.
Lemma hist_ops_app : forall a b, hist_ops (a ++ b) = hist_ops a ++ hist_ops b.
Proof. intros. unfold hist_ops. rewrite flat_app. apply evs_ops_app. Qed.
Lemma hist_ops_one : forall it, hist_ops [it] = evs_ops (item_events it).
Proof. intros. unfold hist_ops, flat. cbn [flat_map]. rewrite app_nil_r. reflexivity. Qed.

(* ---- one operation: its listener calls one after the other *)
Lemma op_run : forall c ccrc evs s s' es gs B Dcur Dfloor Dcur',
  sp_checks = true -> cfg_ok c = true -> einv c s gs B Dcur Dfloor ->
  forallb is_listener evs = true -> forallb (fun e => negb (is_growth e)) evs = true ->
  forallb (fun e => negb (is_copy e)) evs = true -> forallb ev_range evs = true ->
  apply_ops Dcur (evs_ops evs) = Some Dcur' -> run c s evs = (s', es) ->
  exists gs2 B2, einv c s' gs2 B2 Dcur' Dfloor /\ crash_ok ccrc s es (eq Dfloor) /\
    after_effects (p_log s) (p_disk s) es = (p_log s', p_disk s').
Proof.
  intros c ccrc evs. induction evs as [|e evs IH]; intros s s' es gs B Dcur Dfloor Dcur' Hsp Hc I H1 H2 H3 H4 Hap Hr.
  - cbn in Hr. apply pair_equal_spec in Hr. destruct Hr as [<- <-]. cbn in Hap. inversion Hap; subst Dcur'.
    exists gs, B. split; [exact I|]. split; [eapply crash_ok_nil; eauto | reflexivity].
  - rewrite run_cons in Hr. destruct (step c s e) as [s1 e1] eqn:Es. destruct (run c s1 evs) as [s2 e2] eqn:Er.
    apply pair_equal_spec in Hr. destruct Hr as [<- <-].
    cbn [forallb] in H1, H2, H3, H4. apply andb_prop in H1, H2, H3, H4.
    destruct H1 as [A1 A2]. destruct H2 as [B1 B2]. destruct H3 as [C1 C2]. destruct H4 as [D1 D2].
    change (evs_ops (e :: evs)) with (ev_ops e ++ evs_ops evs) in Hap. rewrite apply_ops_app in Hap.
    destruct (apply_ops Dcur (ev_ops e)) as [Dmid|] eqn:Em; [|discriminate].
    apply negb_true_iff in B1. apply negb_true_iff in C1.
    destruct (listener_step c ccrc s e s1 e1 gs B Dcur Dfloor Dmid Hsp Hc I A1 B1 C1 D1 Em Es) as [gs1 [B1' [I1 [CO1 AE1]]]].
    destruct (IH s1 s2 e2 gs1 B1' Dmid Dfloor Dcur' Hsp Hc I1 A2 B2 C2 D2 Hap Er) as [gs2 [B2' [I2 [CO2 AE2]]]].
    exists gs2, B2'. split; [exact I2|]. split.
    + eapply crash_ok_app; eauto.
    + rewrite after_effects_app, AE1. exact AE2.
Qed.

(* ---- one item of the history *)

Lemma item_run : forall c ccrc it s s' es gs B Dcur Dfloor Dcur',
  sp_checks = true -> cfg_ok c = true -> einv c s gs B Dcur Dfloor -> item_ok it = true ->
  apply_ops Dcur (evs_ops (item_events it)) = Some Dcur' -> run c s (item_events it) = (s', es) ->
  exists gs2 B2, einv c s' gs2 B2 Dcur' (if is_syncitem it then Dcur' else Dfloor) /\
    crash_ok ccrc s es (fun M => M = Dfloor \/ (is_syncitem it = true /\ M = Dcur')) /\
    after_effects (p_log s) (p_disk s) es = (p_log s', p_disk s').
Proof.
  intros c ccrc it s s' es gs B Dcur Dfloor Dcur' Hsp Hc I Hok Hap Hr.
  destruct it as [evs|ts sy|ts]; cbn [item_events is_syncitem item_ok] in *.
  - apply andb_prop in Hok. destruct Hok as [Hok H4]. apply andb_prop in Hok. destruct Hok as [Hok H3].
    apply andb_prop in Hok. destruct Hok as [H1 H2].
    destruct (op_run c ccrc evs s s' es gs B Dcur Dfloor Dcur' Hsp Hc I H1 H2 H3 H4 Hap Hr) as [gs2 [B2 [I2 [CO AE]]]].
    exists gs2, B2. split; [exact I2|]. split; [|exact AE].
    eapply crash_ok_weaken; [|exact CO]. intros M HM. left. symmetry. exact HM.
  - rewrite run_cons in Hr. cbn [step run] in Hr. destruct (savepoint c s ts sy) as [s1 e1] eqn:Es.
    apply pair_equal_spec in Hr. destruct Hr as [<- <-]. rewrite app_nil_r. cbn in Hap. inversion Hap; subst Dcur'.
    destruct (sync_step c ccrc s ts sy s1 e1 gs B Dcur Dfloor Hsp Hc I Hok Es) as [gs2 [I2 [CO [AE _]]]].
    exists gs2, []. split; [exact I2|]. split; [|exact AE].
    eapply crash_ok_weaken; [|exact CO]. intros M [HM|HM]; [left | right]; auto.
  - rewrite run_cons in Hr. cbn [step run] in Hr. destruct (checkpoint c s false ts) as [s1 e1] eqn:Es.
    apply pair_equal_spec in Hr. destruct Hr as [<- <-]. rewrite app_nil_r. cbn in Hap. inversion Hap; subst Dcur'.
    destruct (ckpt_step c ccrc s ts s1 e1 gs B Dcur Dfloor Hsp Hc I Hok Es) as [I2 [CO AE]].
    exists [], []. split; [exact I2|]. split; [|exact AE].
    eapply crash_ok_weaken; [|exact CO]. intros M [HM|HM]; [left | right]; auto.
Qed.

(* ---- sync_floor *)
Lemma sync_floor_aux_snoc : forall h it pos acc,
  sync_floor_aux (h ++ [it]) pos acc = if is_syncitem it then S (pos + length h) else sync_floor_aux h pos acc.
Proof.
  induction h as [|x h IH]; intros it pos acc; cbn [app sync_floor_aux length].
  - rewrite Nat.add_0_r. destruct (is_syncitem it); reflexivity.
  - rewrite IH. destruct (is_syncitem it); [f_equal; lia | reflexivity].
Qed.
Lemma sync_floor_snoc : forall h it, sync_floor (h ++ [it]) = if is_syncitem it then S (length h) else sync_floor h.
Proof. intros. unfold sync_floor. rewrite sync_floor_aux_snoc. reflexivity. Qed.
Lemma sync_floor_aux_le : forall h pos acc, (acc <= pos -> sync_floor_aux h pos acc <= pos + length h)%nat.
Proof.
  induction h as [|x h IH]; intros pos acc H; cbn [sync_floor_aux length]; [lia|].
  destruct (is_syncitem x); [specialize (IH (S pos) (S pos)) | specialize (IH (S pos) acc)]; lia.
Qed.
Lemma sync_floor_le : forall h, (sync_floor h <= length h)%nat.
Proof. intros. unfold sync_floor. pose proof (sync_floor_aux_le h 0 0). lia. Qed.

(* ---- the induction over the history *)

Lemma hist_run : forall c ccrc D0 rest hd s gs B Dcur Dfloor Mf (i : nat),
  sp_checks = true -> cfg_ok c = true -> hist_ok rest = true -> einv c s gs B Dcur Dfloor ->
  apply_ops D0 (hist_ops hd) = Some Dcur -> apply_ops D0 (hist_ops (firstn (sync_floor hd) hd)) = Some Dfloor ->
  apply_ops Dcur (hist_ops rest) = Some Mf ->
  exists (k : nat) M ops',
    (sync_floor (hd ++ firstn (done_items c s rest i) rest) <= k <= length hd + Nat.min (S (done_items c s rest i)) (length rest))%nat /\
    (let (log, disk) := after_effects (p_log s) (p_disk s) (firstn i (snd (run c s (flat rest)))) in
     recover ccrc 1 0 log disk) = (VOk, M, ops') /\
    state_after D0 (hd ++ rest) k = Some M.
Proof.
  intros c ccrc D0 rest. induction rest as [|it tl IH]; intros hd s gs B Dcur Dfloor Mf i Hsp Hc Hok I Hcur Hfl Hall.
  - cbn [flat flat_map run snd done_items firstn length]. rewrite firstn_nil, !app_nil_r.
    destruct (crash_ok_nil c ccrc s gs B Dcur Dfloor Hsp I 0%nat) as [M [ops' [H1 H2]]]. subst M.
    exists (sync_floor hd), Dfloor, ops'. split; [pose proof (sync_floor_le hd); lia|]. split; [exact H1|].
    unfold state_after. exact Hfl.
  - cbn [hist_ok forallb] in Hok. apply andb_prop in Hok. destruct Hok as [Hit Htl].
    change (flat (it :: tl)) with (item_events it ++ flat tl). rewrite run_app.
    cbn [done_items]. destruct (run c s (item_events it)) as [s1 e1] eqn:E1. destruct (run c s1 (flat tl)) as [s2 e2] eqn:E2.
    cbn [snd].
    change (hist_ops (it :: tl)) with (evs_ops (item_events it ++ flat tl)) in Hall. rewrite evs_ops_app, apply_ops_app in Hall.
    destruct (apply_ops Dcur (evs_ops (item_events it))) as [Dcur'|] eqn:Ecur; [|discriminate].
    destruct (item_run c ccrc it s s1 e1 gs B Dcur Dfloor Dcur' Hsp Hc I Hit Ecur E1) as [gs1 [B1 [I1 [CO AE]]]].
    assert (Hcur' : apply_ops D0 (hist_ops (hd ++ [it])) = Some Dcur').
    { rewrite hist_ops_app, apply_ops_app, Hcur, hist_ops_one. exact Ecur. }
    destruct (Nat.leb_spec (length e1) i) as [Hle|Hlt].
    + (* the item is complete *)
      assert (Hfl' : apply_ops D0 (hist_ops (firstn (sync_floor (hd ++ [it])) (hd ++ [it]))) = Some (if is_syncitem it then Dcur' else Dfloor)).
      { rewrite sync_floor_snoc. destruct (is_syncitem it).
        - rewrite firstn_all2 by (rewrite app_length; cbn; lia). exact Hcur'.
        - rewrite firstn_app_le by apply sync_floor_le. exact Hfl. }
      destruct (IH (hd ++ [it]) s1 gs1 B1 Dcur' _ Mf (i - length e1)%nat Hsp Hc Htl I1 Hcur' Hfl' Hall) as [k [M [ops' [Hk [Hrec Hst]]]]].
      rewrite E2 in Hrec. cbn [snd] in Hrec.
      exists k, M, ops'. rewrite <- app_assoc in Hk, Hst. cbn [app] in Hk, Hst.
      split; [|split].
      * cbn [firstn length]. rewrite app_length in Hk. cbn [length] in Hk. lia.
      * rewrite firstn_app, firstn_all2 by lia. rewrite after_effects_app, AE. exact Hrec.
      * exact Hst.
    + (* the kill falls inside the item *)
      rewrite firstn_app_le by lia. cbn [firstn]. rewrite app_nil_r.
      destruct (CO i) as [M [ops' [Hrec HM]]].
      destruct HM as [->|[Hs ->]].
      * exists (sync_floor hd), Dfloor, ops'. split; [pose proof (sync_floor_le hd); cbn [length]; lia|]. split; [exact Hrec|].
        unfold state_after. rewrite firstn_app_le by apply sync_floor_le. exact Hfl.
      * exists (S (length hd)), Dcur', ops'. split; [pose proof (sync_floor_le hd); cbn [length]; lia|]. split; [exact Hrec|].
        unfold state_after. replace (hd ++ it :: tl) with ((hd ++ [it]) ++ tl) by (rewrite <- app_assoc; reflexivity).
        rewrite firstn_app_exact by (rewrite app_length; cbn; lia). exact Hcur'.
Qed.

(* ---- the hypotheses as the four separate predicates of Hist.v *)
Lemma hist_ok_of_parts : forall h,
  hist_shape h = true -> no_growth_in_ops h = true -> no_copy_in_ops h = true -> hist_range h = true -> hist_ok h = true.
Proof.
  induction h as [|it tl IH]; intros H1 H2 H3 H4; [reflexivity|].
  cbn [hist_shape no_growth_in_ops no_copy_in_ops forallb] in H1, H2, H3. apply andb_prop in H1, H2, H3.
  destruct H1 as [A1 A2]. destruct H2 as [B1 B2]. destruct H3 as [C1 C2].
  unfold hist_range in H4. change (flat (it :: tl)) with (item_events it ++ flat tl) in H4. rewrite forallb_app in H4.
  apply andb_prop in H4. destruct H4 as [D1 D2].
  cbn [hist_ok forallb]. fold (hist_ok tl). rewrite (IH A2 B2 C2 D2), andb_true_r.
  destruct it as [evs|ts sy|ts]; cbn [item_ok item_events] in *.
  - rewrite A1, B1, C1, D1. reflexivity.
  - cbn [forallb ev_range] in D1. rewrite andb_true_r in D1. exact D1.
  - cbn [forallb ev_range] in D1. rewrite andb_true_r in D1. exact D1.
Qed.

Lemma einv_fresh : forall c D0, cfg_ok c = true -> einv c (fresh D0) [] [] D0 D0.
Proof.
  intros c D0 Hc. pose proof (cfg_ok_range c Hc). constructor; try reflexivity.
  - split; reflexivity.
  - left. reflexivity.
  - split; [reflexivity|]. split; [reflexivity|]. cbn [size]. lia.
Qed.

(* recover_is_prefix: every crash point i of the run of every history h (operations without _onresize/_oncopy calls,
   syncs and checkpoints anywhere between operations) from a freshly opened store.  With n = number of items
   completed within the first i effects, the next open succeeds and yields the state after the first k items for a k
   not smaller than the last sync/checkpoint among those n items and not larger than n + 1 (the item in flight, which
   is then a sync or checkpoint: an operation in flight is never visible, neither wholly nor partly). *)
Theorem recover_is_prefix : forall c ccrc D0 h Mf (i : nat),
  sp_checks = true -> cfg_ok c = true ->
  hist_shape h = true -> no_growth_in_ops h = true -> no_copy_in_ops h = true -> hist_range h = true ->
  apply_ops D0 (hist_ops h) = Some Mf ->
  exists (k : nat) M ops',
    (sync_floor (firstn (done_items c (fresh D0) h i) h) <= k <= Nat.min (S (done_items c (fresh D0) h i)) (length h))%nat /\
    (let (log, disk) := after_effects [] D0 (firstn i (snd (run c (fresh D0) (flat h)))) in
     recover ccrc 1 0 log disk) = (VOk, M, ops') /\
    state_after D0 h k = Some M.
Proof.
  intros c ccrc D0 h Mf i Hsp Hc H1 H2 H3 H4 Hall.
  pose proof (hist_ok_of_parts h H1 H2 H3 H4) as Hok.
  exact (hist_run c ccrc D0 h [] (fresh D0) [] [] D0 D0 Mf i Hsp Hc Hok (einv_fresh c D0 Hc) eq_refl eq_refl Hall).
Qed.

(* the in-flight operation is invisible: a kill inside an operation (item number n of the history is an HOp and
   not all of its effects are out) recovers exactly the state at the last completed sync/checkpoint *)
Theorem crash_inside_op : forall c ccrc D0 hd evs tl Mf (j : nat),
  sp_checks = true -> cfg_ok c = true ->
  let h := hd ++ HOp evs :: tl in
  hist_shape h = true -> no_growth_in_ops h = true -> no_copy_in_ops h = true -> hist_range h = true ->
  apply_ops D0 (hist_ops h) = Some Mf ->
  let (s1, fx1) := run c (fresh D0) (flat hd) in
  let (s2, fx2) := run c s1 evs in
  exists M ops',
    (let (log, disk) := after_effects [] D0 (fx1 ++ firstn j fx2) in recover ccrc 1 0 log disk) = (VOk, M, ops') /\
    state_after D0 h (sync_floor hd) = Some M.
Proof.
  intros c ccrc D0 hd evs tl Mf j Hsp Hc h H1 H2 H3 H4 Hall.
  pose proof (hist_ok_of_parts h H1 H2 H3 H4) as Hok. unfold h, hist_ok in Hok. rewrite forallb_app in Hok.
  apply andb_prop in Hok. destruct Hok as [Hokhd Hoktl]. cbn [forallb] in Hoktl. apply andb_prop in Hoktl. destruct Hoktl as [Hop _].
  unfold h in Hall. rewrite hist_ops_app, apply_ops_app in Hall.
  destruct (apply_ops D0 (hist_ops hd)) as [Dhd|] eqn:Ehd; [|discriminate].
  change (hist_ops (HOp evs :: tl)) with (evs_ops (evs ++ flat tl)) in Hall. rewrite evs_ops_app, apply_ops_app in Hall.
  destruct (apply_ops Dhd (evs_ops evs)) as [Dop|] eqn:Eop; [|discriminate].
  (* the prefix hd, by the induction with an index beyond all its effects *)
  destruct (run c (fresh D0) (flat hd)) as [s1 fx1] eqn:E1. destruct (run c s1 evs) as [s2 fx2] eqn:E2.
  assert (G : exists gs B Dfl, einv c s1 gs B Dhd Dfl /\ apply_ops D0 (hist_ops (firstn (sync_floor hd) hd)) = Some Dfl /\
              after_effects [] D0 fx1 = (p_log s1, p_disk s1)).
  { clear E2 Hall Eop Hop H1 H2 H3 H4 h. revert s1 fx1 E1 Dhd Ehd.
    induction hd as [|it hd' IHh] using rev_ind; intros s1 fx1 E1 Dhd Ehd.
    - cbn in E1. apply pair_equal_spec in E1. destruct E1 as [<- <-]. cbn in Ehd. inversion Ehd; subst Dhd.
      exists [], [], D0. split; [apply einv_fresh; exact Hc|]. split; reflexivity.
    - unfold hist_ok in Hokhd. rewrite forallb_app in Hokhd. apply andb_prop in Hokhd. destruct Hokhd as [Ha Hb].
      cbn [forallb] in Hb. apply andb_prop in Hb. destruct Hb as [Hit _].
      rewrite flat_app, run_app in E1. destruct (run c (fresh D0) (flat hd')) as [s0 fx0] eqn:E0.
      change (flat [it]) with (item_events it ++ []) in E1. rewrite app_nil_r in E1.
      destruct (run c s0 (item_events it)) as [sa fxa] eqn:Ea. apply pair_equal_spec in E1. destruct E1 as [<- <-].
      rewrite hist_ops_app, apply_ops_app, hist_ops_one in Ehd.
      destruct (apply_ops D0 (hist_ops hd')) as [D'|] eqn:E'; [|discriminate].
      destruct (IHh Ha s0 fx0 eq_refl D' eq_refl) as [gs0 [B0 [Dfl0 [I0 [F0 A0]]]]].
      destruct (item_run c ccrc it s0 sa fxa gs0 B0 D' Dfl0 Dhd Hsp Hc I0 Hit Ehd Ea) as [gs1 [B1 [I1 [_ AE1]]]].
      exists gs1, B1, (if is_syncitem it then Dhd else Dfl0). split; [exact I1|]. split.
      + rewrite sync_floor_snoc. destruct (is_syncitem it).
        * rewrite firstn_all2 by (rewrite app_length; cbn; lia). rewrite hist_ops_app, apply_ops_app, E', hist_ops_one. exact Ehd.
        * rewrite firstn_app_le by apply sync_floor_le. exact F0.
      + rewrite after_effects_app, A0. exact AE1. }
  destruct G as [gs [B [Dfl [I1 [F1 A1]]]]].
  cbn [item_ok] in Hop. apply andb_prop in Hop. destruct Hop as [Hop O4]. apply andb_prop in Hop. destruct Hop as [Hop O3].
  apply andb_prop in Hop. destruct Hop as [O1 O2].
  destruct (op_run c ccrc evs s1 s2 fx2 gs B Dhd Dfl Dop Hsp Hc I1 O1 O2 O3 O4 Eop E2) as [gs2 [B2 [I2 [CO _]]]].
  destruct (CO j) as [M [ops' [Hrec HM]]]. subst M.
  exists Dfl, ops'. split.
  - rewrite after_effects_app, A1. exact Hrec.
  - unfold state_after, h. rewrite firstn_app_le by apply sync_floor_le. exact F1.
Qed.

(* the invariant holds after every history *)
Lemma hist_einv : forall c D0 h Mf s fx,
  sp_checks = true -> cfg_ok c = true -> hist_ok h = true ->
  apply_ops D0 (hist_ops h) = Some Mf -> run c (fresh D0) (flat h) = (s, fx) ->
  exists gs B Dfl, einv c s gs B Mf Dfl /\ after_effects [] D0 fx = (p_log s, p_disk s).
Proof.
  intros c D0 h Mf s fx Hsp Hc Hok Hall Hr.
  revert s fx Hr Mf Hall. induction h as [|it hd' IHh] using rev_ind; intros s fx Hr Mf Hall.
  - cbn in Hr. apply pair_equal_spec in Hr. destruct Hr as [<- <-]. cbn in Hall. inversion Hall; subst Mf.
    exists [], [], D0. split; [apply einv_fresh; exact Hc | reflexivity].
  - unfold hist_ok in Hok. rewrite forallb_app in Hok. apply andb_prop in Hok. destruct Hok as [Ha Hb].
    cbn [forallb] in Hb. apply andb_prop in Hb. destruct Hb as [Hit _].
    rewrite flat_app, run_app in Hr. destruct (run c (fresh D0) (flat hd')) as [s0 fx0] eqn:E0.
    change (flat [it]) with (item_events it ++ []) in Hr. rewrite app_nil_r in Hr.
    destruct (run c s0 (item_events it)) as [sa fxa] eqn:Ea. apply pair_equal_spec in Hr. destruct Hr as [<- <-].
    rewrite hist_ops_app, apply_ops_app, hist_ops_one in Hall.
    destruct (apply_ops D0 (hist_ops hd')) as [D'|] eqn:E'; [|discriminate].
    destruct (IHh Ha s0 fx0 eq_refl D' eq_refl) as [gs0 [B0 [Dfl0 [I0 A0]]]].
    destruct (item_run c false it s0 sa fxa gs0 B0 D' Dfl0 Mf Hsp Hc I0 Hit Hall Ea) as [gs1 [B1 [I1 [_ AE1]]]].
    exists gs1, B1, (if is_syncitem it then Mf else Dfl0). split; [exact I1|].
    rewrite after_effects_app, A0. exact AE1.
Qed.

(* the log Proto.run writes is always of the shape the cut theorems of C05 assume *)
Theorem run_log_wf : forall c D0 h Mf s fx,
  sp_checks = true -> cfg_ok c = true ->
  hist_shape h = true -> no_growth_in_ops h = true -> no_copy_in_ops h = true -> hist_range h = true ->
  apply_ops D0 (hist_ops h) = Some Mf -> run c (fresh D0) (flat h) = (s, fx) ->
  exists R, p_log s = encode R /\ wf_log R = true /\ crc_ok R = true /\ no_reset R = true /\
            after_effects [] D0 fx = (p_log s, p_disk s).
Proof.
  intros c D0 h Mf s fx Hsp Hc H1 H2 H3 H4 Hall Hr.
  pose proof (hist_ok_of_parts h H1 H2 H3 H4) as Hok.
  destruct (hist_einv c D0 h Mf s fx Hsp Hc Hok Hall Hr) as [gs [B [Dfl [I A]]]].
  destruct I as [[IL _] Irf Ist Igs IB Inr Iow Icur Ifl].
  destruct (segs_wf_log gs Igs) as [Hwf Hcrc]. rewrite no_reset_app in Inr. apply andb_prop in Inr.
  exists (segs_recs gs). repeat split; auto; tauto.
Qed.

(* ---- a COPY record is not idempotent under redo: the hypothesis no_copy_in_ops is needed.
   One operation moves bytes 0..1 to 1..2 (_oncopy), then a checkpoint; a kill after the record was applied and
   before the log truncation recovers 1 1 1: neither the state before the operation (1 2 3) nor after it (1 1 2). *)
Definition cp_cfg : pcfg := mkC 4084 false.
Definition cp_D0 : bytes := 1 :: 2 :: 3 :: repeat 0 4093%nat.
Definition cp_h : list hitem := [HOp [VCopy 0 2 1]; HCkpt 7].
Definition cp_crash (i : nat) : verdict * bytes :=
  let (log, disk) := after_effects [] cp_D0 (firstn i (snd (run cp_cfg (fresh cp_D0) (flat cp_h)))) in
  let '(v, m, _) := recover false 1 0 log disk in (v, firstn 3 m).
Theorem copy_redo_refuted :
  hist_shape cp_h = true /\ no_growth_in_ops cp_h = true /\ hist_range cp_h = true /\ no_copy_in_ops cp_h = false /\
  option_map (firstn 3) (state_after cp_D0 cp_h 0) = Some [1;2;3] /\
  option_map (firstn 3) (state_after cp_D0 cp_h 2) = Some [1;1;2] /\
  cp_crash 3 = (VOk, [1;1;1]).
Proof. vm_compute. repeat split; reflexivity. Qed.
