Require Import ZArith List Bool Lia.
Require Import IW.Lib.CInt IW.Gen.Facts IW.WAL.Rec.
Import ListNotations.
Local Open Scope Z_scope.

Lemma layout_facts : layout_ok = true.
Proof. vm_compute. reflexivity. Qed.

Lemma crc_table_is_poly : iwu_crc32_table = crc_poly_table.
Proof. vm_compute. reflexivity. Qed.

Lemma crc_check_values :
  crc32 [49;50;51;52;53;54;55;56;57] 0 = iwu_crc32_check_123456789 /\
  crc32 [49;50;51] 305419896 = iwu_crc32_check_init.
Proof. vm_compute. split; reflexivity. Qed.

(* ---- little-endian codec *)
Lemma le_enc_length : forall n v, length (le_enc n v) = n.
Proof. induction n as [|n IH]; intros v; simpl; [reflexivity | rewrite IH; reflexivity]. Qed.

Lemma le_dec_enc : forall n v, le_dec (le_enc n v) = v mod 256 ^ Z.of_nat n.
Proof.
  induction n as [|n IH]; intros v.
  - simpl. rewrite Z.mod_1_r. reflexivity.
  - cbn [le_enc le_dec]. rewrite IH.
    replace (256 ^ Z.of_nat (S n)) with (256 * 256 ^ Z.of_nat n)
      by (rewrite Nat2Z.inj_succ, Z.pow_succ_r by lia; reflexivity).
    rewrite Z.rem_mul_r by (try lia; apply Z.pow_pos_nonneg; lia). reflexivity.
Qed.

Lemma firstn_app_exact : forall (A : Type) (a b : list A) n, length a = n -> firstn n (a ++ b) = a.
Proof.
  intros A a b n H. subst n. rewrite firstn_app, Nat.sub_diag, firstn_all. simpl. apply app_nil_r.
Qed.

Lemma skipn_app_exact : forall (A : Type) (a b : list A) n, length a = n -> skipn n (a ++ b) = b.
Proof.
  intros A a b n H. subst n. rewrite skipn_app, Nat.sub_diag, skipn_all. reflexivity.
Qed.

(* a field written by le_enc after a prefix of the right length reads back *)
Lemma rd_field : forall n off pre v rest,
  length pre = Z.to_nat off -> rd n off (pre ++ le_enc n v ++ rest) = v mod 256 ^ Z.of_nat n.
Proof.
  intros n off pre v rest H. unfold rd.
  rewrite skipn_app_exact by exact H.
  rewrite firstn_app_exact by apply le_enc_length. apply le_dec_enc.
Qed.

(* reads that stay inside the surviving part of a cut list see the uncut list *)
Lemma rd_firstn : forall n off c X, (Z.to_nat off + n <= c)%nat -> rd n off (firstn c X) = rd n off X.
Proof.
  intros n off c X H. unfold rd. rewrite skipn_firstn_comm, firstn_firstn.
  replace (Init.Nat.min n (c - Z.to_nat off)) with n by lia. reflexivity.
Qed.

Lemma rec_size_pos : forall r, 0 < rec_size r.
Proof. destruct r; cbn [rec_size]; unfold sizeof_WBSEP, sizeof_WBSET, sizeof_WBCOPY, sizeof_WBWRITE, sizeof_WBRESIZE, sizeof_WBSAVEPOINT, sizeof_WBRESET; lia. Qed.

Lemma enc_rec_length : forall r, Z.of_nat (length (enc_rec r)) = rec_size r.
Proof.
  destruct r; cbn [enc_rec rec_size]; unfold hdr; repeat rewrite app_length; repeat rewrite le_enc_length; cbn [length];
  unfold sizeof_WBSEP, sizeof_WBSET, sizeof_WBCOPY, sizeof_WBWRITE, sizeof_WBRESIZE, sizeof_WBSAVEPOINT, sizeof_WBRESET; lia.
Qed.

Lemma sw64_id : forall x, -9223372036854775808 <= x < 9223372036854775808 -> sw 64 (x mod 256 ^ Z.of_nat 8) = x.
Proof.
  intros x H. unfold sw. change (256 ^ Z.of_nat 8) with 18446744073709551616.
  change (2 ^ (64 - 1)) with 9223372036854775808. change (2 ^ 64) with 18446744073709551616.
  Ltac Zify.zify_post_hook ::= Z.div_mod_to_equations. lia.
Qed.

Lemma u32_id : forall x, 0 <= x < 4294967296 -> x mod 256 ^ Z.of_nat 4 = x.
Proof. intros x H. change (256 ^ Z.of_nat 4) with 4294967296. apply Z.mod_small. lia. Qed.
