(* _last_fix_and_reset_points (src/kv/iwal.c): one pass over the log that remembers the offset of the
   last savepoint record (fpos) and of the last reset mark (rpos).  The loop variable rp of the C code is
   (pos, l) here: pos = rp - wmm, l = the bytes from rp to the end of the file; avail = fsz - pos.
   Same case splits and the same (missing) length checks as the C code:
     - WBSEP:  avail < sizeof  -> stop;  wb.len > avail -> stop   (avail still counts the 12 header bytes)
     - WBWRITE: avail < sizeof -> stop;  avail < wb.len -> stop   (avail counts the 20 header bytes)
     - WBSAVEPOINT / WBRESET: no check at all, the record may be cut after its first byte
       (WBSAVEPOINT: unless spchk, see below). *)
Require Import ZArith List Bool Lia.
Require Import IW.Lib.CInt IW.Gen.Facts IW.WAL.Rec.
Import ListNotations.
Local Open Scope Z_scope.

(* one iteration of the switch: stop, or advance rp by adv bytes with new fpos/rpos *)
Inductive sstep : Type := SStop | SNext (adv fpos rpos : Z).

Definition scan_step (spchk first : bool) (avail pos : Z) (l : bytes) (fpos rpos : Z) : sstep :=
  let opid := nth 0 l 0 in
  if first && negb (opid =? WOP_SEP) then SStop else
  if opid =? WOP_SEP then
    if avail <? sizeof_WBSEP then SStop else
    if rd 4 offsetof_WBSEP_len l >? avail then SStop else SNext sizeof_WBSEP fpos rpos
  else if opid =? WOP_SET then
    if avail <? sizeof_WBSET then SStop else SNext sizeof_WBSET fpos rpos
  else if opid =? WOP_COPY then
    if avail <? sizeof_WBCOPY then SStop else SNext sizeof_WBCOPY fpos rpos
  else if opid =? WOP_WRITE then
    if avail <? sizeof_WBWRITE then SStop else
    let len := rd 4 offsetof_WBWRITE_len l in
    if avail <? len then SStop else SNext (sizeof_WBWRITE + len) fpos rpos
  else if opid =? WOP_RESIZE then
    if avail <? sizeof_WBRESIZE then SStop else SNext sizeof_WBRESIZE fpos rpos
  else if opid =? WOP_SAVEPOINT then
    if spchk && (avail <? sizeof_WBSAVEPOINT) then SStop else SNext sizeof_WBSAVEPOINT pos rpos
  else if opid =? WOP_RESET then SNext sizeof_WBRESET fpos pos
  else SStop.

Fixpoint scan_loop (spchk : bool) (fuel : nat) (first : bool) (fsz pos : Z) (l : bytes) (fpos rpos : Z) : Z * Z :=
  match fuel with
  | O => (fpos, rpos)
  | S f =>
    if negb (pos <? fsz) then (fpos, rpos) else     (* for (...; rp - wmm < fsz; ...) *)
    match scan_step spchk first (fsz - pos) pos l fpos rpos with
    | SStop => (fpos, rpos)
    | SNext adv fp rp => scan_loop spchk f false fsz (pos + adv) (skipn (Z.to_nat adv) l) fp rp
    end
  end.

(* spchk: whether the WOP_SAVEPOINT case tests `avail < sizeof(WBSAVEPOINT)`.  The pinned source does not
   (a savepoint cut after its first byte is taken as the recovery point); fixes/wal-cut-savepoint.diff adds
   the test.  Gen.Facts reports which of the two the current tree does (probe_wal.c runs the C function on
   a log ending inside a savepoint), so the model mirrors the code either way. *)
Definition sp_checks : bool := WAL_SCAN_SP_CHECKS_AVAIL =? 1.
Definition scan_with (spchk : bool) (wal : bytes) : Z * Z :=
  scan_loop spchk (S (length wal)) true (Z.of_nat (length wal)) 0 wal 0 0.
Definition scan (wal : bytes) : Z * Z := scan_with sp_checks wal.

(* ---- record-level view of an intact log: parser (inverse of Rec.encode) and the shape of logs the
   protocol writes.  Used by the theorems' hypotheses and checked on every real log by the C05 check. *)
Fixpoint parse_loop (fuel : nat) (l : bytes) : option (list rec) :=
  match fuel with
  | O => None
  | S f =>
    match l with
    | [] => Some []
    | opid :: _ =>
      let avail := Z.of_nat (length l) in
      let next (sz : Z) (r : rec) :=
        if avail <? sz then None else
        match parse_loop f (skipn (Z.to_nat sz) l) with Some rs => Some (r :: rs) | None => None end in
      if opid =? WOP_SEP then next sizeof_WBSEP (RSep (rd 4 offsetof_WBSEP_crc l) (rd 4 offsetof_WBSEP_len l))
      else if opid =? WOP_SET then
        next sizeof_WBSET (RSet (rd 4 offsetof_WBSET_val l) (rd_off offsetof_WBSET_off l) (rd_off offsetof_WBSET_len l))
      else if opid =? WOP_COPY then
        next sizeof_WBCOPY (RCopy (rd_off offsetof_WBCOPY_off l) (rd_off offsetof_WBCOPY_len l) (rd_off offsetof_WBCOPY_noff l))
      else if opid =? WOP_WRITE then
        if avail <? sizeof_WBWRITE then None else
        let len := rd 4 offsetof_WBWRITE_len l in
        next (sizeof_WBWRITE + len)
             (RWrite (rd 4 offsetof_WBWRITE_crc l) (rd_off offsetof_WBWRITE_off l)
                     (firstn (Z.to_nat len) (skipn (Z.to_nat sizeof_WBWRITE) l)))
      else if opid =? WOP_RESIZE then
        next sizeof_WBRESIZE (RResize (rd_off offsetof_WBRESIZE_osize l) (rd_off offsetof_WBRESIZE_nsize l))
      else if opid =? WOP_SAVEPOINT then next sizeof_WBSAVEPOINT (RSavepoint (rd 8 offsetof_WBSAVEPOINT_ts l))
      else if opid =? WOP_RESET then next sizeof_WBRESET RReset
      else None
    end
  end.
Definition parse (wal : bytes) : option (list rec) := parse_loop (S (length wal)) wal.

Definition is_sp (r : rec) : bool := match r with RSavepoint _ => true | _ => false end.
Definition is_sep (r : rec) : bool := match r with RSep _ _ => true | _ => false end.
Definition is_reset (r : rec) : bool := match r with RReset => true | _ => false end.

(* offset of the first savepoint record of rs, rs starting at offset pos *)
Fixpoint first_sp (rs : list rec) (pos : Z) : option Z :=
  match rs with
  | [] => None
  | r :: t => if is_sp r then Some pos else first_sp t (pos + rec_size r)
  end.

(* field ranges: what the encoders keep *)
Definition u32 (x : Z) : bool := (0 <=? x) && (x <? 4294967296).
Definition i64 (x : Z) : bool := (-9223372036854775808 <=? x) && (x <? 9223372036854775808).
Definition rec_range (r : rec) : bool :=
  match r with
  | RSep crc len => u32 crc && u32 len
  | RSet val off len => u32 val && i64 off && i64 len
  | RCopy off len noff => i64 off && i64 len && i64 noff
  | RWrite crc off p => u32 crc && i64 off && u32 (Z.of_nat (length p)) && forallb (fun b => (0 <=? b) && (b <? 256)) p
  | RResize o n => i64 o && i64 n
  | RSavepoint ts => (0 <=? ts) && (ts <? 18446744073709551616)
  | RReset => true
  end.

(* every segment header covers no more than what lies before the next savepoint's first byte:
   _savepoint_exl/_checkpoint_exl flush right after the savepoint, so a savepoint ends its segment *)
Fixpoint sep_ok (rs : list rec) (pos : Z) : bool :=
  match rs with
  | [] => true
  | r :: t =>
    (match r with
     | RSep _ len => match first_sp t (pos + rec_size r) with Some q => pos + len <=? q | None => true end
     | _ => true
     end) && sep_ok t (pos + rec_size r)
  end.

Definition wf_log (rs : list rec) : bool :=
  (match rs with r :: _ => is_sep r | [] => true end) && forallb rec_range rs && sep_ok rs 0.

(* checksums stored in the log are the ones _flush_wl/_onwrite compute (or 0 when checksums are off) *)
Fixpoint crc_ok (rs : list rec) : bool :=
  match rs with
  | [] => true
  | r :: t =>
    (match r with
     | RSep crc len => (crc =? 0) || (crc32 (firstn (Z.to_nat len) (encode t)) 0 =? crc)
     | RWrite crc _ p => (crc =? 0) || (crc32 p 0 =? crc)
     | _ => true
     end) && crc_ok t
  end.

(* with checksums on the writer computes EVERY checksum (_flush_wl: segment body, _onwrite: payload; Proto.step):
   0 is then no licence - a record whose stored checksum is not the computed one was not written by this
   protocol.  Checked on every real log taken with check_crc_on_checkpoint. *)
Fixpoint crc_full (rs : list rec) : bool :=
  match rs with
  | [] => true
  | r :: t =>
    (match r with
     | RSep crc len => crc32 (firstn (Z.to_nat len) (encode t)) 0 =? crc
     | RWrite crc _ p => crc32 p 0 =? crc
     | _ => true
     end) && crc_full t
  end.

(* offsets of the savepoint records of rs (rs starting at pos) *)
Fixpoint sp_offsets (rs : list rec) (pos : Z) : list Z :=
  match rs with
  | [] => []
  | r :: t => (if is_sp r then [pos] else []) ++ sp_offsets t (pos + rec_size r)
  end.

(* ---- what the theorems say scan computes: the last savepoint record that is "visible" under a cut at n:
   its first byte survives (pinned code), or all of its 12 bytes survive (with the avail test). *)
Definition sp_visible (spchk : bool) (q n : Z) : bool := if spchk then q + sizeof_WBSAVEPOINT <=? n else q <? n.
Fixpoint last_sp_from (spchk : bool) (rs : list rec) (pos n fpos : Z) : Z :=
  match rs with
  | [] => fpos
  | r :: t =>
    if pos <? n then last_sp_from spchk t (pos + rec_size r) n (if is_sp r && sp_visible spchk pos n then pos else fpos)
    else fpos
  end.
Definition last_sp (spchk : bool) (rs : list rec) (n : Z) : Z := last_sp_from spchk rs 0 n 0.

(* ---- sizes, and "every segment header covers only bytes that are in the file": what a replay that runs to the end
   of the file needs (checkpoint of a live store) and what the corruption theorems of C05 assume of the intact log;
   checked on every real log by checks/C05.py (chk: fit) *)
Fixpoint size (rs : list rec) : Z := match rs with [] => 0 | r :: t => rec_size r + size t end.
Fixpoint sep_fit (rs : list rec) (pos total : Z) : bool :=
  match rs with
  | [] => true
  | r :: t => (match r with RSep _ len => pos + sizeof_WBSEP + len <=? total | _ => true end) && sep_fit t (pos + rec_size r) total
  end.
