(* The write-ahead protocol of src/kv/iwal.c at the granularity of file effects.
   In-process state: the log buffer (wal->buf[0..bufpos)), wal->rollforward_offset, backup stage.
   Kernel view (what survives a kill): the log file and the main file.  The private mapping of the main file
   is not part of the model: what the store reads back is the business of C01; here an operation is the list of
   listener calls it makes (_onwrite/_onset/_oncopy/_onresize/_onsynced) and the API calls are
   _savepoint_exl and _checkpoint_exl.
   Every step returns the file effects it issues, in order; a crash point is a position in that list. *)
Require Import ZArith List Bool Lia.
Require Import IW.Lib.CInt IW.Gen.Facts IW.WAL.Rec IW.WAL.Scan IW.WAL.Replay.
Import ListNotations.
Local Open Scope Z_scope.

Inductive effect : Type :=
| ELogAppend (bs : bytes)       (* iwp_write(wal->fh, ...) *)
| ELogFsync                     (* iwp_fsync(wal->fh) *)
| ELogTruncate                  (* iwp_ftruncate(wal->fh, 0) *)
| EMainStore (op : aop)         (* one record applied through the shared mapping (ASet/ACopy/AWrite) *)
| EMainResize (n : Z)           (* iwp_fallocate / iwp_ftruncate of the main file to n bytes (+ remap) *)
| EMsync.                       (* msync of the shared mapping *)

Record pstate : Type := mkP {
  p_buf : bytes;        (* wal->buf, bufpos = length *)
  p_log : bytes;        (* log file, kernel view *)
  p_disk : bytes;       (* main file, kernel view *)
  p_rfoff : Z;          (* wal->rollforward_offset *)
  p_stage : Z;          (* wal->bkp_stage *)
  p_fatal : bool        (* iwkv->fatalrc set *)
}.

Record pcfg : Type := mkC { c_bufsz : Z; c_ccrc : bool }.

Definition lenZ (l : bytes) : Z := Z.of_nat (length l).

(* _flush_wl *)
Definition flush_wl (c : pcfg) (s : pstate) (sync : bool) : pstate * list effect :=
  let (s1, e1) :=
    match p_buf s with
    | [] => (s, [])
    | _ =>
      let crc := if c_ccrc c then crc32 (p_buf s) 0 else 0 in
      let seg := enc_rec (RSep crc (lenZ (p_buf s))) ++ p_buf s in
      (mkP [] (p_log s ++ seg) (p_disk s) (p_rfoff s) (p_stage s) (p_fatal s), [ELogAppend seg])
    end in
  (s1, e1 ++ (if sync then [ELogFsync] else [])).

(* _write_wl(wal, op, oplen, data, len) *)
Definition write_wl (c : pcfg) (s : pstate) (hdr data : bytes) : pstate * list effect :=
  let (s1, e1) := if c_bufsz c - lenZ (p_buf s) <? lenZ hdr then flush_wl c s false else (s, []) in
  let s2 := mkP (p_buf s1 ++ hdr) (p_log s1) (p_disk s1) (p_rfoff s1) (p_stage s1) (p_fatal s1) in
  if c_bufsz c - lenZ (p_buf s2) <? lenZ data then
    let (s3, e3) := flush_wl c s2 false in
    (mkP (p_buf s3) (p_log s3 ++ data) (p_disk s3) (p_rfoff s3) (p_stage s3) (p_fatal s3),
     e1 ++ e3 ++ [ELogAppend data])
  else
    (mkP (p_buf s2 ++ data) (p_log s2) (p_disk s2) (p_rfoff s2) (p_stage s2) (p_fatal s2), e1).

(* effects of applying decoded records during a replay; cur = current size of the main file.
   A RESIZE record goes through _exfile_truncate_lw: nothing when the page-rounded size is the current one,
   fallocate + remap (msync of the old shared mapping) when growing, remap + ftruncate when shrinking. *)
Fixpoint replay_effects (cur : Z) (ops : list aop) : list effect :=
  match ops with
  | [] => []
  | op :: t =>
    match op with
    | AResize n =>
      let n' := IW_ROUNDUP n WAL_PAGE_SIZE in
      (if n' =? cur then [] else if cur <? n' then [EMainResize n'; EMsync] else [EMsync; EMainResize n'])
      ++ [EMainStore op] ++ replay_effects n' t
    | _ => EMainStore op :: replay_effects cur t
    end
  end.

(* _rollforward_exl(wal, extf, 0) of a live store followed by its epilogue *)
Definition rollforward_live (c : pcfg) (s : pstate) : pstate * list effect :=
  let fsz := lenZ (p_log s) in
  if fsz =? 0 then (s, []) else
  let (v, ops) := replay_ops (c_ccrc c) 0 (p_rfoff s) (p_log s) in
  let disk' := match apply_ops (p_disk s) ops with Some m => m | None => p_disk s end in
  let e_apply := replay_effects (lenZ (p_disk s)) ops in
  match v with
  | VOk =>
    if (p_stage s =? 0) || (p_stage s =? BKP_WAL_CLEANUP) then
      (mkP (p_buf s) [] disk' 0 (p_stage s) (p_fatal s), e_apply ++ [EMsync; ELogTruncate; ELogFsync])
    else
      (* online backup in progress: keep the log, append SEP + RESET, remember where to resume *)
      let (s1, e1) := flush_wl c (mkP (p_buf s) (p_log s) disk' (p_rfoff s) (p_stage s) (p_fatal s)) false in
      let (s2, e2) := write_wl c s1 (enc_rec RReset) [] in
      let (s3, e3) := flush_wl c s2 true in
      (mkP (p_buf s3) (p_log s3) (p_disk s3) (lenZ (p_log s3) - (sizeof_WBSEP + sizeof_WBRESET)) (p_stage s3) (p_fatal s3),
       e_apply ++ [EMsync] ++ e1 ++ e2 ++ e3)
  | _ => (mkP (p_buf s) (p_log s) disk' (p_rfoff s) (p_stage s) true, e_apply)
  end.

(* _checkpoint_exl(wal, 0, no_fixpoint) *)
Definition checkpoint (c : pcfg) (s : pstate) (no_fixpoint : bool) (ts : Z) : pstate * list effect :=
  if p_stage s =? BKP_MAIN_COPY then (s, []) else
  let (s1, e1) := if no_fixpoint then (s, []) else write_wl c s (enc_rec (RSavepoint ts)) [] in
  let (s2, e2) := flush_wl c s1 true in
  let (s3, e3) := rollforward_live c s2 in
  (s3, e1 ++ e2 ++ e3).

(* _savepoint_exl(wal, 0, sync) *)
Definition savepoint (c : pcfg) (s : pstate) (ts : Z) (sync : bool) : pstate * list effect :=
  let (s1, e1) := write_wl c s (enc_rec (RSavepoint ts)) [] in
  let (s2, e2) := flush_wl c s1 sync in
  (s2, e1 ++ e2).

Inductive event : Type :=
| VWrite (off : Z) (data : bytes)          (* _onwrite *)
| VSet (off val len : Z)                   (* _onset *)
| VCopy (off len noff : Z)                 (* _oncopy *)
| VResize (osize nsize : Z)                (* _onresize: logs the record, then a checkpoint without savepoint *)
| VSynced                                  (* _onsynced *)
| VSavepoint (ts : Z) (sync : bool)        (* iwal_savepoint_exl: iwkv_sync, db creation *)
| VCheckpoint (ts : Z).                    (* _checkpoint_exl(no_fixpoint = false) *)

Definition write_hdr (crc off len : Z) : bytes := hdr WOP_WRITE ++ le_enc 4 crc ++ le_enc 4 len ++ le_enc 8 off.

Definition step (c : pcfg) (s : pstate) (ev : event) : pstate * list effect :=
  match ev with
  | VWrite off data =>
      write_wl c s (write_hdr (if c_ccrc c then crc32 data 0 else 0) off (lenZ data)) data
  | VSet off val len => write_wl c s (enc_rec (RSet val off len)) []
  | VCopy off len noff => write_wl c s (enc_rec (RCopy off len noff)) []
  | VResize osize nsize =>
      let (s1, e1) := write_wl c s (enc_rec (RResize osize nsize)) [] in
      let (s2, e2) := checkpoint c s1 true 0 in
      (s2, e1 ++ e2)
  | VSynced => flush_wl c s true
  | VSavepoint ts sync => savepoint c s ts sync
  | VCheckpoint ts => checkpoint c s false ts
  end.

Fixpoint run (c : pcfg) (s : pstate) (evs : list event) : pstate * list effect :=
  match evs with
  | [] => (s, [])
  | ev :: t => let (s1, e1) := step c s ev in let (s2, e2) := run c s1 t in (s2, e1 ++ e2)
  end.

(* ---- the kill model: the kernel's view after the first effects of a run *)
Definition apply_effect (ld : bytes * bytes) (e : effect) : bytes * bytes :=
  let (log, disk) := ld in
  match e with
  | ELogAppend bs => (log ++ bs, disk)
  | ELogFsync => (log, disk)
  | ELogTruncate => ([], disk)
  | EMainStore op => (log, match apply_op disk op with Some m => m | None => disk end)
  | EMainResize n => (log, resize_nat (Z.to_nat n) disk)
  | EMsync => (log, disk)
  end.
Definition after_effects (log disk : bytes) (es : list effect) : bytes * bytes :=
  fold_left apply_effect es (log, disk).

(* recovery (the next open) as a run of its own: effects of _recover_wl on the files found *)
Definition recovery_effects (ccrc : bool) (log disk : bytes) : list effect :=
  if lenZ log =? 0 then [] else
  let (v, ops) := replay_ops ccrc 1 0 log in
  replay_effects (lenZ disk) ops ++ (match v with VOk => [EMsync; ELogTruncate; ELogFsync] | _ => [] end).

(* the recovery step of iwkv_open in a process whose options are c.  Of the options of the RECOVERING process
   _recover_wl / _last_fix_and_reset_points / _rollforward_exl read only check_crc_on_checkpoint: the size of its
   log buffer (c_bufsz c = wal->bufsz) is not used anywhere on this path - the log may have been written by a
   process with any other buffer size.  checks/C04.py and C05.py recover every log also with options that differ
   from the writer's and compare with this function. *)
Definition recover_open (c : pcfg) (log disk : bytes) : verdict * bytes * list aop :=
  recover (c_ccrc c) 1 0 log disk.

(* what the check compares per effect: kind, file, offset/size, length *)
Definition effect_sig (e : effect) : Z * Z * Z * Z :=
  match e with
  | ELogAppend bs => (1, 1, -1, lenZ bs)
  | ELogFsync => (5, 1, 0, 0)
  | ELogTruncate => (3, 1, 0, 0)
  | EMainStore op => let '(k, o, l) := aop_sig op in (8, k, o, l)
  | EMainResize n => (4, 2, n, 0)
  | EMsync => (7, 2, 0, 0)
  end.
