(* C08, the snapshot theorem over Backup.backup_run at the level of operations: for every history before the call,
   every list of whole operations / syncs / checkpoints executed by writers while the main file is copied (evM) and
   at the end of the first log copy (evA), the image opens to the state after ALL of them - every operation
   completed before the closing savepoint of stage 5, none of what comes later, nothing partial.
   The log part of the image may contain reset marks (checkpoints in evA); only the log matters for the image, so
   the invariant used here (linv) says nothing about the live main file. *)
Require Import ZArith List Bool Lia.
Require Import IW.Lib.CInt IW.Gen.Facts IW.WAL.Rec IW.WAL.Rec_proofs IW.WAL.Scan IW.WAL.Scan_proofs
  IW.WAL.Replay IW.WAL.Replay_proofs IW.WAL.Proto IW.WAL.Proto_proofs IW.WAL.Segs_proofs IW.WAL.Hist IW.WAL.Hist_proofs
  IW.WAL.Backup IW.WAL.Backup_proofs.
Import ListNotations.
Local Open Scope Z_scope.

Record linv (c : pcfg) (s : pstate) (gs : list seg) (B : list rec) : Prop := mkLinv {
  li_rep : Rep s gs B;
  li_gs : forallb seg_good gs = true;
  li_B : buf_good c B;
  li_nr : no_reset B = true }.

Lemma bops_sep : forall a b t, bops (RSep a b :: t) = bops t.
Proof. reflexivity. Qed.

(* ---- one record through _write_wl, any stage *)
Lemma write_lstep : forall c s r h d s' es gs B,
  cfg_ok c = true -> linv c s gs B ->
  enc_rec r = h ++ d -> h <> [] -> lenZ h <= 28 -> rec_good r = true -> is_sp r = false -> is_reset r = false ->
  write_wl c s h d = (s', es) ->
  exists gs2 B2, linv c s' gs2 B2 /\ bops (segs_recs gs2 ++ B2) = bops (segs_recs gs ++ B) ++ op_of r /\
                 p_stage s' = p_stage s.
Proof.
  intros c s r h d s' es gs B Hc [IR Igs IB InrB] Henc Hh Hh28 Hrg Hnsp Hnrs Hw.
  pose proof (cfg_ok_range c Hc) as Hr.
  destruct (write_sim c s gs B r h d s' es IR Henc Hh Hw) as [gs1 [B1 [gs' [B' [C1 [C2 [R' [SR [LO PL]]]]]]]]].
  destruct (first_flush_facts c B gs1 B1 Hc IB InrB C1) as [F1 [F2 [F3 [F4 [[F5 [F6 F7]] F8]]]]].
  assert (Hrs : rec_size r = lenZ h + lenZ d).
  { rewrite <- enc_rec_length, Henc. unfold lenZ. rewrite app_length. lia. }
  assert (Hd0 : 0 <= lenZ d) by (unfold lenZ; lia). assert (Hh0 : 0 <= lenZ h) by (unfold lenZ; lia).
  pose proof (size_nonneg B1) as HB1n.
  assert (Hnspr : nosp (B1 ++ [r]) = true) by (rewrite nosp_app, F6; cbn [nosp forallb]; rewrite Hnsp; reflexivity).
  assert (Hnrr : no_reset (B1 ++ [r]) = true) by (rewrite no_reset_app, F8; cbn [no_reset forallb]; rewrite Hnrs; reflexivity).
  destruct SR as [_ [_ [Ss _]]].
  exists (gs ++ gs'), B'. split; [|split; [|exact Ss]].
  - destruct C2 as [[-> [-> Hfit]]|[-> ->]].
    + constructor; auto.
      * rewrite forallb_app, Igs, F1. reflexivity.
      * split; [apply rec_good_app1; assumption|]. split; [exact Hnspr | exact Hfit].
    + constructor; auto.
      * rewrite !forallb_app, Igs, F1. cbn [forallb]. rewrite andb_true_r. cbn [andb]. apply mk_good.
        -- apply rec_good_app1; assumption.
        -- rewrite size_app. cbn [size]. lia.
        -- lia.
        -- apply body_shape_nosp. exact Hnspr.
      * split; [reflexivity|]. split; [reflexivity|]. cbn [size]. lia.
  - destruct C2 as [[-> [-> Hfit]]|[-> ->]].
    + rewrite segs_recs_app, <- !app_assoc, !bops_app. cbn [bops flat_map]. rewrite app_nil_r.
      rewrite <- F4. rewrite <- !app_assoc. reflexivity.
    + rewrite !segs_recs_app, segs_recs_one, app_nil_r, !bops_app. unfold mk. cbn [g_crc g_len g_body].
      rewrite bops_sep, bops_app. cbn [bops flat_map]. rewrite app_nil_r. rewrite <- F4. rewrite <- !app_assoc. reflexivity.
Qed.

(* ---- flush *)
Lemma flush_lstep : forall c s sync s' es gs B, cfg_ok c = true -> linv c s gs B -> flush_wl c s sync = (s', es) ->
  exists gs2, linv c s' gs2 [] /\ bops (segs_recs gs2) = bops (segs_recs gs ++ B) /\ p_stage s' = p_stage s.
Proof.
  intros c s sync s' es gs B Hc [IR Igs IB InrB] Hf.
  destruct (flush_sim c s gs B sync s' es IR Hf) as [gs' [R' [SR [LO [PL Hcase]]]]].
  assert (C1 : (gs' = [] /\ (if match B with [] => true | _ => false end then B else []) = B) \/
               (B <> [] /\ gs' = [mk c B (size B)] /\ (if match B with [] => true | _ => false end then B else []) = [])).
  { destruct Hcase as [[-> ->]|[Hne ->]]; [left; split; reflexivity | right; destruct B; [congruence | repeat split; auto]]. }
  destruct (first_flush_facts c B gs' _ Hc IB InrB C1) as [F1 [F2 [F3 [F4 [F5 F8]]]]].
  pose proof (cfg_ok_range c Hc). destruct SR as [_ [_ [Ss _]]].
  exists (gs ++ gs'). split; [|split; [|exact Ss]].
  - constructor; auto.
    + rewrite forallb_app, Igs, F1. reflexivity.
    + split; [reflexivity|]. split; [reflexivity|]. cbn [size]. lia.
  - rewrite segs_recs_app, !bops_app. f_equal.
    destruct Hcase as [[-> ->]|[Hne ->]]; [reflexivity|]. rewrite segs_recs_one. reflexivity.
Qed.

(* ---- one header-only record, then flush: savepoint (no stores) and reset mark (no stores) *)
Lemma write_flush_lstep : forall c s r sync s1 e1 s' e2 gs B,
  cfg_ok c = true -> linv c s gs B -> rec_good r = true -> op_of r = [] -> (is_sp r = true \/ is_reset r = true) ->
  write_wl c s (enc_rec r) [] = (s1, e1) -> flush_wl c s1 sync = (s', e2) ->
  exists gs2, linv c s' gs2 [] /\ bops (segs_recs gs2) = bops (segs_recs gs ++ B) /\ p_stage s' = p_stage s /\
    exists pre, segs_recs gs2 = pre ++ [r] /\ bops pre = bops (segs_recs gs ++ B) /\ gs2 <> [].
Proof.
  intros c s r sync s1 e1 s' e2 gs B Hc [IR Igs IB InrB] Hrg Hop Hkind Ew Ef.
  destruct (write_flush_sim c s gs B r sync s1 e1 s' e2 IR Ew Ef) as [gs1 [B1 [C1 [R' [SR [LO PL]]]]]].
  destruct (first_flush_facts c B gs1 B1 Hc IB InrB C1) as [F1 [F2 [F3 [F4 [[F5 [F6 F7]] F8]]]]].
  pose proof (cfg_ok_range c Hc) as Hr. pose proof (size_nonneg B1). destruct SR as [_ [_ [Ss _]]].
  set (g := mk c (B1 ++ [r]) (size (B1 ++ [r]))) in *.
  assert (Hsz : size (B1 ++ [r]) = size B1 + rec_size r) by (rewrite size_app; cbn [size]; ring).
  assert (Hrsz : rec_size r <= 28) by (destruct Hkind as [Hk|Hk]; destruct r; try discriminate; cbn; lia).
  assert (Hg : seg_good g = true).
  { unfold g. apply mk_good.
    - apply rec_good_app1; assumption.
    - pose proof (rec_size_pos r). lia.
    - lia.
    - destruct Hkind as [Hk|Hk].
      + destruct r; try discriminate. apply body_shape_sp_last. exact F6.
      + apply body_shape_nosp. rewrite nosp_app, F6. destruct r; try discriminate. reflexivity. }
  exists (gs ++ gs1 ++ [g]). split; [|split; [|split; [exact Ss|]]].
  - constructor; auto.
    + rewrite !forallb_app, Igs, F1. cbn [forallb]. rewrite Hg. reflexivity.
    + split; [reflexivity|]. split; [reflexivity|]. cbn [size]. lia.
  - rewrite !segs_recs_app, segs_recs_one, !bops_app. unfold g, mk. cbn [g_crc g_len g_body]. rewrite bops_sep, bops_app.
    cbn [bops flat_map]. rewrite Hop. cbn [app]. rewrite app_nil_r. rewrite <- F4. reflexivity.
  - exists (segs_recs gs ++ segs_recs gs1 ++ RSep (g_crc g) (g_len g) :: B1). split; [|split].
    + rewrite !segs_recs_app, segs_recs_one. unfold g at 3. unfold mk. cbn [g_body]. rewrite <- !app_assoc. reflexivity.
    + rewrite !bops_app, bops_sep, <- F4. reflexivity.
    + destruct gs; destruct gs1; discriminate.
Qed.

(* ---- the checkpoint a writer makes while the backup is in stage WAL_COPY1: the log is kept, a reset mark is
   appended (or nothing, when the replay failed) *)
Lemma rollforward_live_lstep : forall c s s' es gs, cfg_ok c = true -> linv c s gs [] -> p_stage s = BKP_WAL_COPY1 ->
  rollforward_live c s = (s', es) ->
  exists gs2, linv c s' gs2 [] /\ bops (segs_recs gs2) = bops (segs_recs gs) /\ p_stage s' = p_stage s.
Proof.
  intros c s s' es gs Hc I Hst Hrf. unfold rollforward_live in Hrf.
  destruct (lenZ (p_log s) =? 0).
  { apply pair_equal_spec in Hrf. destruct Hrf as [<- <-]. exists gs. split; [exact I|]. split; reflexivity. }
  destruct (replay_ops (c_ccrc c) 0 (p_rfoff s) (p_log s)) as [v ops].
  set (disk' := match apply_ops (p_disk s) ops with Some m => m | None => p_disk s end) in *.
  destruct I as [[IL IBf] Igs IB InrB].
  destruct v.
  - assert (Hcond : ((p_stage s =? 0) || (p_stage s =? BKP_WAL_CLEANUP)) = false) by (rewrite Hst; reflexivity).
    rewrite Hcond in Hrf.
    set (sX := mkP (p_buf s) (p_log s) disk' (p_rfoff s) (p_stage s) (p_fatal s)) in *.
    assert (IX : linv c sX gs []) by (constructor; auto; split; assumption).
    destruct (flush_wl c sX false) as [s1 e1] eqn:E1.
    destruct (flush_lstep c sX false s1 e1 gs [] Hc IX E1) as [gs1 [I1 [Hb1 Hs1]]]. rewrite app_nil_r in Hb1.
    destruct (write_wl c s1 (enc_rec RReset) []) as [s2 e2] eqn:E2. destruct (flush_wl c s2 true) as [s3 e3] eqn:E3.
    destruct (write_flush_lstep c s1 RReset true s2 e2 s3 e3 gs1 [] Hc I1 eq_refl eq_refl (or_intror eq_refl) E2 E3)
      as [gs3 [I3 [Hb3 [Hs3 _]]]]. rewrite app_nil_r in Hb3.
    apply pair_equal_spec in Hrf. destruct Hrf as [<- <-].
    exists gs3. split; [|split].
    + destruct I3 as [[JL JB] Jgs JBg Jnr]. constructor; auto. split; assumption.
    + congruence.
    + cbn [p_stage]. rewrite Hs3, Hs1. reflexivity.
  - apply pair_equal_spec in Hrf. destruct Hrf as [<- <-]. exists gs. split; [|split; reflexivity].
    constructor; auto. split; assumption.
  - apply pair_equal_spec in Hrf. destruct Hrf as [<- <-]. exists gs. split; [|split; reflexivity].
    constructor; auto. split; assumption.
Qed.

(* ---- events of the writers while the backup is in stage MAIN_COPY or WAL_COPY1 *)

Lemma ev_lstep : forall c s e s' es gs B,
  cfg_ok c = true -> linv c s gs B -> (p_stage s = BKP_MAIN_COPY \/ p_stage s = BKP_WAL_COPY1) -> ev_okb e = true ->
  step c s e = (s', es) ->
  exists gs2 B2, linv c s' gs2 B2 /\ bops (segs_recs gs2 ++ B2) = bops (segs_recs gs ++ B) ++ ev_ops e /\
                 p_stage s' = p_stage s.
Proof.
  intros c s e s' es gs B Hc I Hst Hok Hs.
  destruct e as [off data|off val len|off len noff|os ns| |ts sy|ts]; try discriminate; cbn [step ev_okb ev_range ev_ops] in *.
  - apply andb_prop in Hok. destruct Hok as [Hok R3]. apply andb_prop in Hok. destruct Hok as [R1 R2].
    set (crc := if c_ccrc c then crc32 data 0 else 0) in *.
    assert (E2 : write_hdr crc off (lenZ data) <> []) by discriminate.
    assert (E3 : lenZ (write_hdr crc off (lenZ data)) <= 28).
    { unfold write_hdr, lenZ. rewrite !app_length, !le_enc_length. cbn. lia. }
    assert (E4 : rec_good (RWrite crc off data) = true).
    { unfold rec_good. cbn [rec_range is_sep negb wcrc1]. unfold lenZ in R2. rewrite R1, R2. fold byte. rewrite R3.
      unfold crc. destruct (c_ccrc c); [rewrite crc32_u32 by lia; rewrite Z.eqb_refl, orb_true_r | ]; reflexivity. }
    exact (write_lstep c s (RWrite crc off data) _ data s' es gs B Hc I (write_hdr_split crc off data) E2 E3 E4 eq_refl eq_refl Hs).
  - apply andb_prop in Hok. destruct Hok as [Hok R3]. apply andb_prop in Hok. destruct Hok as [R1 R2].
    assert (E1 : enc_rec (RSet val off len) = enc_rec (RSet val off len) ++ []) by (rewrite app_nil_r; reflexivity).
    assert (E2 : enc_rec (RSet val off len) <> []) by discriminate.
    assert (E3 : lenZ (enc_rec (RSet val off len)) <= 28) by (cbn; lia).
    assert (E4 : rec_good (RSet val off len) = true).
    { unfold rec_good. cbn [rec_range is_sep negb wcrc1]. rewrite R1, R2, R3. reflexivity. }
    exact (write_lstep c s (RSet val off len) _ [] s' es gs B Hc I E1 E2 E3 E4 eq_refl eq_refl Hs).
  - destruct (flush_lstep c s true s' es gs B Hc I Hs) as [gs2 [I2 [Hb Hst2]]].
    exists gs2, []. rewrite !app_nil_r. auto.
  - unfold savepoint in Hs. destruct (write_wl c s (enc_rec (RSavepoint ts)) []) as [s1 e1] eqn:E1.
    destruct (flush_wl c s1 sy) as [s2 e2] eqn:E2. apply pair_equal_spec in Hs. destruct Hs as [<- <-].
    destruct (write_flush_lstep c s (RSavepoint ts) sy s1 e1 s2 e2 gs B Hc I (sp_range_good ts Hok) eq_refl (or_introl eq_refl) E1 E2)
      as [gs2 [I2 [Hb [Hst2 _]]]].
    exists gs2, []. rewrite !app_nil_r. auto.
  - destruct Hst as [Hst|Hst].
    + (* MAIN_COPY: checkpoints are suspended *)
      unfold checkpoint in Hs. rewrite Hst in Hs. cbn [Z.eqb BKP_MAIN_COPY] in Hs.
      apply pair_equal_spec in Hs. destruct Hs as [<- <-]. exists gs, B. rewrite app_nil_r. auto.
    + rewrite checkpoint_eq in Hs by (rewrite Hst; discriminate).
      unfold savepoint in Hs. destruct (write_wl c s (enc_rec (RSavepoint ts)) []) as [s1 e1] eqn:E1.
      destruct (flush_wl c s1 true) as [s2 e2] eqn:E2.
      destruct (write_flush_lstep c s (RSavepoint ts) true s1 e1 s2 e2 gs B Hc I (sp_range_good ts Hok) eq_refl (or_introl eq_refl) E1 E2)
        as [gs2 [I2 [Hb [Hst2 _]]]].
      destruct (rollforward_live c s2) as [s3 e3] eqn:E3. apply pair_equal_spec in Hs. destruct Hs as [<- <-].
      destruct (rollforward_live_lstep c s2 s3 e3 gs2 Hc I2 ltac:(congruence) E3) as [gs3 [I3 [Hb3 Hst3]]].
      exists gs3, []. rewrite !app_nil_r. split; [exact I3|]. split; congruence.
Qed.

Lemma run_lstep : forall c evs s s' es gs B,
  cfg_ok c = true -> linv c s gs B -> (p_stage s = BKP_MAIN_COPY \/ p_stage s = BKP_WAL_COPY1) ->
  forallb ev_okb evs = true -> run c s evs = (s', es) ->
  exists gs2 B2, linv c s' gs2 B2 /\ bops (segs_recs gs2 ++ B2) = bops (segs_recs gs ++ B) ++ evs_ops evs /\
                 p_stage s' = p_stage s.
Proof.
  intros c evs. induction evs as [|e evs IH]; intros s s' es gs B Hc I Hst Hok Hr.
  - cbn in Hr. apply pair_equal_spec in Hr. destruct Hr as [<- <-]. exists gs, B. cbn. rewrite app_nil_r. auto.
  - rewrite run_cons in Hr. destruct (step c s e) as [s1 e1] eqn:Es. destruct (run c s1 evs) as [s2 e2] eqn:Er.
    apply pair_equal_spec in Hr. destruct Hr as [<- <-]. cbn [forallb] in Hok. apply andb_prop in Hok. destruct Hok as [H1 H2].
    destruct (ev_lstep c s e s1 e1 gs B Hc I Hst H1 Es) as [gs1 [B1 [I1 [Hb1 Hs1]]]].
    destruct (IH s1 s2 e2 gs1 B1 Hc I1 ltac:(rewrite Hs1; exact Hst) H2 Er) as [gs2 [B2 [I2 [Hb2 Hs2]]]].
    exists gs2, B2. split; [exact I2|]. split; [|congruence].
    rewrite Hb2, Hb1. change (evs_ops (e :: evs)) with (ev_ops e ++ evs_ops evs). rewrite app_assoc. reflexivity.
Qed.

Lemma hist_ok_evs : forall h, hist_ok h = true -> forallb ev_okb (flat h) = true.
Proof.
  induction h as [|it tl IH]; intros H; [reflexivity|]. cbn [hist_ok forallb] in H. apply andb_prop in H. destruct H as [H1 H2].
  change (flat (it :: tl)) with (item_events it ++ flat tl). rewrite forallb_app, (IH H2), andb_true_r.
  destruct it as [evs|ts sy|ts]; cbn [item_ok item_events] in *.
  - apply andb_prop in H1. destruct H1 as [H1 D]. apply andb_prop in H1. destruct H1 as [H1 C]. apply andb_prop in H1. destruct H1 as [A B].
    clear IH H2. induction evs as [|e evs IHe]; [reflexivity|]. cbn [forallb] in *.
    apply andb_prop in A, B, C, D. destruct A as [A1 A2]. destruct B as [B1 B2]. destruct C as [C1 C2]. destruct D as [D1 D2].
    rewrite (IHe A2 B2 C2 D2), andb_true_r. destruct e; cbn in *; try discriminate; assumption.
  - cbn [forallb ev_okb ev_range]. rewrite H1. reflexivity.
  - cbn [forallb ev_okb ev_range]. rewrite H1. reflexivity.
Qed.

(* ---- the snapshot theorem *)
Definition main_ok (m : bytes) : Prop :=
  WAL_PAGE_SIZE <= lenB m /\ Z.land (lenB m) (WAL_PAGE_SIZE - 1) = 0 /\ lenB m < 2 ^ 64 /\
  rd 4 0 m = WAL_IWFSM_MAGICK /\ rd 4 IWFSM_CUSTOM_HDR_DATA_OFFSET m = IWKV_MAGIC.

Lemma einv_set_cleanup : forall c s gs B Dcur Dfloor, einv c s gs B Dcur Dfloor -> einv c (set_stage s BKP_WAL_CLEANUP) gs B Dcur Dfloor.
Proof. intros c s gs B Dcur Dfloor [IR Irf Ist Igs IB Inr Iow Icur Ifl]. constructor; auto. Qed.

Lemma linv_set_stage : forall c s gs B st, linv c s gs B -> linv c (set_stage s st) gs B.
Proof. intros c s gs B st [IR Igs IB Inr]. constructor; auto. Qed.

Theorem backup_image_is_snapshot : forall c ccrc D0 hpre hM hA ts2 ts5 Mpre Mf,
  sp_checks = true -> cfg_ok c = true ->
  hist_ok hpre = true -> hist_ok hM = true -> hist_ok hA = true ->
  (0 <=? ts2) && (ts2 <? 18446744073709551616) = true -> (0 <=? ts5) && (ts5 <? 18446744073709551616) = true ->
  apply_ops D0 (hist_ops hpre) = Some Mpre -> apply_ops Mpre (hist_ops (hM ++ hA)) = Some Mf -> main_ok Mpre ->
  exists ops',
    open_image ccrc (fst (backup_run c (fst (run c (fresh D0) (flat hpre))) ts2 ts5 (flat hM) (flat hA))) = (VOk, Mf, ops').
Proof.
  intros c ccrc D0 hpre hM hA ts2 ts5 Mpre Mf Hsp Hc Hpre HM HA Hts2 Hts5 Hap1 Hap2 Hmain.
  destruct (run c (fresh D0) (flat hpre)) as [s0 fx0] eqn:E0. cbn [fst].
  destruct (hist_einv c D0 hpre Mpre s0 fx0 Hsp Hc Hpre Hap1 E0) as [gs0 [B0 [Dfl [I0 _]]]].
  unfold backup_run.
  destruct (checkpoint c (set_stage s0 BKP_WAL_CLEANUP) false ts2) as [s1 e1] eqn:E1.
  destruct (ckpt_step c ccrc _ ts2 s1 e1 gs0 B0 Mpre Dfl Hsp Hc (einv_set_cleanup _ _ _ _ _ _ I0) Hts2 E1) as [I1 _].
  assert (Hd1 : p_disk s1 = Mpre).
  { pose proof (ei_cur _ _ _ _ _ _ I1) as H. cbn in H. inversion H. reflexivity. }
  assert (L1 : linv c (set_stage s1 BKP_MAIN_COPY) [] []).
  { destruct I1 as [IR _ _ _ IB _ _ _ _]. constructor; auto. }
  destruct (run c (set_stage s1 BKP_MAIN_COPY) (flat hM)) as [s2 e2] eqn:E2.
  destruct (run_lstep c (flat hM) _ s2 e2 [] [] Hc L1 (or_introl eq_refl) (hist_ok_evs hM HM) E2) as [gs2 [B2 [L2 [Hb2 Hs2]]]].
  destruct (flush_wl c (set_stage s2 BKP_WAL_COPY1) false) as [s3 e3] eqn:E3.
  destruct (flush_lstep c _ false s3 e3 gs2 B2 Hc (linv_set_stage c s2 gs2 B2 BKP_WAL_COPY1 L2) E3) as [gs3 [L3 [Hb3 Hs3]]].
  destruct (run c s3 (flat hA)) as [s4 e4] eqn:E4.
  destruct (run_lstep c (flat hA) s3 s4 e4 gs3 [] Hc L3 (or_intror Hs3) (hist_ok_evs hA HA) E4) as [gs4 [B4 [L4 [Hb4 Hs4]]]].
  destruct (savepoint c (set_stage s4 BKP_WAL_COPY2) ts5 true) as [s5 e5] eqn:E5. cbn [fst].
  unfold savepoint in E5. destruct (write_wl c (set_stage s4 BKP_WAL_COPY2) (enc_rec (RSavepoint ts5)) []) as [sa ea] eqn:Ea.
  destruct (flush_wl c sa true) as [sb eb] eqn:Eb. apply pair_equal_spec in E5. destruct E5 as [<- <-].
  destruct (write_flush_lstep c _ (RSavepoint ts5) true sa ea sb eb gs4 B4 Hc (linv_set_stage c s4 gs4 B4 BKP_WAL_COPY2 L4)
              (sp_range_good ts5 Hts5) eq_refl (or_introl eq_refl) Ea Eb) as [gs5 [L5 [Hb5 [_ [pre [Hpre5 [Hbpre Hne5]]]]]]].
  destruct L5 as [[JL _] Jgs _ _]. rewrite JL, Hd1.
  set (R5 := segs_recs gs5) in *.
  destruct (segs_wf_log gs5 Jgs) as [Hwf Hcrc].
  (* all stores of evM and evA, over the main file as it was at the call *)
  assert (Hops : bops pre = hist_ops (hM ++ hA)).
  { rewrite Hbpre, Hb4, app_nil_r, Hb3, Hb2. cbn [segs_recs flat_map app bops]. rewrite hist_ops_app. reflexivity. }
  assert (Hlf : last_full R5 0 0 = size pre).
  { rewrite Hpre5, last_full_app. cbn [last_full is_sp]. lia. }
  assert (Hst : state_at R5 Mpre (last_sp sp_checks R5 (Z.of_nat (length (encode R5)))) = Some Mf).
  { unfold last_sp. rewrite last_sp_from_full by (rewrite size_encode; lia). rewrite Hlf.
    unfold state_at. rewrite Hpre5. change (size pre) with (0 + size pre). rewrite ops_before_exact, Hops. exact Hap2. }
  assert (Hparts : image_parts_ok Mpre (firstn (length (encode R5)) (encode R5))).
  { rewrite firstn_all. destruct Hmain as [M1 [M2 [M3 [M4 M5]]]]. unfold image_parts_ok. repeat split; auto.
    right. unfold R5. destruct gs5 as [|g gs5']; [congruence|]. cbn [segs_recs flat_map seg_recs app]. rewrite encode_cons.
    split; [|reflexivity]. unfold lenB. rewrite app_length, Nat2Z.inj_add, enc_rec_length. cbn [rec_size]. lia. }
  pose proof (open_image_is_savepoint_state ccrc R5 (length (encode R5)) Mpre Mf Hwf (fun _ => Hcrc) (or_intror Hsp)
                (le_n _) Hparts Hst) as Hopen.
  rewrite firstn_all in Hopen. eexists. exact Hopen.
Qed.

(* every writer sees a prefix of its own operations, in issue order: the image holds the operations completed before
   the closing savepoint, which is a prefix of the serialized history, and a prefix of a merge restricted to one
   writer is a prefix of that writer's sequence *)
Theorem prefix_per_writer : forall (A : Type) (mine : A -> bool) (h : list A) (k : nat),
  exists j, filter mine (firstn k h) = firstn j (filter mine h).
Proof.
  intros A mine h. induction h as [|x h IH]; intros k; [exists 0%nat; rewrite firstn_nil; reflexivity|].
  destruct k as [|k]; [exists 0%nat; reflexivity|]. destruct (IH k) as [j Hj]. cbn [firstn filter].
  destruct (mine x); [exists (S j); cbn [firstn]; rewrite Hj; reflexivity | exists j; exact Hj].
Qed.

(* ---- what goes wrong when a writer is not excluded from stage 5: one operation = two stores (bytes 100 and 101);
   its first store is logged before the closing savepoint, its second after it.  The image opens to a state that
   has the first without the second - neither the state before the operation (0,0) nor after it (1,2). *)
Definition w5_op : list event := [VWrite 100 [1]; VWrite 101 [2]].
Definition w5_summary : option (verdict * Z * Z) :=
  let (img, live) := backup_run_w5 rm_cfg rm_s0 5 9 [] [VWrite 100 [1]] [VWrite 101 [2]] in
  let '(v, m, _) := open_image false img in Some (v, nth 100 m 0, nth 101 m 0).
Theorem writer_in_stage5_refuted :
  w5_summary = Some (VOk, 1, 0) /\
  option_map (fun m => (nth 100 m 0, nth 101 m 0)) (apply_ops rm_main (evs_ops w5_op)) = Some (1, 2) /\
  (nth 100 rm_main 0, nth 101 rm_main 0) = (0, 0).
Proof. vm_compute. repeat split; reflexivity. Qed.

(* with no writer event in stage 5 the variant is backup_run *)
Theorem backup_run_w5_nil : forall c s0 ts2 ts5 evM evA, backup_run_w5 c s0 ts2 ts5 evM evA [] = backup_run c s0 ts2 ts5 evM evA.
Proof.
  intros. unfold backup_run_w5, backup_run.
  destruct (checkpoint c (set_stage s0 BKP_WAL_CLEANUP) false ts2) as [s1 e1].
  destruct (run c (set_stage s1 BKP_MAIN_COPY) evM) as [s2 e2].
  destruct (flush_wl c (set_stage s2 BKP_WAL_COPY1) false) as [s3 e3].
  destruct (run c s3 evA) as [s4 e4]. destruct (savepoint c (set_stage s4 BKP_WAL_COPY2) ts5 true) as [s5 e5]. reflexivity.
Qed.
