(* Proofs about Scan.scan: on every prefix (cut) of an encoded well-formed log it returns the offset of the
   last visible savepoint record. *)
Require Import ZArith List Bool Lia.
Require Import IW.Lib.CInt IW.Gen.Facts IW.WAL.Rec IW.WAL.Rec_proofs IW.WAL.Scan.
Import ListNotations.
Local Open Scope Z_scope.

Ltac facts := unfold sizeof_WBSEP, sizeof_WBSET, sizeof_WBCOPY, sizeof_WBWRITE, sizeof_WBRESIZE,
  sizeof_WBSAVEPOINT, sizeof_WBRESET, offsetof_WBSEP_crc, offsetof_WBSEP_len, offsetof_WBSET_val,
  offsetof_WBSET_off, offsetof_WBSET_len, offsetof_WBCOPY_off, offsetof_WBCOPY_len, offsetof_WBCOPY_noff,
  offsetof_WBWRITE_crc, offsetof_WBWRITE_len, offsetof_WBWRITE_off, offsetof_WBRESIZE_osize,
  offsetof_WBRESIZE_nsize, offsetof_WBSAVEPOINT_ts in *.
Ltac wop := unfold WOP_SEP, WOP_SET, WOP_COPY, WOP_WRITE, WOP_RESIZE, WOP_SAVEPOINT, WOP_RESET in *.

(* ---- field reads on an encoded record followed by anything *)
Lemma rd_sep_crc : forall crc len T, rd 4 offsetof_WBSEP_crc (enc_rec (RSep crc len) ++ T) = crc mod 256 ^ Z.of_nat 4.
Proof. intros. cbn [enc_rec]. rewrite <- !app_assoc. apply rd_field. reflexivity. Qed.
Lemma rd_sep_len : forall crc len T, rd 4 offsetof_WBSEP_len (enc_rec (RSep crc len) ++ T) = len mod 256 ^ Z.of_nat 4.
Proof. intros. cbn [enc_rec]. rewrite <- !app_assoc. rewrite (app_assoc (hdr _) (le_enc 4 crc)). apply rd_field.
  rewrite app_length, le_enc_length. reflexivity. Qed.
Lemma rd_write_crc : forall crc off p T, rd 4 offsetof_WBWRITE_crc (enc_rec (RWrite crc off p) ++ T) = crc mod 256 ^ Z.of_nat 4.
Proof. intros. cbn [enc_rec]. rewrite <- !app_assoc. apply rd_field. reflexivity. Qed.
Lemma rd_write_len : forall crc off p T,
  rd 4 offsetof_WBWRITE_len (enc_rec (RWrite crc off p) ++ T) = Z.of_nat (length p) mod 256 ^ Z.of_nat 4.
Proof. intros. cbn [enc_rec]. rewrite <- !app_assoc. rewrite (app_assoc (hdr _) (le_enc 4 crc)). apply rd_field.
  rewrite app_length, le_enc_length. reflexivity. Qed.
Lemma rd_write_off : forall crc off p T,
  rd 8 offsetof_WBWRITE_off (enc_rec (RWrite crc off p) ++ T) = off mod 256 ^ Z.of_nat 8.
Proof. intros. cbn [enc_rec]. rewrite <- !app_assoc. rewrite (app_assoc (le_enc 4 crc)), (app_assoc (hdr _)). apply rd_field.
  rewrite !app_length, !le_enc_length. reflexivity. Qed.

(* ---- the first byte of a cut record *)
Lemma nth0_cut : forall r T c, (1 <= c)%nat ->
  nth 0 (firstn c (enc_rec r ++ T)) 0 =
  match r with RSep _ _ => WOP_SEP | RSet _ _ _ => WOP_SET | RCopy _ _ _ => WOP_COPY | RWrite _ _ _ => WOP_WRITE
             | RResize _ _ => WOP_RESIZE | RSavepoint _ => WOP_SAVEPOINT | RReset => WOP_RESET end.
Proof. intros r T c H. destruct c as [|c]; [lia|]. destruct r; reflexivity. Qed.

(* ---- one step of the scanner on a cut encoded record = its record-level description *)
Definition rsstep (spchk first : bool) (r : rec) (c pos fpos rpos : Z) : sstep :=
  match r with
  | RSep _ len => if c <? sizeof_WBSEP then SStop else if len >? c then SStop else SNext sizeof_WBSEP fpos rpos
  | RSet _ _ _ => if first then SStop else if c <? sizeof_WBSET then SStop else SNext sizeof_WBSET fpos rpos
  | RCopy _ _ _ => if first then SStop else if c <? sizeof_WBCOPY then SStop else SNext sizeof_WBCOPY fpos rpos
  | RWrite _ _ p => if first then SStop else if c <? sizeof_WBWRITE then SStop else
                    if c <? Z.of_nat (length p) then SStop else SNext (sizeof_WBWRITE + Z.of_nat (length p)) fpos rpos
  | RResize _ _ => if first then SStop else if c <? sizeof_WBRESIZE then SStop else SNext sizeof_WBRESIZE fpos rpos
  | RSavepoint _ => if first then SStop else if spchk && (c <? sizeof_WBSAVEPOINT) then SStop else SNext sizeof_WBSAVEPOINT pos rpos
  | RReset => if first then SStop else SNext sizeof_WBRESET fpos pos
  end.

Lemma u32_range : forall x, u32 x = true -> 0 <= x < 4294967296.
Proof. unfold u32. intros x H. apply andb_prop in H. destruct H as [H1 H2]. apply Z.leb_le in H1. apply Z.ltb_lt in H2. lia. Qed.

Lemma scan_step_enc : forall spchk first r T (c : nat) pos fpos rpos,
  rec_range r = true -> (1 <= c)%nat ->
  scan_step spchk first (Z.of_nat c) pos (firstn c (enc_rec r ++ T)) fpos rpos
  = rsstep spchk first r (Z.of_nat c) pos fpos rpos.
Proof.
  intros spchk first r T c pos fpos rpos Hr Hc.
  unfold scan_step. rewrite (nth0_cut r T c Hc).
  destruct r as [crc len|val off len|off len noff|crc off p|os ns|ts|]; cbn [rsstep]; destruct first; wop;
    cbn [Z.eqb Pos.eqb negb andb]; try reflexivity.
  - (* SEP, first *)
    destruct (Z.of_nat c <? sizeof_WBSEP) eqn:E; [reflexivity|].
    apply Z.ltb_ge in E. rewrite rd_firstn by (facts; cbn; lia). rewrite rd_sep_len.
    cbn [rec_range] in Hr. apply andb_prop in Hr. destruct Hr as [_ Hl]. rewrite u32_id by (apply u32_range; exact Hl).
    reflexivity.
  - destruct (Z.of_nat c <? sizeof_WBSEP) eqn:E; [reflexivity|].
    apply Z.ltb_ge in E. rewrite rd_firstn by (facts; cbn; lia). rewrite rd_sep_len.
    cbn [rec_range] in Hr. apply andb_prop in Hr. destruct Hr as [_ Hl]. rewrite u32_id by (apply u32_range; exact Hl).
    reflexivity.
  - (* WRITE *)
    destruct (Z.of_nat c <? sizeof_WBWRITE) eqn:E; [reflexivity|].
    apply Z.ltb_ge in E. rewrite rd_firstn by (facts; cbn; lia). rewrite rd_write_len.
    cbn [rec_range] in Hr. apply andb_prop in Hr. destruct Hr as [Hr _]. apply andb_prop in Hr. destruct Hr as [_ Hl].
    rewrite u32_id by (apply u32_range; exact Hl). reflexivity.
Qed.

(* ---- the loop on a cut encoded log = the record-level scan *)
Fixpoint rscan (spchk first : bool) (rs : list rec) (pos n fpos rpos : Z) : Z * Z :=
  match rs with
  | [] => (fpos, rpos)
  | r :: t =>
    if negb (pos <? n) then (fpos, rpos) else
    match rsstep spchk first r (n - pos) pos fpos rpos with
    | SStop => (fpos, rpos)
    | SNext adv fp rp => rscan spchk false t (pos + adv) n fp rp
    end
  end.

Lemma rsstep_adv : forall spchk first r c pos fpos rpos adv fp rp,
  rsstep spchk first r c pos fpos rpos = SNext adv fp rp -> adv = rec_size r.
Proof.
  intros spchk first r c pos fpos rpos adv fp rp H.
  destruct r; cbn [rsstep rec_size] in *; destruct first;
    repeat match type of H with context [if ?b then _ else _] => destruct b end; inversion H; reflexivity.
Qed.

Lemma scan_loop_done : forall spchk fuel first fsz pos l fpos rpos,
  fsz <= pos -> scan_loop spchk fuel first fsz pos l fpos rpos = (fpos, rpos).
Proof.
  intros spchk fuel first fsz pos l fpos rpos H. destruct fuel; cbn [scan_loop]; [reflexivity|].
  destruct (Z.ltb_spec pos fsz); [lia|]. reflexivity.
Qed.

Lemma rscan_done : forall spchk first rs pos n fpos rpos, n <= pos -> rscan spchk first rs pos n fpos rpos = (fpos, rpos).
Proof.
  intros spchk first rs pos n fpos rpos H. destruct rs; cbn [rscan]; [reflexivity|].
  destruct (Z.ltb_spec pos n); [lia|]. reflexivity.
Qed.

Lemma skipn_firstn_app : forall (A : Type) (a b : list A) k c, length a = k -> skipn k (firstn c (a ++ b)) = firstn (c - k) b.
Proof. intros A a b k c H. rewrite skipn_firstn_comm, skipn_app_exact by exact H. reflexivity. Qed.

Lemma encode_cons : forall r rs, encode (r :: rs) = enc_rec r ++ encode rs.
Proof. reflexivity. Qed.

Lemma scan_loop_enc : forall rs spchk fuel first pos (c : nat) fpos rpos,
  forallb rec_range rs = true -> (c <= length (encode rs))%nat -> (c < fuel)%nat ->
  scan_loop spchk fuel first (pos + Z.of_nat c) pos (firstn c (encode rs)) fpos rpos
  = rscan spchk first rs pos (pos + Z.of_nat c) fpos rpos.
Proof.
  induction rs as [|r rs IH]; intros spchk fuel first pos c fpos rpos Hr Hc Hf.
  - cbn in Hc. assert (c = 0)%nat by lia. subst c. apply scan_loop_done. lia.
  - destruct fuel as [|f]; [lia|]. rewrite encode_cons in *. cbn [scan_loop rscan].
    destruct (negb (pos <? pos + Z.of_nat c)) eqn:E; [reflexivity|].
    apply negb_false_iff, Z.ltb_lt in E. assert (Hc1 : (1 <= c)%nat) by lia.
    cbn [forallb] in Hr. apply andb_prop in Hr. destruct Hr as [Hr1 Hr2].
    replace (pos + Z.of_nat c - pos) with (Z.of_nat c) by ring.
    rewrite scan_step_enc by assumption.
    destruct (rsstep spchk first r (Z.of_nat c) pos fpos rpos) as [|adv fp rp] eqn:Es; [reflexivity|].
    apply rsstep_adv in Es. subst adv.
    assert (Hk : length (enc_rec r) = Z.to_nat (rec_size r)) by (rewrite <- enc_rec_length; lia).
    rewrite skipn_firstn_app by exact Hk.
    pose proof (rec_size_pos r) as Hp.
    destruct (le_lt_dec (Z.to_nat (rec_size r)) c) as [Hle|Hgt].
    + replace (pos + Z.of_nat c) with ((pos + rec_size r) + Z.of_nat (c - Z.to_nat (rec_size r))) by lia.
      apply IH; [exact Hr2 | | lia]. rewrite app_length in Hc. lia.
    + rewrite scan_loop_done by lia. rewrite rscan_done by lia. reflexivity.
Qed.

(* ---- record level: the scan finds the last visible savepoint *)
Lemma last_sp_from_done : forall spchk rs pos n fpos, n <= pos -> last_sp_from spchk rs pos n fpos = fpos.
Proof.
  intros spchk rs pos n fpos H. destruct rs; cbn [last_sp_from]; [reflexivity|].
  destruct (Z.ltb_spec pos n); [lia|]. reflexivity.
Qed.

Lemma last_sp_from_none : forall spchk rs pos n fpos,
  (forall q, first_sp rs pos = Some q -> n <= q) -> last_sp_from spchk rs pos n fpos = fpos.
Proof.
  intros spchk rs. induction rs as [|r rs IH]; intros pos n fpos H; cbn [last_sp_from]; [reflexivity|].
  destruct (Z.ltb_spec pos n) as [Hlt|]; [|reflexivity].
  cbn [first_sp] in H. destruct (is_sp r) eqn:Es.
  - specialize (H pos eq_refl). lia.
  - cbn [andb]. apply IH. exact H.
Qed.

Definition head_sep (rs : list rec) : bool := match rs with r :: _ => is_sep r | [] => true end.

Lemma rscan_last_sp : forall rs spchk first pos n fpos rpos,
  forallb rec_range rs = true -> sep_ok rs pos = true -> (first = true -> head_sep rs = true) ->
  fst (rscan spchk first rs pos n fpos rpos) = last_sp_from spchk rs pos n fpos.
Proof.
  induction rs as [|r rs IH]; intros spchk first pos n fpos rpos Hr Hs Hf; [reflexivity|].
  cbn [rscan last_sp_from].
  destruct (Z.ltb_spec pos n) as [Hlt|Hge]; cbn [negb]; [|reflexivity].
  cbn [forallb] in Hr. apply andb_prop in Hr. destruct Hr as [Hr1 Hr2].
  cbn [sep_ok] in Hs. apply andb_prop in Hs. destruct Hs as [Hs1 Hs2].
  assert (Hfalse : forall b, (false = true -> b = true)) by (intros; discriminate).
  destruct r as [crc len|val off len|off len noff|crc off p|os ns|ts|]; cbn [rsstep is_sp andb rec_size] in *.
  - (* SEP *)
    destruct (Z.ltb_spec (n - pos) sizeof_WBSEP).
    { cbn [fst]. symmetry. apply last_sp_from_done. lia. }
    destruct (Z.gtb_spec len (n - pos)).
    { cbn [fst]. symmetry. apply last_sp_from_none. intros q Hq. rewrite Hq in Hs1. apply Z.leb_le in Hs1. lia. }
    apply IH; auto.
  - destruct first; [specialize (Hf eq_refl); discriminate|].
    destruct (Z.ltb_spec (n - pos) sizeof_WBSET).
    { cbn [fst]. symmetry. apply last_sp_from_done. lia. }
    apply IH; auto.
  - destruct first; [specialize (Hf eq_refl); discriminate|].
    destruct (Z.ltb_spec (n - pos) sizeof_WBCOPY).
    { cbn [fst]. symmetry. apply last_sp_from_done. lia. }
    apply IH; auto.
  - destruct first; [specialize (Hf eq_refl); discriminate|].
    destruct (Z.ltb_spec (n - pos) sizeof_WBWRITE).
    { cbn [fst]. symmetry. apply last_sp_from_done. lia. }
    destruct (Z.ltb_spec (n - pos) (Z.of_nat (length p))).
    { cbn [fst]. symmetry. apply last_sp_from_done. facts. lia. }
    apply IH; auto.
  - destruct first; [specialize (Hf eq_refl); discriminate|].
    destruct (Z.ltb_spec (n - pos) sizeof_WBRESIZE).
    { cbn [fst]. symmetry. apply last_sp_from_done. lia. }
    apply IH; auto.
  - (* SAVEPOINT *)
    destruct first; [specialize (Hf eq_refl); discriminate|].
    unfold sp_visible. destruct spchk; cbn [andb].
    + destruct (Z.ltb_spec (n - pos) sizeof_WBSAVEPOINT).
      { destruct (Z.leb_spec (pos + sizeof_WBSAVEPOINT) n); [lia|]. cbn [fst]. symmetry. apply last_sp_from_done. lia. }
      destruct (Z.leb_spec (pos + sizeof_WBSAVEPOINT) n); [|lia]. apply IH; auto.
    + destruct (Z.ltb_spec pos n); [|lia]. apply IH; auto.
  - destruct first; [specialize (Hf eq_refl); discriminate|]. apply IH; auto.
Qed.

Lemma wf_log_parts : forall rs, wf_log rs = true ->
  head_sep rs = true /\ forallb rec_range rs = true /\ sep_ok rs 0 = true.
Proof.
  intros rs H. unfold wf_log in H. apply andb_prop in H. destruct H as [H H3]. apply andb_prop in H. destruct H as [H1 H2].
  repeat split; assumption.
Qed.

(* scan_cut: on the log cut to its first n bytes the scanner's recovery point is the last visible savepoint *)
Theorem scan_cut : forall spchk rs (n : nat),
  wf_log rs = true -> (n <= length (encode rs))%nat ->
  fst (scan_with spchk (firstn n (encode rs))) = last_sp spchk rs (Z.of_nat n).
Proof.
  intros spchk rs n Hwf Hn. destruct (wf_log_parts rs Hwf) as [H1 [H2 H3]].
  unfold scan_with, last_sp. rewrite firstn_length_le by exact Hn.
  change (Z.of_nat n) with (0 + Z.of_nat n) at 1. rewrite scan_loop_enc by (auto; lia).
  rewrite Z.add_0_l. apply rscan_last_sp; auto.
Qed.

(* ---- what "last visible savepoint" means: membership, maximality, visibility *)
Lemma sp_offsets_ge : forall rs pos q, In q (sp_offsets rs pos) -> pos <= q.
Proof.
  induction rs as [|r rs IH]; intros pos q H; cbn [sp_offsets] in H; [contradiction|].
  apply in_app_or in H. destruct H as [H|H].
  - destruct (is_sp r); cbn in H; [destruct H as [H|[]]; lia | contradiction].
  - apply IH in H. pose proof (rec_size_pos r). lia.
Qed.

Lemma last_sp_from_mem : forall spchk rs pos n fpos,
  last_sp_from spchk rs pos n fpos = fpos \/ In (last_sp_from spchk rs pos n fpos) (sp_offsets rs pos).
Proof.
  intros spchk rs. induction rs as [|r rs IH]; intros pos n fpos; cbn [last_sp_from sp_offsets]; [left; reflexivity|].
  destruct (pos <? n); [|left; reflexivity].
  destruct (is_sp r) eqn:Es; cbn [andb].
  - destruct (sp_visible spchk pos n).
    + destruct (IH (pos + rec_size r) n pos) as [H|H]; right; [rewrite H; left; reflexivity | right; exact H].
    + destruct (IH (pos + rec_size r) n fpos) as [H|H]; [left; exact H | right; right; exact H].
  - destruct (IH (pos + rec_size r) n fpos) as [H|H]; [left; exact H | right; exact H].
Qed.

Lemma last_sp_from_ge : forall spchk rs pos n fpos, fpos <= pos -> fpos <= last_sp_from spchk rs pos n fpos.
Proof.
  intros spchk rs pos n fpos H. destruct (last_sp_from_mem spchk rs pos n fpos) as [E|E]; [lia|].
  apply sp_offsets_ge in E. lia.
Qed.

Lemma last_sp_from_max : forall spchk rs pos n fpos q,
  fpos <= pos -> In q (sp_offsets rs pos) -> q < n -> sp_visible spchk q n = true ->
  q <= last_sp_from spchk rs pos n fpos.
Proof.
  intros spchk rs. induction rs as [|r rs IH]; intros pos n fpos q Hf Hin Hq Hv; cbn [sp_offsets] in Hin; [contradiction|].
  cbn [last_sp_from]. pose proof (rec_size_pos r) as Hp.
  apply in_app_or in Hin. destruct Hin as [Hin|Hin].
  - destruct (is_sp r) eqn:Es; cbn in Hin; [|contradiction]. destruct Hin as [Hin|[]]. subst q.
    destruct (Z.ltb_spec pos n); [|lia]. cbn [andb]. rewrite Hv. apply last_sp_from_ge. lia.
  - pose proof (sp_offsets_ge _ _ _ Hin). destruct (Z.ltb_spec pos n); [|lia].
    apply IH; auto. destruct (is_sp r && sp_visible spchk pos n); lia.
Qed.

Lemma last_sp_from_visible : forall spchk rs pos n fpos,
  last_sp_from spchk rs pos n fpos = fpos \/
  (sp_visible spchk (last_sp_from spchk rs pos n fpos) n = true /\ last_sp_from spchk rs pos n fpos < n).
Proof.
  intros spchk rs. induction rs as [|r rs IH]; intros pos n fpos; cbn [last_sp_from]; [left; reflexivity|].
  destruct (Z.ltb_spec pos n); [|left; reflexivity].
  destruct (is_sp r && sp_visible spchk pos n) eqn:E.
  - apply andb_prop in E. destruct E as [_ Ev].
    destruct (IH (pos + rec_size r) n pos) as [H1|H1]; right; [rewrite H1; split; [exact Ev|lia] | exact H1].
  - apply IH.
Qed.

Lemma sp_visible_mono : forall spchk q n1 n2, n1 <= n2 -> sp_visible spchk q n1 = true -> sp_visible spchk q n2 = true.
Proof.
  intros spchk q n1 n2 H. unfold sp_visible. destruct spchk; intros Hv.
  - apply Z.leb_le in Hv. apply Z.leb_le. lia.
  - apply Z.ltb_lt in Hv. apply Z.ltb_lt. lia.
Qed.

Lemma sp_offsets_pos : forall rs q, head_sep rs = true -> In q (sp_offsets rs 0) -> 0 < q.
Proof.
  intros rs q Hh Hin. destruct rs as [|r rs]; [contradiction|]. cbn [head_sep] in Hh. cbn [sp_offsets] in Hin.
  destruct r; try discriminate. cbn [is_sp app] in Hin. apply sp_offsets_ge in Hin. cbn [rec_size] in Hin. facts. lia.
Qed.

(* cut_monotone: a longer surviving prefix never recovers to an earlier savepoint *)
Theorem cut_monotone : forall spchk rs n1 n2, n1 <= n2 -> last_sp spchk rs n1 <= last_sp spchk rs n2.
Proof.
  intros spchk rs n1 n2 H. unfold last_sp.
  destruct (last_sp_from_mem spchk rs 0 n1 0) as [E|E].
  - rewrite E. apply last_sp_from_ge. lia.
  - destruct (last_sp_from_visible spchk rs 0 n1 0) as [E2|[Ev El]].
    + rewrite E2. apply last_sp_from_ge. lia.
    + apply last_sp_from_max; [lia | exact E | lia | eapply sp_visible_mono; eauto].
Qed.

(* an intact savepoint is never passed over *)
Theorem intact_savepoint_kept : forall spchk rs n q,
  In q (sp_offsets rs 0) -> q + sizeof_WBSAVEPOINT <= n -> q <= last_sp spchk rs n.
Proof.
  intros spchk rs n q Hin Hq. unfold last_sp. apply last_sp_from_max; [lia | exact Hin | facts; lia |].
  unfold sp_visible. destruct spchk; [apply Z.leb_le; lia | apply Z.ltb_lt; facts; lia].
Qed.

(* and the recovery point is itself a savepoint whose first byte (resp. all bytes) survives, or 0 *)
Theorem recovery_point_is_savepoint : forall spchk rs n,
  last_sp spchk rs n = 0 \/
  (In (last_sp spchk rs n) (sp_offsets rs 0) /\ sp_visible spchk (last_sp spchk rs n) n = true /\ last_sp spchk rs n < n).
Proof.
  intros spchk rs n. unfold last_sp.
  destruct (last_sp_from_mem spchk rs 0 n 0) as [E|E]; [left; exact E|].
  destruct (last_sp_from_visible spchk rs 0 n 0) as [E2|E2]; [left; exact E2|]. right. split; [exact E | exact E2].
Qed.

Lemma scan_with_enc : forall spchk rs (n : nat),
  forallb rec_range rs = true -> (n <= length (encode rs))%nat ->
  scan_with spchk (firstn n (encode rs)) = rscan spchk true rs 0 (Z.of_nat n) 0 0.
Proof.
  intros spchk rs n H2 Hn. unfold scan_with. rewrite firstn_length_le by exact Hn.
  change (Z.of_nat n) with (0 + Z.of_nat n) at 1. rewrite scan_loop_enc by (auto; lia). rewrite Z.add_0_l. reflexivity.
Qed.

Definition no_reset (rs : list rec) : bool := forallb (fun r => negb (is_reset r)) rs.

Lemma rscan_snd_noreset : forall rs spchk first pos n fpos rpos,
  no_reset rs = true -> snd (rscan spchk first rs pos n fpos rpos) = rpos.
Proof.
  induction rs as [|r rs IH]; intros spchk first pos n fpos rpos H; [reflexivity|].
  cbn [rscan]. destruct (negb (pos <? n)); [reflexivity|].
  unfold no_reset in H. cbn [forallb] in H. apply andb_prop in H. destruct H as [H1 H2].
  destruct r; cbn [rsstep is_reset negb] in *; try discriminate; destruct first;
    repeat match goal with |- context [if ?b then _ else _] => destruct b end; try reflexivity; apply IH; exact H2.
Qed.
