Require Import ZArith List. Require Extraction. Require Import ExtrOcamlBasic.
Require Import IW.Lib.CInt IW.Lib.Vnum IW.UT.Conv IW.KV.Keys IW.Gen.Facts.
Extraction "m.ml" Z.add Z.mul Z.sub Z.div_eucl Z.compare Z.of_nat Z.to_nat Z.opp
  set_vnum64 set_vnum32 read_vnum itoa cstr atoi bin2hex hex2bin
  cmp_keys cmp_keys_prefix kcmp sblk_cmp_key_full afcmp strncmp memcmp stored
  IW_VNUMSIZE IW_VNUMSIZE32 IW_RANGES_OVERLAP IW_ROUNDUP IW_ROUNDOWN.
