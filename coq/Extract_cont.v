Require Import ZArith List. Require Extraction. Require Import ExtrOcamlBasic.
Require Import IW.Gen.Facts IW.UT.Hmap IW.UT.Ulist IW.UT.Sarr IW.UT.Rb IW.UT.Xstr IW.UT.Avl IW.UT.Pool IW.UT.Plist IW.UT.Pforest IW.UT.AvlWalk IW.UT.PoolStr IW.UT.PoolBig.
Require Import IW.UT.Hmap_af.
Extraction "m.ml" Z.add Z.mul Z.sub Z.div_eucl Z.compare Z.of_nat Z.to_nat Z.opp Z.eqb Z.ltb
  hash_u32 hash_u64 hash_str hash_ptr CONT_hmap_u32_ikp CONT_hmap_u64_ikp CONT_hmap_str_ikp
  hnew hput hget_val hremove hrename hclear hdestroy hiter hlru hshape clear_log h_count h_log h_fault
  u_init u_clear u_reset u_get u_clone u_push u_pop u_shift u_insert u_set u_remove u_find_first
  u_remove_first_by u_unshift u_units u_copy u_sort
  sorted_insert sorted_remove sorted_find sorted_find2
  rb_create rb_put rb_back rb_peek rb_clear rb_num_cached rb_iter rb_wrap rb_create_opt
  x_create x_cat x_unshift x_shift x_pop x_insert x_clear x_clone x_wrap x_data x_term x_set_size x_poke x_printf_alloc x_new_printf AUNIT
  xu_new xu_set xu_get xu_detach xu_destroy
  av_insert av_remove av_lookup av_bounds av_inorder av_walk_fwd av_walk_bwd av_walk_post av_size
  p_create p_create_empty p_alloc p_strndup p_cstrarr split_string p_split p_alloc_z p_calloc_z p_strndup_z
  f_empty f_create f_attach f_ref f_destroy f_ud_set f_ud_get f_ud_detach f_alloc f_drain get live
  pl_init pl_at pl_items pl_clone pl_push pl_pop pl_unshift pl_shift pl_insert pl_set pl_remove pl_sort slot_bytes
  hcreate hlruinit hevmax iter_init iter_next iter_run hiter_steps it_bucket it_entry it_fault
  hcreate_f hput_f hput_str_f hget_f hremove_f hrename_f hclear_f hdestroy_f with_m a_m a_hist a_dang a_leak a_lost.
