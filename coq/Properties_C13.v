(* C13 - statements only (placeholder while the proofs are being written). *)
Require Import ZArith List. Require Import IW.JSON.Text.
Import ListNotations. Local Open Scope Z_scope.
Example C13_smoke : skip_bom [239; 187; 191; 49] = [49].
Proof. reflexivity. Qed.
