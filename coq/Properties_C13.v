(* C13 - JSON text is parsed to the value it denotes and printed text parses back.  Statements only.
   Model: JSON/Text.v (parser jbn_from_json, printer jbn_as_json), JSON/Utf8.v (utf8proc).  Reference definitions:
   JSON/TextSpec.v, JSON/TextNumSpec.v.  The VALUES of doubles are outside the model (iwstrtod / iwjson_ftoa are oracle
   parameters `ora` / `fo`): `wf v` excludes JF64, every other kind of node is covered at full strength.  Which bytes
   a number occupies is inside the model (strtod_end, section 10). *)
Require Import ZArith List Lia.
Require Import IW.Lib.CInt IW.Gen.Facts IW.JSON.Val IW.JSON.Utf8 IW.JSON.Text IW.JSON.TextSpec
               IW.JSON.Utf8_proofs IW.JSON.Text_proofs IW.JSON.TextNumSpec IW.JSON.TextNum_proofs
               IW.JSON.TextChan IW.JSON.TextChan_proofs.
Import ListNotations. Local Open Scope Z_scope.

(* (1) every valid string body - raw bytes, the eight short escapes, \uXXXX in either case, surrogate pairs -:
   pass 1 (no buffer) returns the length of pass 2's output, pass 2 stores the UTF-8 encoding of the denoted
   code points, both stop right after the closing quote *)
Theorem C13_unescape_correct : forall items rest, Forall item_ok items ->
  let body := render_all items ++ 34 :: rest in
  let out := denote_all items in
  unescape 34 body 0 = Ok (Z.of_nat (length out), [], rest) /\
  unescape 34 body (Z.of_nat (length out)) = Ok (Z.of_nat (length out), out, rest).
Proof. exact unescape_correct. Qed.
Print Assumptions C13_unescape_correct.

Example C13_unescape_example :
  let items := [SRaw 97; SEsc 114; SU 48 48 101 57; SPair 100 56 51 68 68 69 48 48; SEsc 47; SRaw 195; SRaw 169] in
  Forall item_ok items /\
  render_all items = [97; 92;114; 92;117;48;48;101;57; 92;117;100;56;51;68;92;117;68;69;48;48; 92;47; 195;169] /\
  denote_all items = [97; 13; 195;169; 240;159;152;128; 47; 195;169].
Proof. cbv zeta. split; [|split; vm_compute; reflexivity]. repeat constructor; vm_compute; intuition discriminate. Qed.

(* utf8proc: validity is "Unicode scalar value", the encoder is RFC 3629, the decoder inverts it and accepts nothing else *)
Theorem C13_codepoint_valid : forall cp, - 2 ^ 31 <= cp < 2 ^ 31 -> (codepoint_valid cp = true <-> scalar cp).
Proof. exact codepoint_valid_scalar. Qed.
Print Assumptions C13_codepoint_valid.
Theorem C13_encode_char : forall cp, 0 <= cp < 1114112 -> encode_char cp = utf8_enc cp.
Proof. exact encode_char_spec. Qed.
Print Assumptions C13_encode_char.
Theorem C13_iterate_encode : forall cp rest, scalar cp ->
  iterate (utf8_enc cp ++ rest) = Some (cp, Z.of_nat (length (utf8_enc cp))).
Proof. exact iterate_enc. Qed.
Print Assumptions C13_iterate_encode.
Theorem C13_iterate_sound : forall s cp sz, Forall byte s -> s <> [] -> iterate s = Some (cp, sz) ->
  scalar cp /\ 1 <= sz <= Z.of_nat (length s) /\ utf8_enc cp = firstn (Z.to_nat sz) s.
Proof. exact iterate_inv. Qed.
Print Assumptions C13_iterate_sound.

(* integers exactly: iwitoa (UT/Conv.v) writes the decimal text, strtoll(.., 0) reads it back *)
Theorem C13_write_int : forall n, - 2 ^ 63 <= n < 2 ^ 63 -> write_int n = Ok (dec n).
Proof. exact write_int_dec. Qed.
Print Assumptions C13_write_int.
Theorem C13_strtoll_dec : forall n rest, - 2 ^ 63 <= n < 2 ^ 63 -> fol rest ->
  strtoll0 (dec n ++ rest) = (n, length (dec n), false).
Proof. exact strtoll_dec. Qed.
Print Assumptions C13_strtoll_dec.

(* (2) parse (print v) = v: every tree of null/bool/int64/byte strings/arrays/objects (any bytes in strings and
   keys, duplicate keys, any print flags), nesting within the limit.  Without JBL_PRINT_CODEPOINTS printing cannot
   fail; with it printing fails only on invalid UTF-8 (C13_print_parse covers every successful print).
   _partial: doubles (JF64) are excluded by `wf` - they are oracle inputs of the model. *)
Theorem C13_print_parse_partial : forall ora fo pf v t, wf v -> depth v <= JBL_MAX_NESTING_LEVEL ->
  as_json fo pf v = Ok t -> from_json ora t = Ok (Some v).
Proof. exact print_parse. Qed.
Print Assumptions C13_print_parse_partial.

Theorem C13_print_total : forall fo pf v lvl, wf v -> has pf JBL_PRINT_CODEPOINTS = false ->
  exists t, print_node fo pf lvl v = Ok t.
Proof. exact print_total. Qed.
Print Assumptions C13_print_total.

Example C13_print_parse_example :
  let v := JObj [([107; 0; 1], JArr [JI64 (- 2 ^ 63); JStr [34; 92; 11; 13; 195; 169; 240; 159; 152; 128; 255]; JNull; JBool true]);
                 ([], JObj []); ([107; 0; 1], JArr [])] in
  wf v /\ depth v <= JBL_MAX_NESTING_LEVEL /\
  (forall fo, exists t, as_json fo 0 v = Ok t /\ forall ora, from_json ora t = Ok (Some v)) /\
  (forall fo, as_json fo (Z.lor JBL_PRINT_CODEPOINTS JBL_PRINT_PRETTY_INDENT4) v = Err E_UTF8).
Proof.
  cbv zeta. split; [|split; [vm_compute; discriminate|split]].
  - cbn [wf fold_right]. unfold bytes_ok.
    repeat match goal with
           | |- _ <= _ < _ => lia
           | |- _ /\ _ => split
           | |- Forall _ _ => constructor
           | |- byte_ok _ => unfold byte_ok; lia
           | |- True => exact I
           end.
  - intro fo. eexists. split; [vm_compute; reflexivity|]. intro ora. vm_compute. reflexivity.
  - intro fo. vm_compute. reflexivity.
Qed.

(* (3) every text of the RFC 8259 reference grammar `denotes` (TextSpec.v: any whitespace layout, every escape
   spelling, integers within int64 incl. "-0", duplicate member names, optional BOM) is accepted and yields the denoted
   value, nesting within the limit.  _partial: the grammar has no fraction/exponent numbers (doubles are oracle inputs). *)
Theorem C13_parse_valid_partial : forall ora t v w1 w2 bom, denotes t v -> depth v <= JBL_MAX_NESTING_LEVEL ->
  ws w1 -> ws w2 -> bom = [] \/ bom = [239; 187; 191] ->
  from_json ora (bom ++ w1 ++ t ++ w2) = Ok (Some v).
Proof. exact parse_valid. Qed.
Print Assumptions C13_parse_valid_partial.

Example C13_parse_valid_example :
  denotes [91; 49; 32; 44; 10; 34; 92;117;48;48;69;57; 92;110; 34; 9; 93] (JArr [JI64 1; JStr [195; 169; 10]]) /\
  forall ora, from_json ora ([239; 187; 191] ++ [32] ++ [91; 49; 32; 44; 10; 34; 92;117;48;48;69;57; 92;110; 34; 9; 93] ++ [10])
              = Ok (Some (JArr [JI64 1; JStr [195; 169; 10]])).
Proof.
  assert (Hws : forall w, Forall (fun c => c = 32 \/ c = 9 \/ c = 10 \/ c = 13) w -> ws w) by (intros w Hw; exact Hw).
  assert (H : denotes [91; 49; 32; 44; 10; 34; 92;117;48;48;69;57; 92;110; 34; 9; 93] (JArr [JI64 1; JStr [195; 169; 10]])).
  { change [91; 49; 32; 44; 10; 34; 92;117;48;48;69;57; 92;110; 34; 9; 93]
      with (91 :: ([] ++ dec 1 ++ [32] ++ 44 :: ([10] ++ (34 :: render_all [SU 48 48 69 57; SEsc 110] ++ [34]) ++ [9])) ++ [93]).
    change (JStr [195; 169; 10]) with (JStr (denote_all [SU 48 48 69 57; SEsc 110])).
    apply D_arr. apply E_cons.
    - apply Forall_nil.
    - apply D_int. apply IT_dec. lia.
    - apply Hws. repeat (apply Forall_cons; [lia|]). apply Forall_nil.
    - apply E_one.
      + apply Hws. repeat (apply Forall_cons; [lia|]). apply Forall_nil.
      + apply D_str. apply Forall_cons; [|apply Forall_cons; [|apply Forall_nil]].
        * split; [|exact I]. cbn [item_ok]. unfold is_hex, cp4. vm_compute. intuition discriminate.
        * split; [|exact I]. cbn [item_ok]. auto 10.
      + apply Hws. repeat (apply Forall_cons; [lia|]). apply Forall_nil. }
  split; [exact H|]. intro ora.
  apply C13_parse_valid_partial;
    [exact H | vm_compute; discriminate
     | apply Hws; repeat (apply Forall_cons; [lia|]); apply Forall_nil
     | apply Hws; repeat (apply Forall_cons; [lia|]); apply Forall_nil
     | right; reflexivity].
Qed.

(* what the printer writes (any flags) is a text of that grammar denoting the printed tree: valid JSON *)
Theorem C13_print_in_grammar : forall fo pf v lvl t, wf v -> print_node fo pf lvl v = Ok t -> denotes t v.
Proof. exact print_in_grammar. Qed.
Print Assumptions C13_print_in_grammar.

(* jbl_as_json (printer of the binary form, modelled at the level of the text it writes): on trees without NUL bytes
   it writes what jbn_as_json writes for EVERY flag set (since d42c39c it honours JBL_PRINT_PRETTY_INDENT2 / _INDENT4; the
   hypothesis `indent pf = 1` of earlier rounds is gone), hence the same round trip.
   _partial: doubles excluded.  The binn encoding between jbl_from_node and jbl_as_json is modelled and tied to this
   value-level printer by C14 (C14_print_binn_value, JSON/BinnAcc.v). *)
Theorem C13_jbl_print_parse_partial : forall fo pf ora v t, wf v -> nulfree v ->
  depth v <= JBL_MAX_NESTING_LEVEL -> jbl_as_json fo pf v = Ok t -> from_json ora t = Ok (Some v).
Proof. exact jbl_print_parse. Qed.
Print Assumptions C13_jbl_print_parse_partial.

Example C13_jbl_example :
  indent JBL_PRINT_PRETTY_INDENT2 = 2 /\
  jbl_as_json (fun _ => []) JBL_PRINT_PRETTY (JObj [([97], JArr [JI64 1; JStr [98]])]) =
  Ok [123; 10; 32; 34; 97; 34; 58; 32; 91; 10; 32; 32; 49; 44; 10; 32; 32; 34; 98; 34; 10; 32; 93; 10; 125] /\
  jbl_as_json (fun _ => []) JBL_PRINT_PRETTY_INDENT2 (JArr [JArr [JI64 1]]) =
  Ok [91; 10; 32; 32; 91; 10; 32; 32; 32; 32; 49; 10; 32; 32; 93; 10; 93].
Proof. repeat split; vm_compute; reflexivity. Qed.

(* (4) with JBL_PRINT_CODEPOINTS the text is pure ASCII *)
Theorem C13_print_ascii : forall fo pf v lvl t, wf v -> has pf JBL_PRINT_CODEPOINTS = true ->
  print_node fo pf lvl v = Ok t -> Forall (fun b => 0 <= b < 128) t.
Proof. exact print_ascii. Qed.
Print Assumptions C13_print_ascii.

Example C13_print_ascii_example :
  as_json (fun _ => []) JBL_PRINT_CODEPOINTS (JArr [JStr [195; 169; 240; 159; 152; 128; 127; 1]]) =
  Ok [91; 34; 92;117;48;48;69;57; 92;117;68;56;51;68; 92;117;68;69;48;48; 92;117;48;48;55;70; 92;117;48;48;48;49; 34; 93].
Proof. vm_compute. reflexivity. Qed.

(* T1: what _jbl_write_json_string writes for each single byte (tables regenerated from the current source by
   tools/probes/probe_jtext.c) is what the model writes: 256 bytes without flag, 128 with JBL_PRINT_CODEPOINTS *)
Theorem C13_esc_table : forall b, 0 <= b < 256 -> write_json_string 0 [b] = Ok (nth (Z.to_nat b) jtext_esc_tbl []).
Proof. exact esc_table_agrees. Qed.
Print Assumptions C13_esc_table.
Theorem C13_esc_cp_table : forall b, 0 <= b < 128 ->
  write_json_string JBL_PRINT_CODEPOINTS [b] = Ok (nth (Z.to_nat b) jtext_esc_cp_tbl []).
Proof. exact esc_cp_table_agrees. Qed.
Print Assumptions C13_esc_cp_table.

(* (10) numbers with a fraction or an exponent.  The VALUE of a double stays an oracle input (iwstrtod is not interpreted), but
   which bytes belong to the number is decided by the model's scanner `strtod_end`, the loops of iwstrtod (src/utils/iwconv.c).
   (a) for EVERY input: when the scanner converts something, the byte at the end position is not a digit - no digit
       run is ever cut in the middle;
   (b) every RFC 8259 number (any number of integer, fraction and exponent digits, either sign, leading zeros in the exponent)
       followed by what may follow a value is consumed completely: the end position is the first byte after it;
   (c) hence the parser, on a number with a fraction or an exponent, creates ONE double node - the value iwstrtod
       returns - and continues right after the number (element counts and following tokens are those of the text).
       _partial: unless iwstrtod reports ERANGE (value-dependent: pow() overflow/underflow; then the text is rejected),
       and the value itself is not characterised. *)
Theorem C13_number_scan_stops : forall str, (0 < strtod_end str)%nat -> is_dig (at0 str (strtod_end str)) = false.
Proof. exact strtod_end_stops. Qed.
Print Assumptions C13_number_scan_stops.

Theorem C13_number_scan_maximal : forall t rest, number_tok t -> fol rest -> strtod_end (t ++ rest) = length t.
Proof. exact strtod_end_number. Qed.
Print Assumptions C13_number_scan_maximal.

(* the exact decimal expansion of the double 0.1 (55 fraction digits) in front of ",2]" *)
Example C13_number_scan_example :
  number_tok [48; 46; 49; 48; 48; 48; 48; 48; 48; 48; 48; 48; 48; 48; 48; 48; 48; 48; 48; 53; 53; 53; 49; 49; 49; 53; 49; 50; 51; 49; 50; 53; 55; 56; 50; 55; 48; 50; 49; 49; 56; 49; 53; 56; 51; 52; 48; 52; 53; 52; 49; 48; 49; 53; 54; 50; 53] /\
  fol [44; 50; 93] /\
  strtod_end ([48; 46; 49; 48; 48; 48; 48; 48; 48; 48; 48; 48; 48; 48; 48; 48; 48; 48; 48; 53; 53; 53; 49; 49; 49; 53; 49; 50; 51; 49; 50; 53; 55; 56; 50; 55; 48; 50; 49; 49; 56; 49; 53; 56; 51; 52; 48; 52; 53; 52; 49; 48; 49; 53; 54; 50; 53] ++ [44; 50; 93]) = 57%nat.
Proof.
  split; [|split; [cbn; auto|vm_compute; reflexivity]].
  exists [], [48], (46 :: [49; 48; 48; 48; 48; 48; 48; 48; 48; 48; 48; 48; 48; 48; 48; 48; 48; 53; 53; 53; 49; 49; 49; 53; 49; 50; 51; 49; 50; 53; 55; 56; 50; 55; 48; 50; 49; 49; 56; 49; 53; 56; 51; 52; 48; 52; 53; 52; 49; 48; 49; 53; 54; 50; 53]), [].
  split; [reflexivity|]. split; [left; reflexivity|]. split; [left; reflexivity|]. split; [|left; reflexivity].
  right. eexists. split; [reflexivity|]. split; [discriminate|].
  repeat (apply Forall_cons; [unfold dchar; lia|]). apply Forall_nil.
Qed.

Theorem C13_parse_float_consumes_partial : forall ora t rest w lvl fuel,
  float_tok t -> fol rest -> snd (ora (t ++ rest)) = false ->
  Forall (fun c => is_vws c = true) w -> 0 <= lvl <= JBL_MAX_NESTING_LEVEL -> (1 <= fuel)%nat ->
  parse_value ora fuel lvl (w ++ t ++ rest) = Ok (Some (JF64 (fst (fst (ora (t ++ rest))))), rest).
Proof. exact parse_value_float. Qed.
Print Assumptions C13_parse_float_consumes_partial.

(* [-1.0000000000000000000000000000000000000001e+05,2] : two elements, the second is the integer 2 *)
Example C13_parse_float_example :
  float_tok [45; 49; 46; 48; 48; 48; 48; 48; 48; 48; 48; 48; 48; 48; 48; 48; 48; 48; 48; 48; 48; 48; 48; 48; 48; 48; 48; 48; 48; 48; 48; 48; 48; 48; 48; 48; 48; 48; 48; 48; 48; 48; 49; 101; 43; 48; 53] /\
  forall bits, from_json (fun _ => (bits, 0%nat, false)) ([91] ++ [45; 49; 46; 48; 48; 48; 48; 48; 48; 48; 48; 48; 48; 48; 48; 48; 48; 48; 48; 48; 48; 48; 48; 48; 48; 48; 48; 48; 48; 48; 48; 48; 48; 48; 48; 48; 48; 48; 48; 48; 48; 48; 49; 101; 43; 48; 53] ++ [44; 50; 93]) = Ok (Some (JArr [JF64 bits; JI64 2])).
Proof.
  split; [|intro bits; vm_compute; reflexivity].
  exists [45], [49], (46 :: [48; 48; 48; 48; 48; 48; 48; 48; 48; 48; 48; 48; 48; 48; 48; 48; 48; 48; 48; 48; 48; 48; 48; 48; 48; 48; 48; 48; 48; 48; 48; 48; 48; 48; 48; 48; 48; 48; 48; 49]), [101; 43; 48; 53].
  split; [reflexivity|]. split; [|left; discriminate].
  split; [right; reflexivity|]. split; [right; exists 49, []; split; [reflexivity|split; [lia|apply Forall_nil]]|].
  split.
  - right. eexists. split; [reflexivity|]. split; [discriminate|].
    repeat (apply Forall_cons; [unfold dchar; lia|]). apply Forall_nil.
  - right. exists 101, [43], [48; 53]. split; [reflexivity|]. split; [left; reflexivity|]. split; [right; left; reflexivity|].
    split; [discriminate|]. repeat (apply Forall_cons; [unfold dchar; lia|]). apply Forall_nil.
Qed.

(* (11) print channels (JSON/TextChan.v).  A printer writes nothing itself: it makes calls pt(data, size, ch, count, op)
   of a printer callback - single characters with a count (data == NULL; every punctuation character, every string byte
   that is written raw, the indentation) or a buffer with a size or -1 (escapes, numbers, literals, ": ").
   `as_json_chunks` / `jbl_as_json_chunks` are these calls for jbn_as_json / jbl_as_json; `chan_xstr`, `chan_fstream`,
   `chan_count` fold them into jbl_xstr_json_printer, jbl_fstream_json_printer, jbl_count_json_printer.
   (a) for EVERY document (any bytes 0..255 in strings and keys, int64 integers, doubles through `fo`), every flag set:
       the calls concatenate to the text of `as_json` (the function the round-trip theorems (2), (7), (9) speak about),
       every sink receives exactly that text and the count printer its length - the text does not depend on the channel;
       when the printer fails (E_UTF8 with the code-point flag), it fails in the same way whatever the sink;
   (b) every call the printers make is one all sinks understand alike (`chunk_ok`: counts are not negative, a sized
       buffer holds no NUL before its size - jbl_fstream_json_printer writes buffers with "%.*s", which stops at a NUL);
   (c) T1: one call of each exported callback of the CURRENT tree for every byte 0..255 in six shapes (single character
       x count 1, 3, 0; buffer with size, with -1 and count 2, with size 1 and count 1), regenerated into Gen/Facts.v,
       is what the model sinks do: a changed callback breaks this obligation.
   Assumptions: no I/O or allocation failure in a sink; the count stays below 2^31 (C int). *)
Theorem C13_channels_node : forall fo pf, (forall b, cstr0 (fo b) = fo b) -> forall v t, wfd v -> as_json fo pf v = Ok t ->
  exists cs, as_json_chunks fo pf v = Ok cs /\ chunks_bytes cs = t /\
             chan_xstr cs = t /\ chan_fstream cs = t /\ chan_count cs = Z.of_nat (length t).
Proof. exact node_channels. Qed.
Print Assumptions C13_channels_node.

Theorem C13_channels_node_err : forall fo pf, (forall b, cstr0 (fo b) = fo b) -> forall v e, wfd v ->
  as_json fo pf v = Err e -> as_json_chunks fo pf v = Err e.
Proof. exact node_channels_err. Qed.
Print Assumptions C13_channels_node_err.

Theorem C13_channels_jbl : forall fo pf, (forall b, cstr0 (fo b) = fo b) -> forall v t, wfd v -> jbl_as_json fo pf v = Ok t ->
  exists cs, jbl_as_json_chunks fo pf v = Ok cs /\ chunks_bytes cs = t /\
             chan_xstr cs = t /\ chan_fstream cs = t /\ chan_count cs = Z.of_nat (length t).
Proof. exact jbl_channels. Qed.
Print Assumptions C13_channels_jbl.

Theorem C13_chunks_ok : forall fo pf v cs, wfd v ->
  (as_json_chunks fo pf v = Ok cs \/ jbl_as_json_chunks fo pf v = Ok cs) -> Forall chunk_ok cs.
Proof.
  intros fo pf v cs Hwf [H|H]; [eapply emit_node_ok|eapply emit_jbl_ok]; try exact H; try exact Hwf; lia.
Qed.
Print Assumptions C13_chunks_ok.

(* the sinks alone: whatever sequence of well-formed calls arrives (not only a printer's), the three callbacks agree *)
Theorem C13_sinks_agree : forall cs, Forall chunk_ok cs ->
  chan_xstr cs = chunks_bytes cs /\ chan_fstream cs = chunks_bytes cs /\ chan_count cs = Z.of_nat (length (chunks_bytes cs)).
Proof. intros cs H. split; [apply chan_xstr_bytes|split; [apply chan_fstream_bytes|apply chan_count_len]]; exact H. Qed.
Print Assumptions C13_sinks_agree.

Theorem C13_sink_tables : forall b, 0 <= b < 256 -> sink_tables_ok b = true.
Proof. exact sink_tables. Qed.
Print Assumptions C13_sink_tables.

(* {"k\195\169":["\240\157\140\134\000\255",-5,true]} pretty-printed with two spaces: seven single-character calls carry a byte
   >= 0x80 as a negative char (signed char), and the three sinks hold the same 54 bytes *)
Example C13_channels_example :
  let v := JObj [([107; 195; 169], JArr [JStr [240; 157; 140; 134; 0; 255]; JI64 (-5); JBool true])] in
  wfd v /\
  exists cs, as_json_chunks (fun _ => []) 5 v = Ok cs /\ Forall chunk_ok cs /\
    In (CCh (-61) 1) cs /\ In (CCh (-1) 1) cs /\ In (CBuf [92; 117; 48; 48; 48; 48] 6 0) cs /\ In (CCh 32 4) cs /\
    as_json (fun _ => []) 5 v = Ok (chan_fstream cs) /\ chan_xstr cs = chan_fstream cs /\ chan_count cs = 54.
Proof.
  cbv zeta. split; [cbn; repeat (split || constructor); unfold byte255; lia|].
  eexists. split; [vm_compute; reflexivity|].
  split; [repeat (apply Forall_cons; [vm_compute; intuition (try discriminate; try lia)|]); apply Forall_nil|].
  repeat split; try (vm_compute; reflexivity); cbn [In]; repeat (first [left; reflexivity | right]).
Qed.


(* (12) success means a root: a text without a value (empty, white space only, a lone `]`) is an error, never rc = 0 with a NULL node
   (the library's repair 3d4d0bc; jbl_from_json and the patch front ends dereference the node) *)
Theorem C13_from_json_root : forall ora json, from_json ora json <> Ok None.
Proof. exact from_json_root. Qed.
Print Assumptions C13_from_json_root.

Example C13_from_json_root_example : forall ora, from_json ora [93] = Err E_JSON /\ from_json ora [32; 10] = Err E_JSON /\ from_json ora [] = Err E_JSON.
Proof. intro ora. repeat split; vm_compute; reflexivity. Qed.
