(* C18 - hash map: invariants, abstraction and the statements of the two lemma libraries
   (Hmap_bkt_proofs.v: bucket arrays; Hmap_dll_proofs.v: the doubly linked LRU list in the node heap).
   The statements are Definitions of type Prop so that the libraries and the simulation proof
   (Hmap_proofs.v) agree on them literally. *)
Require Import ZArith List Bool Lia Permutation.
Require Import IW.Gen.Facts IW.UT.Hmap.
Import ListNotations.
Local Open Scope Z_scope.

Section HmapInv.
Variable K : Type.
Variable keq : K -> K -> bool.
Variable hashf : K -> Z.

(* ------------------------------------------------------------------ buckets *)
Definition keys (bs : list (bucket K)) : list K := map (e_key K) (ents K bs).

Definition bwf (mask : Z) (bs : list (bucket K)) : Prop :=
  (exists k, 0 <= k /\ mask = Z.ones k) /\
  length bs = Z.to_nat (mask + 1) /\
  (forall i e, (i < length bs)%nat -> In e (b_ents K (bkt K bs i)) ->
      bidx mask (e_hash K e) = i /\ e_hash K e = hashf (e_key K e)) /\
  NoDup (keys bs).

(* the content of a bucket after _entry_remove took out position ei (move-last rule) *)
Definition bdel (es : list (entry K)) (ei : nat) (e : entry K) : list (entry K) :=
  removelast (if (1 <? length es)%nat
              then (if Nat.eqb ei (length es - 1) then es else set_nth ei (last es e) es)
              else es).

Definition bwf_empty_stmt : Prop := forall k, 0 <= k ->
  bwf (2 ^ k - 1) (repeat (bempty K) (Z.to_nat (2 ^ k))) /\ ents K (repeat (bempty K) (Z.to_nat (2 ^ k))) = [].

Definition find_spec_stmt : Prop := forall mask bs k, bwf mask bs ->
  let bi := bidx mask (hashf k) in
  (bi < length bs)%nat /\
  match find_in K keq k (hashf k) (b_ents K (bkt K bs bi)) with
  | Some ei => exists e, nth_error (b_ents K (bkt K bs bi)) ei = Some e /\ e_key K e = k
  | None => ~ In k (keys bs)
  end.

Definition ents_in_stmt : Prop := forall (bs : list (bucket K)) bi ei e, (bi < length bs)%nat ->
  nth_error (b_ents K (bkt K bs bi)) ei = Some e -> In e (ents K bs).

Definition ents_key_unique_stmt : Prop := forall mask bs e1 e2, bwf mask bs ->
  In e1 (ents K bs) -> In e2 (ents K bs) -> e_key K e1 = e_key K e2 -> e1 = e2.

Definition entry_add_stmt : Prop := forall mask bs k, bwf mask bs ->
  let '(bs', bi, ei, isnew) := entry_add K keq bs mask k (hashf k) in
  bi = bidx mask (hashf k) /\ (bi < length bs)%nat /\ bwf mask bs' /\ length bs' = length bs /\
  if isnew : bool then
    ~ In k (keys bs) /\
    nth_error (b_ents K (bkt K bs' bi)) ei = Some (mkE K k 0 None (hashf k)) /\
    Permutation (ents K bs') (mkE K k 0 None (hashf k) :: ents K bs)
  else
    exists e, nth_error (b_ents K (bkt K bs' bi)) ei = Some e /\ e_key K e = k /\ ents K bs' = ents K bs.

Definition upd_entry_stmt : Prop := forall mask bs bi ei e (f : entry K -> entry K),
  bwf mask bs -> (bi < length bs)%nat ->
  nth_error (b_ents K (bkt K bs bi)) ei = Some e ->
  e_key K (f e) = e_key K e -> e_hash K (f e) = e_hash K e ->
  let bs' := upd_entry K bs bi ei f in
  bwf mask bs' /\ length bs' = length bs /\
  nth_error (b_ents K (bkt K bs' bi)) ei = Some (f e) /\
  exists rest, Permutation (ents K bs) (e :: rest) /\ Permutation (ents K bs') (f e :: rest).

Definition bdel_stmt : Prop := forall mask bs bi ei e tot, bwf mask bs -> (bi < length bs)%nat ->
  nth_error (b_ents K (bkt K bs bi)) ei = Some e ->
  let bs' := set_nth bi (mkB K (bdel (b_ents K (bkt K bs bi)) ei e) tot) bs in
  bwf mask bs' /\ length bs' = length bs /\ Permutation (ents K bs) (e :: ents K bs').

Definition set_total_stmt : Prop := forall mask bs bi tot, bwf mask bs -> (bi < length bs)%nat ->
  let bs' := set_nth bi (mkB K (b_ents K (bkt K bs bi)) tot) bs in
  bwf mask bs' /\ ents K bs' = ents K bs /\ length bs' = length bs.

Definition rehash_stmt : Prop := forall mask bs k', bwf mask bs -> 0 <= k' ->
  let num := 2 ^ k' in
  let bs' := fold_left (rehash_step K keq (num - 1)) (ents K bs) (repeat (bempty K) (Z.to_nat num)) in
  bwf (num - 1) bs' /\ Permutation (ents K bs') (ents K bs).

(* ------------------------------------------------------------------ the LRU list in the heap *)
(* a run of nodes l, the first one having prev = [prev], the last one having next = [nxt] *)
Fixpoint seg (h : heap K) (prev : option nat) (l : list nat) (nxt : option nat) : Prop :=
  match l with
  | [] => True
  | n :: t =>
    exists x, hget K h n = Some x /\ n_prev K x = prev /\
              n_next K x = (match t with [] => nxt | m :: _ => Some m end) /\
              seg h (Some n) t nxt
  end.

Definition lastopt (l : list nat) : option nat := match l with [] => None | _ => Some (last l O) end.
Definition nkey (h : heap K) (n : nat) : option K := option_map (n_key K) (hget K h n).

(* first/last/links consistent, and the heap holds exactly the nodes of the list *)
Definition dll (m : hmap K) (L : list nat) : Prop :=
  h_first K m = hd_error L /\ h_last K m = lastopt L /\ seg (h_heap K m) None L None /\ NoDup L /\
  (forall n, In n L <-> hget K (h_heap K m) n <> None).

(* everything but heap / first / last is the same *)
Definition frame (m m' : hmap K) : Prop :=
  h_count K m' = h_count K m /\ h_mask K m' = h_mask K m /\ h_bkts K m' = h_bkts K m /\
  h_fresh K m' = h_fresh K m /\ h_max K m' = h_max K m /\ h_ikp K m' = h_ikp K m /\
  h_fault K m' = h_fault K m /\ h_log K m' = h_log K m.

Definition lru_remove_stmt : Prop := forall m n l1 l2, dll m (l1 ++ n :: l2) ->
  let m' := lru_remove K m n in
  dll m' (l1 ++ l2) /\ frame m m' /\
  (forall j, j <> n -> nkey (h_heap K m') j = nkey (h_heap K m) j).

Definition lru_touch_stmt : Prop := forall m bi ei e n l1 l2,
  nth_error (b_ents K (bkt K (h_bkts K m) bi)) ei = Some e -> e_lru K e = Some n ->
  dll m (l1 ++ n :: l2) ->
  let m' := lru_update K m bi ei in
  dll m' (l1 ++ l2 ++ [n]) /\ frame m m' /\ nkey (h_heap K m') n = Some (e_key K e) /\
  (forall j, j <> n -> nkey (h_heap K m') j = nkey (h_heap K m) j).

Definition lru_fresh_stmt : Prop := forall m bi ei e L,
  nth_error (b_ents K (bkt K (h_bkts K m) bi)) ei = Some e -> e_lru K e = None ->
  dll m L -> (forall j, In j L -> (j < h_fresh K m)%nat) ->
  let m' := lru_update K m bi ei in
  let n := h_fresh K m in
  dll m' (L ++ [n]) /\ h_fresh K m' = S n /\
  h_bkts K m' = upd_entry K (h_bkts K m) bi ei (fun x => mkE K (e_key K x) (e_val K x) (Some n) (e_hash K x)) /\
  h_count K m' = h_count K m /\ h_mask K m' = h_mask K m /\ h_max K m' = h_max K m /\
  h_ikp K m' = h_ikp K m /\ h_fault K m' = h_fault K m /\ h_log K m' = h_log K m /\
  nkey (h_heap K m') n = Some (e_key K e) /\
  (forall j, j <> n -> nkey (h_heap K m') j = nkey (h_heap K m) j).

Definition free_chain_stmt : Prop := forall m L fuel, dll m L -> (length L < fuel)%nat ->
  let m' := free_chain K fuel m (h_first K m) in
  frame m m' /\ (forall n, hget K (h_heap K m') n = None) /\
  h_first K m' = h_first K m /\ h_last K m' = h_last K m.

Definition dll_length_stmt : Prop := forall m L, dll m L -> (length L <= length (h_heap K m))%nat.

Definition lru_walk_stmt : Prop := forall m L fuel, dll m L -> (length L < fuel)%nat ->
  exists ks, lru_walk K fuel (h_heap K m) None (h_first K m) = (ks, true, lastopt L) /\
             Forall2 (fun n k => nkey (h_heap K m) n = Some k) L ks.

End HmapInv.
